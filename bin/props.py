"""Per-property configuration for bin/check."""
import hashlib, os

SEARCH_SEEDS = 4
HOOK_COMMITS = ['f890e23', 'e4a796c', '33dcc81', '457ac67', '08a5caf', '0b3940c', '1586385', 'ca7e702']
TIMEOUT = {'quick': 1500, 'thorough': 7200}

PRIMES = [4294967291, 4294967279, 4294967231, 4294967197, 4294967189, 4294967161, 4294967143, 4294967111]


def c14_post(outdir, r):
    """Third, independent reference (named by the property): Python hashlib.sha3_256 + integer
    arithmetic.  Checks every SHA3 digest the harness fed to the model, and recomputes every
    `items` digest from the published definition."""
    fails, n_sha, n_def = [], 0, 0
    for l in open(os.path.join(outdir, 'aux.txt')):
        t = l.split()
        if len(t) == 3 and t[0] == 'sha3':
            item = b'' if t[1] == '-' else bytes.fromhex(t[1])
            n_sha += 1
            if hashlib.sha3_256(item).hexdigest() != t[2]:
                fails.append((0, 'sha3-differs-from-hashlib', t[1]))
    for i, c in enumerate(r['cases']):
        t = c.split()
        if len(t) >= 2 and t[0] == 'setsum' and t[1] == 'items':
            cols = [0] * 8
            for h in t[2:]:
                b = bytes.fromhex(h)
                for k in range(8):
                    cols[k] = (cols[k] + int.from_bytes(b[4 * k:4 * k + 4], 'little')) % PRIMES[k]
            d = b''.join(x.to_bytes(4, 'little') for x in cols).hex()
            n_def += 1
            if d != r['impl'][i]:
                fails.append((i, 'differs-from-python-reference', d))
    return {'fails': fails, 'coverage': {'python_reference': {'sha3_digests_checked': n_sha, 'multiset_digests_recomputed': n_def}}}


HASH = 'SHA3-256 is a parameter of the model (items enter as their eight LE words); the harness checks the sha3 crate against Python hashlib on every item'

FS = 'file system as used by the store: POSIX semantics of write/fsync/link/rename/unlink; files under /var/tmp'
STEP = 'the flush and compaction loops are single-stepped through the cfg(rescrv_blue_verif) hooks (wait replaced by return-to-caller; loop bodies are the real ones)'

C15_PARTIAL = [
    'fast path = slow path of v64::unpack is not a theorem: the model has one varint decoder (decVarintAux, the additive form of unpack_size); the unrolled and the byte-at-a-time decoder are both compared with it on every generated buffer, and with each other by the oracle',
    'pack_sz = length is a theorem for varints only (varintSz_eq); for messages the model computes the size as the length of its own packing and the harness compares the real pack_sz, the real byte count and the model byte count on every packed value',
    'SError as the error type of Result (its S-expression text format belongs to the handled crate) is not modelled: the family uses a derived message as E',
    'unknown_fields_skipped is stated for insertion between complete fields of a struct body whose other fields are well-formed packings; insertion into arbitrary (malformed) buffers is covered by correspondence only',
]

LOG_CRC = 'CRC-32C is a parameter of the log theorems (any 32-bit checksum); the driver instantiates it with a Lean table-driven CRC-32C (check value 0xE3069283 proved by kernel evaluation) and every frame checksum the real crc32c crate wrote is compared byte-for-byte'

def c18_post(outdir, r):
    """Independent re-check of the recorded queue runs (no model, no harness code): from each
    `wcq` request alone, the batches must partition 0..m-1 into contiguous runs in order, every
    member is delivered exactly once by its batch's leader before it leaves, and the value a call
    returned (implementation line) is the value delivered to it."""
    fails, n_runs, n_events = [], 0, 0
    for i, c in enumerate(r['cases']):
        t = c.split()
        if len(t) < 2 or t[0] != 'wcq' or not t[1].isdigit():
            continue
        m = int(t[1]); n_runs += 1
        nxt, delivered, left, cur, linked = 0, {}, set(), None, 0
        bad = None
        for ev in t[2:]:
            n_events += 1
            if ev == 'L':
                linked += 1
            elif ev[0] == 'B':
                a, k = map(int, ev[1:].split(','))
                if cur is not None or a != nxt or k < 1 or a + k > linked:
                    bad = 'batch-not-next-contiguous-run ' + ev; break
                if any(x not in left for x in range(a)):
                    bad = 'lead-while-earlier-caller-linked ' + ev; break
                cur = [a, k, 0]; nxt = a + k
            elif ev[0] == 'D':
                a, v = map(int, ev[1:].split(','))
                if cur is None or cur[0] != a or cur[2] >= cur[1]:
                    bad = 'deliver-outside-batch ' + ev; break
                delivered[a + cur[2]] = v; cur[2] += 1
            elif ev[0] == 'O':
                a = int(ev[1:])
                if a not in delivered or a in left:
                    bad = 'left-without-output ' + ev; break
                left.add(a)
            elif ev[0] == 'F':
                a = int(ev[1:])
                if cur is None or cur[0] != a or cur[2] != cur[1] or a in left:
                    bad = 'finish-before-all-delivered ' + ev; break
                left.add(a); cur = None
            else:
                bad = 'unknown-event ' + ev; break
        if bad is None and (nxt != m or len(left) != m or cur is not None):
            bad = 'run-incomplete'
        if bad is None:
            mo = [x for x in r['impl'][i].split() if x.startswith('rets=')]
            rets = [int(x) for x in mo[0][5:].split(',')] if mo and mo[0] != 'rets=-' else []
            if rets != [delivered.get(j) for j in range(m)]:
                bad = 'returned-value-is-not-the-delivered-one'
        if bad:
            fails.append((i, 'wcq-python-recheck', bad))
    return {'fails': fails, 'coverage': {'python_recheck': {'queue_runs_rechecked': n_runs, 'queue_events': n_events}}}




PROPS = {
    'C01': {
        'trusted': [STEP, 'dumped store states are read back through Sst::cursor / MemTable::cursor of the implementation'],
        'assumptions': [STEP, 'externally ingested SSTs with timestamps interleaved with existing data are outside the property (DESIGN C01)',
                        'a batch naming one key twice aborts the store (D-16) and is generated in its own stream only'],
        'partial': ['selector: the three ways the selector builds a compaction are proved closed from what their loops establish (selector_slices_closed from Selection.Ok, trivial_move_closed, expansion_closed from Expansion.Ok — the latter two for the code as repaired, with the as-was counterexamples trivial_move_unrepaired_open / expansion_unrepaired_open); that the Rust loops establish Selection.Ok / Expansion.Ok is not proved: closedness of every chosen compaction and the invariants I1/I2 are instead *checked on every reached state* by the model driver (decidable checks proved sound: closed_check_sound, read_returns_latest)', 'recover (level reassignment on reopen) does not preserve I1/I2: known finding D-9'],
        'level_text': 'Theorem read_returns_latest: on every store state passing the decidable check invB (I1: levels sorted; I2: newer-above) KeyValueStore::load returns exactly the visible version of the union of all components; step theorems: ingest, every closed compaction with any outputs/cut points/GC drops, trivial moves preserve I2 and (without drops) every read at every timestamp. The model kvsLoad/invB/closedB is run on every state the real store reaches in seeded single-stepped histories and compared with the real reads; the oracle compares reads with a sequential map.',
        'level_note': 'Trusted: Lean kernel; axioms propext, Classical.choice, Quot.sound; single-step hooks; state dumps via the implementation\'s own cursors. Invariants of reached states and closedness of chosen compactions are run-time checked, not proved for the selector. Known finding D-9 (recover).',
    },
    'C02': {
        'trusted': [STEP, FS, 'strace 6.1 (-f -xx -y) reports every file-system-mutating system call of the traced store process with its path and data; the trace parser and file-system simulator in harness/src/fstrace.rs'],
        'assumptions': ['directory operations (create, link, rename, unlink, mkdir, rmdir) are durable at once and in program order in both persistence models: the code never fsyncs a directory', 'system calls are atomic (torn appends are C12/C13)',
                        'crash states are simulated from the trace of one complete run, not provoked', 'faults are injected with strace -e inject=<call>:error=<E>:when=K (one fault per run: write=ENOSPC; fdatasync, fsync, linkat, rename, unlink, unlinkat, mkdir = EIO), a sample of the (call, K) pairs per history in the quick tier'],
        'partial': ['fault_surfaces (a single injected EIO/ENOSPC is surfaced, never acknowledged, and leaves a store that reopens with every acknowledged write) is an oracle on the real code only: the Lean model has no fault transitions', 'crash_recover is batch-granular and excludes GC drops, a flush racing a compaction, and a second crash during recovery; the run explores crash points inside reopen blocks and verifier passes with the oracle only',
                    'trace-vs-model comparison covers put/flush/reopen/merge-compaction blocks of single-entry histories; orphan temporaries of recover_one on an empty log are canonicalised away (justified by frame_ops_invisible)'],
        'level_text': 'Theorem crash_recover: for every history of puts, flushes, clean reopens and compactions, every crash point in its system-call sequence and both persistence models, reopening succeeds and yields exactly the batches 0..k-1 with acknowledged <= k <= appended. The operation list the theorem quantifies over is compared with the strace-derived operation list of the real store for the same history; every prefix of the real trace is turned into a crash image under both models, reopened by the real code in a fresh process and read back against the acknowledged / in-flight operations.',
        'level_note': 'Trusted: Lean kernel; axioms propext, Classical.choice, Quot.sound; strace and the trace parser/simulator; ordered durable directory operations; atomic system calls. Fault injection is observed on the real code, not modelled.',
        'technique': 'Lean 4 crash-recovery theorem over a file-system protocol model + strace-derived op-list correspondence + exhaustive crash-point enumeration of traced histories (both persistence models) with reopen by the real code',
    },
    'C03': {
        'trusted': [STEP, 'dumped store states are read back through Sst::cursor / MemTable::cursor of the implementation'],
        'assumptions': [STEP, 'children of the merge are tables with pairwise distinct (key, timestamp) (Family): the duplicate window of a flush (immutable memtable and its file both visible) is covered by the check only',
                        'reopen on a state with key- and timestamp-overlapping files is known finding D-9 (C01)'],
        'partial': ['scan_spec takes "children behave as sorted tables" as hypotheses (delivered by C10/C11 theorems for files; by the checked invariants for levels); merging with duplicate (key, ts) across children is not a theorem'],
        'level_text': 'Theorem scan_spec: Bounds(Pruning(Merging[children])) over children behaving as sorted tables shows, under every finite program of seek_to_first/seek_to_last/seek/next/prev, the reference cursor over the versions that are newest <= t for their key, not tombstones, and in range; scan_depends_only_on_versions: unchanged by flush, moves and non-GC compaction. The right-hand side is computed by the model driver from every dumped state of seeded store histories and compared with KeyValueStore::range_scan for seeded bounds and programs; the oracle compares with the sequential map and with point reads.',
        'level_note': 'Trusted: Lean kernel; axioms propext, Classical.choice, Quot.sound; single-step hooks; dumps via the implementation\'s cursors. The children-are-tables hypotheses are discharged by other theorems/checks, not here. D-1 repaired; D-9 known finding shared with C01.',
    },
    'C04': {
        'trusted': [STEP, 'CRC-32C of the crc32c crate when the harness writes tampered fragment copies', 'a file\'s setsum = setsum of its stored entries is checked per file by the harness (sst::Setsum over a full cursor walk), not a theorem here'],
        'assumptions': [STEP, 'hash assumption for the rejection half: a changed entry changes the file setsum (h(e) != 0, h(e) != h(e\')); entry framing is not injective (DESIGN C14 note)',
                        'reopen on a state with key- and timestamp-overlapping files is known finding D-9 (C01)'],
        'partial': ['tamper_detected is stated per altered digest (output, discard) and per altered file setsum (tamper_file_rejected); single-entry tampers of SST contents are covered for GC edits by the real verify_gc only through the LsmVerifier passes, not by a separate stream'],
        'level_text': 'Theorems over any commutative group, instantiated with the canonical setsum values (setsumGrp, proved a group): every store transaction balances (tx_balances), the verifier\'s chain/balance/discard pass accepts every chain of store-written transactions and the last output is the sum over the live files (verifier_accepts), one altered digest or one altered file setsum is rejected (tamper_*). The driver runs Blue.Books.verify over setsumGrp on the records of every fragment the real store writes (and on tampered copies) and compares with the real ManifestVerifier; the oracle checks manifest O = sum of listed SST setsums = setsums recomputed from stored entries, and that LsmVerifier passes on the quiescent store return ok.',
        'level_note': 'Trusted: Lean kernel; axioms propext, Classical.choice, Quot.sound; single-step hooks; CRC-32C crate for tampered copies; setsum-of-contents per file checked not proved; collision resistance assumed for the rejection half.',
    },
    'C08': {
        'trusted': [STEP, FS, 'directory listings are read with std::fs::read_dir between operations'],
        'assumptions': [STEP, 'no reader snapshot is held across operations in these histories (lazy cursors do not keep their VersionRef: D-5, see C07)',
                        'crash points inside a verifier pass are covered by C02\'s crash machinery, not here',
                        'reopen on a state with key- and timestamp-overlapping files is known finding D-9 (C01)'],
        'partial': ['verifier_unlinks_only_logged_trash and verifier_crash_safe are checked on the real directory per run (what each pass removed; reopen and full read-back after every pass), not proved: there is no Lean model of LsmVerifier\'s own manifest yet'],
        'level_text': 'Theorems: the reference-counting invariant of install_version/explicit_ref/explicit_unref/VersionRef is preserved by every event and implies that every file of every held version (the current one included) is in sst/ (live_files_stay); StoreCrash.crash_recover gives the crash half (every manifest-named SST present and whole at every crash point, both persistence models). The model step function is replayed against the real sst/ and trash/ listings after every version install of seeded store histories; the oracle checks what every verifier pass removed and reopens + reads everything back after each pass.',
        'level_note': 'Trusted: Lean kernel; axioms propext, Classical.choice, Quot.sound; single-step hooks; POSIX directory semantics. Verifier behaviour is observed, not modelled.',
    },
    'C14': {
        'post': c14_post,
        'trusted': [HASH],
        'assumptions': [HASH, 'non-ASCII hex strings are outside the property (byte-indexed slicing, D-17)'],
        'partial': [],
        'level_text': 'All C14 laws (order independence, union = sum, remove/sub undo insert/add, digest and hex round-trips, equality with the published column-wise definition, closure of canonical values under the whole API incl. every from_digest input) are Lean theorems about a model that keeps the u32/u64 conversions of the code; the model is tied to the code by byte-exact digest comparison on seeded multisets/programs/hex strings and the primes are regenerated from the source each run.',
        'level_note': 'Trusted: Lean kernel; axioms propext, Classical.choice, Quot.sound; SHA3-256 as a parameter (cross-checked three ways: sha3 crate, Python hashlib); correspondence is agreement on generated cases only. Non-ASCII hex strings excluded (outside the property).',
    },
    'C11': {
        'trusted': ['child cursors in the model are reference cursors (list + position); SST and lazy children are covered by the substitution theorems (*_over) plus the correspondence runs over real SstCursor/LazyCursor children'],
        'assumptions': ['merging: children pairwise distinct in (key, timestamp) (hypothesis Family of merging_refines); with duplicates the property is only checked (stream mergedup: model = implementation exactly, oracle = some merge of the children)',
                        'concat: children in key order (seek predicates switch once along the concatenation); the vector of children is non-empty (the constructor asserts it)',
                        'tables are sorted by (key asc, timestamp desc) without repeated (key, timestamp) inside one table',
                        'D-2, D-18, D-19 repaired (fixes/d2-concat-next.diff, d18-concat-seek.diff, d19-bounds-prev.diff); on unrepaired code the harness asks for the as-is models and the oracle reports the three classes'],
        'partial': [],
        'level_text': 'For each of the five combinators a Lean theorem states that, for every finite program of seek_to_first/seek_to_last/seek/next/prev (all reversals at all positions), the model of the combinator shows after every call what one reference cursor over the specified list shows (sorted union / concatenation / window = entries in the interval / per key the newest version <= t unless a tombstone / the opened table), plus substitution theorems that lift this to any children that behave like tables. The models mirror the Rust code operation by operation (incl. the implicit binary heap and the direction switch) and are tied to it by running the real combinators over real ReferenceCursor/SstCursor/LazyCursor children on seeded table families and programs and comparing key_value() after every call with the model (exact) and with a vector cursor written from the specification (oracle).',
        'level_note': 'Trusted: Lean kernel; axioms propext, Classical.choice, Quot.sound; hand-written models + agreement on generated cases only. merging_refines needs pairwise distinct (key,ts) across children; duplicates are explored by the check but not covered by a theorem. The theorems for concat next/seek and bounds prev are about the repaired code (D-2, D-18, D-19); the unrepaired operations are kept as models with machine-checked counterexamples.',
    },
    'C16': {
        'trusted': ['UTF-8 validity enters the model as Blue.Utf8.valid (Unicode Table 3-7); its agreement with String::from_utf8 is checked by correspondence on the generated byte strings only'],
        'assumptions': [
            'tuples compared have the same field numbers, element types and directions (the property\'s quantifier); no order is claimed across different field numbers (the tag is a little-endian varint)',
            'strings of the field-numbered format are Rust Strings, so a raw 0xff byte cannot occur in them (0xff-bearing bytes are exercised through U+0080..U+10FFFF there and through bytes elements of the compact format)',
            'derive(TypedTupleKey) with a #[reverse] () field round-trips only with fixes/tuple_key_derive-reverse-unit.diff applied (class derive-reverse-unit otherwise)',
        ],
        'partial': ['string_desc_partial: descending strings of tuple_key sort in reverse only for pairs outside ContTie (forward encodings first differ in a data bit); the rest is D-20 (string_desc_counterexample, string_desc_tie_ascending), a format defect recorded in KNOWN_FINDINGS'],
        'level_text': 'Order embedding + self-delimitation (Strong) is a Lean theorem for every element type and direction of the field-numbered format (u32/u64/i32/i64 both directions, strings ascending) and of the compact format (u64, i64, byte strings), lifted to tagged fields and to whole tuples (tuple_order, compact_tuple_order) with both halves of prefix contiguity; the typed parsers of both formats return the tuple that was written (tuple_roundtrip, compact_roundtrip). Descending strings are false as stated (D-20): the failing pairs are characterised exactly by a decidable predicate ContTie (string_desc_tie_ascending / string_desc_partial / string_pairs_dichotomy). The models are tied to both crates by byte-exact comparison of encodings, of typed-parser results (values and error kinds) on intact and hostile buffers, and of the schema-free walk; discriminants, signed offsets, field-number limits and compact tags are regenerated from the source each run.',
        'level_note': 'Trusted: Lean kernel; axioms propext, Classical.choice, Quot.sound; Blue.Utf8.valid as the model of String::from_utf8; correspondence is agreement on generated cases only (decoders never panic: observed, not proved — the model decoders are total functions and a panic is an oracle failure). string_desc_partial is weaker than the property by exactly the D-20 class.',
    },
    'C05': {
        'tree_half': 'every multi-input compaction chosen by the real selector in single-stepped store histories: merges conserve the tree\'s multiset of versions and equal the model\'s merged list cut at the observed points; last-level GCs retain exactly what the Lean collector model and the definitional reading of versions=N retain',
        'trusted': ['nom 7.1.3 combinator semantics (tag, multispace0, digit1, opt, recognize, map_res, cut, context, alt, separated_list0, terminated, all_consuming with VerboseError) as transcribed in Blue/Model/GcParse.lean, tied by the printed error-chain correspondence on curated, generated and mutated policy texts'],
        'assumptions': [
            'cursor-level half: the inputs of one compaction are sorted tables whose (key, timestamp) pairs are unique across the inputs (sequence numbers, C01/C06); the conservation theorems take a strict total order on entries',
            'the tombstone handling of the collector (a tombstone kept only with the value below it, trailing tombstones dropped) is sound only when the output level is the last level (lsmtk: Compaction::top_level); that GC runs only there is the tree-level half of C05',
            'policy numbers are non-zero (NonZeroU64 in the code; hypothesis Policy.WF of gc_runs_every_policy); the u64 counter of VersionsDeterminer does not overflow (needs 2^63 versions of one key)',
        ],
        'partial': [],
        'level_text': 'GarbageCollector::next over the Versions/Expires/Any/All determiner tree (now a parameter), the nom policy parser incl. its printed error chain, and the compaction loop over the merging-cursor model cut into output files are executable Lean models.  Theorems (Blue.Props.C05): for EVERY policy, now and input the collector output is a sub-list of its input; the determiner calls depend on the input alone and any(..)/all(..) decide pointwise as union/intersection of their members; on sorted input the collector works key by key with a fresh determiner (carried state and the initial vec![] key are harmless); per key the retained set is a prefix: either the key keeps its newest value under the oldest tombstone above it, or the whole key goes; the newest value is kept by every policy that selects newest versions (versions>=1; ttl at now<=micros, always so in lsmtk where now=0 is regenerated from source; any with such a member; all of such members); keys with only tombstones are dropped; plus the versions=N theorems gc_runs/newest_value_kept/tombstone_stays/gcGroup_exhausted.  Non-GC compaction: the compaction loop over the merging-cursor model reads exactly the merged list M (merged_is_M, from merging_refines), cutting M at ANY cut vector and concatenating is a permutation of the union of the inputs (pipeline_conserves, compaction_conserves, children_perm_merged, cut_flatten), hence reads at every timestamp are unchanged (compaction_reads_unchanged).  Correspondence: parse results and error chains, retained (key,ts) lists, and output files byte-compared on seeded cases through ReferenceCursor, MergingCursor<ReferenceCursor> and real SSTs -> MergingCursor<SstCursor> -> lsmtk\'s GC loop -> SstMultiBuilder.  Oracle (independent of the model): the definitional reading of the policy language (versions = values + oldest tombstone of each run; N newest / fresher than threshold / union / intersection; then tombstones that shadow nothing retained are dropped), a hand-written grammar for the parser, sub-list, current value of every key unchanged whenever the policy selects newest versions, discard setsum = sum of framings of dropped entries, inputs = outputs + discard; for splits: multiset of (key,ts,value|tombstone) conserved, outputs sorted, ranges ordered, per-file setsum = content.',
        'level_note': 'Trusted: Lean kernel; axioms propext, Classical.choice, Quot.sound; the nom semantics transcription; correspondence is agreement on generated cases only.  Observations (not defects under the property statement): O-3 lsmtk passes now=0 so ttl policies never expire; any()/any(,)/all() parse, and any() discards every entry including current values; trailing input after a policy yields a ParseError whose text is empty; "versions = N" keeps at most N versions and fewer when a tombstone+value pair does not fit (the dropped tombstone shadows nothing at the last level).',
    },
    'C15': {
        'trusted': ['UTF-8 validity (std::str::from_utf8) is modelled by a hand-written validator (Unicode table 3-7), cross-checked against std on generated strings',
                    'f32/f64 are carried as bit patterns (to_bits / from_bits are not modelled)'],
        'assumptions': ['64-bit target (usize = u64)', 'every nested frame and byte string is shorter than 2^64 bytes',
                        'field / variant numbers of a message type are valid and pairwise distinct (the derive macro rejects invalid numbers at compile time; duplicates are unreachable match arms)',
                        'the model mirrors the tree with the repairs of D-21 (message<M>::unpack returns wrong-length instead of asserting), D-C15-float (float declares wire type 5) and D-C15-named (a named enum variant skips unknown fields); each is tied to the source by a ConstsTie theorem that fails on the unrepaired tree'],
        'partial': C15_PARTIAL,
        'level_text': 'Round trip for every u64 varint (with size), zig-zag, fixed-width, every field type on every value of its Rust type, tags with their three rejection classes, and message_roundtrip for the whole schema language (structs and enums over all 18 field types, plain / Option / Vec fields, nested messages, unit / tuple / named variants, Result) are Lean theorems about an executable interpreter of what #[derive(Message)] generates; unknown fields inserted between the fields of a struct are proved not to change the result, non-canonically encoded varint fields are proved to be rejected, decoding is total by construction. The interpreter is tied to the real buffertk / prototk / prototk_derive code by byte-exact comparison of packed bytes, pack_sz and decode results (value or error class) on a family of 17 derived types, on structure-aware mutations of valid encodings, on every prefix of valid encodings and on all byte strings up to length 2 (3 in the thorough tier); an independent protobuf encoder in the harness, a round-trip oracle, an unknown-field oracle and a no-panic oracle evaluate the property directly on the implementation.',
        'level_note': 'Trusted: Lean kernel; axioms propext, Classical.choice, Quot.sound; hand-written model + correspondence on generated cases only; UTF-8 validator and float bit patterns as stated. Wire-type numbers, field-number limits, every field type\'s wire type, the ten-byte varint limit and the Result tags are regenerated from the Rust source each run. Not theorems: fast = slow varint path, message pack_sz (see partial).',
    },
    'C13': {
        'trusted': ['CRC-32C re-implemented in Lean (Blue/Model/Crc32c.lean, check value proved); agreement with the crc32c crate is observed on every manifest line of every run, not proved',
                    'two crash streams: images rebuilt from the op order of _apply/rollover as the model has it (correspondence with ManiCrash; that order is compared with the real system calls on a sample each run), and images rebuilt from the REAL strace of each history (every prefix of the traced calls, both persistence models; the input of the oracle) — the account strace gives of the calls and the file-system simulator of the harness (fstrace.rs) are trusted',
                    'file-system model: a completed link/unlink/rename persists; file data persists at fdatasync (model b) or at write (model a)'],
        'assumptions': ['crash granularity = whole system calls (one edit = one write); a cut at an arbitrary byte is covered by torn_manifest under its NoCollision hypothesis (no proper prefix of a written line carries that line\'s CRC-32C) and by reopening the real code on truncated files',
                        'strings are what Edit accepts after the D-12/D-24 repair: non-empty ASCII without newline, not ending in CR; info keys ASCII other than newline, + and -',
                        'single process per directory (the lock file is taken, not modelled)'],
        'partial': [],
        'level_text': 'C13 is proved on an executable model and tied to mani by byte-exact correspondence: replay_roundtrip (every manifest the repaired Edit API can write reads back as written, for every checksum; api_enforces_hypothesis shows the hypothesis is exactly what Edit::add/rm/info and to_edit guarantee), torn_manifest (any byte cut reads as a corruption error or a prefix of whole edits), crash_recover/mani_crash_recover (every history of edits and rollovers, every crash point among append/sync/link/unlink/write/sync/rename, both persistence models: reopen = replay of a prefix containing every returned edit), maniAlgebra_lawful (to_edit/apply_edit on sorted sets), chain_crash_free and chain_after_crash_and_reopen (fragments chain after every history and, with open finishing an interrupted rollover, after every crash + reopen). The check runs the real Manifest on seeded histories and compares MANIFEST bytes, every fragment, in-memory and reopened state, verify verdict, every truncation length (all lengths for small files), every crash point under both models, and the strace of real runs against the model op list.',
        'level_note': 'Trusted: Lean kernel; axioms propext, Classical.choice, Quot.sound; CRC-32C model vs crate agreement is observational; NoCollision hypothesis of torn_manifest cannot be discharged by proof; crash images are harness-built from an op order that is strace-checked on a sample. Defects D-12, D-24 (Edit accepted what the reader cannot read back) and D-13 (crash between link and rename broke the fragment chain) are repaired by fixes/d12-d24-mani-edit-validation.diff and fixes/d13-mani-finish-interrupted-rollover.diff; the as-is behaviour stays as theorems.',
    },
    'C10': {
        'trusted': [
            'bloom filter block (SipHash-2-4, sbbf.rs) is a parameter of the table model: its bytes are taken from the real file; the harness checks them against sst::sbbf::Filter over the accepted keys and checks load() of every inserted entry (no false negative)',
            'SHA3-256 is a parameter of the setsum in the final block / metadata (items enter as their eight LE words; the harness also recomputes the setsum through sst::Setsum::{put,del} and through the published definition)',
            'CRC32C is computed by the model (bitwise Castagnoli) and compared through the index and final block bytes',
        ],
        'assumptions': [
            'restart intervals (bytes, pairs) >= 1: interval 0 is outside the property quantifier and makes BlockCursor::next loop forever (DESIGN 6.1); never generated',
            'the empty entry sequence is inside the property (BlockBuilder::seal accepts it): as found, the cursor of the empty block answers corruption errors and SstBuilder::seal fails (D-7); the model describes the repaired code (fixes/d7-empty-block-cursor.diff)',
            'SstMultiBuilder is modelled with the sort order enforced across a roll-over (fixes/c10-multibuilder-sort-order.diff); as found it writes an entry that is out of order with respect to the previous file (theorem about the code as found: MB.putAsFound)',
            'table-full is exercised on a real BlockBuilder (thorough tier, ~960 MiB in memory) and through check_table_size at the limit; an SstBuilder is not driven to 960 MiB on disk',
        ],
        'partial': [
            'sst_builder_refines_partial: SstBuilder start to seal is a theorem for the data blocks and the index block as written (decode to a cut of the sorted accepted entries + separating index entries; cursor programs and load = reference); re-reading the blocks from the file image through the index entries (start, limit, crc32c) -- Sst::load_block -- the final block bytes and the packed SstMetadata are held by byte-for-byte correspondence, not by a theorem; bloom filter bytes and the setsum digest are parameters',
        ],
        'level_text': 'Lean theorems (25, no sorry; axioms propext, Classical.choice, Quot.sound): entry messages and the entry area of a block round-trip for every restart policy; prefix compression is inverted; the builder accepts exactly in-limit, strictly ordered input, a refused attempt appends nothing, accepted entries are sorted; restart offsets are the prefix-sum offsets of the entries the restart indices name; Block::new on sealed bytes + forward decode + offset->index translation returns exactly the entries and restart indices (sealed_bytes_decode), hence a block end to end at the byte level: every finite cursor program over keys equals the reference cursor, seek(k) = first entry with key >= k (sealed_block_cursor_refines), Block::load = newest version <= ts or tombstone; divide_keys lies in [lhs, rhs), minimal_successor_key is a strict successor, the index keys of ANY cut of a sorted list are separating (DivOk) for every target; SstCursor refines the reference cursor; SstBuilder start to seal: blocks and index as written decode to a cut of the accepted entries with separating dividers, cursor programs and Sst::load equal the reference (sst_builder_refines_partial); metadata: first/last key, smallest/biggest timestamp, filter count and file size are exact. The models are tied to the code by byte-exact comparison of block bytes, of a table\'s data/index/final blocks and packed metadata, and of cursor/load observations on seeded adversarial sequences (many versions of a key, last-byte neighbours, prefix chains, empty key, keys/values at the limits, tombstone runs, restart intervals and block sizes down to one entry per block), plus a vector-reference oracle on the implementation alone; limits, field numbers and wire types are regenerated from the source each run.',
        'level_note': 'Trusted: Lean kernel; axioms propext, Classical.choice, Quot.sound; bloom filter bytes and SHA3 as parameters (cross-checked by the harness); correspondence is agreement on generated cases only. Not a theorem: Sst::load_block (file offsets + CRC) = the block list, final block / SstMetadata bytes. Restart interval 0 excluded (outside the property). Requires the repairs d7 (empty block cursor) and multi-builder sort order; d23 (Block::new checked_sub) belongs to C09.',
    },
    'C19': {
        'trusted': ['SA-IS (scrunch/src/sais.rs) is not modelled: that it returns the sorted permutation of the suffixes is the hypothesis of the index theorems, decided on every generated text (the suffix array of the built document is read back from its serialised form and checked by the Lean driver with the model order, and by the harness)',
                    'the RRR / cf-RRR / sparse bit-vector encodings, the wavelet-tree psi, the Huffman wavelet tree and the sampled SA/ISA arrays are tied to the List Bool / psi / str models by comparison on generated inputs only'],
        'assumptions': ['the empty text and empty records are rejected with an error by check_record_boundaries in both documents (mirrored by the model, checked as agreement of the two constructors)',
                        'lookup of offsets beyond the text and retrieve/offset_of of records beyond the last are outside the property (observed: both documents answer, differently; the model mirrors the compressed document)',
                        'cf_rrr::BitVector::rank(len) for len a positive multiple of 1449 returned None before fixes/scrunch-cf-rrr-rank-at-len.diff; the model is the trait semantics, i.e. the repaired code'],
        'partial': ['sorted_of_suffixes is a hypothesis, not a theorem about sais.rs: SA-IS is tied by correspondence only (decided per input: the suffix array of the built document is read back and checked sorted by the Lean driver and by the harness)',
                    'bit-vector theorems are about the trait reference semantics and the default select/rank0/select0 on List Bool: the RRR, cf-RRR and sparse encodings (and their own select/select0) are tied by correspondence only',
                    'constrain_spec / backwardSearch_spec / count_* / search_* are about the reference psi (two binary searches over the psi slice): the wavelet-tree psi (lower_bound/upper_bound over contexts, Huffman wavelet tree) is tied by correspondence only',
                    'sa_psi / doc_retrieve_record use the exact suffix array and inverse (saOf, isa) of the model: the sampled SA / ISA containers (stride 2^6, psi-walk to the next sample, sparse presence vector) are tied by correspondence only',
                    'the alphabet translation (Sigma: code point -> dense symbol, order preserving) is modelled as a shift by one; Sigma itself and the serialisation format are tied by correspondence only'],
        'level_text': 'Partial. Lean theorems, all about executable models: binary search (partition_by) returns the partition point; the BitVector trait default select/select0 return the least position of a given rank/rank0 and are defined exactly up to the number of set bits; rank0 counts clear bits; rank(select k) = k. For every text, every strictly increasing arrangement of the suffixes of text+end-marker (the only hypothesis left: it is what SA-IS must deliver) and every needle over occurring or absent symbols: Sigma::sa_range_for + backward search over psi return exactly the block of suffixes prefixed by the needle, count equals the number of occurrences in the original text, search reports exactly the occurrence positions in ascending order, the empty needle counts every position; over the record-boundary bit vector of every admissible division, records = number of boundaries, lookup(offset) = (boundaries <= offset) - 1, offset_of(r) = r-th boundary, and retrieve(r) (select, select, inverse suffix array, one psi step per symbol) returns the text between the r-th boundary and the next. Tied to scrunch by a three-way run on every seed: real CompressedDocument vs ReferenceDocument vs naive scan (oracle) vs the Lean model (len, records, the suffix array and psi read back from the serialised index, count and positions of exhaustive/sampled patterns, offset->record for every offset, offset_of and retrieve of every record, before and after re-parsing), and seven bit-vector implementations vs List Bool vs Vec<bool> at every argument.',
        'level_note': 'Trusted: Lean kernel; axioms propext, Classical.choice, Quot.sound; SA-IS, the succinct encodings (RRR, cf-RRR, sparse, wavelet tree, Huffman codes, sampled arrays) and the serialisation are covered by the correspondence/oracle run on generated inputs only, not by proof; the suffix order hypothesis is decided per input.',
    },
    'C12': {
        'trusted': [LOG_CRC,
                    'the in-process fdatasync probe of the harness binary (its own `fdatasync` symbol, which the log\'s libc call resolves to: file length when the call was issued, published as durable when the call has returned) as the witness of durability at return in every concurrent run; strace 6.x syscall log order (entry/exit lines) as a second witness in the traced runs',
                    'sync42::verif event log (cfg rescrv_blue_verif; observer only) to stage the directed fsync-queue schedules without timing assumptions',
                    'the harness-side frame walker (used only to choose cut points, to group the observed batches into frames and for statistics; the model recomputes the file from the grouping)'],
        'assumptions': [LOG_CRC,
                        'a file damaged other than by truncation is outside C12 (C09); the malformed-input stream checks reader correspondence only',
                        'after LogIterator::next has returned an error the iterator is not used again (the property says "then either ends or reports an error"); a second call would deliver entries of the partially assembled buffer',
                        'concurrency: the queue theorems quantify over all interleavings of the modelled critical sections; the run-time check samples schedules (in-process and under strace)'],
        'partial': [],
        'level_text': 'Sequential log: for every batch list (every batch size up to TABLE_FULL_SIZE, the limit the reader itself enforces: covers MAX_BATCH_SIZE and the BLOCK_SIZE that WriteBatch accepts) the model reader returns exactly the appended batches from the model writer\'s bytes whatever the block alignment (append_read, log_roundtrip), every truncation delivers a prefix of the batches and nothing else (truncated_log_prefix, readSome_take_prefix for arbitrary bytes), bytes before a damage point are read identically (reads_agree_before_damage), and a crash between write/fdatasync/ack leaves a readable prefix containing every acknowledged batch (crash_prefix); the parameters are the ones extracted from sst/src/log.rs (good_real). Concurrent appends: the work-coalescing queue hands the core every input once in link order and returns each caller its own result for all interleavings (Wcq/WcqV), and a caller answered true by the fsync core is covered by a completed fdatasync (answered_true_is_durable). The model is tied to the code byte-for-byte: real LogBuilder output vs writeAll (whole file hash, 64 KiB chunk hashes, 96-byte windows round each block boundary, full hex for small files), real LogIterator drain vs model reader, every cut of small files and every cut within +-64 bytes of each frame/header/padding/block boundary of >=1 MiB files, and the final file of N-thread ConcurrentLogBuilder runs vs writeAll of the observed merge.',
        'level_note': 'Trusted: Lean kernel; axioms propext, Classical.choice, Quot.sound; CRC-32C as a parameter; correspondence is agreement on generated cases only; durability at return is observed (fdatasync probe in every concurrent run, strace ordering of write/fdatasync/return markers in some) on sampled schedules with fsync() callers interleaved and on two staged schedules (appends, then an fsync() caller, queued behind an fsync leader held inside fdatasync), the all-interleavings statement is about the queue model.',
    },
    'C18': {
        'post': c18_post,
        'trusted': ['event order of a queue run = order of a global atomic clock stamped in harness code that runs inside the queue\'s critical sections (core.work, OutputIterator::next, Clone of the output under the wait list mutex); link order is not observable without a hook and is taken to be the order in which the core saw the inputs (cross-checked against per-thread and real-time order)',
                    'cache contents after an op are read by replaying the op prefix on a fresh cache and draining it with pop (the API has no iterator)'],
        'assumptions': ['scheduler fairness (a runnable thread eventually runs); the theorem about wake-ups is deadlock freedom, not a time bound',
                        'cores honour their contract: `work` yields one output per batched input (fewer leaves stolen callers waiting by design)',
                        'entry sizes and their sums fit in usize (the model counts in Nat; the harness keeps sizes small)',
                        'callers parked in `WaitList::link` on a full ring are outside the property: one unlink that frees two slots wakes only one of two parked linkers (notify_one) - observed by the harness probe, reported, no verdict'],
        'partial': ['every_call_returns_partial: in every reachable state of the wake-up model every run of caller/leader steps is finite (lexicographic measure) and a step is enabled while a caller is linked, so without new arrivals every call returns under a scheduler that keeps running enabled steps; the interleaving with an unbounded stream of new arrivals and spurious wake-ups (FIFO argument, DESIGN C.38) and scheduler fairness are not Lean theorems',
                    'lru_refines: the pointer structure (HashMap + intrusive list) is tied to the list model by the correspondence check on op sequences, not by a proof about the unsafe code'],
        'level_text': 'Lean theorems about executable models of the three structures: the LRU model is a map (find after insert/lookup/remove), evicts only a suffix of the recency list, keeps size = sum of entry sizes, ends an evicting insert within capacity and exceeds capacity only by insert_no_evict sizes since the last insert (all op sequences); the wait-list model keeps its invariant for every link/unlink sequence incl. a full ring, has exactly one head (the oldest live guard) and hands the head to the next oldest on unlink; the coalescing-queue model (one step per critical section, every interleaving, arbitrary core answers) gives the core each input exactly once in link order, returns each call its own output and never reaches a panic; the wake-up model (two mutexes, spurious wake-ups) is never stuck, every run of caller/leader steps in it is finite and one is enabled while a caller is linked (so all calls return when arrivals stop), and the mutants without the notify_head of the leader or of the followers do get stuck; slots of the wait list are reused only after the head passed them. Tied to the code by: exact comparison of result / size / full recency order after every LRU op; head / tail / linked flags after every wait-list op on the real 65536-slot ring incl. a blocked 65537th link and index wrap-around; and replay of every recorded multi-thread run of the real queue (real event order, stamped from harness-defined core / iterator / Clone code) through the model step function, every event required to be enabled.',
        'level_note': 'Trusted: Lean kernel; axioms propext, Classical.choice, Quot.sound; hand-written models; correspondence is agreement on generated cases and on the thread schedules that happened to occur; link order inside do_work is inferred (no hook), parking / notification events are not observed (only their effect: nobody stuck within 40 s). Liveness is proved as termination + enabledness of caller/leader steps without new arrivals; fairness and unbounded arrivals are assumptions (partial).',
    },
    'C17': {
        'trusted': ['event order of a controlled run = order of the hook log: worker threads park in skipfree::verif::point / listfree::verif::point before every atomic access and the harness releases one at a time (cfg(rescrv_blue_verif) hooks, add-only, observers except the parking itself and the forced tower heights)',
                    'event order of a free-running run = a sequentially consistent order computed by the harness from the logged accesses (per-location write chains, reads-from, program order; topological sort); the Lean driver re-validates every access of that order against the model, so a wrong order shows as a disagreement, never as a pass',
                    'node identity: addresses are renamed to allocation order; tower heights are supplied by the harness through verif::force_heights (the distribution of random_height with the source branching factor, the top of the tower over-weighted)',
                    'node lifetime is observed through the allocation registry of the hooks in a child process (thorough: also under valgrind memcheck)'],
        'assumptions': ['sequentially consistent interleaving of the atomic accesses of different threads: the model has one global order of loads, stores and CASes; the code uses Acquire loads, Release stores and SeqCst CASes, and that these give the assumed behaviour on the target (weak memory) is outside the model and not proved - on x86-64 the harness has never seen a log without a sequentially consistent order',
                        'distinct keys: an insert begins with a key that is neither linked nor being inserted (Reach.insert / insertOk); the code asserts this and panics otherwise (observed in the sequential stream, outside the property)',
                        'memory that has not been released stays valid and Box::leak/Box::from_raw behave as allocation/release; keys are totally ordered (Nat in the model, u64 in the harness)',
                        'the search of find_greater_or_equal / find_less_than / find_last through the upper levels and every load of it are modelled; values are not (the value travels with its node)'],
        'partial': ['weak memory: every theorem is about sequentially consistent interleavings (see assumptions); this is why the claim is partial',
                    'iterator_moves_* are stated at the last load of each search (the answer is the nearest linked key with respect to the keys linked at the time of that load, a concurrent insert may or may not be seen); that each search reaches its last load (termination under concurrent inserts) is not proved - lock-freedom, not wait-freedom',
                    'iterator_keeps_nodes_alive is a theorem about the ownership model of the repaired code (Blue.SkipLife: nodes are released with the last of list handle and iterators); that the unsafe code implements it is by correspondence (allocation registry, valgrind) - finding D-4 on the unrepaired code',
                    'listfree: the reader side (iter/next) is validated against the model by the driver (iterNext) and covered by walk_chain from any published pointer; there is no separate small-step reader in the proved transition system'],
        'level_text': 'Lean theorems about an executable small-step model of the code (one step per atomic access of insert: search loads with recorded predecessors/successors, allocation, per level store, CAS, re-advance after a failed CAS; and of the iterator: find_greater_or_equal, find_less_than, find_last, next), for every interleaving of any number of inserting and reading threads with distinct keys: every level is a strictly sorted chain, level l+1 is a sub-chain of level l, level 0 holds exactly the keys whose level-0 CAS succeeded, a returned insert is linked and stays linked, no assertion of the code fires, and seek/next/prev end on the nearest linked key in their direction (at the time of their last load); for the prepend-only list the chain is exactly the pushed data, newest first. Correspondence: the real crates run under controlled scheduling (every interleaving of the small scenarios, seeded and preemption-bounded schedules of the larger ones) and free-running, and every recorded access is validated as the next step of the model with the same outcome. PARTIAL: sequentially consistent atomics are assumed.',
        'level_note': 'Trusted: Lean kernel; axioms propext, Classical.choice, Quot.sound; hand-written models (Blue.SkipML, Blue.SkipList, Blue.ListFree, Blue.SkipLife); the cfg(rescrv_blue_verif) hooks of skipfree/listfree; the harness linearisation of free-running logs is untrusted (re-validated by the driver). Not covered: weak-memory behaviours, termination of a search under unbounded concurrent inserts, generic K/V other than u64.',
    },
    'C09': {
        'trusted': [
            'CRC-32C is a parameter of the SST / log / manifest theorems; the driver instantiates it with the Lean table-driven CRC-32C (check value proved) and every block, frame and line checksum the real crc32c crate wrote or verified is re-decided by the model on the same bytes',
            'bloom filter block: opaque bytes whose CRC and length are checked; Filter::check is taken to answer "maybe" for the keys of the file (the harness probes only keys the builder inserted)',
            'SHA3 / setsum values are not computed by the model: log_to_setsum is compared by result class, the value is checked by the harness against sst::Setsum over the drained entries',
            'harness-side layout parsers (SST frames and final block fields, log frames, manifest lines) are used only to name the region of a damaged offset for the oracle classes and the statistics',
            'the allocation observer is a counting #[global_allocator] in the harness binary, armed only inside the C09 child; RLIMIT_AS = 2 GiB in the child',
        ],
        'assumptions': [
            'CRC detection: "the CRC tells a damaged payload from the original" is a hypothesis (hnc of refines_of_no_collision, NoCollision of torn_manifest), not a theorem; for one flipped bit it is a fact about the CRC-32C polynomial, observed at every bit of every file of every run, not formalised',
            'a payload that matches its recorded CRC but is not a block a builder wrote (reachable only through a CRC collision or a forged file) is outside the SST model: the model answers hostile-block, the lazy cursor of the code is not predicted there',
            'appended bytes that are themselves valid records (a manifest separator line, a whole frame with its CRC, a second final block) are read as records: no format without authentication can refuse them; the generated suffixes are random bytes, zeros, copies of the file\'s own tail, bare separators/newlines',
            'a truncated log or manifest that ends on a record boundary reads as a prefix of the records without error (the crash-recovery contract of C12/C13); the oracle accepts `prefix` only when the damage contains a truncation',
            'after an error from LogIterator the iterator is not used again; ManifestIterator is drained to None (its non-ASCII error does not end it, and the model follows)',
            'model of the code after fixes/d3-log-to-builder-unwrap.diff (log_to_builder / log_to_setsum propagate a reader error); on the code as found the constants tie fails and the oracle reports the panics',
        ],
        'partial': [
            'sst_single_burst is relative to the CRC hypothesis (its premise Refines); refines_of_no_collision derives the premise from per-block collision freedom, data_block_damage_opens proves the "same index entries" premise for damage inside the data blocks; for damage inside the index or filter block the open is not proved to fail (it does, in every case of the run, by crc32c-failure)',
            'never panics / never allocates without bound: by construction in the model (total functions; open_sizes_bounded for the three buffers sized before a checksum is seen); for the code it is an observation of the correspondence run (child process, RLIMIT_AS, largest request per read), not a theorem',
            'log and manifest: reads_agree_before_damage, crc_mismatch_is_error, truncated_log_prefix, torn_manifest, mani_line_guarded are theorems; "any damage inside a frame or line is an error" again needs the CRC hypothesis and is observed, not proved; torn_manifest is about Blue.Mani.readEdits, which strips a carriage return from an unterminated last line where BufRead::lines does not (Blue.Damage.iterate follows the code; the two differ only on CRC-matching lines)',
        ],
        'level_text': 'C09 on executable models of the three readers, run on the very bytes the real code reads: an SST opened from arbitrary bytes (trailer, FinalBlock/BlockMetadata/SstEntry through the derive-macro interpreter with the source\'s error codes, sanity and ordering checks, CRC check on every load, Block::new, lazily loading cursor, load, metadata), the log reader with log_to_builder/log_to_setsum, ManifestIterator item by item with Manifest::open. Theorems: every entry any SST read returns comes from a block whose payload matched its recorded CRC and the index entries from a payload matching the CRC in the final block (sst_reads_are_guarded, open_guarded); relative to the CRC hypothesis every read of a table damaged behind its checksums is an error or the pristine answer, walks are the pristine walk or a prefix of it followed by an error (sst_single_burst, refines_of_no_collision, data_block_damage_opens); final_block_cases classifies any replacement of the unchecksummed tail as rejected / metadata-only / redirected-to-a-CRC-matching-triple, and final_block_metadata_not_detected exhibits D-10 on the bytes of a real SST by kernel evaluation; log: reads_agree_before_damage, crc_mismatch_is_error, truncated_log_prefix, zero_length_is_padding (the mechanism of D-11); manifest: torn_manifest, mani_line_guarded. The check builds SSTs, logs (one crossing a 1 MiB block boundary) and manifests with the real code and reads, with the real code in a child process under RLIMIT_AS and with the model, every single-bit flip, every truncation length, overwrites, suffixes and short damage sequences of every file.',
        'level_note': 'Trusted: Lean kernel; axioms propext, Classical.choice, Quot.sound; CRC-32C as a parameter, detection as a hypothesis; correspondence is agreement on the generated damage (exhaustive per file for bit flips and truncations); panic- and allocation-freedom are observations. Findings: D-3 (log_to_builder/log_to_setsum unwrap a reader error; fixes/d3-log-to-builder-unwrap.diff), D-10 (final block unchecksummed: setsum/timestamps returned as genuine; format), D-11 (a header-length byte zeroed 20 bytes before a block boundary drops a frame silently; format/reader).',
    },
    'C06': {
        'trusted': ['event order of a run = order of the lsmtk::verif event log (one mutex-protected vector; hooks/lsmtk-kvs-events.diff): events of the critical sections of write / load / range_scan / _memtable_thread are emitted while the store mutex is held, so their order is the real order; log-append, insert and install events are emitted by the acting thread right after the action (the model\'s answers do not depend on their exact position: snapshot_stable); client invocation / response marks go into the same log',
                    'the flush and compaction loops are the real ones, polled: cfg(rescrv_blue_verif) single-step makes them return to the caller where they would sleep on their condition variable, and the harness calls them again from their own threads',
                    'tombstones carry no payload: a read that returns nothing is attributed, for the linearizability oracle, to the oldest delete (or the empty start) that no completed write or earlier read rules out and that its hook timestamp covers'],
        'assumptions': ['sequentially consistent execution of the steps: a step of the model is a critical section under the store mutex or one lock-free access (log append, one skiplist insert, one skiplist search); std::sync::Mutex gives mutual exclusion and happens-before, Condvar / WaitList::naked_wait release and re-acquire the mutex and may wake spuriously (the model only asks that a writer or the flush thread proceeds as head of the list)',
                        'the skiplist is linearizable per entry (an insert becomes visible to searches at one instant and stays; C17) and the wait list hands the head on in link order (C18: wl_head_is_oldest)',
                        'a snapshot\'s lookup = newest entry not newer than its timestamp among mem, imm and the version: the cursor stack (merging / pruning / bounds) and the SST read path are C03 / C11 / C10, compaction and garbage collection preserve the newest version of every key (C01 / C05); the model keeps a flushed table\'s entries addressable by the table\'s number',
                        'scans are kept apart from the two instants at which resources an open cursor points into are released (memtable dropped after imm = None: D-4; files renamed to trash after a compaction: D-5) - use-after-free / file-not-found there belong to C07; loads cover every instant',
                        'a batch naming one key twice is outside the model (D-16: SkipList::insert asserts); generated only in its own stream, where the assert and the failing reopen are confirmed',
                        'sequence numbers and the wait list ring do not wrap (u64 counters; at most 9 threads linked)'],
        'partial': ['linearizability is proved as its obligations on the model (write_order, no_stale_read + snapshot_after_return_covers, no_phantom, batch_atomic, snapshot_stable for the linearization "writes in sequence order at wFin, reads at their snapshot"), and checked as such (exact single-register check with the write order given by the sequence numbers) on every recorded history; the statement "there exists a linearization" over an abstract history type is not a separate Lean theorem',
                    'returned_batch_fully_visible (= batch_atomic_partial for the store as found): a batch whose write has returned is entirely visible; for batches still being inserted the statement is false as found (batch_atomic_fails_as_found, partial_batch_visible) and is batch_atomic for the repaired read timestamp',
                    'the duplicate the snapshot can hold between version install and imm = None (Rollover.snapshot_complete) is invisible to lookups by first-hit / newest-version semantics; that the merging cursor tolerates the duplicate child is covered by the runs (snapshots_between_install_and_clear counter), not proved (C.43)',
                    'no memory model: relaxed atomics inside the skiplist and the wait list are taken as sequentially consistent'],
        'level_text': 'Lean theorems about an executable small-step model of KeyValueStore::write / load / range_scan / _memtable_thread joined through the wait list (Blue.KvsConc: writers, flush thread, readers; one step per critical section or lock-free access), for EVERY interleaving: an invariant (inv_step) that gives - for the repaired read timestamp (last writer that left the wait list) - batch_atomic (a snapshot sees every begun batch entirely or not at all) and snapshot_stable (no later event, in particular no writer in flight at snapshot time, changes what a snapshot sees); for both timestamps no_stale_read, snapshot_after_return_covers, no_phantom, write_order, snapshot_covers_all (mem, imm, flushed hold every entry at every instant of rotate / install / clear); the hand-off theorem flushed_table_complete / insert_only_into_open_table (when the flush thread has passed the wait list every writer into imm has returned and inserted everything); and the counterexamples batch_atomic_fails_as_found / snapshot_unstable_as_found for the timestamp as found (D-6). Tied to the code by trace validation: 2..8 real client threads run puts, deletes, 2..4-key batches, loads and scans against one real KeyValueStore with the flush loop and 1..3 compaction loops running on small memtables; the event hooks record every critical section in real order; the Lean driver replays the recorded trace through the model step function (every event must be enabled; an insert into a flushed table is flagged) and computes what every read must return, which is compared with what the real reads returned; directed schedules (pause hooks) park a writer between two inserts / before its first insert / behind a slower writer. Independent oracle on the recorded history: exact per-key linearizability with the write order given by the sequence numbers, batch atomicity of every scan, scan order / bounds / tombstones, final state.',
        'level_note': 'Trusted: Lean kernel; axioms propext, Quot.sound (Classical.choice in the Rollover theorems); hand-written model; correspondence is agreement on the thread schedules that occurred (widened by seeded yields and directed pauses) - real threads, so schedules differ between runs while verdicts depend only on the recorded trace; which read timestamp the tree under test has is extracted from the source (kvsReadTimestamp, tied by ConstsTieC06 to one of the two policies of the model) and probed at run time by the harness (stats: read_timestamp_policy); batch_atomic / snapshot_stable apply to a tree that reads at visible_seq_no, on a tree that reads at seq_no the check routes partial batches to known finding D-6. Assumptions: sequentially consistent steps, mutex / condvar semantics, linearizable skiplist, cursor stack and compaction correctness (other properties).',
    },
}
