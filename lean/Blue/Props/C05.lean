import Blue.Proofs.Gc
import Blue.Proofs.Conserve
/-! Property C05: the theorems the check builds and audits (spike inventory; the build phase
    completes the list from DESIGN Appendix C.0). -/
#print axioms Blue.Cursor.compaction_conserves
#print axioms Blue.Cursor.children_perm_merged
