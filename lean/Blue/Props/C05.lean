import Blue.Proofs.Gc
import Blue.Proofs.GcPolicy
import Blue.Proofs.Conserve
import Blue.Proofs.CompactCut
import Blue.Proofs.Compaction
import Blue.Proofs.ConstsTieC05
import Blue.Proofs.GcExact
import Blue.Proofs.CompactTables
import Blue.Proofs.CompactEntry
import Blue.Proofs.StoreHistGc
import Blue.Proofs.StoreHistGcTree
import Blue.Proofs.GcSpec
import Blue.Proofs.StoreHistGcB
/-! # Property C05 — compaction conserves every version; GC discards only what policy permits

Property theorems only (helper lemmas live in `Blue/Proofs/{Gc,GcPolicy,GcSpec,Conserve,CompactCut,
Compaction}.lean`).

Models (all executable, all run by the driver against the real crates):
* `Blue/Model/Gc.lean` — `GarbageCollector::next` (`gcLoopD`: `key_backing`, the tombstone list,
  `return_key`) over the determiner tree `Det` (`VersionsDeterminer`, `ExpiresDeterminer`,
  `AnyDeterminer`, `AllDeterminer`; `now` a parameter) built from the policy AST `Policy`;
  `gcLoop`/`gcGroup` are the `versions = n` instance (`gc_versions_instance`).
* `Blue/Model/GcParse.lean` — the nom parser of the policy language.
* `Blue/Model/GcSpec.lean` — the declarative reading of the policy language (`keeps`, `tombKept`,
  `specKeeps`, `kept`, `specKeepsE`); not a model of code, the specification `gcP` is proved equal to.
* `Blue/Model/Compact.lean` — the compaction loop over the merging-cursor model and the cut of
  the merged run into output files.

An input `Ent K` is `(key, timestamp, is-tombstone)`; the collector's output is the list of
retained `(key, timestamp)`s.

Reading guide.  *Theorems with content*: `gc_runs*`, `gc_factors_through_decisions`, `any_is_union`,
`all_is_intersection`, `newest_value_kept*`, `key_keeps_head_or_goes`, `retained_is_prefix`,
`default_policy_exact`, `only_tombstones_dropped`; `merged_is_M`, `merged_is_sorted_union`,
`pipeline_conserves*`, `pipeline_reads_unchanged`; at history level (block `StoreHistGc`)
`gc_step_preserves_inv`, `gc_step_reads`, `history_refines_gc`, `history_load_gc`,
`gcP_meets_obligation`, `gc_step_from_selector`.  *Upper bound only*: `gc_output_sublist` (the
collector that retains nothing meets it too).  *Model facts / list lemmas* (no cursor in them; kept
because other statements cite them): `children_perm_merged`, `cut_flatten`, `compaction_conserves`
— the "inputs" there are *defined* as the owner-filters of `M`.

Declarative specification of the policy language (block `GcSpec`, `Blue/Model/GcSpec.lean`):
`keeps` / `tombKept` / `specKeeps` are defined by recursion on the policy with no determiner, loop or
carried state; `gcP_eq_spec` / `gcP_eq_filter`: for every well-formed policy (any nesting), every
`now`, every sorted run the collector's output is EXACTLY the kept entries (equality, not a
sub-list); `gc_discards_only_what_policy_permits`, `gc_keeps_current_value_iff`,
`versions_n_keeps_exactly`, `ttl_keeps_exactly`, `spec_is_prefix_closed`.  The specification is the
CODE's reading: `versions = N` counts a value under tombstones as two and keeps or drops the pair
together (so `versions = 2` on `V T V` keeps one version; the doc comment promises "at least this
many") - it is not the doc comment's.

What there is no theorem for (claim text `partial`): that GC runs only at the last level; the write
side of a GC (discard setsum); the multi-builder's cut points; that the policy parser's result is
well formed (`Policy.WF`) and that its fuel suffices. -/
namespace Blue.Props.C05
open Blue.Gc Blue.Cursor

/-! ## garbage collection -/

/-- the general collector at `versions = n` is the collector the `versions` theorems are about -/
theorem gc_versions_instance {K : Type} [DecidableEq K] (n now : Nat) (m : List (Ent K)) :
    gcP (.versions n) now none m = gc n m := gcP_versions n now m

/-- for an input that is a sequence of runs with pairwise distinct keys (what sortedness gives)
    the collector's output is the concatenation of the per-run outputs -/
theorem gc_runs {K : Type} [DecidableEq K] (n : Nat) (hn : 1 ≤ n) (gs : List (K × List (Ent K)))
    (hr : Runs gs) : gc n (flat gs) = gs.flatMap (fun p => gcGroup n p.1 p.2 [] 0) :=
  Blue.Gc.gc_runs n hn gs hr

/-- the same for *every* policy (`versions`, `ttl_micros`, any nesting of `any`/`all`), every
    `now` and every initial determiner key: key by key, each with a fresh determiner -/
theorem gc_runs_every_policy {K : Type} [DecidableEq K] (p : Policy) (hp : p.WF) (now : Nat)
    (k0 : Option K) (gs : List (K × List (Ent K))) (hr : Runs gs) :
    gcP p now k0 (flat gs) = gs.flatMap (fun g => gcLoopD g.2 g.1 [] (p.det now none)) :=
  gcP_runs p hp now k0 gs hr

/-- GC removes only: the output is a sub-list of the input, for every policy and every input
    (sorted or not).  An UPPER bound: `[]` meets it.  The two-sided statements are
    `default_policy_exact` (versions = 1), `retained_is_prefix` + `key_keeps_head_or_goes` (every
    policy: which prefix), `newest_value_kept*`. -/
theorem gc_output_sublist {K : Type} [DecidableEq K] (p : Policy) (now : Nat) (k0 : Option K)
    (m : List (Ent K)) : (gcP p now k0 m).Sublist (ents m) := gcP_sublist p now k0 m

/-- the determiner is asked about each value with the tombstones directly above it; the sequence
    of questions is a function of the input alone, and the output is what the answers select -/
theorem gc_factors_through_decisions {K : Type} [DecidableEq K] (m : List (Ent K)) (kb : K)
    (tombs : List Nat) (d : Det K) :
    gcLoopD m kb tombs d = emitAll (callsOf m kb tombs) (d.run (callsOf m kb tombs)) :=
  gcLoopD_eq_emitAll m kb tombs d

/-- `any(..)` retains the union of what its members retain … -/
theorem any_is_union {K : Type} [DecidableEq K] (ds : List (Det K)) (cs : List (Call K)) (i : Nat)
    (h : i < cs.length) :
    (Det.run (.any ds) cs)[i]? = some (ds.any fun d => (d.run cs).getD i false) :=
  Blue.Gc.any_is_union ds cs i h

/-- … and `all(..)` the intersection -/
theorem all_is_intersection {K : Type} [DecidableEq K] (ds : List (Det K)) (cs : List (Call K))
    (i : Nat) (h : i < cs.length) :
    (Det.run (.all ds) cs)[i]? = some (ds.all fun d => (d.run cs).getD i false) :=
  Blue.Gc.all_is_intersection ds cs i h

/-- never the entry that decides the current value of a key (`versions = n`) -/
theorem newest_value_kept {K : Type} [DecidableEq K] (n : Nat) (hn : 1 ≤ n) (k : K) (e : Ent K) (g : List (Ent K))
    (he : e.tomb = false) : ∃ out, gcGroup n k (e :: g) [] 0 = (k, e.ts) :: out :=
  Blue.Gc.newest_value_kept n hn k e g he

/-- never the entry that decides the current value of a key, for every policy that selects newest
    versions: `versions`; `ttl_micros = m` at `now ≤ m` (lsmtk: `now = 0`, O-3); `any` with such
    a member; `all` of such members.  RESTRICTION (`hp`): it does not hold for every policy —
    `any()` and an expired `ttl_micros` let current values go (example `gcP (.any []) … = []` below);
    the property's "never the current value" is therefore proved under `selectsNewest` only. -/
theorem newest_value_kept_every_policy {K : Type} [DecidableEq K] (p : Policy) (now : Nat)
    (hp : p.selectsNewest now = true) (e : Ent K) (g : List (Ent K)) (he : e.tomb = false) :
    ∃ out, gcLoopD (e :: g) e.key [] (p.det now none) = (e.key, e.ts) :: out :=
  newest_value_kept_policy p now hp e g he

/-- a key whose newest version is a tombstone stays deleted: whatever is kept for it starts with a
    tombstone of the key, or nothing at all is kept.  As stated the tombstone is any one of `tombs`
    or of `g` (the statement does not say "leading"); the sharp form — the *oldest of the tombstones
    above the newest value* — is `key_keeps_head_or_goes` (`emit k (lead.map ts) v.ts`), which holds
    for every policy. -/
theorem tombstone_stays {K : Type} [DecidableEq K] (n : Nat) (k : K) (g : List (Ent K)) (tombs : List Nat)
    (h : tombs ≠ []) :
    gcGroup n k g tombs 0 = [] ∨
    ∃ t out, gcGroup n k g tombs 0 = (k, t) :: out ∧ (t ∈ tombs ∨ ∃ e ∈ g, e.tomb = true ∧ e.ts = t) :=
  Blue.Gc.tombstone_stays n k g tombs h

/-- for *every* policy and one key's versions newest first (tombstones `lead`, then the newest
    value `v`, then the rest): either nothing is kept for the key, or what is kept starts with `v`
    under the oldest tombstone above it — a tombstone and everything it shadows go together, and
    when the policy lets the newest value go (ttl expiry, `any()`), the whole key goes -/
theorem key_keeps_head_or_goes {K : Type} [DecidableEq K] (k : K) (lead : List (Ent K)) (v : Ent K)
    (rest : List (Ent K)) (hl : ∀ e ∈ lead, e.tomb = true ∧ e.key = k) (hv : v.tomb = false)
    (hvk : v.key = k) (hr : AllKey k rest)
    (hts : (lead ++ v :: rest).Pairwise (fun a b => b.ts < a.ts)) (d : Det K) :
    gcLoopD (lead ++ v :: rest) k [] d = []
      ∨ ∃ out, gcLoopD (lead ++ v :: rest) k [] d = emit k (lead.map (·.ts)) v.ts ++ out :=
  Blue.Gc.key_keeps_head_or_goes k lead v rest hl hv hvk hr hts d

/-- a key with only tombstones left is dropped entirely, whatever the policy (sound only because
    GC runs at the last level) -/
theorem only_tombstones_dropped {K : Type} [DecidableEq K] (g : List (Ent K))
    (h : ∀ e ∈ g, e.tomb = true) (kb : K) (tombs : List Nat) (d : Det K) :
    gcLoopD g kb tombs d = [] := Blue.Gc.only_tombstones_dropped g h kb tombs d

/-- observation O-3: every `collector(cursor, now)` call of lsmtk — there are two: the store's and the
    verifier's, so the extracted list is not empty and the ∀ is not vacuous — passes `now = 0`
    (regenerated from the source each run), and at `now = 0` a `ttl_micros` determiner retains whatever it is
    asked about: in this store a ttl policy never expires anything -/
theorem ttl_inert_in_lsmtk {K : Type} [DecidableEq K] :
    Blue.Generated.lsmtkCollectorNow.length = 2
      ∧ (∀ n ∈ Blue.Generated.lsmtkCollectorNow, n = 0)
      ∧ ∀ (m : Nat) (k0 : Option K) (k : K) (tombs : List Nat) (ts : Nat),
          (((Policy.expires m).det 0 k0 : Det K).retain k tombs ts).1 = true :=
  ⟨by decide, Blue.ConstsTie.lsmtk_collector_now, fun m k0 k tombs ts => expires_now0 m k0 k tombs ts⟩

/-- the keywords and error contexts of the parser model are those of sst/src/gc.rs, and lsmtk's
    default policy parses to `versions = 1` (regenerated from the source each run) -/
theorem policy_language_from_source :
    Parse.keywords = Blue.Generated.gcKeywords ∧ Parse.contexts = Blue.Generated.gcContexts
      ∧ (match Parse.parsePolicy (Parse.bytesOf Blue.Generated.lsmtkDefaultGcPolicy) with
          | .ok (.versions n) => n == 1
          | _ => false) = true :=
  ⟨Blue.ConstsTie.gc_keywords, Blue.ConstsTie.gc_contexts, Blue.ConstsTie.lsmtk_default_policy⟩

/-- once `n` versions are counted nothing more of the key is kept -/
theorem gcGroup_exhausted {K : Type} [DecidableEq K] (n : Nat) (k : K) (g : List (Ent K)) (tombs : List Nat) (c : Nat)
    (h : n ≤ c) : gcGroup n k g tombs c = [] := Blue.Gc.gcGroup_exhausted n k g tombs c h

/-- **lsmtk's default policy `versions = 1`, exact and independent of the loop**: per key, the newest
    version if it is a value; nothing if it is a tombstone -/
theorem default_policy_exact {K : Type} [DecidableEq K] (k : K) (e : Ent K) (g : List (Ent K)) :
    gcGroup 1 k (e :: g) [] 0 = if e.tomb then [] else [(k, e.ts)] :=
  Blue.Gc.default_policy_exact k e g

/-- **per key the retained set is a prefix, for every policy**: over one key's versions newest first
    the output is what the determiner's decisions select among the key's values (`callsOf`: each
    value with the tombstones directly above it), and the decisions read `true … true false … false` -/
theorem retained_is_prefix {K : Type} [DecidableEq K] (k : K) (g : List (Ent K)) (hall : AllKey k g)
    (hts : g.Pairwise (fun a b => b.ts < a.ts)) (d : Det K) :
    gcLoopD g k [] d = emitAll (callsOf g k []) (d.run (callsOf g k []))
      ∧ ∀ i j, i ≤ j → (d.run (callsOf g k [])).getD j false = true →
          (d.run (callsOf g k [])).getD i false = true :=
  Blue.Gc.retained_is_prefix k g hall hts d

/-! ## a compaction that is not a garbage collection -/

/-- LIST LEMMA (no cursor in it; the "input tables" are *defined* as the owner-filters of `M`):
    the owner-filters of a tagged list, concatenated, are a permutation of the list -/
theorem children_perm_merged {E : Type} (k : Nat) (M : List (E × Nat)) (h : ∀ x ∈ M, x.2 < k) :
    (((List.range k).map (childList M)).flatten).Perm (M.map (·.1)) :=
  Blue.Cursor.children_perm_merged k M h

/-- LIST LEMMA (`take`/`drop`): cutting a run at any cut points and concatenating gives it back -/
theorem cut_flatten {E : Type} (ns : List Nat) (l : List E) : (cut ns l).flatten = l :=
  Blue.Cursor.cut_flatten ns l

/-- LIST LEMMA (the two above composed; the "inputs" are the owner-filters of `M`, the "outputs" the
    cut of `M` — the merging cursor enters only through `merged_is_M` / `merged_is_sorted_union`):
    whatever the cut vector, the pieces hold a permutation of the owner-filters -/
theorem compaction_conserves {E : Type} (k : Nat) (M : List (E × Nat)) (h : ∀ x ∈ M, x.2 < k)
    (cuts : List Nat) :
    ((cut cuts (M.map (·.1))).flatten).Perm (((List.range k).map (childList M)).flatten) :=
  Blue.Cursor.compaction_conserves k M h cuts

/-- the compaction loop over the merging-cursor model reads exactly the merged list -/
theorem merged_is_M {E : Type} {lt : E → E → Bool} {M : List (E × Nat)} {k : Nat}
    (st : StrictTotal lt) (fam : Family lt M k) (tables : List (List E))
    (ht : tables.Perm ((List.range k).map (childList M))) :
    Blue.Compact.merged lt tables = M.map (·.1) := Blue.Compact.merged_eq st fam tables ht

/-- the pipeline the driver runs against `MergingCursor` + `SstMultiBuilder` conserves -/
theorem pipeline_conserves {E : Type} {lt : E → E → Bool} {M : List (E × Nat)} {k : Nat}
    (st : StrictTotal lt) (fam : Family lt M k) (tables : List (List E))
    (ht : tables.Perm ((List.range k).map (childList M))) (cuts : List Nat) :
    ((Blue.Compact.cut cuts (Blue.Compact.merged lt tables)).flatten).Perm tables.flatten :=
  Blue.Compact.pipeline_conserves st fam tables ht cuts

/-- **every family of input tables has its `M`**: for ANY strictly sorted tables without a common
    entry there is an owner-tagged strictly sorted `M` whose children are exactly the tables — the
    hypotheses `fam`, `ht` of `merged_is_M` / `pipeline_conserves` can always be met -/
theorem family_of_tables {E : Type} {lt : E → E → Bool} (st : StrictTotal lt) (tables : List (List E))
    (hs : ∀ t ∈ tables, t.Pairwise (fun a b => lt a b = true)) (hnd : tables.flatten.Nodup) :
    ∃ M, Family lt M tables.length ∧ (List.range tables.length).map (childList M) = tables :=
  exists_family st tables hs hnd

/-- the compaction loop over the merging-cursor model, for ANY strictly sorted input tables (the same
    entry may be in several), no `M` in the statement: it reads `mergedList`, which is a permutation
    of the inputs' entries in which no entry precedes a smaller one -/
theorem merged_is_sorted_union {E : Type} {lt : E → E → Bool} (st : StrictTotal lt) (tables : List (List E))
    (hs : ∀ t ∈ tables, t.Pairwise (fun a b => lt a b = true)) :
    Blue.Compact.merged lt tables = mergedList lt tables
      ∧ (mergedList lt tables).Perm tables.flatten
      ∧ (mergedList lt tables).Pairwise (fun a b => lt b a = false) :=
  ⟨Blue.Compact.merged_eq_tables st tables hs, mergedList_perm lt tables, mergedList_sortedW st tables⟩

/-- **conservation without `M`**: ANY strictly sorted input tables, ANY cut vector -/
theorem pipeline_conserves_tables {E : Type} {lt : E → E → Bool} (st : StrictTotal lt) (tables : List (List E))
    (hs : ∀ t ∈ tables, t.Pairwise (fun a b => lt a b = true)) (cuts : List Nat) :
    ((Blue.Compact.cut cuts (Blue.Compact.merged lt tables)).flatten).Perm tables.flatten :=
  Blue.Compact.pipeline_conserves_tables st tables hs cuts

/-- the comparator of the code (`KeyRef::cmp` = `entryLt`: key, then timestamp; the value is not
    compared) is NOT a strict total order on the model's entry type … -/
theorem entryLt_not_strictTotal : ¬ StrictTotal Blue.Compact.entryLt := Blue.Compact.entryLt_not_strictTotal

/-- … its lexicographic extension by the value is … -/
theorem entryLtFull_strictTotal : StrictTotal Blue.Compact.entryLtFull := Blue.Compact.entryLtFull_strictTotal

/-- … the two agree on inputs whose `(key, timestamp)` pairs identify the entries, and the
    merging-cursor model compares nothing else: the run under the code's comparator -/
theorem merged_entries (tables : List (List Blue.Compact.Entry))
    (hs : ∀ t ∈ tables, t.Pairwise (fun a b => Blue.Compact.entryLt a b = true))
    (hu : Blue.Compact.KeyTsUnique tables.flatten) :
    Blue.Compact.merged Blue.Compact.entryLt tables = mergedList Blue.Compact.entryLtFull tables :=
  Blue.Compact.merged_entries tables hs hu

/-- **conservation at the model's OWN entry type and comparator** — the function the driver runs
    against `MergingCursor` + `SstMultiBuilder`, `cut cuts (merged entryLt tables)`: for ANY input
    tables sorted by `entryLt` with unique `(key, timestamp)`s and ANY cut vector the pieces are a
    permutation of the inputs (keys, timestamps, values and tombstones, with multiplicity) and their
    concatenation is sorted -/
theorem pipeline_conserves_entries (tables : List (List Blue.Compact.Entry))
    (hs : ∀ t ∈ tables, t.Pairwise (fun a b => Blue.Compact.entryLt a b = true))
    (hu : Blue.Compact.KeyTsUnique tables.flatten) (cuts : List Nat) :
    ((Blue.Compact.cut cuts (Blue.Compact.merged Blue.Compact.entryLt tables)).flatten).Perm tables.flatten
      ∧ ((Blue.Compact.cut cuts (Blue.Compact.merged Blue.Compact.entryLt tables)).flatten).Pairwise
          (fun a b => Blue.Compact.entryLt b a = false) :=
  ⟨Blue.Compact.pipeline_conserves_entries tables hs hu cuts,
   Blue.Compact.pipeline_sorted_entries tables hs hu cuts⟩

/-- **conservation ⇒ unchanged reads, as one theorem**: the store's components in search order
    (`pre ++ post`, "newer above"), a *closed* selection of inputs, each input strictly sorted.
    Replace the inputs by the pieces of the merging-cursor model's merged run cut at ANY cut vector:
    every point read, at every key and timestamp, is unchanged.  (Versions are `(key, timestamp)`
    here — C01's read model; `hsame` and `houts` of `compaction_reads_unchanged` are DERIVED from
    `pipeline_conserves_tables` and the sortedness of the merged run; `Closed` remains a
    hypothesis — it is the selector's obligation, C01 `nextCompaction_closed`.) -/
theorem pipeline_reads_unchanged {K : Type} [DecidableEq K] {klt : K → K → Bool} (st : StrictTotal klt)
    (pre : Blue.Spec.Tagged K) (post : List (List (Blue.Spec.Ver K)))
    (h : Blue.Spec.NewerAbove (pre.map (·.2) ++ post)) (hclosed : Blue.Spec.Closed pre)
    (hs : ∀ c ∈ Blue.Spec.inputs pre, Blue.Spec.Sorted klt c) (cuts : List Nat) (k : K) (t : Nat) :
    Blue.Spec.load (Blue.Spec.kept pre
        ++ Blue.Compact.cut cuts (Blue.Compact.merged (Blue.Spec.vlt klt) (Blue.Spec.inputs pre)) ++ post) k t
      = Blue.Spec.load (pre.map (·.2) ++ post) k t :=
  Blue.Spec.pipeline_reads_unchanged st pre post h hclosed hs cuts k t

/-- the list-level statement `pipeline_reads_unchanged` is built on: for ANY outputs with the
    inputs' versions that are "newer above" among themselves, reads are unchanged (C01
    `step_compaction_reads`).  `hsame`, `houts`, `hclosed` are hypotheses here. -/
theorem compaction_reads_unchanged {K : Type} [DecidableEq K] (pre : Blue.Spec.Tagged K)
    (post outs : List (List (Blue.Spec.Ver K)))
    (h : Blue.Spec.NewerAbove (pre.map (·.2) ++ post)) (hclosed : Blue.Spec.Closed pre)
    (hsame : ∀ e, e ∈ outs.flatten ↔ e ∈ (Blue.Spec.inputs pre).flatten)
    (houts : Blue.Spec.NewerAbove outs) (k : K) (t : Nat) :
    Blue.Spec.load (Blue.Spec.kept pre ++ outs ++ post) k t = Blue.Spec.load (pre.map (·.2) ++ post) k t :=
  Blue.Spec.compaction_reads_unchanged pre post outs h hclosed hsame houts k t

/-- a GC output (a subset of the inputs, `gc_output_sublist`) placed below what stays keeps
    "newer above" — the order invariant point reads rely on -/
theorem gc_preserves_newer_above {K : Type} [DecidableEq K] (pre : Blue.Spec.Tagged K)
    (post outs : List (List (Blue.Spec.Ver K)))
    (h : Blue.Spec.NewerAbove (pre.map (·.2) ++ post)) (hclosed : Blue.Spec.Closed pre)
    (hsub : ∀ e ∈ outs.flatten, e ∈ (Blue.Spec.inputs pre).flatten) (houts : Blue.Spec.NewerAbove outs) :
    Blue.Spec.NewerAbove (Blue.Spec.kept pre ++ outs ++ post) :=
  Blue.Spec.compaction_preserves pre post outs h hclosed hsub houts

/-! ## non-vacuity: concrete inputs meet the hypotheses, and the collector really collects -/

/-- two keys; the first has `T@5 T@4 V@3 V@2`, the second `V@9` -/
def sample : List (Nat × List (Ent Nat)) :=
  [(1, [⟨1, 5, true⟩, ⟨1, 4, true⟩, ⟨1, 3, false⟩, ⟨1, 2, false⟩]), (2, [⟨2, 9, false⟩])]

example : Runs sample := by
  refine ⟨?_, ?_, ?_⟩
  · intro p hp; simp only [sample, List.mem_cons, List.not_mem_nil, or_false] at hp
    rcases hp with rfl | rfl <;> intro e he <;> simp at he <;> rcases he with rfl | rfl | rfl | rfl <;> rfl
  · intro p hp; simp only [sample, List.mem_cons, List.not_mem_nil, or_false] at hp
    rcases hp with rfl | rfl <;> simp
  · decide
example : gc 2 (flat sample) = [(1, 4), (1, 3), (2, 9)] := by decide
example : gc 1 (flat sample) = [(2, 9)] := by decide
example : gcP (.all [.versions 3, .any [.expires 7, .versions 1]]) 10 (some 0) (flat sample)
    = [(1, 4), (1, 3), (2, 9)] := by decide
example : gcP (.any []) 0 (none : Option Nat) (flat sample) = [] := by decide
example : (Policy.all [.versions 3, .any [.expires 7, .versions 1]]).WF := by
  simp [Policy.WF, Policy.WFL]
example : (Policy.all [.versions 3, .any [.expires 7, .versions 1]]).selectsNewest 10 = true := by decide
example : (Policy.any []).selectsNewest 0 = false := by decide
example : (Policy.expires 5).selectsNewest 0 = true ∧ (Policy.expires 5).selectsNewest 6 = false := by decide
example : ∀ x ∈ [((10 : Nat), 0), (20, 1), (30, 0)], x.2 < 2 := by decide
/-- hypotheses of `key_keeps_head_or_goes`, and both outcomes occur -/
def lead2 : List (Ent Nat) := [⟨1, 5, true⟩, ⟨1, 4, true⟩]
def val3 : Ent Nat := ⟨1, 3, false⟩
def rest2 : List (Ent Nat) := [⟨1, 2, false⟩]
example : (∀ e ∈ lead2, e.tomb = true ∧ e.key = 1) ∧ AllKey 1 rest2
    ∧ (lead2 ++ val3 :: rest2).Pairwise (fun a b => b.ts < a.ts) := by
  refine ⟨by decide, ?_, by decide⟩
  intro e he; simp [rest2] at he; rw [he]
example : gcLoopD (lead2 ++ val3 :: rest2) 1 [] ((Policy.versions 2).det 0 none)
    = emit 1 (lead2.map (·.ts)) val3.ts ++ [] := by decide
example : gcLoopD (lead2 ++ val3 :: rest2) 1 [] ((Policy.versions 1).det 0 none) = [] := by decide

/-- a strict total order and a family for `merged_is_M` / `pipeline_conserves` -/
example : StrictTotal (fun a b : Nat => decide (a < b)) :=
  ⟨by intro a; simp, by intro a b c; simp; omega, by intro a b; simp; omega⟩
example : Family (fun a b : Nat => decide (a < b)) [(10, 0), (20, 1), (30, 0)] 2 :=
  ⟨by decide, by decide⟩
example : Blue.Compact.cut [1, 2] (Blue.Compact.merged (fun a b : Nat => decide (a < b)) [[10, 30], [20]])
    = [[10], [20, 30], []] := by decide

/-- hypotheses of `compaction_reads_unchanged` on an instance where `Closed` has content: a kept
    component above the inputs, a kept component BETWEEN the two inputs (`[3@1]`, sharing no key with
    them), a component below (`post`), two output files with key 7 and key 8 split across them -/
example :
    let pre : Blue.Spec.Tagged Nat :=
      [(false, [(9, 8), (7, 9)]), (true, [(7, 5), (8, 6)]), (false, [(3, 1)]), (true, [(7, 3), (8, 2)])]
    let post : List (List (Blue.Spec.Ver Nat)) := [[(7, 1), (3, 0)]]
    let outs : List (List (Blue.Spec.Ver Nat)) := [[(7, 5), (7, 3)], [(8, 6), (8, 2)]]
    Blue.Spec.NewerAbove (pre.map (·.2) ++ post) ∧ Blue.Spec.Closed pre
      ∧ (∀ e, e ∈ outs.flatten ↔ e ∈ (Blue.Spec.inputs pre).flatten) ∧ Blue.Spec.NewerAbove outs := by
  refine ⟨by decide, ?_, ?_, by decide⟩
  · simp [Blue.Spec.Closed, Blue.Spec.SharesKey]; omega
  · intro e; simp [Blue.Spec.inputs]
    constructor <;> (intro h; rcases h with h | h | h | h <;> simp [h])

/-- `pipeline_reads_unchanged` on the same store, the outputs now COMPUTED by the pipeline model
    (cut after two entries): `[[7@5, 7@3], [8@6, 8@2]]` -/
def preX : Blue.Spec.Tagged Nat :=
  [(false, [(9, 8), (7, 9)]), (true, [(7, 5), (8, 6)]), (false, [(3, 1)]), (true, [(7, 3), (8, 2)])]

def natLt (a b : Nat) : Bool := decide (a < b)
theorem natLt_strictTotal : StrictTotal natLt :=
  ⟨by intro a; simp [natLt], by intro a b c; simp [natLt]; omega, by intro a b; simp [natLt]; omega⟩

example : Blue.Compact.cut [2] (Blue.Compact.merged (Blue.Spec.vlt natLt) (Blue.Spec.inputs preX))
    = [[(7, 5), (7, 3)], [(8, 6), (8, 2)]] := by decide

example (k t : Nat) :
    Blue.Spec.load (Blue.Spec.kept preX
        ++ Blue.Compact.cut [2] (Blue.Compact.merged (Blue.Spec.vlt natLt) (Blue.Spec.inputs preX)) ++ [[(7, 1), (3, 0)]]) k t
      = Blue.Spec.load (preX.map (·.2) ++ [[(7, 1), (3, 0)]]) k t :=
  pipeline_reads_unchanged natLt_strictTotal preX [[(7, 1), (3, 0)]] (by decide)
    (by simp [preX, Blue.Spec.Closed, Blue.Spec.SharesKey]; omega)
    (by intro c hc
        simp only [preX, Blue.Spec.inputs, List.filter, List.map, List.mem_cons, List.not_mem_nil, or_false] at hc
        rcases hc with rfl | rfl <;> (unfold Blue.Spec.Sorted; decide))
    [2] k t

/-- `pipeline_conserves_entries` at the model's own entry type: two tables sharing key `[1]` (three
    versions, one a tombstone) and holding values; hypotheses by evaluation -/
def tabA : List Blue.Compact.Entry := [⟨[1], 9, some [7]⟩, ⟨[1], 4, none⟩, ⟨[2, 0], 5, some []⟩]
def tabB : List Blue.Compact.Entry := [⟨[1], 6, some [8, 8]⟩, ⟨[2], 3, some [1]⟩]

theorem tabs_sorted : ∀ t ∈ [tabA, tabB], t.Pairwise (fun a b => Blue.Compact.entryLt a b = true) := by decide
theorem tabs_unique : Blue.Compact.KeyTsUnique [tabA, tabB].flatten := by
  unfold Blue.Compact.KeyTsUnique; decide

example : Blue.Compact.cut [2, 2] (Blue.Compact.merged Blue.Compact.entryLt [tabA, tabB])
    = [[⟨[1], 9, some [7]⟩, ⟨[1], 6, some [8, 8]⟩], [⟨[1], 4, none⟩, ⟨[2], 3, some [1]⟩], [⟨[2, 0], 5, some []⟩]] := by
  decide

example : ((Blue.Compact.cut [2, 2] (Blue.Compact.merged Blue.Compact.entryLt [tabA, tabB])).flatten).Perm
    [tabA, tabB].flatten := (pipeline_conserves_entries [tabA, tabB] tabs_sorted tabs_unique [2, 2]).1

/-- `family_of_tables` produces the `M` the old examples wrote by hand -/
example : ∃ M, Family natLt M 2 ∧ (List.range 2).map (childList M) = [[10, 30], [20]] :=
  family_of_tables natLt_strictTotal [[10, 30], [20]] (by decide) (by decide)

-- BEGIN StoreHistGc
/-! ## garbage-collecting compactions inside the store's history (`Blue.Proofs.StoreHistGc`)

`Blue.StoreHist.history_refines` (C01) covers histories whose compactions conserve every version
(`CompactionOk.hsame`).  The compaction into the last level does not: `perform_compaction` calls
`perform_garbage_collection` when `compaction.top_level()`.  A `compact` step may now carry
`GcCompactionOk` instead: outputs ⊆ inputs (`hsub`, what `gc_output_sublist` gives), `hnewest`
(`NewestKept`: per key of the inputs, the newest input version is an output — what
`newest_value_kept_every_policy` gives for a VALUE under `selectsNewest` — or it is a TOMBSTONE
and whatever is kept of the key starts with a tombstone or is nothing: `key_keeps_head_or_goes`,
`default_policy_exact`), and `hlast` (nothing below the outputs holds a key of the inputs: the
output level is the last one).  `gcP_meets_obligation`: the collector model `gcP` — the one the
driver compares with `GarbageCollector::next` — meets `hsub` and `hnewest` on every merged run
(runs of distinct keys, each strictly newest-first), for every well-formed policy with
`selectsNewest`.  REMAINING HYPOTHESES of a GC step: `hlast`, and as for `CompactionOk` the
placement facts (`hsplit`, `hclosed`, `houts`, `hkept`, `hdis`, `hplace`, `hl0`, `hI1`); that the
step's inputs/outputs ARE the merged run / the collector's output (`obligations_of_collector`'s
`hin`, `hout`) and that the payload map agrees with the tables' tombstone flags (`hpay`). -/
section StoreHistGc
open Blue.StoreHist Blue.StoreHistGc Blue.Spec Blue.Kvs

/-- the invariant of the history model survives a garbage-collecting compaction -/
theorem gc_step_preserves_inv (h : HState) (l0' : List KFile) (levels' : List (List KFile))
    (ok : GcCompactionOk h.pay h.st { h.st with l0 := l0', levels := levels' }) (inv : Inv h) :
    Inv (apply h (.compact l0' levels')) :=
  Blue.StoreHistGc.gc_step_preserves_inv h l0' levels' ok inv

/-- across a garbage-collecting compaction every point read at or above the published sequence
    number answers the same payload, except "tombstone" may become "no version" -/
theorem gc_step_reads (h : HState) (l0' : List KFile) (levels' : List (List KFile))
    (ok : GcCompactionOk h.pay h.st { h.st with l0 := l0', levels := levels' }) (inv : Inv h)
    (k t : Nat) (ht : h.vis ≤ t) :
    readAt (apply h (.compact l0' levels')) k t = readAt h k t
    ∨ (readAt h k t = some none ∧ readAt (apply h (.compact l0' levels')) k t = none) :=
  Blue.StoreHistGc.gc_step_reads h l0' levels' ok inv k t ht

/-- … and the `Option<value>` `load` returns does not change at all -/
theorem gc_step_load_unchanged (h : HState) (l0' : List KFile) (levels' : List (List KFile))
    (ok : GcCompactionOk h.pay h.st { h.st with l0 := l0', levels := levels' }) (inv : Inv h) (k : Nat) :
    (Blue.StoreHist.read (apply h (.compact l0' levels')) k).join = (Blue.StoreHist.read h k).join :=
  Blue.StoreHistGc.gc_step_load_unchanged h l0' levels' ok inv k

/-- **history_refines_gc**: any history of writes, rollovers, flushes and compactions — each
    compaction conserving (`CompactionOk`) or garbage-collecting (`GcCompactionOk`) — from the empty
    store reads the payload of the last accepted write; a deleted key may read "no version" -/
theorem history_refines_gc (ops : List Op) (hv : GcValid init ops) (k : Nat) :
    Blue.StoreHist.read (run init ops) k = lastWrite ops k
    ∨ (lastWrite ops k = some none ∧ Blue.StoreHist.read (run init ops) k = none) :=
  Blue.StoreHistGc.history_refines_gc ops hv k

/-- the answer of `load` (`Some v` / `None`) is that of the last accepted write: GC never discards
    the current value of a key and never brings a deleted one back -/
theorem history_load_gc (ops : List Op) (hv : GcValid init ops) (k : Nat) :
    (Blue.StoreHist.read (run init ops) k).join = (lastWrite ops k).join :=
  Blue.StoreHistGc.history_load_gc ops hv k

theorem history_put_survives_gc (ops : List Op) (hv : GcValid init ops) (k v : Nat)
    (hw : lastWrite ops k = some (some v)) : Blue.StoreHist.read (run init ops) k = some (some v) :=
  Blue.StoreHistGc.history_put_survives_gc ops hv k v hw

theorem history_invariant_gc (ops : List Op) (hv : GcValid init ops) : Inv (run init ops) :=
  Blue.StoreHistGc.history_invariant_gc ops hv

/-- the histories of C01 are among them -/
theorem gcValid_of_valid (ops : List Op) (hv : Valid init ops) : GcValid init ops :=
  GcValid.of_valid ops init hv

/-- **gcP_meets_obligation**: for every well-formed policy that selects newest versions the
    collector's output on a merged run — runs of pairwise distinct keys, each strictly newest
    first, tombstone flags agreeing with the payload map — holds only input versions and, per key,
    the newest input version, or (newest a tombstone) starts with a tombstone or holds nothing -/
theorem gcP_meets_obligation (pay : Nat → Nat → Option Payload) (p : Policy) (hwf : p.WF)
    (now : Nat) (k0 : Option Nat) (hp : p.selectsNewest now = true)
    (gs : List (Nat × List (Ent Nat))) (hr : Runs gs)
    (hts : ∀ q ∈ gs, q.2.Pairwise (fun a b => b.ts < a.ts))
    (hpay : ∀ e ∈ flat gs, (pay e.key e.ts = some none ↔ e.tomb = true)) :
    (∀ e ∈ gcP p now k0 (flat gs), e ∈ ents (flat gs))
    ∧ NewestKept pay (ents (flat gs)) (gcP p now k0 (flat gs)) :=
  Blue.StoreHistGc.gcP_meets_obligation pay p hwf now k0 hp gs hr hts hpay

/-- … hence `hsub` and `hnewest` of a step whose inputs hold the merged run and whose outputs hold
    what the collector returned -/
theorem obligations_of_collector (pay : Nat → Nat → Option Payload) (p : Policy) (hwf : p.WF)
    (now : Nat) (k0 : Option Nat) (hp : p.selectsNewest now = true)
    (gs : List (Nat × List (Ent Nat))) (hr : Runs gs)
    (hts : ∀ q ∈ gs, q.2.Pairwise (fun a b => b.ts < a.ts))
    (hpay : ∀ e ∈ flat gs, (pay e.key e.ts = some none ↔ e.tomb = true))
    (ins outs : List (Ver Nat)) (hin : ∀ e, e ∈ ins ↔ e ∈ ents (flat gs))
    (hout : ∀ e, e ∈ outs ↔ e ∈ gcP p now k0 (flat gs)) :
    (∀ e ∈ outs, e ∈ ins) ∧ NewestKept pay ins outs :=
  Blue.StoreHistGc.obligations_of_collector pay p hwf now k0 hp gs hr hts hpay ins outs hin hout

/-! ### non-vacuity: key 5 put twice, key 7 put then deleted, rollover, flush, key 9 put, rollover,
    flush (two level-0 files), a garbage collection into the only level (`versions = 1`: drops
    `5@1`, the tombstone `7@4` and `7@3` under it), then a delete of key 3 -/
namespace HistGc

def ops : List Op :=
  [.write [(5, some 50)], .write [(5, some 51)], .write [(7, some 70)], .write [(7, none)],
   .rollover, .flush, .write [(9, some 90)], .rollover, .flush,
   .compact [] [[⟨5, 9, 6, [(5, 2), (9, 6)]⟩]],
   .write [(3, none)]]

theorem before_gc : (run init (ops.take 9)).st
    = ⟨[], none, [⟨9, 9, 6, [(9, 6)]⟩, ⟨5, 7, 4, [(7, 4), (7, 3), (5, 2), (5, 1)]⟩], []⟩ := by rfl

theorem ops_valid : GcValid init ops := by
  refine ⟨trivial, trivial, trivial, trivial, trivial, trivial, trivial, trivial, trivial, Or.inr ?_, trivial, trivial⟩
  show GcCompactionOk (run init (ops.take 9)).pay (run init (ops.take 9)).st _
  rw [before_gc]
  refine .mk [(true, [(9, 6)]), (true, [(7, 4), (7, 3), (5, 2), (5, 1)])] [] [[(5, 2), (9, 6)]] [] [] rfl rfl ?_
    (closedB_sound _ (by decide)) (by decide) (newestKeptB_sound _ _ _ (by decide))
    (fun c hc => by cases hc) (by decide) rfl (fun c hc => by cases hc) ?_ (fun g hg => by cases hg)
    (i1_of_check _ (by decide))
  · unfold treeComps l0Comps
    rw [l0Order_cons_top _ _ (by decide), l0Order_cons_top _ _ (by decide), l0Order_nil]
    rfl
  · unfold treeComps l0Comps
    show (l0Order []).map _ ++ _ = _
    rw [l0Order_nil]
    rfl

/-- not a conserving compaction: `5@1`, `7@4`, `7@3` (all in the second file of `before_gc`) are gone -/
example : (5, 1) ∉ (allComps (run init ops).st).flatten ∧ (7, 4) ∉ (allComps (run init ops).st).flatten
    ∧ (7, 3) ∉ (allComps (run init ops).st).flatten := by
  have e : (run init ops).st = ⟨[(3, 8)], none, [], [[⟨5, 9, 6, [(5, 2), (9, 6)]⟩]]⟩ := by rfl
  rw [e]
  decide +kernel

/-- the merged run of the two level-0 files of `before_gc`, as the collector sees it -/
def mergedRun : List (Nat × List (Ent Nat)) :=
  [(5, [⟨5, 2, false⟩, ⟨5, 1, false⟩]), (7, [⟨7, 4, true⟩, ⟨7, 3, false⟩]), (9, [⟨9, 6, false⟩])]

theorem mergedRun_runs : Runs mergedRun := by
  refine ⟨?_, ?_, ?_⟩
  · intro p hp; simp only [mergedRun, List.mem_cons, List.not_mem_nil, or_false] at hp
    rcases hp with rfl | rfl | rfl <;> intro e he <;> simp at he
    · rcases he with rfl | rfl <;> rfl
    · rcases he with rfl | rfl <;> rfl
    · rw [he]
  · intro p hp; simp only [mergedRun, List.mem_cons, List.not_mem_nil, or_false] at hp
    rcases hp with rfl | rfl | rfl <;> simp
  · decide

/-- the outputs of the step of `ops` are what the collector returns under lsmtk's default policy … -/
example : gcP (.versions 1) 0 none (flat mergedRun) = [(5, 2), (9, 6)] := by decide

/-- … and `hsub` / `hnewest` of that step follow from `obligations_of_collector` -/
example : (∀ e ∈ [[((5 : Nat), 2), (9, 6)]].flatten, e ∈ [[((9 : Nat), 6)], [(7, 4), (7, 3), (5, 2), (5, 1)]].flatten)
    ∧ NewestKept (run init (ops.take 9)).pay [[((9 : Nat), 6)], [(7, 4), (7, 3), (5, 2), (5, 1)]].flatten
        [[((5 : Nat), 2), (9, 6)]].flatten :=
  obligations_of_collector _ (.versions 1) (by simp [Policy.WF]) 0 none (by decide) mergedRun mergedRun_runs
    (by decide) (by decide) _ _ (mem_iff_of_subsets (by decide) (by decide))
    (mem_iff_of_subsets (by decide) (by decide))

theorem last_writes : lastWrite ops 5 = some (some 51) ∧ lastWrite ops 7 = some none
    ∧ lastWrite ops 9 = some (some 90) ∧ lastWrite ops 3 = some none ∧ lastWrite ops 4 = none := by decide

/-- the theorem instantiated: the current value of key 5 survives the collection … -/
example : Blue.StoreHist.read (run init ops) 5 = some (some 51) :=
  history_put_survives_gc ops ops_valid 5 51 last_writes.1

example : (Blue.StoreHist.read (run init ops) 7).join = none ∧ (Blue.StoreHist.read (run init ops) 9).join = some 90 := by
  rw [history_load_gc ops ops_valid, history_load_gc ops ops_valid, last_writes.2.1, last_writes.2.2.1]
  exact ⟨rfl, rfl⟩

/-- … and the store side by evaluation: key 7 (deleted, tombstone collected) really reads "no
    version" — the exception of `history_refines_gc` occurs — while key 3's tombstone is still in
    the memtable -/
example : kvsLoad (run init ops).st 7 8 = none ∧ lastWrite ops 7 = some none
    ∧ kvsLoad (run init ops).st 5 8 = some (5, 2) ∧ (run init ops).pay 5 2 = some (some 51)
    ∧ kvsLoad (run init ops).st 3 8 = some (3, 8) ∧ (run init ops).pay 3 8 = some none
    ∧ (run init ops).vis = 8 := by
  have e : (run init ops).st = ⟨[(3, 8)], none, [], [[⟨5, 9, 6, [(5, 2), (9, 6)]⟩]]⟩ := by rfl
  rw [e]
  refine ⟨by decide +kernel, last_writes.2.1, by decide +kernel, by rfl, by decide +kernel, by rfl, by rfl⟩

/-- before the collection the newest version of key 7 was the tombstone `7@4` (`before_gc`) -/
example : (run init (ops.take 9)).pay 7 4 = some none ∧ (run init (ops.take 9)).pay 7 3 = some (some 70) :=
  ⟨by rfl, by rfl⟩

end HistGc
/-! ### the step for `apply_compaction_inner` on a compaction into the last level -/
section Tree
open Blue.NextCompaction

/-- `Compaction::top_level` (`upper_level == NUM_LEVELS - 1`) in the tree model: nothing lies below
    the output level, which is the obligation `hlast` -/
theorem last_level_has_nothing_below (t : Tree) {upper : Nat} (h : upper + 1 = t.length) :
    belowComps t upper = [] := Blue.StoreHistGcTree.belowComps_last t h

/-- **a garbage collection the selector chose IS a `GcCompactionOk` step**: for the selector's answer
    `c` with `c.upper` the last level of a tree satisfying its invariant, the successor
    `applyCompaction t c outs` under the same memtables meets `GcCompactionOk`; split, closedness,
    `hlast`, placement, "level 0 gains nothing" and I1 of the successor are proved; the hypotheses
    left are about the outputs: `OutsOk`, versions of input files only, `NewestKept`
    (`obligations_of_collector`), "newer above" among themselves -/
theorem gc_step_from_selector (pay : Nat → Nat → Option Payload) (n : Num) (o : Opts) (og : List Core)
    (mem : List (Ver Nat)) (imm : Option (List (Ver Nat))) {t : Tree} {c : Core} {outs : List File}
    (hinv : Blue.NextCompaction.Inv t) (hsel : nextCompaction n o t og = some c) (ho : OutsOk t c outs)
    (htop : c.upper + 1 = t.length)
    (hsub : ∀ o ∈ outs, ∀ e ∈ o.vers, ∃ i f, f ∈ level t i ∧ f.id ∈ c.inputs ∧ e ∈ f.vers)
    (hnewest : NewestKept pay (inputs (tagTree t c)).flatten (comps outs).flatten)
    (hnew : NewerAbove (comps outs)) :
    GcCompactionOk pay (toKState mem imm t) (toKState mem imm (applyCompaction t c outs)) :=
  Blue.StoreHistGcTree.gcCompactionOk_of_apply pay n o og mem imm hinv hsel ho htop hsub hnewest hnew

/-! non-vacuity: a two-level tree (level 1 is the last); the selector takes the level-0 file and
    the level-1 file; `7@4` is a tombstone; under `versions = 1` the collector keeps `5@2` and `9@0` -/
namespace TreeGc

def mk (id first last size bts : Nat) (vers : List (Nat × Nat)) : File := ⟨id, first, last, size, bts, vers⟩

def t4 : Tree :=
  [[mk 2 5 7 100 4 [(5, 2), (5, 1), (7, 4), (7, 3)]],
   [mk 3 5 9 100 1 [(5, 0), (7, 1), (9, 0)]]]
def o4 : Opts := ⟨100, 1000000, 8, 4, 1000000⟩
def c4 : Core := ⟨0, 1, 5, 9, [2, 3], 200⟩
def out4 : File := mk 4 5 9 200 2 [(5, 2), (9, 0)]
def pay4 : Nat → Nat → Option Payload := fun k t => if k = 7 ∧ t = 4 then some none else some (some (10 * k + t))

theorem t4_inv : Blue.NextCompaction.Inv t4 := invB_sound (by decide +kernel)
theorem t4_choice : nextCompaction ieee o4 t4 [] = some c4 := by decide +kernel

example : gcP (.versions 1) 0 none (flat [(5, [⟨5, 2, false⟩, ⟨5, 1, false⟩, ⟨5, 0, false⟩]),
    (7, [⟨7, 4, true⟩, ⟨7, 3, false⟩, ⟨7, 1, false⟩]), (9, [⟨9, 0, false⟩])])
    = [((5 : Nat), 2), (9, 0)] := by decide

example : GcCompactionOk pay4 (toKState [] none t4) (toKState [] none (applyCompaction t4 c4 [out4])) :=
  gc_step_from_selector pay4 ieee o4 [] [] none t4_inv t4_choice
    (outsOk_of_flatten (by decide) (by decide) (by decide) (by decide) (by decide)) rfl
    (sub_of_flatten (by decide)) (newestKeptB_sound _ _ _ (by decide +kernel)) (by decide)

example : applyCompaction t4 c4 [out4] = [[], [out4]] := by rfl

end TreeGc
end Tree
end StoreHistGc
-- END StoreHistGc

-- BEGIN GcSpec
/-! ## the policy language, declaratively (`Blue/Model/GcSpec.lean`, proofs `Blue/Proofs/GcSpec.lean`)

`keeps p now h i` - "the VALUE at position `i` (0 = newest) of a key with history `h` is retained" -
is defined by recursion on the policy (`versions n`: `vcount h i ≤ n`, a value with a tombstone
directly above it counting two; `expires m`: `now - m ≤ ts`; `any`: some member; `all`: every
member); `tombKept`: a tombstone is written iff the position below it is a retained value;
`specKeeps` joins the two; `kept` lists the retained positions; `specKeepsE` is the entry-level
form over a whole run.  No determiner, no loop and no carried state occur in these definitions. -/
section GcSpec

/-- **the collector's output is EXACTLY what the declarative semantics keeps**, key by key -/
theorem gcP_eq_spec {K : Type} [DecidableEq K] (p : Policy) (hp : p.WF) (now : Nat) (k0 : Option K)
    (gs : List (K × List (Ent K))) (hr : Runs gs) :
    gcP p now k0 (flat gs) = gs.flatMap (fun g => kept p now g.2) :=
  Blue.Gc.gcP_eq_spec p hp now k0 gs hr

/-- the same as a `filter` of the input run by an entry-level predicate (the history of an
    entry's key = the entries of the run with that key; its position = the number of those with
    a larger timestamp): equality, not a sub-list -/
theorem gcP_eq_filter {K : Type} [DecidableEq K] (p : Policy) (hp : p.WF) (now : Nat) (k0 : Option K)
    (gs : List (K × List (Ent K))) (hr : Runs gs)
    (hts : ∀ g ∈ gs, g.2.Pairwise (fun a b => b.ts < a.ts)) :
    gcP p now k0 (flat gs) = ents ((flat gs).filter (specKeepsE p now (flat gs))) :=
  Blue.Gc.gcP_eq_filter p hp now k0 gs hr hts

/-- a version is in the output iff the semantics keeps it … -/
theorem gc_keeps_iff_spec {K : Type} [DecidableEq K] (p : Policy) (hp : p.WF) (now : Nat)
    (k0 : Option K) (gs : List (K × List (Ent K))) (hr : Runs gs)
    (hts : ∀ g ∈ gs, g.2.Pairwise (fun a b => b.ts < a.ts))
    (g : K × List (Ent K)) (hg : g ∈ gs) (i : Nat) (hi : i < g.2.length) :
    (g.1, g.2[i].ts) ∈ gcP p now k0 (flat gs) ↔ specKeeps p now g.2 i = true :=
  Blue.Gc.mem_gcP_iff p hp now k0 gs hr hts g hg i hi

/-- … and **dropped iff the semantics does not keep it** -/
theorem gc_discards_only_what_policy_permits {K : Type} [DecidableEq K] (p : Policy) (hp : p.WF)
    (now : Nat) (k0 : Option K) (gs : List (K × List (Ent K))) (hr : Runs gs)
    (hts : ∀ g ∈ gs, g.2.Pairwise (fun a b => b.ts < a.ts))
    (g : K × List (Ent K)) (hg : g ∈ gs) (i : Nat) (hi : i < g.2.length) :
    (g.1, g.2[i].ts) ∉ gcP p now k0 (flat gs) ↔ specKeeps p now g.2 i = false :=
  Blue.Gc.gc_discards_only_what_policy_permits p hp now k0 gs hr hts g hg i hi

/-- the retained values of a key are a prefix of its history.  The loop does NOT stop at the first
    refusal (`continue 'iterating`: every value is offered, every child of `any`/`all` is asked);
    the prefix shape is a consequence of every clause being monotone and timestamps decreasing -/
theorem spec_is_prefix_closed {K : Type} [DecidableEq K] (p : Policy) (now : Nat) (h : List (Ent K))
    (hts : h.Pairwise (fun a b => b.ts < a.ts)) (i j : Nat) (hij : i ≤ j) (hj : j < h.length)
    (hk : keeps p now h j = true) : keeps p now h i = true :=
  Blue.Gc.spec_is_prefix_closed p now h hts i j hij hj hk

/-- **the current value of a key is kept IFF** the policy retains a newest value of that timestamp
    (`keepsNewestAt`: `versions n`: `1 ≤ n`; `expires m`: `now - m ≤ ts`; `any`: some member; `all`:
    every member) - `newest_value_kept_every_policy` made two-sided -/
theorem gc_keeps_current_value_iff {K : Type} [DecidableEq K] (p : Policy) (hp : p.WF) (now : Nat)
    (k0 : Option K) (gs : List (K × List (Ent K))) (hr : Runs gs)
    (hts : ∀ g ∈ gs, g.2.Pairwise (fun a b => b.ts < a.ts))
    (g : K × List (Ent K)) (hg : g ∈ gs) (v : Ent K) (rest : List (Ent K))
    (hgv : g.2 = v :: rest) (hv : v.tomb = false) :
    (g.1, v.ts) ∈ gcP p now k0 (flat gs) ↔ keepsNewestAt p now v.ts = true :=
  Blue.Gc.gc_keeps_current_value_iff p hp now k0 gs hr hts g hg v rest hgv hv

/-- `selectsNewest` (data independent) implies `keepsNewestAt` at every timestamp -/
theorem selectsNewest_keeps_newest (p : Policy) (hp : p.WF) (now ts : Nat)
    (h : p.selectsNewest now = true) : keepsNewestAt p now ts = true :=
  Blue.Gc.selectsNewest_keepsNewestAt now ts p hp h

/-- `versions = n`, as the code counts -/
theorem versions_n_keeps_exactly {K : Type} [DecidableEq K] (n now : Nat) (h : List (Ent K)) (i : Nat) :
    specKeeps (.versions n) now h i
      = (match h[i]? with
        | some e =>
          if e.tomb then
            (match h[i + 1]? with
             | some e' => !e'.tomb && decide (vcount h (i + 1) ≤ n)
             | none => false)
          else decide (vcount h i ≤ n)
        | none => false) :=
  Blue.Gc.versions_n_keeps_exactly n now h i

/-- `ttl_micros = m`, as the code compares -/
theorem ttl_keeps_exactly {K : Type} [DecidableEq K] (m now : Nat) (h : List (Ent K)) (i : Nat) :
    specKeeps (.expires m) now h i
      = (match h[i]? with
        | some e =>
          if e.tomb then
            (match h[i + 1]? with
             | some e' => !e'.tomb && decide (now - m ≤ e'.ts)
             | none => false)
          else decide (now - m ≤ e.ts)
        | none => false) :=
  Blue.Gc.ttl_keeps_exactly m now h i

/-! non-vacuity: key 1 with history `V@9 T@8 T@7 V@6 V@5 T@4 V@3`, key 2 with `T@5 V@4` -/
def hist7 : List (Ent Nat) :=
  [⟨1, 9, false⟩, ⟨1, 8, true⟩, ⟨1, 7, true⟩, ⟨1, 6, false⟩, ⟨1, 5, false⟩, ⟨1, 4, true⟩, ⟨1, 3, false⟩]
def sample7 : List (Nat × List (Ent Nat)) := [(1, hist7), (2, [⟨2, 5, true⟩, ⟨2, 4, false⟩])]

theorem sample7_runs : Runs sample7 :=
  ⟨by show ∀ p ∈ sample7, ∀ e ∈ p.2, e.key = p.1; decide, by decide, by decide⟩
theorem sample7_ts : ∀ g ∈ sample7, g.2.Pairwise (fun a b => b.ts < a.ts) := by decide

/-- the counts `VersionsDeterminer` reaches at the seven positions -/
example : (List.range 7).map (vcount hist7) = [1, 1, 1, 3, 4, 4, 6] := by decide
/-- `versions = 2`: ONE version survives.  The doc comment ("retain at least this many versions";
    a version = a value or the oldest tombstone of a run) reads as `V@9 T@7`, a count of the first
    two value-bearing positions as `V@9 V@6`; the code counts `T@7 V@6` as two, reaches 3 and drops
    both - and `V@5`, `V@3` after them -/
example : kept (.versions 2) 0 hist7 = [(1, 9)] := by decide
example : gcP (.versions 2) 0 (some 0) (flat sample7) = [(1, 9), (2, 5), (2, 4)] := by decide
example : kept (.versions 3) 0 hist7 = [(1, 9), (1, 7), (1, 6)] := by decide
example : kept (.versions 4) 0 hist7 = [(1, 9), (1, 7), (1, 6), (1, 5)] := by decide
/-- `any [versions 1, ttl 5]` at `now = 10` (threshold 5): the union -/
example : kept (.any [.versions 1, .expires 5]) 10 hist7 = [(1, 9), (1, 7), (1, 6), (1, 5)] := by decide
/-- `all [versions 4, ttl 4]` at `now = 10` (threshold 6): the intersection -/
example : kept (.all [.versions 4, .expires 4]) 10 hist7 = [(1, 9), (1, 7), (1, 6)] := by decide
/-- the collector and the specification on the whole run, nested policy -/
example : gcP (.all [.versions 4, .any [.expires 4, .versions 1]]) 10 (some 0) (flat sample7)
    = sample7.flatMap (fun g => kept (.all [.versions 4, .any [.expires 4, .versions 1]]) 10 g.2) := by
  decide
example : gcP (.any [.versions 1, .expires 5]) 10 (some 0) (flat sample7)
    = ents ((flat sample7).filter (specKeepsE (.any [.versions 1, .expires 5]) 10 (flat sample7))) :=
  gcP_eq_filter _ (by simp [Policy.WF, Policy.WFL]) 10 _ sample7 sample7_runs sample7_ts
example : ents ((flat sample7).filter (specKeepsE (.any [.versions 1, .expires 5]) 10 (flat sample7)))
    = [(1, 9), (1, 7), (1, 6), (1, 5)] := by decide
/-- dropped / kept positions -/
example : specKeeps (.versions 2) 0 hist7 3 = false ∧ specKeeps (.versions 2) 0 hist7 0 = true
    ∧ specKeeps (.versions 3) 0 hist7 2 = true ∧ specKeeps (.versions 3) 0 hist7 1 = false := by decide
example : (1, 6) ∉ gcP (.versions 2) 0 (some 0) (flat sample7) :=
  (gc_discards_only_what_policy_permits (.versions 2) (by simp [Policy.WF]) 0 (some 0) sample7
    sample7_runs sample7_ts (1, hist7) (by simp [sample7]) 3 (by decide)).mpr (by decide)
example : (1, 9) ∈ gcP (.expires 2) 10 (some 0) (flat sample7) :=
  (gc_keeps_current_value_iff (.expires 2) trivial 10 (some 0) sample7 sample7_runs sample7_ts
    (1, hist7) (by simp [sample7]) _ _ rfl rfl).mpr (by decide)
/-- an expired ttl drops the current value: `now - m = 10 > 9` -/
example : keepsNewestAt (.expires 2) 12 9 = false ∧ (1, 9) ∉ gcP (.expires 2) 12 (some 0) (flat sample7) := by
  decide
example : hist7.Pairwise (fun a b => b.ts < a.ts) ∧ keeps (.versions 4) 0 hist7 4 = true
    ∧ keeps (.versions 4) 0 hist7 3 = true := by decide

end GcSpec
-- END GcSpec
/-! ## the obligations as the C01 driver evaluates them on every real collecting compaction

The flags `newest=` / `sub=` the driver appends to its answer on a performed compaction into the
last level are `Blue.StoreHistGcB.newestKeptB` / `subB` (model file, executable); they imply
`hnewest` / `hsub` of `GcCompactionOk`. -/
theorem step_flag_newest_sound (pay : Nat → Nat → Option Blue.StoreHist.Payload)
    (ins outs : List (Blue.Spec.Ver Nat)) (h : Blue.StoreHistGcB.newestKeptB pay ins outs = true) :
    Blue.StoreHistGc.NewestKept pay ins outs :=
  Blue.StoreHistGcB.newestKeptB_sound pay ins outs h

theorem step_flag_sub_sound (ins outs : List (Blue.Spec.Ver Nat))
    (h : Blue.StoreHistGcB.subB ins outs = true) : ∀ e ∈ outs, e ∈ ins :=
  Blue.StoreHistGcB.subB_sound ins outs h

/-- non-vacuity: the newest version of key 1 is a tombstone that was dropped with the value below it -/
example : Blue.StoreHistGcB.newestKeptB
    (fun k t => if k = 1 ∧ t = 5 then some none else if k = 1 ∧ t = 3 then some (some 0) else none)
    [(1, 5), (1, 3)] [] = true := by decide
/-- … and dropping only the tombstone (uncovering the value) fails the flag -/
example : Blue.StoreHistGcB.newestKeptB
    (fun k t => if k = 1 ∧ t = 5 then some none else if k = 1 ∧ t = 3 then some (some 0) else none)
    [(1, 5), (1, 3)] [(1, 3)] = false := by decide

end Blue.Props.C05

#print axioms Blue.Props.C05.gc_versions_instance
#print axioms Blue.Props.C05.gc_runs
#print axioms Blue.Props.C05.gc_runs_every_policy
#print axioms Blue.Props.C05.gc_output_sublist
#print axioms Blue.Props.C05.gc_factors_through_decisions
#print axioms Blue.Props.C05.any_is_union
#print axioms Blue.Props.C05.all_is_intersection
#print axioms Blue.Props.C05.newest_value_kept
#print axioms Blue.Props.C05.newest_value_kept_every_policy
#print axioms Blue.Props.C05.tombstone_stays
#print axioms Blue.Props.C05.gcGroup_exhausted
#print axioms Blue.Props.C05.default_policy_exact
#print axioms Blue.Props.C05.retained_is_prefix
#print axioms Blue.Props.C05.key_keeps_head_or_goes
#print axioms Blue.Props.C05.only_tombstones_dropped
#print axioms Blue.Props.C05.ttl_inert_in_lsmtk
#print axioms Blue.Props.C05.policy_language_from_source
#print axioms Blue.Props.C05.children_perm_merged
#print axioms Blue.Props.C05.cut_flatten
#print axioms Blue.Props.C05.compaction_conserves
#print axioms Blue.Props.C05.merged_is_M
#print axioms Blue.Props.C05.pipeline_conserves
#print axioms Blue.Props.C05.family_of_tables
#print axioms Blue.Props.C05.merged_is_sorted_union
#print axioms Blue.Props.C05.pipeline_conserves_tables
#print axioms Blue.Props.C05.entryLt_not_strictTotal
#print axioms Blue.Props.C05.entryLtFull_strictTotal
#print axioms Blue.Props.C05.merged_entries
#print axioms Blue.Props.C05.pipeline_conserves_entries
#print axioms Blue.Props.C05.pipeline_reads_unchanged
#print axioms Blue.Props.C05.compaction_reads_unchanged
#print axioms Blue.Props.C05.gc_preserves_newer_above
#print axioms Blue.Props.C05.gc_step_preserves_inv
#print axioms Blue.Props.C05.gc_step_reads
#print axioms Blue.Props.C05.gc_step_load_unchanged
#print axioms Blue.Props.C05.history_refines_gc
#print axioms Blue.Props.C05.history_load_gc
#print axioms Blue.Props.C05.history_put_survives_gc
#print axioms Blue.Props.C05.history_invariant_gc
#print axioms Blue.Props.C05.gcValid_of_valid
#print axioms Blue.Props.C05.gcP_meets_obligation
#print axioms Blue.Props.C05.obligations_of_collector
#print axioms Blue.Props.C05.last_level_has_nothing_below
#print axioms Blue.Props.C05.gc_step_from_selector
#print axioms Blue.Props.C05.gcP_eq_spec
#print axioms Blue.Props.C05.gcP_eq_filter
#print axioms Blue.Props.C05.gc_keeps_iff_spec
#print axioms Blue.Props.C05.gc_discards_only_what_policy_permits
#print axioms Blue.Props.C05.spec_is_prefix_closed
#print axioms Blue.Props.C05.gc_keeps_current_value_iff
#print axioms Blue.Props.C05.selectsNewest_keeps_newest
#print axioms Blue.Props.C05.versions_n_keeps_exactly
#print axioms Blue.Props.C05.ttl_keeps_exactly
#print axioms Blue.Props.C05.step_flag_newest_sound
#print axioms Blue.Props.C05.step_flag_sub_sound
