import Blue.Proofs.Wire
import Blue.Proofs.Proto
import Blue.Proofs.ProtoMsg
import Blue.Proofs.Varint
import Blue.Proofs.ProtoSz
import Blue.Proofs.ProtoTagSz
import Blue.Proofs.ProtoUnknown
import Blue.Proofs.ProtoFuel
import Blue.Proofs.ProtoDeep
import Blue.Proofs.ProtoPath
import Blue.Proofs.ProtoNonCanon
import Blue.Proofs.ProtoPanic
import Blue.Proofs.EntryCodec
import Blue.Proofs.ConstsTieProto
/-! # Property C15 — the protobuf codec round-trips all values and decodes arbitrary bytes safely

Property theorems only (helper lemmas live in `Blue/Proofs/{Wire,Proto,ProtoMsg,ProtoUnknown,ProtoDeep,
ProtoPath,ProtoNonCanon,ProtoPanic}.lean`).

Models: `Blue/Model/Wire.lean` (buffertk `v64` with the ten-byte limit and the dropped high bits of
a ten-byte varint, prototk `Tag` / `FieldNumber` / `WireType`, `FieldIterator::next` with the slice
cut at the canonical varint size), `Blue/Model/Proto.lean` (flat schema interpreter, the design-phase
theorem) and `Blue/Model/ProtoMsg.lean` (the full schema language: every `field_types::*`, plain /
`Option` / `Vec` fields, nested structs, enums with unit / tuple / named variants, `Result`, with
the error class of every failing decode), `Blue/Model/Varint.lean` (the TWO varint decoders of the
code — `unpack_slow` and the unrolled dispatch over `unpack_size::<SZ>` — operation for operation
on checked `u64` arithmetic, with the ten-byte boundary that selects between them) and
`Blue/Model/ProtoSz.lean` (`pack_sz` as the sum the code adds up, not as the length of the packing),
`Blue/Model/ProtoPanic.lean` (the message decoder written again over value / error / PANIC: slice
indexing, checked `usize` arithmetic, the code's varint decoders, the generated loop in the code's
order; proved equal to `ProtoMsg.unpackMsg` and panic-free).  The correspondence check runs the real
`#[derive(Message)]` code of a family of 17 types against `ProtoMsg` byte for byte, and the flat
interpreter side by side on the flat members of the family.

Fuel.  `unpackMsg` / `packMsg` / `packSzMsg` / `WfMsg` take a fuel for the nesting of message types
and return `bufferTooShort` / `[]` / `0` / `False` when it runs out — results that also occur
genuinely.  `fuel_stability` shows that every fuel reaching `Msg.depth m` (a structural function of
the message type) gives the same functions; `decode` / `encode` / `encodeSz` / `Wf` are the
interpreters at that fuel.  The theorems named `…_decode` / `…_any_fuel` are stated on them; the
older theorems with a bare fuel `f` hold at every `f`, including fuels below the depth where both
sides may be the exhaustion result — read them through `fuel_stability`.

Model facts (not results about the code).  `decode_total` is a property of the type `Except`:
the interpreter `unpackMsg` has no panic outcome.  Message-level panic-freedom is the theorem
`unpackP_never_panics` about `unpackP`, a second, hand-written rendering of the decoder in which
every slice index, every `usize` addition / subtraction and the varint decoders can panic;
`unpackP_eq_unpack` proves it equal to `unpackMsg` (the interpreter the correspondence check runs
against the code) on every buffer of bytes shorter than 2^63.  The list of operations that can
panic was read off the source by hand (prototk/src/lib.rs `FieldIterator::next`, field_types.rs,
buffertk/src/lib.rs `Unpacker` / fixed-width / `Result`), not extracted; allocation (`Vec::push`,
`String`) and `std::str::from_utf8` are taken not to panic; the no-panic oracle and the
hostile-stream correspondence remain the observation on the code itself.

Unknown fields.  `unknown_fields_skipped_any_path` covers a path of frames of every kind the schema
language has (struct field of any cardinality, tuple-variant payload, named-variant body, `Result`
arm) down to the body of a struct or of a named variant.  The exception to "unknown fields are
skipped" is an enum's own field: a (number, wire type) no variant takes is `unknown-discriminant`
(`unknown_variant_rejected`); a unit variant's frame is dropped unread (`unit_variant_frame_ignored`).

Non-minimal varints, by position: value of a varint struct field — rejected
(`noncanonical_message_rejected`); length prefix of a length-delimited struct field — rejected
(`nonminimal_length_prefix_rejected`, `buffer-too-short` or `varint-overflow`); tag of a struct field,
everything an enum or a `Result` reads (payload varint, length prefix, discriminant) — accepted with
the canonical value (`struct_nonminimal_tag_accepted`, `enum_payload_nonminimal_varint_accepted`,
`enum_nonminimal_length_prefix_accepted`, `result_nonminimal_accepted`).

The second conjunct of `tag_roundtrip` restates the definition of `encTag`; there is
no Lean specification of the protocol-buffers wire encoding independent of the model encoder
(the independent encoder is the harness oracle). -/
namespace Blue.Props.C15
open Blue.Wire Blue.ProtoMsg

/-! ## constants of the wire format, regenerated from the Rust source on every run -/

/-- wire-type numbers 0, 1, 2, 5 and nothing else -/
theorem wire_types_from_source :
    [WT.varint, WT.sixtyFour, WT.lengthDelimited, WT.thirtyTwo].map WT.bits = Blue.Generated.protoWireTypeBits
    ∧ Blue.Generated.protoWireTypeBitsNew = Blue.Generated.protoWireTypeBits
    ∧ (List.range 8).map (fun b => (WT.ofBits b).map WT.bits)
        = (List.range 8).map (fun b => if b ∈ Blue.Generated.protoWireTypeBitsNew then some b else none) :=
  Blue.ConstsTie.proto_wire_types

/-- field numbers 1 … 2^29-1 without 19000 … 19999, in the library and in the derive macro -/
theorem field_number_limits_from_source (f : Nat) :
    validFieldNumber f = (decide (Blue.Generated.protoFirstFieldNumber ≤ f) && decide (f ≤ Blue.Generated.protoLastFieldNumber)
      && !(decide (Blue.Generated.protoFirstReservedFieldNumber ≤ f) && decide (f ≤ Blue.Generated.protoLastReservedFieldNumber)))
    ∧ Blue.Generated.protoLastFieldNumber = 2 ^ 29 - 1
    ∧ Blue.Generated.protoDeriveLastFieldNumber = Blue.Generated.protoLastFieldNumber
    ∧ Blue.Generated.protoDeriveFirstReservedFieldNumber = Blue.Generated.protoFirstReservedFieldNumber
    ∧ Blue.Generated.protoDeriveLastReservedFieldNumber = Blue.Generated.protoLastReservedFieldNumber :=
  ⟨Blue.ConstsTie.proto_valid_field_number f, Blue.ConstsTie.proto_field_number_limits.2.2.1,
   Blue.ConstsTie.proto_field_number_limits.2.2.2.2.2.2.1, Blue.ConstsTie.proto_field_number_limits.2.2.2.2.2.2.2.1,
   Blue.ConstsTie.proto_field_number_limits.2.2.2.2.2.2.2.2⟩

/-- every field type's declared wire type is the protobuf one (fails on the unrepaired tree, where
    `float` declares the 64-bit wire type while writing four bytes: D-C15-float) -/
theorem field_wire_types_from_source :
    ([Scalar.int32, .int64, .uint32, .uint64, .sint32, .sint64, .bool, .fixed32, .fixed64, .sfixed32, .sfixed64,
      .float, .double, .bytes, .bytesN 16, .bytesN 32, .bytesN 64, .string].map (·.wt.bits)) ++ [(Ty.msg (.struct [])).wt.bits]
      = Blue.Generated.protoFieldWireTypes := Blue.ConstsTie.proto_field_wire_types

/-- the three behaviours the model takes from the *repaired* source: `message<M>::unpack` does not
    assert (D-21), a named variant skips unknown fields (D-C15-named), varints stop at ten bytes,
    `Result` uses tags 10 / 18 -/
theorem decoder_switches_from_source :
    Blue.Generated.protoMessageUnpackAsserts = 0
    ∧ namedVariantStrict = decide (Blue.Generated.protoNamedVariantRejectsUnknown = 1)
    ∧ (∀ bs, decVarint bs = decVarintAux Blue.Generated.varintMaxBytes 0 0 bs)
    ∧ Blue.Generated.resultTags = [10, 18] :=
  ⟨Blue.ConstsTie.proto_message_unpack_does_not_assert, Blue.ConstsTie.proto_named_variant_strict,
   Blue.ConstsTie.varint_max_bytes, Blue.ConstsTie.result_tags⟩

/-! ## varints, zig-zag, fixed width, tags -/

/-- every `u64` round-trips through `v64`, whatever follows it; `pack_sz` is the number of bytes
    written, at most ten -/
theorem varint_roundtrip (x : Nat) (hx : x < U64) (rest : List Nat) :
    decVarint (encVarint x ++ rest) = some (x, rest)
    ∧ varintSz x = (encVarint x).length ∧ (encVarint x).length ≤ 10 ∧ (∀ b ∈ encVarint x, b < 256) :=
  ⟨decVarint_enc x hx rest, varintSz_eq x hx, encVarint_length_le_ten x hx, encVarint_bytes x⟩

/-- what `v64::unpack` does beyond inverting `pack`: non-minimal encodings are accepted, an
    eleventh byte is not, and bits 1-6 of a tenth byte are dropped -/
theorem varint_decoder_quirks :
    decVarint [0x80, 0x00] = some (0, [])
    ∧ decVarint [0x80, 0x80, 0x80, 0x80, 0x80, 0x80, 0x80, 0x80, 0x80, 0x80, 0x01] = none
    ∧ decVarint [0xff, 0xff, 0xff, 0xff, 0xff, 0xff, 0xff, 0xff, 0xff, 0x7f] = some (18446744073709551615, [])
    ∧ decVarint [0x80, 0x80, 0x80, 0x80, 0x80, 0x80, 0x80, 0x80, 0x80, 0x02] = some (0, []) := by decide

/-- zig-zag is a bijection between `i64` and `u64` -/
theorem zigzag_roundtrip :
    (∀ i : Int, unzigzag (zigzag i) = i) ∧ (∀ n : Nat, zigzag (unzigzag n) = n)
    ∧ (∀ i : Int, -(P63 : Int) ≤ i → i < (P63 : Int) → zigzag i < U64) :=
  ⟨unzigzag_zigzag, zigzag_unzigzag, zigzag_lt⟩

/-- little-endian fixed-width integers round-trip -/
theorem fixed_roundtrip (k v : Nat) (rest : List Nat) (hv : v < 256 ^ k) :
    decFixed k (Blue.Proto.leBytes k v ++ rest) = .ok (v, rest) ∧ (Blue.Proto.leBytes k v).length = k :=
  ⟨decFixed_le k v rest hv, Blue.Proto.leBytes_length k v⟩

/-- every field type's unpacker inverts its packer on every value of its Rust type (signed and
    unsigned 32 / 64-bit varints, zig-zag, bool, fixed, float bit patterns, bytes, fixed-size bytes,
    UTF-8 strings), whatever follows -/
theorem scalar_roundtrip (s : Scalar) (v : Val) (h : WfScalar s v) (rest : List Nat) :
    decScalar s (encScalar s v ++ rest) = .ok (v, rest) := decScalar_enc s v h rest

/-- tags round-trip.  (The second conjunct is a MODEL FACT: it restates the definition of `encTag`
    — tag = field number << 3 | wire type as a varint — and is kept for the reader, not as a
    result.) -/
theorem tag_roundtrip (t : Tag) (ht : validFieldNumber t.num = true) (rest : List Nat) :
    decTagE (encTag t ++ rest) = .ok (t, rest) ∧ encTag t = encVarint (t.num * 8 + t.wt.bits) :=
  ⟨decTagE_enc t ht rest, rfl⟩

/-- `Tag::pack_sz` in closed form: a tag with a valid field number takes 1, 2, 3, 4 or 5 bytes
    according to the field number's range (boundaries 2^4, 2^11, 2^18, 2^25), and that is the number
    of bytes `Tag::pack` writes.  (The correspondence run drives the real `Tag` at every power of two
    ±1 and at seeded field numbers of every bit length.) -/
theorem tag_size_classes (t : Tag) (ht : validFieldNumber t.num = true) :
    szTag t = (if t.num < 2 ^ 4 then 1 else if t.num < 2 ^ 11 then 2 else if t.num < 2 ^ 18 then 3
      else if t.num < 2 ^ 25 then 4 else 5)
    ∧ szTag t = (encTag t).length := szTag_classes t ht

/-- non-vacuity: both sides of the last boundary, and the largest field number -/
example : validFieldNumber 33554431 = true ∧ szTag ⟨33554431, .varint⟩ = 4
    ∧ validFieldNumber 33554432 = true ∧ szTag ⟨33554432, .lengthDelimited⟩ = 5
    ∧ szTag ⟨536870911, .thirtyTwo⟩ = 5 := by decide

/-- the three rejection classes of `Tag::unpack` -/
theorem tag_rejections (num w : Nat) (rest : List Nat) :
    (w < 8 → num * 8 + w ≤ U32MAX → validFieldNumber num = false →
      decTagE (encVarint (num * 8 + w) ++ rest) = .error .invalidFieldNumber)
    ∧ (validFieldNumber num = true → (w = 3 ∨ w = 4 ∨ w = 6 ∨ w = 7) →
      decTagE (encVarint (num * 8 + w) ++ rest) = .error .unhandledWireType)
    ∧ (∀ t, U32MAX < t → t < U64 → decTagE (encVarint t ++ rest) = .error .tagTooLarge) :=
  ⟨fun hw hle hbad => decTagE_invalid_number num w hw hle hbad rest,
   fun hv hw => decTagE_bad_wire_type num w hv hw rest,
   fun t h1 h2 => decTagE_too_large t h1 h2 rest⟩

/-- which field numbers are rejected -/
theorem field_number_rejections :
    validFieldNumber 0 = false ∧ validFieldNumber 536870912 = false ∧ validFieldNumber 19000 = false
    ∧ validFieldNumber 19999 = false ∧ validFieldNumber 1 = true ∧ validFieldNumber 536870911 = true
    ∧ validFieldNumber 18999 = true ∧ validFieldNumber 20000 = true := by decide

/-! ## messages -/

/-- `message_roundtrip`: for every message type of the schema language and every value of it
    (`WfMsg`: numbers valid and distinct, leaves in range, frames below 2^64 bytes), unpacking the
    packing returns the value and consumes everything -/
theorem message_roundtrip (f : Nat) (m : Msg) (v : Val) (h : WfMsg f m v) :
    unpackMsg f m (packMsg f m v) = .ok (v, []) := unpack_pack f m v h

/-- an enum or a `Result` consumes exactly its own field and hands back what follows -/
theorem enum_returns_rest (f : Nat) (m : Msg) (v : Val) (h : WfMsg f m v) (rest : List Nat)
    (hm : ∀ fs, m ≠ .struct fs) : unpackMsg f m (packMsg f m v ++ rest) = .ok (v, rest) :=
  unpack_pack_rest f m v h rest hm

/-- the design-phase theorem for flat schemas (varint / bytes / fixed32 / fixed64 fields), kept:
    the driver runs this interpreter next to the full one on the flat types of the family -/
theorem flat_message_roundtrip (S : List Blue.Proto.Field) (vs : List Blue.Proto.Val) (h : Blue.Proto.Wf S vs)
    (hnd : (S.map (·.num)).Nodup) : Blue.Proto.unpack S (Blue.Proto.pack S vs) = some vs :=
  Blue.Proto.unpack_pack S vs h hnd

/-- the hand-written instance the block and log proofs use (sst `KeyValueEntry`) -/
theorem entry_message_instance (e : Blue.EntryCodec.Entry) (h : e.Wf) (rest : List Nat) :
    Blue.EntryCodec.decEntry (Blue.EntryCodec.encEntry e ++ rest) = some (e, rest) :=
  Blue.EntryCodec.decEntry_enc e h rest

/-- `unknown_fields_skipped`, one step: a field matching no arm leaves the message being built (or
    the error already found) unchanged, whatever its payload -/
theorem unknown_field_step (rec : Msg → List Nat → R (Val × List Nat)) (fs : List Field)
    (acc : R (List Val)) (fld : Tag × List Nat) (h : Unknown fs fld.1) :
    mergeStep rec false fs acc fld = acc := mergeStep_unknown rec fs acc fld h

/-- `unknown_fields_skipped`: a well-formed field the reader has no arm for (an unknown number, or
    a known number with another wire type), inserted anywhere between the fields of a struct,
    does not change what the struct unpacks to — value or error -/
theorem unknown_fields_skipped (f : Nat) (fs : List Field) (es1 es2 : List (Nat × Ty × Val)) (u : Nat × Ty × Val)
    (h1 : ∀ e ∈ es1, WfEntry (WfMsg f) (packMsg f) e) (h2 : ∀ e ∈ es2, WfEntry (WfMsg f) (packMsg f) e)
    (hu : WfEntry (WfMsg f) (packMsg f) u) (hunk : Unknown fs ⟨u.1, u.2.1.wt⟩) :
    unpackMsg (f + 1) (.struct fs) ((es1 ++ u :: es2).flatMap (packEntry (packMsg f)))
      = unpackMsg (f + 1) (.struct fs) ((es1 ++ es2).flatMap (packEntry (packMsg f))) :=
  unpackMsg_unknown f fs es1 es2 u h1 h2 hu hunk

/-- the flat version of the design phase -/
theorem flat_unknown_field_step (schema : List Blue.Proto.Field) (acc : List Blue.Proto.Val) (fld : Tag × List Nat)
    (h : ∀ f ∈ schema, ¬ (f.num = fld.1.num ∧ f.ty.wt = fld.1.wt)) :
    Blue.Proto.mergeInto schema acc fld = some acc := Blue.Proto.mergeInto_unknown schema acc fld h

/-- `noncanonical_field_rejected`, the step on the field type's unpacker (varint wire type): a
    non-minimally encoded varint value reaches `decScalar` truncated and is rejected.  The statement
    about the whole message is `noncanonical_message_rejected` below. -/
theorem noncanonical_field_rejected (buf : List Nat) (x : Nat) (rest : List Nat)
    (h : decVarint buf = some (x, rest)) (hn : (encVarint x).length + rest.length < buf.length)
    (s : Scalar) (hs : s.wt = .varint) :
    decScalar s (buf.take (encVarint x).length) = .error .varintOverflow :=
  Blue.ProtoMsg.noncanonical_field_rejected buf x rest h hn s hs

/-- `decode_total` — a MODEL FACT, not a result about the code: it holds of every term of type
    `Except` and says only that the message interpreter is a total function without a panic
    outcome.  Message-level panic-freedom is `unpackP_never_panics` below, about the decoder with
    a panic outcome (`Blue/Model/ProtoPanic.lean`), which `unpackP_eq_unpack` ties to this one. -/
theorem decode_total (f : Nat) (m : Msg) (bs : List Nat) :
    (∃ v rest, unpackMsg f m bs = .ok (v, rest)) ∨ (∃ e, unpackMsg f m bs = .error e) := unpack_total f m bs

/-- D-21 as the repaired code behaves: a nested enum followed by another byte inside its
    length-delimited frame is an error (`wrong-length`); the unrepaired code asserts.  Input:
    tag(10, length-delimited), length 3, [unit variant 1: `0a 00`], trailing `00`. -/
theorem nested_enum_trailing_bytes_is_an_error :
    unpackMsg 3 (.enum [.tuple 10 (.msg (.enum [.unit 1] (.variant 0 (.struct []))))] (.variant 0 (.struct [])))
      [0x52, 0x03, 0x0a, 0x00, 0x00] = .error .wrongLength := by rfl

/-! ## the two varint decoders of the code (fast path = slow path) -/

section Varint
open Blue.Varint

/-- the shape of `<v64 as Unpackable>::unpack` the model uses — slow decoder below ten bytes, its
    cap `min(len, 10)`, the ten (index, size) arms, the `< 128` thresholds — and the literals of
    `unpack_slow` / `unpack_size` are those of the source -/
theorem varint_decoders_from_source :
    Blue.ConstsTie.varintSourceShape = shape
    ∧ Blue.Generated.varintSlowCap.length = 2
    ∧ Blue.Generated.varintFastArmIndices.length = Blue.Generated.varintFastArmSizes.length
    ∧ Blue.Generated.varintFastArmThresholds = Blue.Generated.varintFastArmIndices.map (fun _ => CONT)
    ∧ Blue.Generated.varintCodeLiterals = [CONT, LOW, STEP, CONT, LOW, STEP, 0, CONT, STEP] :=
  ⟨Blue.ConstsTie.varint_shape.1, Blue.ConstsTie.varint_shape.2.1, Blue.ConstsTie.varint_shape.2.2.1,
   Blue.ConstsTie.varint_shape.2.2.2, Blue.ConstsTie.varint_code_literals⟩

/-- `varint_unpack_is_decVarint`, general boundary: whatever length `m ≥ 10` the code sends to the
    slow decoder, `unpack` never panics and computes `decVarint`; the overflow error carries
    `min(len, 10)` from the slow decoder and `len` from the dispatch.  The hypothesis is what the
    `buf[9]` of the last arm needs; the source's boundary discharges it (`10 ≤ varintFastMinLen`,
    the example below), the seeded `buf.len() < 9` does not. -/
theorem varint_unpack_any_boundary (m : Nat) (hm : 10 ≤ m) (bs : List Nat) (hb : Bytes bs) :
    unpackWith ⟨m, (10, 10), arms10⟩ bs
      = ofDec (if bs.length < m then min bs.length 10 else bs.length) (decVarint bs) :=
  unpackWith_eq_decVarint m hm bs hb

/-- `varint_unpack_is_decVarint`: `v64::unpack` with the shape read from the source — both
    decoders, selected at ten bytes — is the model decoder `decVarint` on every buffer, returns the
    buffer length in its overflow error, and never panics -/
theorem varint_unpack_is_decVarint (bs : List Nat) (hb : Bytes bs) :
    unpackWith Blue.ConstsTie.varintSourceShape bs = ofDec bs.length (decVarint bs)
    ∧ unpackWith Blue.ConstsTie.varintSourceShape bs ≠ .panic := by
  rw [Blue.ConstsTie.varint_shape.1]
  exact ⟨unpack_eq_decVarint bs hb, unpack_never_panics bs hb⟩

/-- `varint_fast_eq_slow`: on every buffer of at least ten bytes — where the code takes the
    unrolled dispatch — `unpack_slow` as written returns the same value and the same remainder and
    fails on the same buffers; both are `decVarint`, neither panics; the two errors differ in
    their `bytes` field only (`len` against `10`) -/
theorem varint_fast_eq_slow (bs : List Nat) (hb : Bytes bs) (hlen : 10 ≤ bs.length) :
    (∀ v rest, dispatch arms10 bs = .ok v rest ↔ unpackSlow (10, 10) bs = .ok v rest)
    ∧ ((∃ n, dispatch arms10 bs = .err n) ↔ (∃ n, unpackSlow (10, 10) bs = .err n))
    ∧ dispatch arms10 bs ≠ .panic ∧ unpackSlow (10, 10) bs ≠ .panic
    ∧ dispatch arms10 bs = ofDec bs.length (decVarint bs)
    ∧ unpackSlow (10, 10) bs = ofDec 10 (decVarint bs) := by
  obtain ⟨h1, h2⟩ := fast_eq_slow bs hb hlen
  refine ⟨?_, ?_, ?_, ?_, h1, h2⟩
  · intro v rest; rw [h1, h2]; exact ofDec_ok_iff _ _ _ _ _
  · rw [h1, h2]; cases decVarint bs <;> simp [ofDec]
  · rw [h1]; exact ofDec_ne_panic _ _
  · rw [h2]; exact ofDec_ne_panic _ _

/-- `unpack_slow` as written is `decVarint` on buffers of every length (below ten bytes this is
    the code path taken) -/
theorem varint_slow_is_decVarint (bs : List Nat) (hb : Bytes bs) :
    unpackSlow (10, 10) bs = ofDec (min bs.length 10) (decVarint bs) := unpackSlow_eq_decVarint bs hb

/-- `pack` then `unpack` (through whichever decoder the length selects) returns every `u64` and
    what followed it -/
theorem varint_pack_unpack (x : Nat) (hx : x < U64) (rest : List Nat) (hr : Bytes rest) :
    unpack (encVarint x ++ rest) = .ok x rest := unpack_pack x hx rest hr

/-- `v64::pack` as written (each byte stored without its continuation bit, `|= 128` when the next
    byte turns out to be needed) on a buffer of `pack_sz` bytes of any content stays within the
    buffer and writes the model's `encVarint`; unpacking those bytes returns the value -/
theorem varint_pack_as_written (x : Nat) (hx : x < U64) (out : List Nat) (hl : out.length = varintSz x)
    (rest : List Nat) (hr : Bytes rest) :
    pack x out = some (encVarint x) ∧ unpack (encVarint x ++ rest) = .ok x rest :=
  ⟨pack_eq_encVarint x out (by rw [hl, varintSz_eq x hx]), unpack_pack x hx rest hr⟩

/-- the literals of `v64::pack_sz` and `v64::pack` are those of the source -/
theorem varint_encoder_from_source :
    Blue.Generated.varintPackLiterals = [1, STEP, STEP, 1, LOW, STEP, 1, CONT, LOW, 1, STEP] ∧ 2 ^ STEP = 128 :=
  Blue.ConstsTie.varint_pack_literals

/-- the boundary is needed: were the slow decoder taken only below `m < 10` bytes, a buffer of `m`
    continuation bytes would index out of range in the dispatch (`m = 9` is the seeded change) -/
theorem varint_short_boundary_panics (m : Nat) (hm : m < 10) :
    unpackWith ⟨m, (10, 10), arms10⟩ (List.replicate m 128) = .panic := short_boundary_panics m hm

end Varint

/-! ## `pack_sz` -/

/-- `pack_sz_is_length`: for every message type of the schema language and every value of it, the
    size the `pack_sz` implementations add up (tag size + payload size, length prefixes from the
    inner `pack_sz`) is the number of bytes `pack` writes -/
theorem pack_sz_is_length (f : Nat) (m : Msg) (v : Val) (h : WfMsg f m v) :
    packSzMsg f m v = (packMsg f m v).length := packSz_eq_length f m v h

/-- the same for one value of a field type, and for a tag -/
theorem scalar_and_tag_pack_sz (s : Scalar) (v : Val) (h : WfScalar s v) (t : Tag) (ht : validFieldNumber t.num = true) :
    szScalar s v = (encScalar s v).length ∧ szTag t = (encTag t).length :=
  ⟨szScalar_eq s v h, szTag_eq t ht⟩

/-! ## unknown fields at any field boundary of any buffer -/

/-- `unknown_fields_skipped_anywhere`: `pre` is ANY byte string the field iterator reads to its end
    as complete fields (their payloads may be malformed, non-canonical or unknown themselves),
    `ub` any byte string it reads as exactly one field whose (number, wire type) the struct has no
    arm for, `suf` ANY byte string (truncated, hostile).  The struct unpacks `pre ++ ub ++ suf`
    to what it unpacks `pre ++ suf` to — value or error. -/
theorem unknown_fields_skipped_anywhere (f : Nat) (fs : List Field) (pre ub suf : List Nat) (t : Tag) (sl : List Nat)
    (hpre : Blue.Varint.Bytes pre) (hub : Blue.Varint.Bytes ub)
    (hclean : (fieldsE (pre.length + 1) pre).2 = none)
    (hu : fieldStepE ub = .ok ((t, sl), [])) (hunk : Unknown fs t) :
    unpackMsg (f + 1) (.struct fs) (pre ++ ub ++ suf) = unpackMsg (f + 1) (.struct fs) (pre ++ suf) :=
  unpackMsg_unknown_anywhere f fs pre ub suf t sl hpre hub hclean hu hunk

/-- the fact behind it: the field iterator reads a field from the bytes of the field alone -/
theorem field_read_is_local (bs : List Nat) (hb : Blue.Varint.Bytes bs) (fld : Tag × List Nat) (rest x : List Nat)
    (h : fieldStepE bs = .ok (fld, rest)) : fieldStepE (bs ++ x) = .ok (fld, rest ++ x) :=
  fieldStepE_append bs hb fld rest x h

/-- `unknown_fields_skipped_nested`: the same inside the frame of a nested struct (ONE level) that
    sits at any field boundary of an outer struct, with anything after it; any number of levels is
    `unknown_fields_skipped_any_depth`, frames of every kind `unknown_fields_skipped_any_path` -/
theorem unknown_fields_skipped_nested (f : Nat) (fs : List Field) (n : Nat) (opre osuf pre ub suf : List Nat)
    (t : Tag) (sl : List Nat)
    (hn : validFieldNumber n = true) (hopre : Blue.Varint.Bytes opre)
    (hoclean : (fieldsE (opre.length + 1) opre).2 = none)
    (hl : (pre ++ ub ++ suf).length < U64)
    (hnested : ∀ g ∈ fs, g.num = n ∧ g.ty.wt = .lengthDelimited → ∃ gs, g.ty = .msg (.struct gs) ∧ Unknown gs t)
    (hpre : Blue.Varint.Bytes pre) (hub : Blue.Varint.Bytes ub) (hclean : (fieldsE (pre.length + 1) pre).2 = none)
    (hu : fieldStepE ub = .ok ((t, sl), [])) :
    unpackMsg (f + 2) (.struct fs) (opre ++ (encTag ⟨n, .lengthDelimited⟩ ++ encBytes (pre ++ ub ++ suf) ++ osuf))
      = unpackMsg (f + 2) (.struct fs) (opre ++ (encTag ⟨n, .lengthDelimited⟩ ++ encBytes (pre ++ suf) ++ osuf)) :=
  unpackMsg_unknown_nested f fs n opre osuf pre ub suf t sl hn hopre hoclean hl hnested hpre hub hclean hu

/-- one level of congruence: two buffers that differ only inside the frame of one length-delimited
    field (at a field boundary of the outer struct) unpack alike whenever every arm taking that
    field unpacks the two frames alike; iterated along a path in `nested_frame_congruence_path` -/
theorem nested_frame_congruence (f : Nat) (fs : List Field) (n : Nat) (opre inner1 inner2 osuf : List Nat)
    (hn : validFieldNumber n = true) (hopre : Blue.Varint.Bytes opre)
    (hclean : (fieldsE (opre.length + 1) opre).2 = none)
    (hl1 : inner1.length < U64) (hl2 : inner2.length < U64)
    (hinner : ∀ g ∈ fs, g.num = n ∧ g.ty.wt = .lengthDelimited →
      decTyWith (unpackMsg (f + 1)) g.ty (encBytes inner1) = decTyWith (unpackMsg (f + 1)) g.ty (encBytes inner2)) :
    unpackMsg (f + 2) (.struct fs) (opre ++ (encTag ⟨n, .lengthDelimited⟩ ++ encBytes inner1 ++ osuf))
      = unpackMsg (f + 2) (.struct fs) (opre ++ (encTag ⟨n, .lengthDelimited⟩ ++ encBytes inner2 ++ osuf)) :=
  nested_frame_congr f fs n opre inner1 inner2 osuf hn hopre hclean hl1 hl2 hinner

/-- `unknown_fields_skipped_named_variant`: the same in the body of a named enum variant (it skips
    unknown fields by the same loop — `namedVariantStrict = false`, tied to the source in
    `decoder_switches_from_source`): an unknown field at any field boundary of any body,
    anything after the enum's field -/
theorem unknown_fields_skipped_named_variant (f : Nat) (vars : List Variant) (d : Val) (n i n' : Nat) (fs : List Field)
    (pre ub suf rest : List Nat) (t : Tag) (sl : List Nat)
    (hn : validFieldNumber n = true)
    (hfind : findVariant vars ⟨n, .lengthDelimited⟩ 0 = some (i, .named n' fs))
    (hl : (pre ++ ub ++ suf).length < U64)
    (hpre : Blue.Varint.Bytes pre) (hub : Blue.Varint.Bytes ub) (hclean : (fieldsE (pre.length + 1) pre).2 = none)
    (hu : fieldStepE ub = .ok ((t, sl), [])) (hunk : Unknown fs t) :
    unpackMsg (f + 1) (.enum vars d) (encTag ⟨n, .lengthDelimited⟩ ++ encBytes (pre ++ ub ++ suf) ++ rest)
      = unpackMsg (f + 1) (.enum vars d) (encTag ⟨n, .lengthDelimited⟩ ++ encBytes (pre ++ suf) ++ rest) :=
  unpackMsg_unknown_named f vars d n i n' fs pre ub suf rest t sl hn hfind hl hpre hub hclean hu hunk

/-! ## fuel: every fuel that reaches the depth of the message type is as good as any other -/

/-- `fuel_stability`: at two fuels `f`, `g` that both reach `m.depth` — the number of message levels
    on the longest chain of nested message types of `m`, a structural function of the type — the
    decoder, the encoder, the size query and well-formedness agree on every input.  So at such a
    fuel no answer is the exhaustion result of the interpreter (`bufferTooShort`, `[]`, `0`,
    `False`), and `decode m = unpackMsg m.depth m`, `encode`, `encodeSz`, `Wf` are the fuel-free
    reading.  (The inner fuels of the field iterator and of the UTF-8 validator are `length + 1`;
    `inner_fuels_suffice` shows them immaterial too.) -/
theorem fuel_stability (f g : Nat) (m : Msg) (hf : m.depth ≤ f) (hg : m.depth ≤ g) :
    (∀ bs, unpackMsg f m bs = unpackMsg g m bs ∧ unpackMsg f m bs = decode m bs)
    ∧ (∀ v, packMsg f m v = packMsg g m v ∧ packMsg f m v = encode m v)
    ∧ (∀ v, packSzMsg f m v = packSzMsg g m v ∧ packSzMsg f m v = encodeSz m v)
    ∧ (∀ v, (WfMsg f m v ↔ WfMsg g m v) ∧ (WfMsg f m v ↔ Wf m v))
    ∧ dfltMsg f m = dfltMsg g m :=
  ⟨fun bs => ⟨by rw [unpackMsg_fuel f m hf, unpackMsg_fuel g m hg], unpackMsg_fuel f m hf bs⟩,
   fun v => ⟨by rw [packMsg_fuel f m hf, packMsg_fuel g m hg], packMsg_fuel f m hf v⟩,
   fun v => ⟨by rw [packSzMsg_fuel f m hf, packSzMsg_fuel g m hg], packSzMsg_fuel f m hf v⟩,
   fun v => ⟨by rw [WfMsg_fuel f m hf, WfMsg_fuel g m hg], WfMsg_fuel f m hf v⟩,
   (unpack_dflt_fuel f g m hf hg).2⟩

/-- the two inner fuels (`fieldsE`, `validUtf8Aux`; both called with `length + 1`): any fuel above
    the length of the buffer gives the same answer, so their exhaustion answers
    (`bufferTooShort`, `false`) are never returned from `unpackFields` / `validUtf8` -/
theorem inner_fuels_suffice (n m : Nat) (bs : List Nat) (hn : bs.length < n) (hm : bs.length < m) :
    fieldsE n bs = fieldsE m bs ∧ validUtf8Aux n bs = validUtf8Aux m bs :=
  ⟨fieldsE_fuel n m bs hn hm, validUtf8Aux_fuel n m bs hn hm⟩

/-- `message_roundtrip` and `pack_sz_is_length` without fuel: for every value `v` of message type
    `m`, decoding the encoding returns `v` and consumes everything, with the decoder and the
    encoder at any two sufficient fuels; the size query reports the number of bytes written -/
theorem message_roundtrip_any_fuel (m : Msg) (v : Val) (h : Wf m v) :
    decode m (encode m v) = .ok (v, [])
    ∧ (∀ f g, m.depth ≤ f → m.depth ≤ g → unpackMsg f m (packMsg g m v) = .ok (v, []))
    ∧ encodeSz m v = (encode m v).length
    ∧ (∀ rest, (∀ fs, m ≠ .struct fs) → decode m (encode m v ++ rest) = .ok (v, rest)) :=
  ⟨decode_encode m v h, fun f g hf hg => unpack_pack_any_fuel f g m v hf hg h, encodeSz_eq_length m v h,
   fun rest hm => decode_encode_rest m v h rest hm⟩

/-- `unknown_fields_skipped_anywhere` on the fuel-free decoder -/
theorem unknown_fields_skipped_anywhere_decode (fs : List Field) (pre ub suf : List Nat) (t : Tag) (sl : List Nat)
    (hpre : Blue.Varint.Bytes pre) (hub : Blue.Varint.Bytes ub)
    (hclean : (fieldsE (pre.length + 1) pre).2 = none)
    (hu : fieldStepE ub = .ok ((t, sl), [])) (hunk : Unknown fs t) :
    decode (.struct fs) (pre ++ ub ++ suf) = decode (.struct fs) (pre ++ suf) :=
  decode_unknown_anywhere fs pre ub suf t sl hpre hub hclean hu hunk

/-- `unknown_fields_skipped` (entry form) on the fuel-free decoder; `f` is only the fuel at which
    the inserted and surrounding entries were packed -/
theorem unknown_fields_skipped_decode (f : Nat) (fs : List Field) (es1 es2 : List (Nat × Ty × Val)) (u : Nat × Ty × Val)
    (h1 : ∀ e ∈ es1, WfEntry (WfMsg f) (packMsg f) e) (h2 : ∀ e ∈ es2, WfEntry (WfMsg f) (packMsg f) e)
    (hu : WfEntry (WfMsg f) (packMsg f) u) (hunk : Unknown fs ⟨u.1, u.2.1.wt⟩)
    (hf : (Msg.struct fs).depth ≤ f + 1) :
    decode (.struct fs) ((es1 ++ u :: es2).flatMap (packEntry (packMsg f)))
      = decode (.struct fs) ((es1 ++ es2).flatMap (packEntry (packMsg f))) :=
  decode_unknown_entries f fs es1 es2 u h1 h2 hu hunk hf

/-- `unknown_fields_skipped_named_variant` on the fuel-free decoder -/
theorem unknown_fields_skipped_named_variant_decode (vars : List Variant) (d : Val) (n i n' : Nat) (fs : List Field)
    (pre ub suf rest : List Nat) (t : Tag) (sl : List Nat)
    (hn : validFieldNumber n = true)
    (hfind : findVariant vars ⟨n, .lengthDelimited⟩ 0 = some (i, .named n' fs))
    (hl : (pre ++ ub ++ suf).length < U64)
    (hpre : Blue.Varint.Bytes pre) (hub : Blue.Varint.Bytes ub) (hclean : (fieldsE (pre.length + 1) pre).2 = none)
    (hu : fieldStepE ub = .ok ((t, sl), [])) (hunk : Unknown fs t) :
    decode (.enum vars d) (encTag ⟨n, .lengthDelimited⟩ ++ encBytes (pre ++ ub ++ suf) ++ rest)
      = decode (.enum vars d) (encTag ⟨n, .lengthDelimited⟩ ++ encBytes (pre ++ suf) ++ rest) :=
  decode_unknown_named vars d n i n' fs pre ub suf rest t sl hn hfind hl hpre hub hclean hu hunk

/-! ## unknown fields at any nesting depth -/

/-- `nested_frame_congruence` iterated along a path `Ls` of nested struct frames of any length
    (`wrap Ls x` = the outermost buffer: at each level the bytes before the nested field, its tag,
    the length-prefixed next level, the bytes after; `PathTo P fs Ls` = at each level the field
    number is valid, the bytes before are complete fields, every arm of the struct taking
    (number, length-delimited) is a nested struct on which the rest of the path holds, and the
    innermost struct satisfies `P`): if every innermost struct unpacks `x1` and `x2` alike, the
    outermost struct unpacks the two buffers alike -/
theorem nested_frame_congruence_path (P : List Field → Prop) (x1 x2 : List Nat)
    (hP : ∀ gs, P gs → ∀ f, unpackMsg (f + 1) (.struct gs) x1 = unpackMsg (f + 1) (.struct gs) x2)
    (Ls : List Frame) (f : Nat) (fs : List Field) (hpath : PathTo P fs Ls)
    (h1 : (wrap Ls x1).length < U64) (h2 : (wrap Ls x2).length < U64) :
    unpackMsg (f + 1 + Ls.length) (.struct fs) (wrap Ls x1)
      = unpackMsg (f + 1 + Ls.length) (.struct fs) (wrap Ls x2) :=
  unpackMsg_congr_path P x1 x2 hP Ls f fs hpath h1 h2

/-- `unknown_fields_skipped_any_depth`: an unknown field inserted at any field boundary of the body
    of a struct nested `Ls.length` levels deep — every level sitting at any field boundary of the
    enclosing struct, with anything after it — changes nothing in what the outermost struct
    unpacks to (value or error); on the fuel-free decoder and at every fuel `f + 1 + depth of the
    path` -/
theorem unknown_fields_skipped_any_depth (t : Tag) (sl pre ub suf : List Nat)
    (hpre : Blue.Varint.Bytes pre) (hub : Blue.Varint.Bytes ub)
    (hclean : (fieldsE (pre.length + 1) pre).2 = none)
    (hu : fieldStepE ub = .ok ((t, sl), []))
    (Ls : List Frame) (fs : List Field) (hpath : PathTo (fun gs => Unknown gs t) fs Ls)
    (hl : (wrap Ls (pre ++ ub ++ suf)).length < U64) (hl' : (wrap Ls (pre ++ suf)).length < U64) :
    decode (.struct fs) (wrap Ls (pre ++ ub ++ suf)) = decode (.struct fs) (wrap Ls (pre ++ suf))
    ∧ ∀ f, unpackMsg (f + 1 + Ls.length) (.struct fs) (wrap Ls (pre ++ ub ++ suf))
        = unpackMsg (f + 1 + Ls.length) (.struct fs) (wrap Ls (pre ++ suf)) :=
  ⟨unpackMsg_unknown_path_decode t sl pre ub suf hpre hub hclean hu Ls fs hpath hl hl',
   fun f => unpackMsg_unknown_path t sl pre ub suf hpre hub hclean hu Ls f fs hpath hl hl'⟩

/-! ## a non-canonical varint field makes the whole struct fail -/

/-- `noncanonical_message_rejected`: `nb` is a varint the decoder reads completely but longer than
    the canonical encoding of its value `x`; it arrives as the payload of field `n` with the varint
    wire type at any field boundary of any buffer (`pre` complete fields, `suf` anything) and the
    struct has an arm for (`n`, varint).  `unpackMsg` rejects the buffer: with the error the
    fields before it already produced, else with `varint-overflow` — never a value.  (Struct
    fields only: an enum reads its payload from the whole remaining buffer and accepts
    non-minimal varints, `enum_payload_nonminimal_varint_accepted`; non-minimal LENGTH prefixes
    of struct fields are rejected too, `nonminimal_length_prefix_rejected`.) -/
theorem noncanonical_message_rejected (f : Nat) (fs : List Field) (n : Nat) (pre nb suf : List Nat) (x : Nat)
    (hn : validFieldNumber n = true) (hpre : Blue.Varint.Bytes pre)
    (hclean : (fieldsE (pre.length + 1) pre).2 = none)
    (hdec : decVarint nb = some (x, [])) (hnc : (encVarint x).length < nb.length)
    (harm : ∃ g ∈ fs, g.num = n ∧ g.ty.wt = .varint) :
    unpackMsg (f + 1) (.struct fs) (pre ++ (encTag ⟨n, .varint⟩ ++ nb ++ suf))
      = (match unpackMsg (f + 1) (.struct fs) pre with
        | .error e => .error e
        | .ok _ => .error .varintOverflow)
    ∧ ∃ e, decode (.struct fs) (pre ++ (encTag ⟨n, .varint⟩ ++ nb ++ suf)) = .error e :=
  ⟨unpackMsg_noncanonical_rejected f fs n pre nb suf x hn hpre hclean hdec hnc harm,
   decode_noncanonical_rejected fs n pre nb suf x hn hpre hclean hdec hnc harm⟩

/-! non-vacuity: concrete non-trivial values meet the hypotheses -/
example : (300 : Nat) < U64 := by decide
example : WfScalar .sint32 (.int (-2147483648)) := by simp [WfScalar, P31]
example : WfScalar .string (.bytes [0xf0, 0x9f, 0x98, 0x80]) := by
  refine ⟨by decide, by decide⟩
example : validFieldNumber (⟨536870911, .lengthDelimited⟩ : Tag).num = true := by decide
/-- a struct with a plain, an optional, a repeated and a nested-enum field -/
example : WfMsg 3
    (.struct [.mk 1 .one (.scalar .uint64), .mk 2 .opt (.scalar .sint32), .mk 3 .rep (.scalar .bool),
              .mk 4 .one (.msg (.enum [.unit 1, .tuple 2 (.scalar .uint64)] (.variant 0 (.struct []))))])
    (.struct [.int 300, .some (.int (-1)), .list [.int 1, .int 0], .variant 1 (.int 7)]) := by
  simp only [WfMsg, WfFieldsWith, WfSlotWith, WfTyWith, WfScalar, WfVariantWith, Field.num, Field.card, Field.ty]
  refine ⟨⟨by decide, by decide, by decide, by decide, by decide, ?_, by decide, ?_, trivial⟩, by decide⟩
  · intro x hx; simp at hx; rcases hx with rfl | rfl <;> simp
  · refine ⟨⟨.tuple 2 (.scalar .uint64), rfl, by decide, ?_, by decide⟩, ?_⟩
    · intro j w hj hw
      have : j = 0 := by omega
      subst this; simp at hw; subst hw; decide
    · simp [packMsg, packOne, encTyWith, encScalar, encTag, WT.bits, Ty.wt, Scalar.wt, encVarint_lt, U64]
example : Unknown [.mk 1 .one (.scalar .uint64)] ⟨1, .lengthDelimited⟩ := by
  intro f hf; simp at hf; subst hf; simp [Field.num, Field.ty, Ty.wt, Scalar.wt]
example : decVarint [0x80, 0x00, 0x07] = some (0, [0x07]) ∧ (encVarint 0).length + [0x07].length < [0x80, 0x00, 0x07].length := by
  refine ⟨by decide, ?_⟩; rw [encVarint_lt (by omega)]; decide

/-- the boundary hypothesis of `varint_unpack_any_boundary` is discharged by the source's literal -/
example : 10 ≤ Blue.Generated.varintFastMinLen := Blue.ConstsTie.varint_fast_min_len
example : [0xaa, 0xbb].length = varintSz 300 := by decide
/-- a ten-byte varint with the dropped bits of the tenth byte, followed by a byte: fast path -/
example : Blue.Varint.Bytes [0xff, 0xff, 0xff, 0xff, 0xff, 0xff, 0xff, 0xff, 0xff, 0x7f, 0x55]
    ∧ 10 ≤ [0xff, 0xff, 0xff, 0xff, 0xff, 0xff, 0xff, 0xff, 0xff, 0x7f, 0x55].length := by
  refine ⟨?_, by decide⟩
  intro b hb; simp at hb; omega
example : Blue.Varint.dispatch Blue.Varint.arms10 [0xff, 0xff, 0xff, 0xff, 0xff, 0xff, 0xff, 0xff, 0xff, 0x7f, 0x55]
    = .ok 18446744073709551615 [0x55] := by decide
/-- a non-canonical, malformed-payload prefix is still a sequence of complete fields: field 1
    (varint) with the non-minimal value `80 00`, then an unknown fixed32 field 9 — and an unknown
    length-delimited field 7 holding two bytes can be inserted after it -/
example : (fieldsE ([0x08, 0x80, 0x00, 0x4d, 1, 2, 3, 4].length + 1) [0x08, 0x80, 0x00, 0x4d, 1, 2, 3, 4]).2 = none
    ∧ fieldStepE [0x3a, 0x02, 0xaa, 0xbb] = .ok ((⟨7, .lengthDelimited⟩, [0x02, 0xaa, 0xbb]), [])
    ∧ Unknown [.mk 1 .one (.scalar .uint64)] ⟨7, .lengthDelimited⟩ := by
  refine ⟨by decide, ?_, ?_⟩
  · simp [fieldStepE, decTagE, decVarint, decVarintAux, validFieldNumber, WT.ofBits, U32MAX, U64, encVarint_lt]
  · intro f hf; simp at hf; subst hf; simp [Field.num]
/-- the hypothesis of the nested theorem: field 4 is a nested struct that does not know field 7 -/
example : ∀ g ∈ [Field.mk 1 .one (.scalar .uint64), .mk 4 .one (.msg (.struct [.mk 1 .one (.scalar .uint64)]))],
    g.num = 4 ∧ g.ty.wt = .lengthDelimited → ∃ gs, g.ty = .msg (.struct gs) ∧ Unknown gs ⟨7, .lengthDelimited⟩ := by
  intro g hg hc
  simp at hg
  rcases hg with rfl | rfl
  · simp [Field.num] at hc
  · refine ⟨_, rfl, ?_⟩
    intro f hf; simp at hf; subst hf; simp [Field.num]
example : findVariant [.unit 1, .named 2 [.mk 1 .one (.scalar .uint64)]] ⟨2, .lengthDelimited⟩ 0
    = some (1, .named 2 [.mk 1 .one (.scalar .uint64)]) := by simp [findVariant, Variant.num, Variant.wt]

/-! ### non-vacuity for the fuel, depth, path and witness items (statement audit) -/

/-- the exhaustion result is real below the depth and gone at it: a struct with a nested struct has
    depth 2; at fuel 1 a valid buffer is answered `bufferTooShort` (the interpreter ran out of
    fuel), on `decode` (fuel 2, and by `fuel_stability` every larger one) it is the value -/
example :
    (Msg.struct [.mk 2 .one (.msg (.struct [.mk 1 .one (.scalar .uint64)]))]).depth = 2
    ∧ unpackMsg 1 (.struct [.mk 2 .one (.msg (.struct [.mk 1 .one (.scalar .uint64)]))]) [0x12, 0x02, 0x08, 0x05]
        = .error .bufferTooShort
    ∧ decode (.struct [.mk 2 .one (.msg (.struct [.mk 1 .one (.scalar .uint64)]))]) [0x12, 0x02, 0x08, 0x05]
        = .ok (.struct [.struct [.int 5]], []) := by
  have t1 : fieldsE 5 [0x12, 0x02, 0x08, 0x05] = ([(⟨2, .lengthDelimited⟩, [0x02, 0x08, 0x05])], none) := by
    simp [fieldsE, fieldStepE, decTagE, decVarint, decVarintAux, validFieldNumber, WT.ofBits, U32MAX, U64, encVarint_lt]
  have t2 : fieldsE 3 [0x08, 0x05] = ([(⟨1, .varint⟩, [0x05])], none) := by
    simp [fieldsE, fieldStepE, decTagE, decVarint, decVarintAux, validFieldNumber, WT.ofBits, U32MAX, U64, encVarint_lt]
  refine ⟨rfl, ?_, ?_⟩
  · simp [unpackMsg, unpackFields, t1, mergeStep, mergeInto, Field.num, Field.ty, Ty.wt, decTyWith, decFrame,
      decVarint, decVarintAux, U64]
  · have hd : (Msg.struct [.mk 2 .one (.msg (.struct [.mk 1 .one (.scalar .uint64)]))]).depth = 2 := rfl
    unfold decode
    rw [hd]
    simp [unpackMsg, unpackFields, t1, t2, mergeStep, mergeInto, Field.num, Field.ty, Field.card, Ty.wt, Scalar.wt,
      decTyWith, decFrame, decVarint, decVarintAux, decScalar, decVarintE, mergeSlot, dfltSlotWith, dfltMsg,
      dfltScalar, U64]

/-- `Wf` (the hypothesis of `message_roundtrip_any_fuel`): the struct of the example above with a
    plain, an optional, a repeated and a nested-enum field, at its own depth -/
example : Wf
    (.struct [.mk 1 .one (.scalar .uint64), .mk 2 .opt (.scalar .sint32), .mk 3 .rep (.scalar .bool),
              .mk 4 .one (.msg (.enum [.unit 1, .tuple 2 (.scalar .uint64)] (.variant 0 (.struct []))))])
    (.struct [.int 300, .some (.int (-1)), .list [.int 1, .int 0], .variant 1 (.int 7)]) := by
  show WfMsg 2 _ _
  simp only [WfMsg, WfFieldsWith, WfSlotWith, WfTyWith, WfScalar, WfVariantWith, Field.num, Field.card, Field.ty]
  refine ⟨⟨by decide, by decide, by decide, by decide, by decide, ?_, by decide, ?_, trivial⟩, by decide⟩
  · intro x hx; simp at hx; rcases hx with rfl | rfl <;> simp
  · refine ⟨⟨.tuple 2 (.scalar .uint64), rfl, by decide, ?_, by decide⟩, ?_⟩
    · intro j w hj hw
      have : j = 0 := by omega
      subst this; simp at hw; subst hw; decide
    · simp [packMsg, packOne, encTyWith, encScalar, encTag, WT.bits, Ty.wt, Scalar.wt, encVarint_lt, U64]

/-- a path of TWO nested frames for `unknown_fields_skipped_any_depth`: the outer struct holds (after
    no bytes, before a varint field) field 2 = a struct that holds (after its varint field 1)
    field 4 = a struct that knows field 1 only; tag (7, length-delimited) is unknown to the
    innermost struct; with the `pre` / `ub` of the example above and a stray byte after them the
    buffers are far below 2^64 bytes -/
example : PathTo (fun gs => Unknown gs ⟨7, .lengthDelimited⟩)
      [.mk 2 .one (.msg (.struct [.mk 1 .one (.scalar .uint64), .mk 4 .one (.msg (.struct [.mk 1 .one (.scalar .uint64)]))]))]
      [⟨[], 2, [0x08, 0x01]⟩, ⟨[0x08, 0x05], 4, []⟩]
    ∧ (wrap [⟨[], 2, [0x08, 0x01]⟩, ⟨[0x08, 0x05], 4, []⟩]
        ([0x08, 0x80, 0x00, 0x4d, 1, 2, 3, 4] ++ [0x3a, 0x02, 0xaa, 0xbb] ++ [0xff])).length < U64
    ∧ (wrap [⟨[], 2, [0x08, 0x01]⟩, ⟨[0x08, 0x05], 4, []⟩] ([0x08, 0x80, 0x00, 0x4d, 1, 2, 3, 4] ++ [0xff])).length < U64 := by
  have c1 : (fieldsE ([0x08, 0x05].length + 1) [0x08, 0x05]).2 = none := by
    simp [fieldsE, fieldStepE, decTagE, decVarint, decVarintAux, validFieldNumber, WT.ofBits, U32MAX, U64, encVarint_lt]
  refine ⟨?_, by simp [wrap, encBytes, encTag, WT.bits, encVarint_lt, U64],
    by simp [wrap, encBytes, encTag, WT.bits, encVarint_lt, U64]⟩
  unfold PathTo
  refine ⟨by decide, (by intro b hb; cases hb), rfl, ?_⟩
  intro g hg _
  simp at hg; subst hg
  refine ⟨_, rfl, ?_⟩
  unfold PathTo
  refine ⟨by decide, (by intro b hb; simp at hb; omega), c1, ?_⟩
  intro g hg hc
  simp at hg
  rcases hg with rfl | rfl
  · simp [Field.num] at hc
  · refine ⟨_, rfl, ?_⟩
    unfold PathTo
    intro f hf; simp at hf; subst hf; simp [Field.num]

/-- the hypotheses of `noncanonical_message_rejected`: `80 00` is read completely as the value 0,
    whose canonical encoding has one byte; the struct has a varint arm for field 1 -/
example : validFieldNumber 1 = true ∧ decVarint [0x80, 0x00] = some (0, []) ∧ (encVarint 0).length < [0x80, 0x00].length
    ∧ ∃ g ∈ [Field.mk 1 .one (.scalar .uint64)], g.num = 1 ∧ g.ty.wt = .varint := by
  refine ⟨by decide, by decide, by rw [encVarint_lt (by omega)]; decide, _, List.mem_cons_self, rfl, rfl⟩

/-- `Wf` of `flat_message_roundtrip`: one field of each of the four flat payload kinds, with the
    largest `u64` in the fixed64 field; the field numbers are distinct -/
example : Blue.Proto.Wf [⟨1, .uint64⟩, ⟨2, .bytes⟩, ⟨3, .fixed32⟩, ⟨4, .fixed64⟩]
      [.num 300, .bytes [0x6b, 0x65, 0x79], .num 0xdeadbeef, .num 18446744073709551615]
    ∧ (([⟨1, .uint64⟩, ⟨2, .bytes⟩, ⟨3, .fixed32⟩, ⟨4, .fixed64⟩] : List Blue.Proto.Field).map (·.num)).Nodup := by
  refine ⟨.cons (by decide) ?_ (.cons (by decide) ?_ (.cons (by decide) ?_ (.cons (by decide) ?_ .nil))), by decide⟩
  all_goals simp [Blue.Proto.WfVal, U64]

/-- `Entry.Wf` of `entry_message_instance`: a put with a shared prefix, a two-byte timestamp and a
    value; a tombstone with the largest timestamp and an empty key fragment -/
example : (Blue.EntryCodec.Entry.put ⟨3, [0x6b, 0x65], 300, [1, 2, 3]⟩).Wf := by
  refine ⟨⟨by decide, by decide, by decide, by decide⟩, ?_⟩
  simp [Blue.EntryCodec.encPut, encBytes, encTag, WT.bits, encVarint_lt, encVarint_ge, U64]
example : (Blue.EntryCodec.Entry.del ⟨0, [], 18446744073709551615⟩).Wf := by
  refine ⟨⟨by decide, by decide, by decide⟩, ?_⟩
  have := Blue.ProtoMsg.encVarint_length_le_ten 18446744073709551615 (by decide)
  simp [Blue.EntryCodec.encDel, encBytes, encTag, WT.bits, encVarint_lt, U64]
  omega

-- BEGIN ProtoPath
/-! ## unknown fields below frames of every kind; non-minimal varints by position -/

/-- congruence along a path of frames of EVERY kind the schema interpreter has (`Step`: a
    `message<M>` struct field of any cardinality, a tuple variant with a `message<M>` payload, a
    `message<M>` field in the body of a named variant, the `Ok` / `Err` arm of a `Result`): two
    buffers that differ only in the innermost bytes `x1` / `x2` (every enclosing length prefix
    computed from what it encloses: `wrapP`) unpack alike whenever the innermost message type
    unpacks `x1` and `x2` alike -/
theorem frame_congruence_any_path (P : Msg → Prop) (x1 x2 : List Nat)
    (hP : ∀ m, P m → ∀ f, unpackMsg (f + 1) m x1 = unpackMsg (f + 1) m x2)
    (Ls : List Step) (f : Nat) (m : Msg) (hpath : PathP P m Ls)
    (h1 : (wrapP Ls x1).length < U64) (h2 : (wrapP Ls x2).length < U64) :
    unpackMsg (f + 1 + Ls.length) m (wrapP Ls x1) = unpackMsg (f + 1 + Ls.length) m (wrapP Ls x2) :=
  unpackMsg_congr_pathP P x1 x2 hP Ls f m hpath h1 h2

/-- `unknown_fields_skipped_any_path`: `Ls` is a path of frames of any kinds and any length from the
    message type `m` to an innermost message type, whose body — the body of a struct
    (`Inner.struct`) or the body of a named enum variant (`Inner.named`) — has no arm for tag `t`
    (`PathP (InnerUnknown t inn) m Ls`).  `ub` is any byte string the field iterator reads as
    exactly one field with tag `t`, inserted at any field boundary of that body (`pre` complete
    fields, `suf` anything), every enclosing length prefix re-encoded for the new length.  `m`
    decodes the buffer with the field to what it decodes the buffer without it — value or error
    — on the fuel-free decoder and at every fuel `f + 1 + length of the path`.  No frame kind
    rejects an unknown field below it. -/
theorem unknown_fields_skipped_any_path (t : Tag) (sl pre ub suf : List Nat)
    (hpre : Blue.Varint.Bytes pre) (hub : Blue.Varint.Bytes ub)
    (hclean : (fieldsE (pre.length + 1) pre).2 = none)
    (hu : fieldStepE ub = .ok ((t, sl), []))
    (Ls : List Step) (inn : Inner) (m : Msg) (hpath : PathP (InnerUnknown t inn) m Ls)
    (hl : (wrapP Ls (inn.wrap (pre ++ ub ++ suf))).length < U64)
    (hl' : (wrapP Ls (inn.wrap (pre ++ suf))).length < U64) :
    decode m (wrapP Ls (inn.wrap (pre ++ ub ++ suf))) = decode m (wrapP Ls (inn.wrap (pre ++ suf)))
    ∧ ∀ f, unpackMsg (f + 1 + Ls.length) m (wrapP Ls (inn.wrap (pre ++ ub ++ suf)))
        = unpackMsg (f + 1 + Ls.length) m (wrapP Ls (inn.wrap (pre ++ suf))) :=
  ⟨decode_unknown_pathP t sl pre ub suf hpre hub hclean hu Ls inn m hpath hl hl',
   fun f => unpackMsg_unknown_pathP t sl pre ub suf hpre hub hclean hu Ls inn f m hpath hl hl'⟩

/-- the exception to "unknown fields are skipped": an enum's OWN field.  A well-formed field whose
    (number, wire type) no variant takes is rejected with `unknown-discriminant`, whatever
    follows (`enum_snippet`: `_ => return Err(unknown_discriminant(num))`) -/
theorem unknown_variant_rejected (f : Nat) (vars : List Variant) (d : Val) (t : Tag) (rest : List Nat)
    (ht : validFieldNumber t.num = true) (hnone : findVariant vars t 0 = none) :
    unpackMsg (f + 1) (.enum vars d) (encTag t ++ rest) = .error .unknownDiscriminant :=
  Blue.ProtoMsg.unknown_variant_rejected f vars d t rest ht hnone

/-- a unit variant drops its frame unread: ANY bytes in it decode to the variant -/
theorem unit_variant_frame_ignored (f : Nat) (vars : List Variant) (d : Val) (n i n' : Nat)
    (x rest : List Nat) (hn : validFieldNumber n = true) (hx : x.length < U64)
    (hfind : findVariant vars ⟨n, .lengthDelimited⟩ 0 = some (i, .unit n')) :
    unpackMsg (f + 1) (.enum vars d) (encTag ⟨n, .lengthDelimited⟩ ++ encBytes x ++ rest)
      = .ok (.variant i (.struct []), rest) :=
  Blue.ProtoMsg.unit_variant_frame_ignored f vars d n i n' x rest hn hx hfind

/-- `nonminimal_length_prefix_rejected`: `nb` is a varint the decoder reads completely but longer
    than the canonical encoding of its value `x`; it arrives as the LENGTH PREFIX of field `n`
    (length-delimited) at any field boundary of any buffer, followed by at least `x` bytes; the
    struct has an arm for (`n`, length-delimited): `bytes`, `string`, `bytesNN` or `message<M>`,
    of any cardinality.  The struct is rejected — with the error the fields before it already
    produced, else with `buffer-too-short` when the iterator's cut (canonical prefix size + `x`)
    falls after the prefix, `varint-overflow` when it falls inside it (`nonminimalPrefixErr`) —
    never a value -/
theorem nonminimal_length_prefix_rejected (f : Nat) (fs : List Field) (n : Nat) (pre nb rest : List Nat) (x : Nat)
    (hn : validFieldNumber n = true) (hpre : Blue.Varint.Bytes pre)
    (hclean : (fieldsE (pre.length + 1) pre).2 = none)
    (hdec : decVarint nb = some (x, [])) (hnc : (encVarint x).length < nb.length)
    (hlen : x ≤ rest.length)
    (harm : ∃ g ∈ fs, g.num = n ∧ g.ty.wt = .lengthDelimited) :
    unpackMsg (f + 1) (.struct fs) (pre ++ (encTag ⟨n, .lengthDelimited⟩ ++ nb ++ rest))
      = (match unpackMsg (f + 1) (.struct fs) pre with
        | .error e => .error e
        | .ok _ => .error (nonminimalPrefixErr nb.length x))
    ∧ nonminimalPrefixErr nb.length x
        = (if nb.length ≤ (encVarint x).length + x then Err.bufferTooShort else Err.varintOverflow)
    ∧ ∃ e, decode (.struct fs) (pre ++ (encTag ⟨n, .lengthDelimited⟩ ++ nb ++ rest)) = .error e :=
  ⟨unpackMsg_nonminimal_length_prefix_rejected f fs n pre nb rest x hn hpre hclean hdec hnc hlen harm, rfl,
   decode_nonminimal_length_prefix_rejected fs n pre nb rest x hn hpre hclean hdec hnc hlen harm⟩

/-- `enum_payload_nonminimal_varint_accepted`: the payload of a tuple variant with a varint field
    type is read from the whole remaining buffer (`unpack_from(&mut up)`), so a non-minimal varint
    `nb` of value `x` decodes to what the canonical encoding decodes to (value and rest) -/
theorem enum_payload_nonminimal_varint_accepted (f : Nat) (vars : List Variant) (d : Val) (n i n' : Nat) (s : Scalar)
    (nb rest : List Nat) (x : Nat) (hn : validFieldNumber n = true)
    (hfind : findVariant vars ⟨n, .varint⟩ 0 = some (i, .tuple n' (.scalar s)))
    (hdec : decVarint nb = some (x, [])) :
    unpackMsg (f + 1) (.enum vars d) (encTag ⟨n, .varint⟩ ++ nb ++ rest)
      = unpackMsg (f + 1) (.enum vars d) (encTag ⟨n, .varint⟩ ++ encVarint x ++ rest) :=
  unpackMsg_enum_nonminimal_varint f vars d n i n' s nb rest x hn hfind hdec

/-- the witness: `10 87 00` = tuple variant 2 (uint64) with the value 7 written in two bytes -/
theorem enum_payload_nonminimal_varint_accepted_witness :
    unpackMsg 1 (.enum [.tuple 2 (.scalar .uint64)] (.variant 0 (.int 0))) [0x10, 0x87, 0x00, 0x55]
      = .ok (.variant 0 (.int 7), [0x55]) := by rfl

/-- the length prefix of ANY variant of an enum (unit, tuple with a length-delimited field type,
    named): non-minimal prefixes are accepted -/
theorem enum_nonminimal_length_prefix_accepted (f : Nat) (vars : List Variant) (d : Val) (n : Nat)
    (nb rest : List Nat) (x : Nat) (hn : validFieldNumber n = true)
    (hdec : decVarint nb = some (x, [])) :
    unpackMsg (f + 1) (.enum vars d) (encTag ⟨n, .lengthDelimited⟩ ++ nb ++ rest)
      = unpackMsg (f + 1) (.enum vars d) (encTag ⟨n, .lengthDelimited⟩ ++ encVarint x ++ rest) :=
  unpackMsg_enum_nonminimal_length_prefix f vars d n nb rest x hn hdec

/-- `Result<T, E>`: non-minimal encodings of the discriminant (a bare varint) and of the length
    prefix are accepted -/
theorem result_nonminimal_accepted (f : Nat) (okm errm : Msg) (d : Val) (tb nb rest : List Nat) (tv x : Nat)
    (htag : decVarint tb = some (tv, [])) (hdec : decVarint nb = some (x, [])) :
    unpackMsg (f + 1) (.result okm errm d) (tb ++ nb ++ rest)
      = unpackMsg (f + 1) (.result okm errm d) (encVarint tv ++ encVarint x ++ rest) :=
  unpackMsg_result_nonminimal f okm errm d tb nb rest tv x htag hdec

/-- a struct field whose TAG is a non-minimal varint is read like the field with the canonical
    tag (the iterator's cut concerns the payload only) -/
theorem struct_nonminimal_tag_accepted (f : Nat) (fs : List Field) (pre tb p : List Nat) (tv : Nat)
    (hpre : Blue.Varint.Bytes pre) (hclean : (fieldsE (pre.length + 1) pre).2 = none)
    (htag : decVarint tb = some (tv, [])) :
    unpackMsg (f + 1) (.struct fs) (pre ++ (tb ++ p)) = unpackMsg (f + 1) (.struct fs) (pre ++ (encVarint tv ++ p)) :=
  unpackMsg_struct_nonminimal_tag f fs pre tb p tv hpre hclean htag

/-! ### non-vacuity: one schema with every kind of frame -/

/-- the innermost struct: knows field 1 only -/
def exLeaf : Msg := .struct [.mk 1 .one (.scalar .uint64)]
/-- an enum with a tuple variant holding a message, a named variant holding a struct, a unit
    variant and a varint tuple variant -/
def exEnum : Msg :=
  .enum [.tuple 1 (.msg exLeaf), .named 2 [.mk 3 .one (.msg exLeaf)], .unit 4, .tuple 5 (.scalar .uint64)]
    (.variant 2 (.struct []))
/-- `Result<Leaf, Enum>` -/
def exResult : Msg := .result exLeaf exEnum (.variant 0 (.struct [.int 0]))
/-- the outer struct: a varint, the enum, an optional `Result`, a repeated leaf -/
def exTop : Msg :=
  .struct [.mk 1 .one (.scalar .uint64), .mk 2 .one (.msg exEnum), .mk 3 .opt (.msg exResult), .mk 4 .rep (.msg exLeaf)]

/-- struct field → `Result` `Err` arm → named variant body → struct: a path through four kinds of
    frame to a struct that does not know field 7 -/
def exPathA : List Step := [.field [0x08, 0x01] 3 [], .err [], .named 2 [] [] 3 []]
/-- struct field → tuple variant payload -/
def exPathB : List Step := [.field [] 2 [0x08, 0x01], .tuple 1 []]
/-- struct field (`Option`) → `Result` `Ok` arm -/
def exPathC : List Step := [.field [] 3 [], .ok []]
/-- struct field → `Result` `Err` arm; the innermost frame is the BODY of named variant 2 -/
def exPathD : List Step := [.field [] 3 [], .err []]
theorem exLeaf_unknown : Unknown [.mk 1 .one (.scalar .uint64)] ⟨7, .lengthDelimited⟩ := by
  intro f hf; simp at hf; subst hf; simp [Field.num]

/-- the hypotheses of `unknown_fields_skipped_any_path` on path A (struct field → `Result` `Err` →
    named variant body → struct): the path is one of the schema, the inserted bytes are one field
    with the unknown tag (7, length-delimited), the bytes before it are a complete field -/
example : PathP (InnerUnknown ⟨7, .lengthDelimited⟩ .struct) exTop exPathA
    ∧ fieldStepE [0x3a, 0x01, 0xaa] = .ok ((⟨7, .lengthDelimited⟩, [0x01, 0xaa]), [])
    ∧ (fieldsE ([0x08, 0x05].length + 1) [0x08, 0x05]).2 = none
    ∧ (wrapP exPathA (Inner.struct.wrap ([0x08, 0x05] ++ [0x3a, 0x01, 0xaa] ++ []))).length < U64
    ∧ (wrapP exPathA (Inner.struct.wrap ([0x08, 0x05] ++ []))).length < U64 := by
  have c1 : (fieldsE ([0x08, 0x01].length + 1) [0x08, 0x01]).2 = none := by decide
  have c0 : (fieldsE (([] : List Nat).length + 1) []).2 = none := rfl
  refine ⟨?_, by with_unfolding_all rfl, by decide,
    by simp [exPathA, wrapP, Step.wrap, Inner.wrap, encBytes, encTag, WT.bits, encVarint_lt, U64],
    by simp [exPathA, wrapP, Step.wrap, Inner.wrap, encBytes, encTag, WT.bits, encVarint_lt, U64]⟩
  refine ⟨by decide, (by intro b hb; simp at hb; omega), c1, ?_⟩
  intro g hg hc
  simp at hg
  rcases hg with rfl | rfl | rfl | rfl <;> simp [Field.num, Field.ty, Ty.wt, Scalar.wt] at hc
  refine ⟨_, rfl, ?_⟩
  show PathP _ exEnum _
  refine ⟨by decide, by decide, (by intro b hb; cases hb), c0, 1, 2, _, rfl, ?_⟩
  intro g hg hc
  simp at hg; subst hg
  exact ⟨_, rfl, exLeaf_unknown⟩

/-- the two buffers of path A, byte for byte, and what the outer struct decodes both to -/
example :
    wrapP exPathA (Inner.struct.wrap ([0x08, 0x05] ++ [0x3a, 0x01, 0xaa] ++ []))
      = [0x08, 0x01, 0x1a, 0x0b, 0x12, 0x09, 0x12, 0x07, 0x1a, 0x05, 0x08, 0x05, 0x3a, 0x01, 0xaa]
    ∧ wrapP exPathA (Inner.struct.wrap ([0x08, 0x05] ++ []))
      = [0x08, 0x01, 0x1a, 0x08, 0x12, 0x06, 0x12, 0x04, 0x1a, 0x02, 0x08, 0x05]
    ∧ decode exTop [0x08, 0x01, 0x1a, 0x0b, 0x12, 0x09, 0x12, 0x07, 0x1a, 0x05, 0x08, 0x05, 0x3a, 0x01, 0xaa]
      = .ok (.struct [.int 1, .variant 2 (.struct []),
          .some (.variant 1 (.variant 1 (.struct [.struct [.int 5]]))), .list []], [])
    ∧ decode exTop [0x08, 0x01, 0x1a, 0x08, 0x12, 0x06, 0x12, 0x04, 0x1a, 0x02, 0x08, 0x05]
      = .ok (.struct [.int 1, .variant 2 (.struct []),
          .some (.variant 1 (.variant 1 (.struct [.struct [.int 5]]))), .list []], []) := by
  refine ⟨by simp [exPathA, wrapP, Step.wrap, Inner.wrap, encBytes, encTag, WT.bits, encVarint_lt],
    by simp [exPathA, wrapP, Step.wrap, Inner.wrap, encBytes, encTag, WT.bits, encVarint_lt],
    by with_unfolding_all rfl, by with_unfolding_all rfl⟩

/-- path B: struct field → TUPLE variant payload -/
example : PathP (InnerUnknown ⟨7, .lengthDelimited⟩ .struct) exTop exPathB := by
  refine ⟨by decide, (by intro b hb; cases hb), rfl, ?_⟩
  intro g hg hc
  simp at hg
  rcases hg with rfl | rfl | rfl | rfl <;> simp [Field.num, Field.ty, Ty.wt, Scalar.wt] at hc
  refine ⟨_, rfl, ?_⟩
  show PathP _ exEnum _
  exact ⟨by decide, 0, 1, _, rfl, exLeaf_unknown⟩

/-- path C: `Option` struct field → `Result` `Ok` arm -/
example : PathP (InnerUnknown ⟨7, .lengthDelimited⟩ .struct) exTop exPathC := by
  refine ⟨by decide, (by intro b hb; cases hb), rfl, ?_⟩
  intro g hg hc
  simp at hg
  rcases hg with rfl | rfl | rfl | rfl <;> simp [Field.num, Field.ty, Ty.wt, Scalar.wt] at hc
  refine ⟨_, rfl, ?_⟩
  show PathP _ exLeaf _
  exact exLeaf_unknown

/-- path E: a `Vec` struct field (the cardinality does not enter the decode of the element) -/
example : PathP (InnerUnknown ⟨7, .lengthDelimited⟩ .struct) exTop [.field [] 4 []] := by
  refine ⟨by decide, (by intro b hb; cases hb), rfl, ?_⟩
  intro g hg hc
  simp at hg
  rcases hg with rfl | rfl | rfl | rfl <;> simp [Field.num, Field.ty, Ty.wt, Scalar.wt] at hc
  exact ⟨_, rfl, exLeaf_unknown⟩

/-- path D: the innermost frame is the body of named variant 2 (below a struct field and a `Result`
    `Err` arm); the body knows field 3 only; the buffers and their common decode -/
example : PathP (InnerUnknown ⟨7, .lengthDelimited⟩ (.named 2 [])) exTop exPathD
    ∧ wrapP exPathD ((Inner.named 2 []).wrap ([0x1a, 0x02, 0x08, 0x05] ++ [0x3a, 0x01, 0xaa] ++ []))
      = [0x1a, 0x0b, 0x12, 0x09, 0x12, 0x07, 0x1a, 0x02, 0x08, 0x05, 0x3a, 0x01, 0xaa]
    ∧ decode exTop [0x1a, 0x0b, 0x12, 0x09, 0x12, 0x07, 0x1a, 0x02, 0x08, 0x05, 0x3a, 0x01, 0xaa]
      = .ok (.struct [.int 0, .variant 2 (.struct []),
          .some (.variant 1 (.variant 1 (.struct [.struct [.int 5]]))), .list []], []) := by
  refine ⟨?_, by simp [exPathD, wrapP, Step.wrap, Inner.wrap, encBytes, encTag, WT.bits, encVarint_lt],
    by with_unfolding_all rfl⟩
  refine ⟨by decide, (by intro b hb; cases hb), rfl, ?_⟩
  intro g hg hc
  simp at hg
  rcases hg with rfl | rfl | rfl | rfl <;> simp [Field.num, Field.ty, Ty.wt, Scalar.wt] at hc
  refine ⟨_, rfl, ?_⟩
  show PathP _ exEnum []
  unfold exEnum
  simp only [PathP, InnerUnknown]
  refine ⟨by decide, 1, 2, _, rfl, ?_⟩
  intro f hf; simp at hf; subst hf; simp [Field.num]

/-- `unknown_variant_rejected` / `unit_variant_frame_ignored`: the enum has no variant for
    (9, varint); variant 4 is a unit variant: `22 03 ff ff ff` (garbage in its frame) decodes -/
example : findVariant [Variant.tuple 1 (.msg exLeaf), .named 2 [.mk 3 .one (.msg exLeaf)], .unit 4,
      .tuple 5 (.scalar .uint64)] ⟨9, .varint⟩ 0 = none
    ∧ findVariant [Variant.tuple 1 (.msg exLeaf), .named 2 [.mk 3 .one (.msg exLeaf)], .unit 4,
      .tuple 5 (.scalar .uint64)] ⟨4, .lengthDelimited⟩ 0 = some (2, .unit 4)
    ∧ unpackMsg 2 exEnum [0x48, 0x01] = .error .unknownDiscriminant
    ∧ unpackMsg 2 exEnum [0x22, 0x03, 0xff, 0xff, 0xff, 0x55] = .ok (.variant 2 (.struct []), [0x55]) :=
  ⟨rfl, rfl, by with_unfolding_all rfl, by with_unfolding_all rfl⟩

/-- `nonminimal_length_prefix_rejected`: both error classes are inhabited.  `81 00` (the length 1
    in two bytes) before one byte: the cut falls after the prefix, `buffer-too-short`; `80 80 00`
    (the length 0 in three bytes): the cut falls inside the prefix, `varint-overflow`.  Field 4 of
    the outer struct (`Vec<Leaf>`) is a length-delimited arm. -/
example : decVarint [0x81, 0x00] = some (1, []) ∧ (encVarint 1).length < [0x81, 0x00].length ∧ 1 ≤ [0xaa].length
    ∧ decVarint [0x80, 0x80, 0x00] = some (0, []) ∧ (encVarint 0).length < [0x80, 0x80, 0x00].length
    ∧ nonminimalPrefixErr 2 1 = .bufferTooShort ∧ nonminimalPrefixErr 3 0 = .varintOverflow
    ∧ (∃ g ∈ [Field.mk 1 .one (.scalar .uint64), .mk 2 .one (.msg exEnum), .mk 3 .opt (.msg exResult),
        .mk 4 .rep (.msg exLeaf)], g.num = 4 ∧ g.ty.wt = .lengthDelimited)
    ∧ decode exTop [0x22, 0x81, 0x00, 0xaa] = .error .bufferTooShort
    ∧ decode exTop [0x22, 0x80, 0x80, 0x00] = .error .varintOverflow
    ∧ decode exTop [0x22, 0x00] = .ok (.struct [.int 0, .variant 2 (.struct []), .none, .list [.struct [.int 0]]], []) := by
  refine ⟨by decide, by decide +kernel, by decide, by decide, by decide +kernel, by decide +kernel, by decide +kernel,
    ⟨.mk 4 .rep (.msg exLeaf), by simp, rfl, rfl⟩,
    by with_unfolding_all rfl, by with_unfolding_all rfl, by with_unfolding_all rfl⟩

/-- the accepted positions: variant 5 of the enum is a varint tuple variant and `87 00` is the value
    7 in two bytes; `8a 00` is the `Result` discriminant 10 in two bytes, `82 00` the length 2;
    `88 00` is the tag (1, varint) in two bytes.  The decodes are those of the canonical bytes. -/
example : findVariant [Variant.tuple 1 (.msg exLeaf), .named 2 [.mk 3 .one (.msg exLeaf)], .unit 4,
      .tuple 5 (.scalar .uint64)] ⟨5, .varint⟩ 0 = some (3, .tuple 5 (.scalar .uint64))
    ∧ decVarint [0x87, 0x00] = some (7, []) ∧ decVarint [0x8a, 0x00] = some (10, [])
    ∧ decVarint [0x82, 0x00] = some (2, []) ∧ decVarint [0x88, 0x00] = some (8, [])
    ∧ unpackMsg 2 exEnum [0x28, 0x87, 0x00] = .ok (.variant 3 (.int 7), [])
    ∧ unpackMsg 2 exEnum [0x22, 0x80, 0x00] = .ok (.variant 2 (.struct []), [])
    ∧ unpackMsg 2 exResult [0x8a, 0x00, 0x82, 0x00, 0x08, 0x05] = .ok (.variant 0 (.struct [.int 5]), [])
    ∧ unpackMsg 1 exLeaf [0x88, 0x00, 0x05] = .ok (.struct [.int 5], []) :=
  ⟨rfl, by decide, by decide, by decide, by decide, by with_unfolding_all rfl, by with_unfolding_all rfl,
   by with_unfolding_all rfl, by with_unfolding_all rfl⟩
/-- what follows an enum's own field INSIDE the enum's frame is not a skipped unknown field: a
    struct field of enum (or `Result`) type whose frame holds the value's field followed by anything
    (`extra`, e.g. a well-formed field with a number no variant has) is rejected with
    `wrong-length` (`message<M>::unpack` requires the nested `unpack` to consume its frame; the
    same check guards a tuple-variant payload and a field of a named variant) -/
theorem enum_field_trailing_rejected (f : Nat) (fs : List Field) (n : Nat) (m : Msg) (v : Val)
    (pre extra suf : List Nat)
    (hn : validFieldNumber n = true) (hpre : Blue.Varint.Bytes pre)
    (hclean : (fieldsE (pre.length + 1) pre).2 = none)
    (h : WfMsg f m v) (hm : ∀ gs, m ≠ .struct gs) (hne : extra ≠ [])
    (hl : (packMsg f m v ++ extra).length < U64)
    (harm : ∃ g ∈ fs, g.num = n ∧ g.ty.wt = .lengthDelimited)
    (harms : ∀ g ∈ fs, g.num = n ∧ g.ty.wt = .lengthDelimited → g.ty = .msg m) :
    unpackMsg (f + 1) (.struct fs)
        (pre ++ (encTag ⟨n, .lengthDelimited⟩ ++ encBytes (packMsg f m v ++ extra) ++ suf))
      = match unpackMsg (f + 1) (.struct fs) pre with
        | .error e' => .error e'
        | .ok _ => .error .wrongLength :=
  unpackMsg_enum_field_trailing_rejected f fs n m v pre extra suf hn hpre hclean h hm hne hl harm harms

/-- … while the arm of a `Result` drops it (`let (t, _) = T::unpack(buf)?`) -/
theorem result_arm_trailing_ignored (f : Nat) (okm errm : Msg) (d : Val) (v : Val)
    (extra rest : List Nat) (h : WfMsg f okm v) (hm : ∀ gs, okm ≠ .struct gs)
    (hl : (packMsg f okm v ++ extra).length < U64) :
    unpackMsg (f + 1) (.result okm errm d) (encVarint 10 ++ encBytes (packMsg f okm v ++ extra) ++ rest)
      = .ok (.variant 0 v, rest) :=
  unpackMsg_result_arm_trailing_ignored f okm errm d v extra rest h hm hl

/-- the hypotheses of the two: the unit variant of a one-variant enum is a value of it, its packing
    `0a 00` followed by the unknown field `3a 01 aa` is short; a struct whose field 2 is that enum;
    and the two decodes on the bytes -/
example : WfMsg 1 (.enum [.unit 1] (.variant 0 (.struct []))) (.variant 0 (.struct []))
    ∧ (packMsg 1 (.enum [.unit 1] (.variant 0 (.struct []))) (.variant 0 (.struct [])) ++ [0x3a, 0x01, 0xaa]).length < U64
    ∧ (∃ g ∈ [Field.mk 2 .one (.msg (.enum [.unit 1] (.variant 0 (.struct []))))], g.num = 2 ∧ g.ty.wt = .lengthDelimited)
    ∧ unpackMsg 2 (.struct [.mk 2 .one (.msg (.enum [.unit 1] (.variant 0 (.struct []))))])
        [0x12, 0x05, 0x0a, 0x00, 0x3a, 0x01, 0xaa] = .error .wrongLength
    ∧ unpackMsg 2 (.result (.enum [.unit 1] (.variant 0 (.struct []))) exLeaf (.variant 0 (.variant 0 (.struct []))))
        [0x0a, 0x05, 0x0a, 0x00, 0x3a, 0x01, 0xaa, 0x55] = .ok (.variant 0 (.variant 0 (.struct [])), [0x55]) := by
  refine ⟨⟨.unit 1, rfl, by decide, (by intro j w hj; omega), trivial⟩, ?_,
    ⟨_, List.mem_cons_self, rfl, rfl⟩, by with_unfolding_all rfl, by with_unfolding_all rfl⟩
  simp [packMsg, encBytes, encTag, WT.bits, encVarint_lt, U64]

/-! ## message-level panic-freedom -/

/-- `unpackP_eq_unpack`: `unpackP` (`Blue/Model/ProtoPanic.lean`) is the message decoder written
    again as the Rust code has it over value / error / PANIC: every slice `&buf[..k]` / `&buf[k..]`
    of `FieldIterator::next`, of the length-delimited and fixed-width unpackers and of `Result`
    panics when `k` exceeds the length, `x.pack_sz() + sz` and `v - empty.len()` panic on `usize`
    overflow, varints go through the code's two decoders with their panic outcome, and the
    generated loop runs in the code's order (a merge error returns at once, the iterator's error
    after the loop).  On every buffer of bytes no longer than `isize::MAX` (`Good`; Rust's bound on
    slices) it returns what the interpreter `unpackMsg` returns — same value and rest, same error
    — at every fuel, hence also on the fuel-free decoder -/
theorem unpackP_eq_unpack (f : Nat) (m : Msg) (bs : List Nat) (hg : Blue.ProtoPanic.Good bs) :
    Blue.ProtoPanic.unpackP f m bs = Blue.ProtoPanic.ofR (unpackMsg f m bs)
    ∧ Blue.ProtoPanic.unpackP m.depth m bs = Blue.ProtoPanic.ofR (decode m bs) :=
  ⟨Blue.ProtoPanic.unpackP_eq_unpack f m bs hg, Blue.ProtoPanic.unpackP_eq_unpack m.depth m bs hg⟩

/-- `unpackP_never_panics`: unpacking ANY byte string as ANY message type of the schema language
    returns a value or an error: no slice index out of range, no `usize` overflow, no index past
    the buffer in the varint decoders.  (What makes the slices of `FieldIterator::next` safe is
    that a varint occupies at least the bytes of its canonical encoding, `decVarint_canonical_le`;
    what makes `v - empty.len()` safe is that `unpack` hands back part of its buffer,
    `unpackMsg_left_sub`.) -/
theorem unpackP_never_panics (f : Nat) (m : Msg) (bs : List Nat) (hg : Blue.ProtoPanic.Good bs) :
    Blue.ProtoPanic.unpackP f m bs ≠ .panic
    ∧ ((∃ v rest, Blue.ProtoPanic.unpackP f m bs = .ok (v, rest)) ∨ ∃ e, Blue.ProtoPanic.unpackP f m bs = .err e) := by
  refine ⟨Blue.ProtoPanic.unpackP_never_panics f m bs hg, ?_⟩
  rw [Blue.ProtoPanic.unpackP_eq_unpack f m bs hg]
  cases unpackMsg f m bs with
  | error e => exact Or.inr ⟨e, rfl⟩
  | ok r => exact Or.inl ⟨r.1, r.2, rfl⟩

/-- the panic outcome is a real outcome of the operations the model is built from (an unguarded
    slice, an unguarded subtraction), and `unpackP` computes on concrete bytes: the buffer of path
    A, and a hostile one (a length prefix that runs past the end) -/
example : Blue.ProtoPanic.sliceTo [1, 2] 3 = .panic ∧ Blue.ProtoPanic.sliceFrom [1, 2] 3 = .panic
    ∧ Blue.ProtoPanic.subU 1 2 = .panic ∧ Blue.ProtoPanic.addU 18446744073709551615 1 = .panic
    ∧ Blue.ProtoPanic.Good [0x08, 0x01, 0x1a, 0x0b, 0x12, 0x09, 0x12, 0x07, 0x1a, 0x05, 0x08, 0x05, 0x3a, 0x01, 0xaa]
    ∧ Blue.ProtoPanic.unpackP 4 exTop [0x08, 0x01, 0x1a, 0x0b, 0x12, 0x09, 0x12, 0x07, 0x1a, 0x05, 0x08, 0x05, 0x3a, 0x01, 0xaa]
      = .ok (.struct [.int 1, .variant 2 (.struct []),
          .some (.variant 1 (.variant 1 (.struct [.struct [.int 5]]))), .list []], [])
    ∧ Blue.ProtoPanic.unpackP 4 exTop [0x1a, 0x7f, 0x12] = .err .bufferTooShort := by
  refine ⟨rfl, rfl, rfl, rfl, ⟨?_, by decide⟩, by with_unfolding_all rfl, by with_unfolding_all rfl⟩
  intro b hb; simp at hb; omega
-- END ProtoPath

end Blue.Props.C15

#print axioms Blue.Props.C15.wire_types_from_source
#print axioms Blue.Props.C15.field_number_limits_from_source
#print axioms Blue.Props.C15.field_wire_types_from_source
#print axioms Blue.Props.C15.decoder_switches_from_source
#print axioms Blue.Props.C15.varint_roundtrip
#print axioms Blue.Props.C15.varint_decoder_quirks
#print axioms Blue.Props.C15.zigzag_roundtrip
#print axioms Blue.Props.C15.fixed_roundtrip
#print axioms Blue.Props.C15.scalar_roundtrip
#print axioms Blue.Props.C15.tag_roundtrip
#print axioms Blue.Props.C15.tag_size_classes
#print axioms Blue.Props.C15.tag_rejections
#print axioms Blue.Props.C15.field_number_rejections
#print axioms Blue.Props.C15.message_roundtrip
#print axioms Blue.Props.C15.enum_returns_rest
#print axioms Blue.Props.C15.flat_message_roundtrip
#print axioms Blue.Props.C15.entry_message_instance
#print axioms Blue.Props.C15.unknown_field_step
#print axioms Blue.Props.C15.unknown_fields_skipped
#print axioms Blue.Props.C15.flat_unknown_field_step
#print axioms Blue.Props.C15.noncanonical_field_rejected
#print axioms Blue.Props.C15.decode_total
#print axioms Blue.Props.C15.nested_enum_trailing_bytes_is_an_error
#print axioms Blue.Props.C15.varint_decoders_from_source
#print axioms Blue.Props.C15.varint_unpack_any_boundary
#print axioms Blue.Props.C15.varint_unpack_is_decVarint
#print axioms Blue.Props.C15.varint_fast_eq_slow
#print axioms Blue.Props.C15.varint_slow_is_decVarint
#print axioms Blue.Props.C15.varint_pack_unpack
#print axioms Blue.Props.C15.varint_short_boundary_panics
#print axioms Blue.Props.C15.pack_sz_is_length
#print axioms Blue.Props.C15.scalar_and_tag_pack_sz
#print axioms Blue.Props.C15.unknown_fields_skipped_anywhere
#print axioms Blue.Props.C15.field_read_is_local
#print axioms Blue.Props.C15.unknown_fields_skipped_nested
#print axioms Blue.Props.C15.nested_frame_congruence
#print axioms Blue.Props.C15.unknown_fields_skipped_named_variant
#print axioms Blue.Props.C15.varint_pack_as_written
#print axioms Blue.Props.C15.varint_encoder_from_source
#print axioms Blue.Props.C15.fuel_stability
#print axioms Blue.Props.C15.message_roundtrip_any_fuel
#print axioms Blue.Props.C15.unknown_fields_skipped_anywhere_decode
#print axioms Blue.Props.C15.unknown_fields_skipped_decode
#print axioms Blue.Props.C15.unknown_fields_skipped_named_variant_decode
#print axioms Blue.Props.C15.nested_frame_congruence_path
#print axioms Blue.Props.C15.unknown_fields_skipped_any_depth
#print axioms Blue.Props.C15.noncanonical_message_rejected
#print axioms Blue.Props.C15.inner_fuels_suffice
#print axioms Blue.Props.C15.frame_congruence_any_path
#print axioms Blue.Props.C15.unknown_fields_skipped_any_path
#print axioms Blue.Props.C15.unknown_variant_rejected
#print axioms Blue.Props.C15.unit_variant_frame_ignored
#print axioms Blue.Props.C15.nonminimal_length_prefix_rejected
#print axioms Blue.Props.C15.enum_payload_nonminimal_varint_accepted
#print axioms Blue.Props.C15.enum_payload_nonminimal_varint_accepted_witness
#print axioms Blue.Props.C15.enum_nonminimal_length_prefix_accepted
#print axioms Blue.Props.C15.result_nonminimal_accepted
#print axioms Blue.Props.C15.struct_nonminimal_tag_accepted
#print axioms Blue.Props.C15.unpackP_eq_unpack
#print axioms Blue.Props.C15.unpackP_never_panics
#print axioms Blue.Props.C15.enum_field_trailing_rejected
#print axioms Blue.Props.C15.result_arm_trailing_ignored
