import Blue.Proofs.Wire
import Blue.Proofs.EntryCodec
import Blue.Proofs.Proto
/-! Property C15: the theorems the check builds and audits (spike inventory; the build phase
    completes the list from DESIGN Appendix C.0). -/
