import Blue.Proofs.Wire
import Blue.Proofs.Proto
import Blue.Proofs.ProtoMsg
import Blue.Proofs.EntryCodec
import Blue.Proofs.ConstsTieProto
/-! # Property C15 — the protobuf codec round-trips all values and decodes arbitrary bytes safely

Property theorems only (helper lemmas live in `Blue/Proofs/{Wire,Proto,ProtoMsg}.lean`).

Models: `Blue/Model/Wire.lean` (buffertk `v64` with the ten-byte limit and the dropped high bits of
a ten-byte varint, prototk `Tag` / `FieldNumber` / `WireType`, `FieldIterator::next` with the slice
cut at the canonical varint size), `Blue/Model/Proto.lean` (flat schema interpreter, the design-phase
theorem) and `Blue/Model/ProtoMsg.lean` (the full schema language: every `field_types::*`, plain /
`Option` / `Vec` fields, nested structs, enums with unit / tuple / named variants, `Result`, with
the error class of every failing decode).  The correspondence check runs the real
`#[derive(Message)]` code of a family of 17 types against `ProtoMsg` byte for byte, and the flat
interpreter side by side on the flat members of the family.

Decoder *totality* is by construction: `unpackMsg` is a total function into `value ⊕ error class`
(`decode_total`); that the code never panics where the model returns an error is the hostile-stream
correspondence, not a theorem. -/
namespace Blue.Props.C15
open Blue.Wire Blue.ProtoMsg

/-! ## constants of the wire format, regenerated from the Rust source on every run -/

/-- wire-type numbers 0, 1, 2, 5 and nothing else -/
theorem wire_types_from_source :
    [WT.varint, WT.sixtyFour, WT.lengthDelimited, WT.thirtyTwo].map WT.bits = Blue.Generated.protoWireTypeBits
    ∧ Blue.Generated.protoWireTypeBitsNew = Blue.Generated.protoWireTypeBits
    ∧ (List.range 8).map (fun b => (WT.ofBits b).map WT.bits)
        = (List.range 8).map (fun b => if b ∈ Blue.Generated.protoWireTypeBitsNew then some b else none) :=
  Blue.ConstsTie.proto_wire_types

/-- field numbers 1 … 2^29-1 without 19000 … 19999, in the library and in the derive macro -/
theorem field_number_limits_from_source (f : Nat) :
    validFieldNumber f = (decide (Blue.Generated.protoFirstFieldNumber ≤ f) && decide (f ≤ Blue.Generated.protoLastFieldNumber)
      && !(decide (Blue.Generated.protoFirstReservedFieldNumber ≤ f) && decide (f ≤ Blue.Generated.protoLastReservedFieldNumber)))
    ∧ Blue.Generated.protoLastFieldNumber = 2 ^ 29 - 1
    ∧ Blue.Generated.protoDeriveLastFieldNumber = Blue.Generated.protoLastFieldNumber
    ∧ Blue.Generated.protoDeriveFirstReservedFieldNumber = Blue.Generated.protoFirstReservedFieldNumber
    ∧ Blue.Generated.protoDeriveLastReservedFieldNumber = Blue.Generated.protoLastReservedFieldNumber :=
  ⟨Blue.ConstsTie.proto_valid_field_number f, Blue.ConstsTie.proto_field_number_limits.2.2.1,
   Blue.ConstsTie.proto_field_number_limits.2.2.2.2.2.2.1, Blue.ConstsTie.proto_field_number_limits.2.2.2.2.2.2.2.1,
   Blue.ConstsTie.proto_field_number_limits.2.2.2.2.2.2.2.2⟩

/-- every field type's declared wire type is the protobuf one (fails on the unrepaired tree, where
    `float` declares the 64-bit wire type while writing four bytes: D-C15-float) -/
theorem field_wire_types_from_source :
    ([Scalar.int32, .int64, .uint32, .uint64, .sint32, .sint64, .bool, .fixed32, .fixed64, .sfixed32, .sfixed64,
      .float, .double, .bytes, .bytesN 16, .bytesN 32, .bytesN 64, .string].map (·.wt.bits)) ++ [(Ty.msg (.struct [])).wt.bits]
      = Blue.Generated.protoFieldWireTypes := Blue.ConstsTie.proto_field_wire_types

/-- the three behaviours the model takes from the *repaired* source: `message<M>::unpack` does not
    assert (D-21), a named variant skips unknown fields (D-C15-named), varints stop at ten bytes,
    `Result` uses tags 10 / 18 -/
theorem decoder_switches_from_source :
    Blue.Generated.protoMessageUnpackAsserts = 0
    ∧ namedVariantStrict = decide (Blue.Generated.protoNamedVariantRejectsUnknown = 1)
    ∧ (∀ bs, decVarint bs = decVarintAux Blue.Generated.varintMaxBytes 0 0 bs)
    ∧ Blue.Generated.resultTags = [10, 18] :=
  ⟨Blue.ConstsTie.proto_message_unpack_does_not_assert, Blue.ConstsTie.proto_named_variant_strict,
   Blue.ConstsTie.varint_max_bytes, Blue.ConstsTie.result_tags⟩

/-! ## varints, zig-zag, fixed width, tags -/

/-- every `u64` round-trips through `v64`, whatever follows it; `pack_sz` is the number of bytes
    written, at most ten -/
theorem varint_roundtrip (x : Nat) (hx : x < U64) (rest : List Nat) :
    decVarint (encVarint x ++ rest) = some (x, rest)
    ∧ varintSz x = (encVarint x).length ∧ (encVarint x).length ≤ 10 ∧ (∀ b ∈ encVarint x, b < 256) :=
  ⟨decVarint_enc x hx rest, varintSz_eq x hx, encVarint_length_le_ten x hx, encVarint_bytes x⟩

/-- what `v64::unpack` does beyond inverting `pack`: non-minimal encodings are accepted, an
    eleventh byte is not, and bits 1-6 of a tenth byte are dropped -/
theorem varint_decoder_quirks :
    decVarint [0x80, 0x00] = some (0, [])
    ∧ decVarint [0x80, 0x80, 0x80, 0x80, 0x80, 0x80, 0x80, 0x80, 0x80, 0x80, 0x01] = none
    ∧ decVarint [0xff, 0xff, 0xff, 0xff, 0xff, 0xff, 0xff, 0xff, 0xff, 0x7f] = some (18446744073709551615, [])
    ∧ decVarint [0x80, 0x80, 0x80, 0x80, 0x80, 0x80, 0x80, 0x80, 0x80, 0x02] = some (0, []) := by decide

/-- zig-zag is a bijection between `i64` and `u64` -/
theorem zigzag_roundtrip :
    (∀ i : Int, unzigzag (zigzag i) = i) ∧ (∀ n : Nat, zigzag (unzigzag n) = n)
    ∧ (∀ i : Int, -(P63 : Int) ≤ i → i < (P63 : Int) → zigzag i < U64) :=
  ⟨unzigzag_zigzag, zigzag_unzigzag, zigzag_lt⟩

/-- little-endian fixed-width integers round-trip -/
theorem fixed_roundtrip (k v : Nat) (rest : List Nat) (hv : v < 256 ^ k) :
    decFixed k (Blue.Proto.leBytes k v ++ rest) = .ok (v, rest) ∧ (Blue.Proto.leBytes k v).length = k :=
  ⟨decFixed_le k v rest hv, Blue.Proto.leBytes_length k v⟩

/-- every field type's unpacker inverts its packer on every value of its Rust type (signed and
    unsigned 32 / 64-bit varints, zig-zag, bool, fixed, float bit patterns, bytes, fixed-size bytes,
    UTF-8 strings), whatever follows -/
theorem scalar_roundtrip (s : Scalar) (v : Val) (h : WfScalar s v) (rest : List Nat) :
    decScalar s (encScalar s v ++ rest) = .ok (v, rest) := decScalar_enc s v h rest

/-- tags round-trip -/
theorem tag_roundtrip (t : Tag) (ht : validFieldNumber t.num = true) (rest : List Nat) :
    decTagE (encTag t ++ rest) = .ok (t, rest) ∧ encTag t = encVarint (t.num * 8 + t.wt.bits) :=
  ⟨decTagE_enc t ht rest, rfl⟩

/-- the three rejection classes of `Tag::unpack` -/
theorem tag_rejections (num w : Nat) (rest : List Nat) :
    (w < 8 → num * 8 + w ≤ U32MAX → validFieldNumber num = false →
      decTagE (encVarint (num * 8 + w) ++ rest) = .error .invalidFieldNumber)
    ∧ (validFieldNumber num = true → (w = 3 ∨ w = 4 ∨ w = 6 ∨ w = 7) →
      decTagE (encVarint (num * 8 + w) ++ rest) = .error .unhandledWireType)
    ∧ (∀ t, U32MAX < t → t < U64 → decTagE (encVarint t ++ rest) = .error .tagTooLarge) :=
  ⟨fun hw hle hbad => decTagE_invalid_number num w hw hle hbad rest,
   fun hv hw => decTagE_bad_wire_type num w hv hw rest,
   fun t h1 h2 => decTagE_too_large t h1 h2 rest⟩

/-- which field numbers are rejected -/
theorem field_number_rejections :
    validFieldNumber 0 = false ∧ validFieldNumber 536870912 = false ∧ validFieldNumber 19000 = false
    ∧ validFieldNumber 19999 = false ∧ validFieldNumber 1 = true ∧ validFieldNumber 536870911 = true
    ∧ validFieldNumber 18999 = true ∧ validFieldNumber 20000 = true := by decide

/-! ## messages -/

/-- `message_roundtrip`: for every message type of the schema language and every value of it
    (`WfMsg`: numbers valid and distinct, leaves in range, frames below 2^64 bytes), unpacking the
    packing returns the value and consumes everything -/
theorem message_roundtrip (f : Nat) (m : Msg) (v : Val) (h : WfMsg f m v) :
    unpackMsg f m (packMsg f m v) = .ok (v, []) := unpack_pack f m v h

/-- an enum or a `Result` consumes exactly its own field and hands back what follows -/
theorem enum_returns_rest (f : Nat) (m : Msg) (v : Val) (h : WfMsg f m v) (rest : List Nat)
    (hm : ∀ fs, m ≠ .struct fs) : unpackMsg f m (packMsg f m v ++ rest) = .ok (v, rest) :=
  unpack_pack_rest f m v h rest hm

/-- the design-phase theorem for flat schemas (varint / bytes / fixed32 / fixed64 fields), kept:
    the driver runs this interpreter next to the full one on the flat types of the family -/
theorem flat_message_roundtrip (S : List Blue.Proto.Field) (vs : List Blue.Proto.Val) (h : Blue.Proto.Wf S vs)
    (hnd : (S.map (·.num)).Nodup) : Blue.Proto.unpack S (Blue.Proto.pack S vs) = some vs :=
  Blue.Proto.unpack_pack S vs h hnd

/-- the hand-written instance the block and log proofs use (sst `KeyValueEntry`) -/
theorem entry_message_instance (e : Blue.EntryCodec.Entry) (h : e.Wf) (rest : List Nat) :
    Blue.EntryCodec.decEntry (Blue.EntryCodec.encEntry e ++ rest) = some (e, rest) :=
  Blue.EntryCodec.decEntry_enc e h rest

/-- `unknown_fields_skipped`, one step: a field matching no arm leaves the message being built (or
    the error already found) unchanged, whatever its payload -/
theorem unknown_field_step (rec : Msg → List Nat → R (Val × List Nat)) (fs : List Field)
    (acc : R (List Val)) (fld : Tag × List Nat) (h : Unknown fs fld.1) :
    mergeStep rec false fs acc fld = acc := mergeStep_unknown rec fs acc fld h

/-- `unknown_fields_skipped`: a well-formed field the reader has no arm for (an unknown number, or
    a known number with another wire type), inserted anywhere between the fields of a struct,
    does not change what the struct unpacks to — value or error -/
theorem unknown_fields_skipped (f : Nat) (fs : List Field) (es1 es2 : List (Nat × Ty × Val)) (u : Nat × Ty × Val)
    (h1 : ∀ e ∈ es1, WfEntry (WfMsg f) (packMsg f) e) (h2 : ∀ e ∈ es2, WfEntry (WfMsg f) (packMsg f) e)
    (hu : WfEntry (WfMsg f) (packMsg f) u) (hunk : Unknown fs ⟨u.1, u.2.1.wt⟩) :
    unpackMsg (f + 1) (.struct fs) ((es1 ++ u :: es2).flatMap (packEntry (packMsg f)))
      = unpackMsg (f + 1) (.struct fs) ((es1 ++ es2).flatMap (packEntry (packMsg f))) :=
  unpackMsg_unknown f fs es1 es2 u h1 h2 hu hunk

/-- the flat version of the design phase -/
theorem flat_unknown_field_step (schema : List Blue.Proto.Field) (acc : List Blue.Proto.Val) (fld : Tag × List Nat)
    (h : ∀ f ∈ schema, ¬ (f.num = fld.1.num ∧ f.ty.wt = fld.1.wt)) :
    Blue.Proto.mergeInto schema acc fld = some acc := Blue.Proto.mergeInto_unknown schema acc fld h

/-- `noncanonical_field_rejected`: a non-minimally encoded varint value in a struct field reaches
    the field's unpacker truncated and is rejected (an error, never a misparse) -/
theorem noncanonical_field_rejected (buf : List Nat) (x : Nat) (rest : List Nat)
    (h : decVarint buf = some (x, rest)) (hn : (encVarint x).length + rest.length < buf.length)
    (s : Scalar) (hs : s.wt = .varint) :
    decScalar s (buf.take (encVarint x).length) = .error .varintOverflow :=
  Blue.ProtoMsg.noncanonical_field_rejected buf x rest h hn s hs

/-- `decode_total`: every byte string decodes to a value or to an error class -/
theorem decode_total (f : Nat) (m : Msg) (bs : List Nat) :
    (∃ v rest, unpackMsg f m bs = .ok (v, rest)) ∨ (∃ e, unpackMsg f m bs = .error e) := unpack_total f m bs

/-- D-21 as the repaired code behaves: a nested enum followed by another byte inside its
    length-delimited frame is an error (`wrong-length`); the unrepaired code asserts.  Input:
    tag(10, length-delimited), length 3, [unit variant 1: `0a 00`], trailing `00`. -/
theorem nested_enum_trailing_bytes_is_an_error :
    unpackMsg 3 (.enum [.tuple 10 (.msg (.enum [.unit 1] (.variant 0 (.struct []))))] (.variant 0 (.struct [])))
      [0x52, 0x03, 0x0a, 0x00, 0x00] = .error .wrongLength := by rfl

/-! non-vacuity: concrete non-trivial values meet the hypotheses -/
example : (300 : Nat) < U64 := by decide
example : WfScalar .sint32 (.int (-2147483648)) := by simp [WfScalar, P31]
example : WfScalar .string (.bytes [0xf0, 0x9f, 0x98, 0x80]) := by
  refine ⟨by decide, by decide⟩
example : validFieldNumber (⟨536870911, .lengthDelimited⟩ : Tag).num = true := by decide
/-- a struct with a plain, an optional, a repeated and a nested-enum field -/
example : WfMsg 3
    (.struct [.mk 1 .one (.scalar .uint64), .mk 2 .opt (.scalar .sint32), .mk 3 .rep (.scalar .bool),
              .mk 4 .one (.msg (.enum [.unit 1, .tuple 2 (.scalar .uint64)] (.variant 0 (.struct []))))])
    (.struct [.int 300, .some (.int (-1)), .list [.int 1, .int 0], .variant 1 (.int 7)]) := by
  simp only [WfMsg, WfFieldsWith, WfSlotWith, WfTyWith, WfScalar, WfVariantWith, Field.num, Field.card, Field.ty]
  refine ⟨⟨by decide, by decide, by decide, by decide, by decide, ?_, by decide, ?_, trivial⟩, by decide⟩
  · intro x hx; simp at hx; rcases hx with rfl | rfl <;> simp
  · refine ⟨⟨.tuple 2 (.scalar .uint64), rfl, by decide, ?_, by decide⟩, ?_⟩
    · intro j w hj hw
      have : j = 0 := by omega
      subst this; simp at hw; subst hw; decide
    · simp [packMsg, packOne, encTyWith, encScalar, encTag, WT.bits, Ty.wt, Scalar.wt, encVarint_lt, U64]
example : Unknown [.mk 1 .one (.scalar .uint64)] ⟨1, .lengthDelimited⟩ := by
  intro f hf; simp at hf; subst hf; simp [Field.num, Field.ty, Ty.wt, Scalar.wt]
example : decVarint [0x80, 0x00, 0x07] = some (0, [0x07]) ∧ (encVarint 0).length + [0x07].length < [0x80, 0x00, 0x07].length := by
  refine ⟨by decide, ?_⟩; rw [encVarint_lt (by omega)]; decide

end Blue.Props.C15

#print axioms Blue.Props.C15.wire_types_from_source
#print axioms Blue.Props.C15.field_number_limits_from_source
#print axioms Blue.Props.C15.field_wire_types_from_source
#print axioms Blue.Props.C15.decoder_switches_from_source
#print axioms Blue.Props.C15.varint_roundtrip
#print axioms Blue.Props.C15.varint_decoder_quirks
#print axioms Blue.Props.C15.zigzag_roundtrip
#print axioms Blue.Props.C15.fixed_roundtrip
#print axioms Blue.Props.C15.scalar_roundtrip
#print axioms Blue.Props.C15.tag_roundtrip
#print axioms Blue.Props.C15.tag_rejections
#print axioms Blue.Props.C15.field_number_rejections
#print axioms Blue.Props.C15.message_roundtrip
#print axioms Blue.Props.C15.enum_returns_rest
#print axioms Blue.Props.C15.flat_message_roundtrip
#print axioms Blue.Props.C15.entry_message_instance
#print axioms Blue.Props.C15.unknown_field_step
#print axioms Blue.Props.C15.unknown_fields_skipped
#print axioms Blue.Props.C15.flat_unknown_field_step
#print axioms Blue.Props.C15.noncanonical_field_rejected
#print axioms Blue.Props.C15.decode_total
#print axioms Blue.Props.C15.nested_enum_trailing_bytes_is_an_error
