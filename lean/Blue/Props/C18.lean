import Blue.Proofs.Lru
import Blue.Proofs.LruSpec
import Blue.Proofs.WaitList
import Blue.Proofs.WaitListSlots
import Blue.Proofs.Wcq
import Blue.Proofs.WcqV
import Blue.Proofs.WcqWake
import Blue.Proofs.WcqWakeMutants
import Blue.Proofs.WcqWakeProgress
import Blue.Proofs.WcqOnce
import Blue.Proofs.ConstsTieC18
/-! # Property C18 — the coalescing queue runs each request once, in order, returning its own
    result; the wait list has exactly one head; the LRU cache is a sequential LRU map with exact
    size accounting

Property theorems only (helper lemmas live in `Blue/Proofs/{Lru,LruSpec,WaitList,Wcq,WcqV,WcqWake}.lean`).

* `Blue.Lru` — `sync42::lru::LeastRecentlyUsedCache` under its mutex: the recency list (most recent
  first) and the accounted `size` field, updated as the code updates it.  Overwriting a key
  replaces the value in place and does **not** refresh recency (that is what `insert_helper` does).
* `Blue.WaitList` — `sync42::wait_list::WaitList` under its state mutex: ring of `n` slots,
  `head`/`tail` counters, `linked` flags, ghost list `live` of the guards that exist.
* `Blue.Wcq` / `Blue.WcqV` — `WorkCoalescingQueue::do_work`, one step per critical section, for every
  interleaving; in `WcqV` the core's answers are arbitrary values (as for the log's write core).
* `Blue.WcqWake` — who parks under which mutex and who notifies whom.

The harness replays every recorded run of the real queue through `Blue.WcqV.step` (every event
must be enabled), every wait-list sequence through `Blue.WaitList.step` and every cache sequence
through the `Blue.Lru` operations. -/
namespace Blue.Props.C18

/-! ## LRU cache -/
section lru
open Blue.Lru
variable {K V : Type} [DecidableEq K] (sz : V → Nat)

/-- every operation keeps the cache a map (no key twice) whose accounted size is the sum of its
    entries' sizes; a new cache is one -/
theorem lru_inv_preserved :
    Inv sz (new cap : Cache K V)
    ∧ (∀ (c : Cache K V) k v, Inv sz c → Inv sz (insert sz c k v))
    ∧ (∀ (c : Cache K V) k v, Inv sz c → Inv sz (insertNoEvict sz c k v))
    ∧ (∀ (c : Cache K V) k, Inv sz c → Inv sz (lookup c k).2)
    ∧ (∀ (c : Cache K V) k, Inv sz c → Inv sz (remove sz c k))
    ∧ (∀ (c : Cache K V), Inv sz c → Inv sz (pop sz c).2) :=
  ⟨inv_new sz cap, fun _ k v h => inv_insert sz h k v, fun _ k v h => inv_insertNoEvict sz h k v,
   fun _ k h => inv_lookup sz h k, fun _ k h => inv_remove sz h k, fun _ h => inv_pop sz h⟩

/-- the same for whole operation sequences on a fresh cache -/
theorem lru_inv_run (cap : Nat) (ops : List (Op K V)) : Inv sz (run sz (new cap : Cache K V) ops) :=
  Blue.Lru.inv_run sz (inv_new sz cap) ops

/-- an evicting insert leaves the cache within its capacity (an entry larger than the capacity
    evicts everything, itself included) -/
theorem insert_within_capacity {c : Cache K V} (h : Inv sz c) (k : K) (v : V) :
    (insert sz c k v).size ≤ c.capacity := Blue.Lru.insert_within_capacity sz h k v

/-- a stored value is what `lookup` returns -/
theorem lookup_hit (c : Cache K V) (k : K) (v : V) (h : (k, v) ∈ c.entries)
    (hn : (c.entries.map (·.1)).Nodup) : (lookup c k).1 = some v := Blue.Lru.lookup_hit c k v h hn

/-- the cache is a map: `insert_helper` (the common first half of both inserts, before eviction)
    is a map update, `lookup` reads the map and leaves it unchanged, `remove` deletes the key (the
    model's `remove` is a filter by the key, so its conjunct is close to its definition; what an
    evicting `insert` then drops is `lru_recency`: a suffix of the recency list) -/
theorem lru_map_semantics (c : Cache K V) (k k' : K) (v : V) :
    (find k' (insertHelper sz c k v).entries = if k' = k then some v else find k' c.entries)
    ∧ (lookup c k).1 = find k c.entries
    ∧ find k' (lookup c k).2.entries = find k' c.entries
    ∧ (find k' (remove sz c k).entries = if k' = k then none else find k' c.entries) :=
  ⟨find_insertHelper sz c k k' v, (find_lookup c k k').1, (find_lookup c k k').2, find_remove sz c k k'⟩

/-- recency: a hit moves the entry to the front and keeps the order of the others; an evicting
    insert keeps a *prefix* of the recency list (it drops least recently used entries only); `pop`
    returns and removes the last one -/
theorem lru_recency (c : Cache K V) (k : K) (v : V) :
    (∀ w, find k c.entries = some w → (lookup c k).2.entries = (k, w) :: c.entries.filter (fun e => e.1 ≠ k))
    ∧ (insert sz c k v).entries <+: (insertHelper sz c k v).entries
    ∧ (∀ e, c.entries.getLast? = some e → (pop sz c).1 = some e ∧ c.entries = (pop sz c).2.entries ++ [e])
    ∧ (c.entries = [] → (pop sz c).1 = none) :=
  ⟨fun w h => lookup_recency c k w h, insert_prefix sz c k v,
   fun e h => ⟨(pop_least_recent sz c e h).1, (pop_least_recent sz c e h).2.2⟩,
   fun h => (pop_empty sz c h).1⟩

/-- eviction is minimal ("least-recently-used *size-bounded*" cache, not an over-eager one): an
    evicting insert whose result fits the capacity drops nothing, and in general every entry the
    eviction loop removes is the tail of an intermediate cache that was over its capacity -/
theorem lru_evicts_only_when_over (c : Cache K V) (k : K) (v : V) :
    ((insertHelper sz c k v).size ≤ (insertHelper sz c k v).capacity → insert sz c k v = insertHelper sz c k v)
    ∧ (insert sz c k v = insertHelper sz c k v ∨
       ∃ c' : Cache K V, c'.size > c'.capacity ∧ c'.entries <+: (insertHelper sz c k v).entries
         ∧ insert sz c k v = removeLru sz c') :=
  ⟨insert_fits sz c k v, evict_minimal sz _ _⟩

/-- the accounted size exceeds the capacity only by entries inserted with eviction disabled:
    after every operation sequence on a fresh cache, `size ≤ capacity +` the sizes handed to
    `insert_no_evict` since the last evicting `insert` -/
theorem size_exceeds_capacity_only_by_no_evict (cap : Nat) (ops : List (Op K V)) :
    (run sz (new cap : Cache K V) ops).size ≤ cap + slackRun sz 0 ops := size_run_le sz cap ops

/-! non-vacuity: a concrete cache of capacity 5 meets `Inv`; an evicting insert of a size-3 entry
    drops the least recently used entry `2`, and an over-sized no-evict insert exceeds the capacity -/
example : Inv (fun v : Nat => v) (new 5 : Cache Nat Nat) := inv_new _ 5
example : (run (fun v : Nat => v) (new 5 : Cache Nat Nat)
    [.insert 1 3, .insert 2 2, .lookup 1, .insert 3 2]).entries = [(3, 2), (1, 3)] := by decide
/-- an insert that fits keeps every entry (capacity 5, sizes 3 + 2) -/
example : (run (fun v : Nat => v) (new 5 : Cache Nat Nat) [.insert 1 3, .insert 2 2]).entries = [(2, 2), (1, 3)] := by decide
/-- overwriting does not refresh recency: key `1`, overwritten last, is still the one evicted -/
example : (run (fun v : Nat => v) (new 5 : Cache Nat Nat)
    [.insert 1 2, .insert 2 2, .insert 1 1, .insert 3 3]).entries = [(3, 3), (2, 2)] := by decide
example : (run (fun v : Nat => v) (new 5 : Cache Nat Nat) [.insert 1 3, .insertNoEvict 2 9]).size = 12
    ∧ slackRun (fun v : Nat => v) 0 [Op.insert 1 3, Op.insertNoEvict (K := Nat) 2 9] = 9 := by decide
example : (lookup (⟨5, 3, [(1, 3)]⟩ : Cache Nat Nat) 1).1 = some 3 :=
  lookup_hit _ 1 3 (by simp) (by simp)
end lru

/-! ## wait list -/
section waitlist
open Blue.WaitList

/-- the invariant (window bounds, flags = guards inside the window, `head = tail` or the head is
    live — the code's `assert_invariants`) holds after every sequence of `link` / `unlink` in any
    order, including `link`s on a full ring (which wait) -/
theorem waitlist_inv_run (n : Nat) (hn : 0 < n) (ops : List Op) : Inv (ops.foldl step (init n)) :=
  inv_run n hn ops

/-- … in particular for the ring size the source defines (`sync42::MAX_CONCURRENCY`) -/
theorem waitlist_inv_run_source (ops : List Op) :
    Inv (ops.foldl step (init Blue.Generated.sync42MaxConcurrency)) :=
  inv_run _ Blue.ConstsTie.sync42_slots_pos ops

/-- whenever a guard exists, the head is a live guard and the oldest one -/
theorem head_is_oldest {s : St} (h : Inv s) (hne : s.live ≠ []) :
    s.head ∈ s.live ∧ ∀ j ∈ s.live, s.head ≤ j := Blue.WaitList.head_is_oldest h hne

/-- exactly one linked waiter is head, in every reachable state.  (The content is the first two
    conjuncts — the head is a live guard and the oldest, from the invariant; the uniqueness
    conjunct holds by the definition of `isHead j := j == head`.) -/
theorem exactly_one_head (n : Nat) (hn : 0 < n) (ops : List Op)
    (hne : (ops.foldl step (init n)).live ≠ []) :
    ∃ j ∈ (ops.foldl step (init n)).live, isHead (ops.foldl step (init n)) j = true
      ∧ (∀ j' ∈ (ops.foldl step (init n)).live, j ≤ j')
      ∧ ∀ j' ∈ (ops.foldl step (init n)).live, isHead (ops.foldl step (init n)) j' = true → j' = j := by
  have h := inv_run n hn ops
  generalize ops.foldl step (init n) = s at h hne
  obtain ⟨h1, h2⟩ := Blue.WaitList.head_is_oldest h hne
  refine ⟨s.head, h1, by simp [isHead], h2, ?_⟩
  intro j' _ hj
  simpa [isHead] using hj

/-- when a waiter (the head or any other) unlinks, the head afterwards is the oldest of the
    waiters that remain: the head position is handed to the next oldest waiter -/
theorem head_handoff (n : Nat) (hn : 0 < n) (ops : List Op) (i : Nat)
    (hi : i ∈ (ops.foldl step (init n)).live) :
    let s' := step (ops.foldl step (init n)) (.unlink i)
    s'.live = (ops.foldl step (init n)).live.filter (· ≠ i)
      ∧ (s'.live ≠ [] → s'.head ∈ s'.live ∧ ∀ j ∈ s'.live, s'.head ≤ j) := by
  have h' : Inv ((ops ++ [Op.unlink i]).foldl step (init n)) := inv_run n hn _
  rw [List.foldl_append] at h'
  simp only [List.foldl_cons, List.foldl_nil] at h'
  refine ⟨?_, fun hne => Blue.WaitList.head_is_oldest h' hne⟩
  generalize ops.foldl step (init n) = s at hi
  simp only [step, if_pos hi, unlink]
  have : ∀ (f : Nat) (t : St), (advance f t).live = t.live := by
    intro f
    induction f with
    | zero => intro t; rfl
    | succ f ih => intro t; unfold advance; split
                   · rw [ih]
                   · rfl
  rw [this]

/-- slots are reused only after `head` has passed them: in every reachable state a `link` that goes
    through takes index `tail`, whose slot belongs to no guard that still exists; and a `link` waits
    exactly when the ring is full -/
theorem slot_reuse_is_safe (n : Nat) (hn : 0 < n) (ops : List Op) :
    let s := ops.foldl step (init n)
    (∀ s' idx, link s = some (s', idx) → idx = s.tail ∧ ∀ j ∈ s.live, j % s.n ≠ idx % s.n)
      ∧ (link s = none ↔ s.head + s.n ≤ s.tail) :=
  ⟨fun _ _ hl => link_slot_fresh (inv_run n hn ops) hl, link_blocks_iff_full _⟩

/-! non-vacuity: four slots, five link attempts (the fifth waits), the head leaves last of three -/
example :
    let s := [Op.link, .link, .link, .link, .link, .unlink 1, .unlink 2, .unlink 0].foldl step (init 4)
    s.head = 3 ∧ s.tail = 4 ∧ s.live = [3] := by decide
example : ([Op.link, .link].foldl step (init 4)).live ≠ [] := by decide
end waitlist

/-! ## coalescing queue: safety for every interleaving -/
section wcq

/-- the core is given inputs in the order the callers linked, none twice, none skipped (batches
    are contiguous runs): the log is `0, 1, …, m-1` — core answering input `x` with `out x`.  This
    is the *at most once, in order* half; that the input of every call that has returned is among
    them is `returned_in_log` -/
theorem core_sees_inputs_once_in_order (out : Nat → Nat) (evs : List Blue.Wcq.Ev) :
    ∃ m, (evs.foldl (Blue.Wcq.step out) Blue.Wcq.init).log = List.range m :=
  Blue.Wcq.core_sees_inputs_once_in_order out evs

/-- a call that has returned returned the output for its own input -/
theorem own_result (out : Nat → Nat) (evs : List Blue.Wcq.Ev) (i : Nat) (e : Blue.Wcq.Ent) (o : Nat)
    (he : (evs.foldl (Blue.Wcq.step out) Blue.Wcq.init).ents[i]? = some e) (hr : e.ret = some o) :
    o = out i := Blue.Wcq.own_result out evs i e o he hr

/-- **exactly once, the other half**: a call that has returned had its input given to the core … -/
theorem returned_in_log (out : Nat → Nat) (evs : List Blue.Wcq.Ev) (i : Nat) (e : Blue.Wcq.Ent) (o : Nat)
    (he : (evs.foldl (Blue.Wcq.step out) Blue.Wcq.init).ents[i]? = some e) (hr : e.ret = some o) :
    i < (evs.foldl (Blue.Wcq.step out) Blue.Wcq.init).log.length :=
  Blue.Wcq.returned_in_log out evs i e o he hr

/-- … so the core's log holds it exactly once -/
theorem returned_input_logged_once (out : Nat → Nat) (evs : List Blue.Wcq.Ev) (i : Nat) (e : Blue.Wcq.Ent)
    (o : Nat) (he : (evs.foldl (Blue.Wcq.step out) Blue.Wcq.init).ents[i]? = some e) (hr : e.ret = some o) :
    (evs.foldl (Blue.Wcq.step out) Blue.Wcq.init).log.count i = 1 :=
  Blue.Wcq.returned_input_logged_once out evs i e o he hr

/-- the two `panic!`s of `do_work` that the model flags (`head should never witness stolen or
    output`, `Thread gave everyone except itself an output`) are unreachable — for cores that
    yield one output per batched input (the model's `deliver` events hand every member of the batch
    its output before `finish`; a core that yields fewer makes the real leader, or the first
    unserved member, panic: the theorem is relative to that contract).  The third `panic!`,
    "stolen at head of line", is a branch the model's `lead` step passes through unchanged; that
    it is never reached is `no_stolen_when_idle` -/
theorem never_panics (out : Nat → Nat) (evs : List Blue.Wcq.Ev) :
    (evs.foldl (Blue.Wcq.step out) Blue.Wcq.init).panicked = false := Blue.Wcq.never_panics out evs

/-- **"stolen at head of line" is unreachable**: while nobody is working no caller at all is in the
    `stolen` state, so the caller that finds itself head with `doing_work = false` is not -/
theorem no_stolen_when_idle (out : Nat → Nat) (evs : List Blue.Wcq.Ev)
    (hd : (evs.foldl (Blue.Wcq.step out) Blue.Wcq.init).doingWork = false) (i : Nat) (e : Blue.Wcq.Ent)
    (he : (evs.foldl (Blue.Wcq.step out) Blue.Wcq.init).ents[i]? = some e) : e.st ≠ .stolen :=
  Blue.Wcq.no_stolen_when_idle out evs hd i e he

/-- the same three with the core's answers arbitrary (carried by the `deliver` events; this is
    the model the recorded runs of the real queue are replayed through) -/
theorem core_sees_inputs_once_in_order_v (evs : List Blue.WcqV.Ev) :
    ∃ m, (evs.foldl Blue.WcqV.step Blue.WcqV.init).log = List.range m :=
  Blue.WcqV.core_sees_inputs_once_in_order evs

theorem own_result_v (evs : List Blue.WcqV.Ev) (i : Nat) (e : Blue.WcqV.Ent) (o : Nat)
    (he : (evs.foldl Blue.WcqV.step Blue.WcqV.init).ents[i]? = some e) (hr : e.ret = some o) :
    Blue.WcqV.look (evs.foldl Blue.WcqV.step Blue.WcqV.init).prod i = some o :=
  Blue.WcqV.own_result evs i e o he hr

theorem never_panics_v (evs : List Blue.WcqV.Ev) :
    (evs.foldl Blue.WcqV.step Blue.WcqV.init).panicked = false := Blue.WcqV.never_panics evs

theorem returned_in_log_v (evs : List Blue.WcqV.Ev) (i : Nat) (e : Blue.WcqV.Ent) (o : Nat)
    (he : (evs.foldl Blue.WcqV.step Blue.WcqV.init).ents[i]? = some e) (hr : e.ret = some o) :
    i < (evs.foldl Blue.WcqV.step Blue.WcqV.init).log.length :=
  Blue.WcqV.returned_in_log evs i e o he hr

theorem returned_input_logged_once_v (evs : List Blue.WcqV.Ev) (i : Nat) (e : Blue.WcqV.Ent) (o : Nat)
    (he : (evs.foldl Blue.WcqV.step Blue.WcqV.init).ents[i]? = some e) (hr : e.ret = some o) :
    (evs.foldl Blue.WcqV.step Blue.WcqV.init).log.count i = 1 :=
  Blue.WcqV.returned_input_logged_once evs i e o he hr

theorem no_stolen_when_idle_v (evs : List Blue.WcqV.Ev)
    (hd : (evs.foldl Blue.WcqV.step Blue.WcqV.init).doingWork = false) (i : Nat) (e : Blue.WcqV.Ent)
    (he : (evs.foldl Blue.WcqV.step Blue.WcqV.init).ents[i]? = some e) : e.st ≠ .stolen :=
  Blue.WcqV.no_stolen_when_idle evs hd i e he

/-! non-vacuity: three callers, a batch of two, the follower leaves before the leader, the third
    leads alone; every call has returned (the hypotheses of `own_result` are met by all three) -/
example :
    let s := [Blue.Wcq.Ev.link, .link, .link, .lead 0 2, .deliver 0, .deliver 0, .observe 1, .finish 0,
              .lead 2 1, .deliver 2, .finish 2].foldl (Blue.Wcq.step (· * 10)) Blue.Wcq.init
    s.log = [0, 1, 2] ∧ s.ents.map (·.ret) = [some 0, some 10, some 20] ∧ s.doingWork = false := by
  decide
example :
    let s := [Blue.WcqV.Ev.link, .link, .link, .lead 0 2, .deliver 0 77, .deliver 0 77, .observe 1, .finish 0,
              .lead 2 1, .deliver 2 99, .finish 2].foldl Blue.WcqV.step Blue.WcqV.init
    s.log = [0, 1, 2] ∧ s.ents.map (·.ret) = [some 77, some 77, some 99] ∧ s.doingWork = false := by
  decide
/-- non-vacuity of `no_stolen_when_idle`: mid-batch (`doingWork = true`) callers 0, 1 ARE stolen;
    after the leader has finished (`doingWork = false`, caller 2 still waiting with its input)
    nobody is -/
example :
    let mid := [Blue.Wcq.Ev.link, .link, .link, .lead 0 2].foldl (Blue.Wcq.step (· * 10)) Blue.Wcq.init
    let s := [Blue.Wcq.Ev.deliver 0, .deliver 0, .finish 0].foldl (Blue.Wcq.step (· * 10)) mid
    (mid.doingWork, mid.ents.map (·.st)) = (true, [.stolen, .stolen, .inp])
      ∧ (s.doingWork, s.ents.map (·.st)) = (false, [.outp 0, .outp 10, .inp]) := by
  decide
end wcq

/-! ## coalescing queue: wake-ups -/
section wake
open Blue.WcqWake

/-- no lost wake-up (deadlock freedom): under every interleaving (including a member that is
    handed its output between reading its state and parking, and spurious wake-ups) the queue never
    reaches a state in which a caller is still linked while every linked caller is parked, no leader
    is at work, no `notify_head` is on its way and nobody is about to park -/
theorem never_stuck (evs : List Ev) : stuck (evs.foldl step init) = false :=
  Blue.WcqWake.never_stuck evs

/-- "stolen at head of line" in the wake-up model: while nobody is working no entry is `stolen`, so
    the branch of `check` that the model passes through unchanged (head, `doing_work = false`, state
    `stolen`) is never taken -/
theorem stolen_head_unreachable (evs : List Ev) (e : Ent)
    (hd : (evs.foldl step init).doingWork = false)
    (he : (evs.foldl step init).ents[headIdx (evs.foldl step init).ents]? = some e) : e.st ≠ .stolen :=
  Blue.WcqWake.stolen_head_unreachable evs e hd he

/-- no call blocks forever: in every reachable state, (1) every run of steps of the callers and
    the leader (everything except new arrivals and spurious wake-ups) is finite — each such step
    strictly decreases the lexicographic measure (linked callers; leader phase + undelivered outputs
    + pending notifications + awake callers + caller about to park) — and (2) while a caller is
    linked, such a step is enabled.  Hence a scheduler that keeps running enabled steps returns
    every call after finitely many steps.

    `_partial`: what is missing for the full statement is the interleaving with an *unbounded*
    stream of new arrivals and spurious wake-ups (both only add bounded work: FIFO order means a
    call is overtaken by nobody, DESIGN C.38) and scheduler fairness, which stays an assumption.
    Cores are assumed to yield one output per batched input: with fewer, the real `do_work` panics
    (the leader: "Thread gave everyone except itself an output"; else the first unserved member,
    once head: "stolen at head of line") — it does not leave callers waiting. -/
theorem every_call_returns_partial (evs : List Ev) :
    Acc ProgressStep (evs.foldl step init)
      ∧ ((evs.foldl step init).ents.any (·.linked) = true →
          ∃ ev, progressEv ev = true ∧ step (evs.foldl step init) ev ≠ evs.foldl step init) :=
  calls_return evs

/-- the protocol needs the leader's final `notify_head`: without it two callers suffice to get
    stuck (the Appendix-B mutant, as a theorem) -/
theorem leader_forgets_notify_head_stuck :
    stuck ([Ev.link, .link, .check 0 1, .check 1 0, .park, .deliver, .leaderUnlink, .leaderClear].foldl
      stepNoNotify init) = true := Blue.WcqWake.leader_forgets_notify_head_stuck

/-- … and it needs the *followers'* `notify_head` too: a member that was handed its output in the
    window before it parked is woken only by the `notify_head` of the caller that unlinks ahead of
    it.  (The window is a few instructions wide in the code: the harness does not hit it, the
    model does; under the real protocol the same schedule is not stuck.) -/
theorem follower_forgets_notify_head_stuck :
    stuck ([Ev.link, .link, .link, .check 0 3, .check 2 0, .deliver, .deliver, .deliver, .park,
            .leaderUnlink, .leaderClear, .notifyHead, .check 1 0].foldl stepFollowerNoNotify init) = true
    ∧ stuck ([Ev.link, .link, .link, .check 0 3, .check 2 0, .deliver, .deliver, .deliver, .park,
            .leaderUnlink, .leaderClear, .notifyHead, .check 1 0].foldl step init) = false :=
  ⟨Blue.WcqWake.follower_forgets_notify_head_stuck, Blue.WcqWake.same_schedule_not_stuck⟩

/-! non-vacuity of `every_call_returns_partial`: a reachable state with a parked caller and a
    caller at work (the hypothesis "a caller is linked" holds); its measure, and the smaller measure
    after the leader's next step -/
example :
    let s := [Ev.link, .link, .check 0 1, .check 1 0, .park].foldl step init
    s.ents.any (·.linked) = true ∧ (nl s.ents, phi s) = (2, 6)
      ∧ (nl (step s .deliver).ents, phi (step s .deliver)) = (2, 3) := by decide

/-! non-vacuity: the window exists — the third member parks *holding an output* after the
    hand-out notification found nobody, and is woken by its predecessor's `notify_head` -/
example :
    let s := [Ev.link, .link, .link, .check 0 3, .check 2 0, .deliver, .deliver, .deliver, .park,
              .leaderUnlink, .leaderClear, .notifyHead, .check 1 0, .check 2 0].foldl step init
    s.ents.map (·.linked) = [false, false, false] := by decide
end wake

end Blue.Props.C18

#print axioms Blue.Props.C18.lru_inv_preserved
#print axioms Blue.Props.C18.lru_inv_run
#print axioms Blue.Props.C18.insert_within_capacity
#print axioms Blue.Props.C18.lookup_hit
#print axioms Blue.Props.C18.lru_map_semantics
#print axioms Blue.Props.C18.lru_recency
#print axioms Blue.Props.C18.lru_evicts_only_when_over
#print axioms Blue.Props.C18.size_exceeds_capacity_only_by_no_evict
#print axioms Blue.Props.C18.waitlist_inv_run
#print axioms Blue.Props.C18.waitlist_inv_run_source
#print axioms Blue.Props.C18.head_is_oldest
#print axioms Blue.Props.C18.exactly_one_head
#print axioms Blue.Props.C18.head_handoff
#print axioms Blue.Props.C18.slot_reuse_is_safe
#print axioms Blue.Props.C18.core_sees_inputs_once_in_order
#print axioms Blue.Props.C18.own_result
#print axioms Blue.Props.C18.returned_in_log
#print axioms Blue.Props.C18.returned_input_logged_once
#print axioms Blue.Props.C18.never_panics
#print axioms Blue.Props.C18.no_stolen_when_idle
#print axioms Blue.Props.C18.core_sees_inputs_once_in_order_v
#print axioms Blue.Props.C18.own_result_v
#print axioms Blue.Props.C18.never_panics_v
#print axioms Blue.Props.C18.returned_in_log_v
#print axioms Blue.Props.C18.returned_input_logged_once_v
#print axioms Blue.Props.C18.no_stolen_when_idle_v
#print axioms Blue.Props.C18.stolen_head_unreachable
#print axioms Blue.Props.C18.never_stuck
#print axioms Blue.Props.C18.every_call_returns_partial
#print axioms Blue.Props.C18.leader_forgets_notify_head_stuck
#print axioms Blue.Props.C18.follower_forgets_notify_head_stuck
