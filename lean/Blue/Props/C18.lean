import Blue.Proofs.WcqV
import Blue.Proofs.Lru
import Blue.Proofs.WaitList
import Blue.Proofs.Wcq
import Blue.Proofs.WcqWake
/-! Property C18: the theorems the check builds and audits (spike inventory; the build phase
    completes the list from DESIGN Appendix C.0). -/
#print axioms Blue.Wcq.core_sees_inputs_once_in_order
#print axioms Blue.Wcq.own_result
#print axioms Blue.Wcq.never_panics
#print axioms Blue.WcqWake.never_stuck
#print axioms Blue.WcqWake.leader_forgets_notify_head_stuck
#print axioms Blue.WcqV.own_result
#print axioms Blue.WcqV.core_sees_inputs_once_in_order
#print axioms Blue.WcqV.never_panics
