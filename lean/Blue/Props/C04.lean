import Blue.Proofs.Books
import Blue.Proofs.Ledger
/-! Property C04: the theorems the check builds and audits (spike inventory; the build phase
    completes the list from DESIGN Appendix C.0). -/
#print axioms Blue.Books.tx_balances
#print axioms Blue.Books.verifier_accepts
#print axioms Blue.Books.tamper_output_rejected
#print axioms Blue.Books.tamper_discard_rejected
#print axioms Blue.Books.tamper_file_rejected
