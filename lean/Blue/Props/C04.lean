import Blue.Proofs.Books
import Blue.Proofs.Ledger
import Blue.Proofs.SetsumGrp
import Blue.Proofs.VerifyJoin
import Blue.Proofs.VerifyPair
import Blue.Proofs.RecoverLedger
import Blue.Proofs.ConstsTieC04
import Blue.Proofs.BooksCrash
import Blue.Proofs.BooksBytes
import Blue.Proofs.BooksBytesSetsum
import Blue.Proofs.BooksRollCrash
/-! # Property C04 — one setsum covers all data: manifest, files and contents always balance

Property theorems only.  Two layers, both over any commutative group (`Grp`; the canonical setsum
values of C14 are one: `setsumGrp`):

* **digests** (`Blue.Books`, one fragment, `D := Σ removed − Σ added` in every record): the record
  `apply_manifest_*` writes has `O` = the sum over the files of the new version (`tx_balances`);
  the chain / balance / discard pass (`ManifestVerifier`) accepts every chain of valid requests —
  a request that removes and adds one digest included — and the last `O` is the sum over the final
  files (`verifier_accepts`, `last_output`); one altered `I`, `O` or `D` digest, or one altered
  setsum of an added or removed file, is rejected (`tamper_*`).
* **contents** (`Blue.VerifyOne`, the model of `LsmVerifier::verify_one` / `verify_contents` /
  `verify_gc` with files as lists of entries and an item hash `h`): every history of the store
  model (ingest; compaction cut anywhere; garbage collection under any policy of C05's `gcP`;
  trivial move; an output that reproduces an input) is accepted fragment by fragment
  (`verifier_accepts_honest`); an accepted fragment balances and every file it read sums to its
  name, and every garbage collection in it wrote only entries of its inputs and discarded exactly
  the rest (`verify_one_sound`, `gc_outputs_are_inputs`); one entry of one named file dropped,
  added, duplicated or altered is rejected with the contents error, under the exact hash
  hypothesis (`entry_*_rejected`); and joined with C08's protocol: whatever a pass unlinks belongs
  to a fragment with those properties (`verifier_pass_sound`).

The driver runs `Blue.Books.verify setsumGrp` against the real `ManifestVerifier` and
`Blue.Verifier.pass (contentChecker …)` against whole passes of the real `LsmVerifier` on the dumped
directory and file contents (item hashes computed by the real `sst::Setsum`).

Recovery (`KeyValueStore::recover`, several write-ahead logs in one open — the state a process
death between a flush's log rotation and its manifest edit leaves when a client has written to
the fresh log): the records chain and the last output is the old one plus the recovered files
(`recover_chains`, `recover_output`); with the output parsed once before the loop they do not
(`hoisted_recovery_rejected`).  Compensating alterations of TWO digests of one record (`D + x`,
`O − x`; a collection's `D := 0`, `O := I`) are rejected on the discard, at that record
(`compensating_pair_rejected`, `gc_discard_erased_rejected`); with the discard comparison inside
the garbage-collection block they are accepted (`guarded_check_accepts_pair`).

Crash points (block `BooksCrash`, `Blue/Proofs/BooksCrash.lean`): the protocol model of C02
(`Blue.StoreCrash`: puts, flushes, merge compactions, clean reopens, as system-call lists) with every
manifest transaction BOOKED (`I` = Σ files, `D` = Σ removed − Σ added, `O = I − D`; a file's digest
= the group sum of its batches under an item hash).  At every crash point of every history, under
both persistence models, the manifest the crash leaves is a chain `Books.verify` accepts, its last
`O` is the sum over the files it lists, every listed file is in `sst/` and recomputes to its digest,
`from_manifest`'s comparison holds, and `O` plus the logs' batches is the sum over the batches
`0 … k-1`, acknowledged ≤ k ≤ appended (`books_at_every_crash_point`); the reopen of that image
appends exactly `recoverRecs` (`recover_chains`) and ends with `O` = old `O` + recovered files = the
sum over those batches, `from_manifest` succeeding (`books_after_recovery`); and so on over any
number of incarnations cut anywhere (`books_over_incarnations`, the shape of C02 `epochs_ok`,
relative to the same `image false` assumption).  Outside: what is outside C02's alphabet (garbage
collecting compactions in a continuing history, external ingest, a flush racing a compaction).

Through the bytes (block `BooksBytes`, `Blue/Proofs/BooksBytes.lean`, C04 ∘ C13): the edit a booked
transaction is written as (`bookedEdit`: files as the rendered digests that name them, info `D`, `I`,
`O` as rendered digests; the rendering is a parameter `Codec`, and C14's `hexdigest` /
`from_hexdigest` are one: `setsum_codec_ok`) reads back as its record (`booked_edit_roundtrip`); the
MANIFEST's bytes for the manifest of any crash image, cut at ANY byte, read through C13's reader as a
corruption error (`Manifest::open` fails: a torn tail is an error, not an accepted prefix) or as
the whole edits of a prefix of the transactions, which parse to the booked records, verify from
zero, and end with `O` = the sum over the files they list (`books_from_manifest_bytes`, under C13's
CRC hypothesis); and across the manifest's own rollover (`rollRec`: no removal, all live files
added, `I`/`O`/`D` of the LAST transaction) the new fragment `roll-up :: later` is accepted by
`verify_one`'s rule, first record `O = acc` only (`books_across_rollover`, also from the bytes:
`books_across_rollover_bytes`), and the checks of a later record would reject the roll-up
(`rollup_needs_first_record_rule` and its example).  Not in these theorems: the `L` field of a
flush's edit; `bookedEdit` takes the record's file lists in the order written (the verdict does not
depend on it: `digest_names_same_verdict`).  That C13's `rollup` of the replayed state IS
`bookedEdit` of `rollRec` up to the order of the added list is block `BooksRollCrash`
(`rollup_is_booked_rollrec`, for non-empty good manifests whose live files have pairwise distinct
digests at every prefix), with the books at every crash point inside the rollover's system calls
(`books_at_every_crash_point_of_a_rollover`, `…_of_an_apply_rollover`: C13's `rollover` / `editRoll`
blocks after the last transaction, both persistence models, and after the reopen that finishes the
interrupted rollover; the histories are one `apply` per transaction then the rollover — earlier
rollovers in the same history, and transactions after the crashed one, are not in these two);
two files with one digest collapse into one string of the `BTreeSet`.

Clauses of the property that are not theorems here: tampers of the
first record of a fragment (`first_edit_checks` says what is checked there) — see `partial` in
bin/props.py.  A trivial move writes no manifest edit.

Hash assumptions are explicit and minimal: `h x ≠ 0` (an entry that hashes to zero can be dropped or
added unseen by any sum), `h x' ≠ h x`, and `NoCollision` for multisets where a theorem needs it. -/
namespace Blue.Props.C04
open Blue.Books Blue.Setsum

/-- the canonical setsum values with column-wise addition are a commutative group -/
def group : Grp CState := setsumGrp

/-- the code's subtraction is addition of the group inverse (never underflows on API values) -/
theorem sub_is_group_sub {a b : State} (ha : Canonical a) (hb : Canonical b) :
    sub a b = some (add a (negState b)) := sub_eq_add_neg ha hb

variable {G : Type} [DecidableEq G] (g : Grp G) {F : Type} [DecidableEq F] (s : F → G)

/-- **the new version sums to the recorded output**: with `I` the sum over the tree's files,
    `D := Σ removed − Σ added` and `O := I − D` (the record `apply_manifest_*` writes), `O` is the sum
    over the files of the new version (second conjunct).  The first conjunct, `I = O + D`, is the
    group law — it holds by the construction of `O`, whatever the files are; it is listed because it
    is the equation the code asserts (`compaction_finish`) and the verifier checks. -/
theorem tx_balances (files rm ad : List F) (hnd : files.Nodup) (hrm : rm.Nodup)
    (hsub : ∀ f ∈ rm, f ∈ files) :
    let I := total g s files
    let D := computedDiscard g s rm ad
    let O := g.sub I D
    I = g.add O D ∧ total g s (applyTx files rm ad) = O := Blue.Books.tx_balances g s files rm ad hnd hrm hsub

/-- **the chain / balance / discard pass accepts every chain of valid requests** (ingests,
    compactions, collections in any order; a trivial move writes no edit), one fragment, with
    `D := Σ removed − Σ added` in every record.  `ValidReqs` — removed files live and distinct, added
    files distinct and not live unless removed by the same request (a compaction that reproduces an
    input) — is a hypothesis about what the tree requests (props.py assumptions); that the store's
    `discard_setsum`, which it computes from the dropped ENTRIES, is that `D` is
    `recorded_discard_is_removed_minus_added` below. -/
theorem verifier_accepts (reqs : List (List F × List F)) (files : List F) (hnd : files.Nodup)
    (hv : ValidReqs files reqs) :
    verify g s (total g s files) (ledger g s files reqs) = true :=
  Blue.Books.verifier_accepts g s reqs files hnd hv

/-- … and the last recorded output is the sum over the files of the final version -/
theorem last_output (reqs : List (List F × List F)) (files : List F) (hnd : files.Nodup)
    (hv : ValidReqs files reqs) (hne : reqs ≠ []) :
    ((ledger g s files reqs).getLast?.map (·.O)) = some (total g s (Blue.Books.finalFiles files reqs)) :=
  Blue.Books.last_output g s reqs files hnd hv hne

/-- non-vacuity of `ValidReqs`, with a request that removes and adds one digest: files 1 and 2 are
    compacted into file 2 (again) and file 3 -/
example : ValidReqs ([] : List Nat) exReadd ∧ verify intGrp exS 0 (ledger intGrp exS [] exReadd) = true
    ∧ Blue.Books.finalFiles [] exReadd = [2, 3] :=
  ⟨by simp [ValidReqs, ValidReq, exReadd, applyTx], by decide, by decide⟩

/-- one altered input digest ⇒ reject -/
theorem tamper_input_rejected (prev : G) (a b : List (Rec G F)) (r : Rec G F) (i' : G)
    (hv : verify g s prev (a ++ r :: b) = true) (hne : i' ≠ r.I) :
    verify g s prev (a ++ { r with I := i' } :: b) = false :=
  Blue.Books.tamper_input_rejected g s prev a b r i' hv hne

/-- one altered output digest ⇒ reject -/
theorem tamper_output_rejected (prev : G) (a b : List (Rec G F)) (r : Rec G F) (o' : G)
    (hv : verify g s prev (a ++ r :: b) = true) (hne : o' ≠ r.O) :
    verify g s prev (a ++ { r with O := o' } :: b) = false :=
  Blue.Books.tamper_output_rejected g s prev a b r o' hv hne

/-- one altered discard digest ⇒ reject -/
theorem tamper_discard_rejected (prev : G) (a b : List (Rec G F)) (r : Rec G F) (d' : G)
    (hv : verify g s prev (a ++ r :: b) = true) (hne : d' ≠ r.D) :
    verify g s prev (a ++ { r with D := d' } :: b) = false :=
  Blue.Books.tamper_discard_rejected g s prev a b r d' hv hne

/-- one altered setsum of a file that a transaction adds (and does not remove) ⇒ reject: the
    verifier recomputes the discard from the files -/
theorem tamper_added_file_rejected (prev : G) (a b : List (Rec G F)) (r : Rec G F) (s' : F → G) (f : F)
    (hok : verify g s prev (a ++ r :: b) = true) (hs : ∀ x, x ≠ f → s' x = s x) (hf : s' f ≠ s f)
    (had : r.ad.Nodup) (hin : f ∈ r.ad) (hrm : f ∉ r.rm) :
    verify g s' prev (a ++ r :: b) = false :=
  Blue.Books.tamper_added_file_rejected g s prev a b r s' f hok hs hf had hin hrm

/-- … or removes (and does not add) -/
theorem tamper_removed_file_rejected (prev : G) (a b : List (Rec G F)) (r : Rec G F) (s' : F → G) (f : F)
    (hok : verify g s prev (a ++ r :: b) = true) (hs : ∀ x, x ≠ f → s' x = s x) (hf : s' f ≠ s f)
    (hrmnd : r.rm.Nodup) (hin : f ∈ r.rm) (had : f ∉ r.ad) :
    verify g s' prev (a ++ r :: b) = false :=
  Blue.Books.tamper_removed_file_rejected g s prev a b r s' f hok hs hf hrmnd hin had

/-- non-vacuity: in the ledger "ingest 1, ingest 2, compact them into 3" the third record adds file 3
    and removes files 1 and 2 -/
example : verify intGrp exS 0 (ledger intGrp exS [] exReqs) = true
    ∧ (ledger intGrp exS [] exReqs).map (fun r => (r.rm, r.ad)) = [([], [1]), ([], [2]), ([1, 2], [3])] := by decide

/-- **recovery of several logs chains**: the records `KeyValueStore::recover` writes in one open —
    one ingest per log whose SST the manifest does not list, in ascending order, each with `I` =
    the output the manifest records when its turn comes (`recover_one` reads it itself) — pass the
    chain / balance / discard checks from the output recorded before the open -/
theorem recover_chains (logs listed : List F) (o : G) :
    verify g s o (recoverRecs g s listed o logs) = true := Blue.Books.recover_chains g s logs listed o

/-- … and the output recorded last is the old output plus the recovered files -/
theorem recover_output (logs listed : List F) (o : G) :
    lastO o (recoverRecs g s listed o logs) = g.add o (total g s (recovered listed logs)) :=
  Blue.Books.recover_output g s logs listed o

/-- **the reordered recovery** (the manifest's output parsed once, before the loop): two unlisted
    logs, the first not the zero setsum — the second record starts from the output from before the
    first and the chain check fails -/
theorem hoisted_recovery_rejected (o : G) (listed : List F) (f1 f2 : F) (rest : List F)
    (h1 : f1 ∉ listed) (h2 : f2 ∉ listed ++ [f1]) (hs : s f1 ≠ g.zero) :
    verify g s o (recoverRecsHoisted g s o listed (f1 :: f2 :: rest)) = false :=
  Blue.Books.hoisted_recovery_rejected g s o listed f1 f2 rest h1 h2 hs

/-- non-vacuity: output 0, logs whose files sum to 5 and 7 -/
example : verify intGrp id 0 (recoverRecs intGrp id [] 0 [5, 7]) = true
    ∧ lastO 0 (recoverRecs intGrp id [] 0 [5, 7]) = 12
    ∧ (5 : Int) ∉ ([] : List Int) ∧ (7 : Int) ∉ ([] : List Int) ++ [5] ∧ id (5 : Int) ≠ intGrp.zero
    ∧ verify intGrp id 0 (recoverRecsHoisted intGrp id 0 [] [5, 7]) = false := by decide

/-- where the source stands (`translate/extract.py`): `recover_one` reads `O` per log; the discard
    comparison of `verify_one` is outside the garbage-collection block -/
theorem recovery_and_discard_check_from_source :
    Blue.Generated.lsmtkRecoverReadsOutputPerLog = 1 ∧ Blue.Generated.lsmtkVerifierDiscardCheckUnguarded = 1 :=
  ⟨Blue.ConstsTie.c04_recover_reads_output_per_log, Blue.ConstsTie.c04_discard_check_unguarded⟩

/-! ## contents: what `LsmVerifier::verify_one` checks -/
section Contents
open Blue.VerifyOne Blue.Verifier
open Blue.Mani (Edit)
open Blue.Compact (Entry)
variable {G : Type} [DecidableEq G] (g : Grp G)

/-- **`verifier_accepts_honest`, one fragment**: the state at a roll-over followed by any history of
    transactions of the store — ingests, compactions (outputs = the merge of the inputs cut
    anywhere), garbage collections (outputs = what `gcP` retains, `D` = the sum over the dropped
    entries), trivial moves, outputs that reproduce an input under its name — is accepted by
    `verify_one`'s real checks, starting from the sum over the files at the roll-over, and what it
    returns is the sum over the files at the end.  Hypotheses: the environment computes in `g` and
    digests read back (`Honest`); the transactions are ones the tree makes (`ValidOps`: inputs are
    distinct live files, outputs are distinct and not live files other than inputs, the merged
    inputs of a collection have distinct (key, timestamp)s); every file a transaction reads or
    writes is in the directory under its name (`Present`). -/
theorem verifier_accepts_honest (env : Env G) (nm : G → Name) (hh : Honest g env nm) (I D : G)
    (files : List File) (ops : List StoreOp) (hnd : files.Nodup) (hv : ValidOps env files ops)
    (hp : Present env files ops) :
    verifyFragment env (treeSum env.ops env.h files)
        (rollup env.ops env.h nm I D files :: editsOf env.ops env.h env.policy nm files ops)
      = .ok (treeSum env.ops env.h (finalFiles env.policy files ops)) :=
  fragment_accepted g env nm hh I D files ops hnd hv hp

/-- … **for any roll-over points**: the fragments are accepted one after the other, each from what
    the one before returned -/
theorem verifier_accepts_honest_rollovers (env : Env G) (nm : G → Name) (hh : Honest g env nm) (I D : G)
    (segs : List (List StoreOp)) (files : List File) (hnd : files.Nodup) (hv : ValidSegs env files segs) :
    ∃ acc, verifyAll env (treeSum env.ops env.h files)
      (fragmentsOf env.ops env.h env.policy nm I D files segs) = .ok acc :=
  fragments_accepted g env nm hh I D segs files hnd hv

/-- **the discard the store records is Σ removed − Σ added**: `perform_garbage_collection` sums the
    entries it drops, `perform_compaction` records zero, an ingest records minus the new file — and
    by conservation (a compaction writes a permutation of what it read; a collection's kept and
    dropped entries are its inputs, each once) that is the sum over the names of the removed files
    minus the sum over the names of the added ones, which is what the verifier recomputes -/
theorem recorded_discard_is_removed_minus_added (env : Env G) (he : env.ops = opsOf g) (op : StoreOp) :
    opDiscard env.ops env.h env.policy op
      = computedDiscard g (fsum env) (opRm op) (opAdd env.policy op) :=
  opDiscard_eq g env he op

/-- **the first edit of a fragment** (the state at the roll-over) is checked for one thing: its `O` is
    the verifier's accumulator (and its digests parse).  Balance, discard and contents are not looked
    at (verifier.rs: "The first entry is known to not balance"): an altered `I`, `D` or file list of
    a roll-up edit is not seen by `verify_one` (the store's open compares the listed files with `O`). -/
theorem first_edit_checks (env : Env G) (acc : G) (e : Edit) (acc' o : G) :
    verifyEdit env true acc e = .ok (acc', o) ↔
      (∃ I D adds rms, info env e 73 = .ok I ∧ info env e 79 = .ok acc ∧ info env e 68 = .ok D
        ∧ parseAll env e.add = some adds ∧ parseAll env e.rm = some rms) ∧ acc' = acc ∧ o = acc :=
  verifyEdit_first_ok env acc e acc' o

/-- non-vacuity: digests of the examples read back; the history "ingest `{a@5, a@2, b@3, c@1}`,
    collect it" is valid, its files are present, and the fragment it writes is the one of the
    concrete instances below -/
example : Honest intGrp (exEnv [[a5, a2, b3, c1], [a5, b3, c1]] false) exName ∧
    ValidOps (exEnv [[a5, a2, b3, c1], [a5, b3, c1]] false) [] [.ingest [a5, a2, b3, c1], .gc [[a5, a2, b3, c1]] []] ∧
    Present (exEnv [[a5, a2, b3, c1], [a5, b3, c1]] false) [] [.ingest [a5, a2, b3, c1], .gc [[a5, a2, b3, c1]] []] ∧
    finalFiles (.versions 1) [] [.ingest [a5, a2, b3, c1], .gc [[a5, a2, b3, c1]] []] = [[a5, b3, c1]] := by
  refine ⟨⟨rfl, ?_⟩, ?_, ?_, by decide⟩
  · intro s
    show exParse (exName s) = some s
    unfold exName exParse
    by_cases hs : s < 0
    · simp only [hs, if_true]; congr 1; omega
    · simp only [hs, if_false]; congr 1; omega
  · simp only [ValidOps, ValidOp, isMove, Strict]
    decide
  · simp only [Present, isMove]
    decide

/-- **soundness of `verify_one`**: an accepted fragment starts at the verifier's accumulator (its
    first edit's `O`), and every edit after the first continues from the one before (`I`), balances
    (`I = O + D`), records the discard its files say (`D = Σ removed − Σ added`), names only files
    that are there and whose entries sum to their names, and — when it is a garbage collection
    (`D ≠ 0`, something removed) — satisfies `GcFacts`: the merged outputs' (key, timestamp)s are a
    sub-list of the merged inputs' ("no data construction"), `D` is the sum over the inputs without
    a partner, and every key the policy retains is among the outputs or — as the code is — sorts
    after the last output -/
theorem verify_one_sound (env : Env G) (he : env.ops = opsOf g) (acc : G) (es : List Edit) (acc' : G)
    (hok : verifyFragment env acc es = .ok acc') : FragmentFacts g env acc es acc' :=
  verifyFragment_sound g env he acc es acc' hok

/-- **a garbage collection the verifier accepts wrote only entries of its inputs, values included.**
    `verify_gc` compares keys and timestamps only; the VALUES of retained entries are pinned by the
    arithmetic: recorded discard = Σ removed − Σ added (names), names = recomputed contents, computed
    discard = Σ inputs without partner, so Σ h(outputs) = Σ h(matched inputs), and — no collision
    between these two multisets — the outputs ARE the matched inputs -/
theorem gc_outputs_are_inputs (env : Env G) (acc : G) (e : Edit) (o : G) (hf : EditFacts g env acc e o)
    (D : G) (adds rms : List G) (hD : info env e 68 = .ok D) (ha : parseAll env e.add = some adds)
    (hr : parseAll env e.rm = some rms) (hne : D ≠ g.zero) (hrm : rms ≠ []) :
    ∃ ins outs matched, readAll env rms = .ok ins ∧ readAll env adds = .ok outs
      ∧ matched.Sublist (mergeTables ins) ∧ matched.map kr = (mergeTables outs).map kr
      ∧ total g env.h (mergeTables outs) = total g env.h matched
      ∧ (NoCollision g env.h (mergeTables outs) matched → ∀ x ∈ mergeTables outs, x ∈ mergeTables ins) :=
  Blue.VerifyOne.gc_outputs_are_inputs g env acc e o hf D adds rms hD ha hr hne hrm

/-- **`discard_altered_rejected`, contents**: for given files `verify_gc` accepts one discard — the
    sum over the inputs without a partner in the outputs (`GcFacts`); any other: "garbage
    collection has bad discard" -/
theorem discard_altered_rejected (env : Env G) (rms adds : List G) (D D' : G)
    (hok : verifyGc env rms adds D = .ok ()) (hne : D' ≠ D) :
    verifyGc env rms adds D' = .error .gcDiscard :=
  verifyGc_discard_unique env rms adds D D' hok hne

/-- **`content_tamper_rejected`**: in a fragment the verifier accepts, let the file under ONE name
    `s` that an edit other than the first adds or removes (an ingest's file, a compaction's input or
    output, a collection's input in `trash/` or output) hold `f'` instead, with entries that do not
    sum to `s`; manifest and all other files unchanged.  Then `verify_one` stops with "sst contents
    do not match the setsum that names it". -/
theorem content_tamper_rejected (env : Env G) (fs' : G → Option File) (s : G)
    (hoff : ∀ x, x ≠ s → fs' x = env.fs x) (f' : File) (hf' : fs' s = some f')
    (hsum : setsumOf env.ops env.h f' ≠ s) (acc : G) (es : List Edit) (acc' : G)
    (hok : verifyFragment env acc es = .ok acc') (hm : ∃ e ∈ es.drop 1, Mentions env e s) :
    verifyFragment (withFs env fs') acc es = .error .contents :=
  Blue.VerifyOne.content_tamper_rejected env fs' s hoff f' hf' hsum acc es acc' hok hm

/-- one entry dropped, provided it does not hash to zero -/
theorem entry_dropped_rejected (env : Env G) (he : env.ops = opsOf g) (fs' : G → Option File) (s : G)
    (hoff : ∀ x, x ≠ s → fs' x = env.fs x) (acc : G) (es : List Edit) (acc' : G)
    (hok : verifyFragment env acc es = .ok acc') (hm : ∃ e ∈ es.drop 1, Mentions env e s)
    (a b : List Entry) (x : Entry) (hf : env.fs s = some (a ++ x :: b)) (hf' : fs' s = some (a ++ b))
    (hx : env.h x ≠ g.zero) : verifyFragment (withFs env fs') acc es = .error .contents :=
  Blue.VerifyOne.entry_dropped_rejected g env he fs' s hoff acc es acc' hok hm a b x hf hf' hx

/-- one entry added, provided it does not hash to zero -/
theorem entry_added_rejected (env : Env G) (he : env.ops = opsOf g) (fs' : G → Option File) (s : G)
    (hoff : ∀ x, x ≠ s → fs' x = env.fs x) (acc : G) (es : List Edit) (acc' : G)
    (hok : verifyFragment env acc es = .ok acc') (hm : ∃ e ∈ es.drop 1, Mentions env e s)
    (a b : List Entry) (x : Entry) (hf : env.fs s = some (a ++ b)) (hf' : fs' s = some (a ++ x :: b))
    (hx : env.h x ≠ g.zero) : verifyFragment (withFs env fs') acc es = .error .contents :=
  Blue.VerifyOne.entry_added_rejected g env he fs' s hoff acc es acc' hok hm a b x hf hf' hx

/-- one entry duplicated (a copy of `x` after it, under the same or another timestamp) -/
theorem entry_duplicated_rejected (env : Env G) (he : env.ops = opsOf g) (fs' : G → Option File) (s : G)
    (hoff : ∀ x, x ≠ s → fs' x = env.fs x) (acc : G) (es : List Edit) (acc' : G)
    (hok : verifyFragment env acc es = .ok acc') (hm : ∃ e ∈ es.drop 1, Mentions env e s)
    (a b : List Entry) (x : Entry) (t : Nat) (hf : env.fs s = some (a ++ x :: b))
    (hf' : fs' s = some (a ++ x :: { x with ts := t } :: b)) (hx : env.h { x with ts := t } ≠ g.zero) :
    verifyFragment (withFs env fs') acc es = .error .contents :=
  Blue.VerifyOne.entry_duplicated_rejected g env he fs' s hoff acc es acc' hok hm a b x t hf hf' hx

/-- the value of one entry altered (a value for a value, a tombstone for a value, …), provided the
    two entries do not hash alike; the file may be an ingest's, a compaction's or a collection's:
    `verify_contents` runs on every added and removed file before `verify_gc` (commit 6a9f385) -/
theorem entry_value_altered_rejected (env : Env G) (he : env.ops = opsOf g) (fs' : G → Option File) (s : G)
    (hoff : ∀ x, x ≠ s → fs' x = env.fs x) (acc : G) (es : List Edit) (acc' : G)
    (hok : verifyFragment env acc es = .ok acc') (hm : ∃ e ∈ es.drop 1, Mentions env e s)
    (a b : List Entry) (x : Entry) (v : Option (List Nat)) (hf : env.fs s = some (a ++ x :: b))
    (hf' : fs' s = some (a ++ { x with val := v } :: b)) (hx : env.h { x with val := v } ≠ env.h x) :
    verifyFragment (withFs env fs') acc es = .error .contents :=
  Blue.VerifyOne.entry_value_altered_rejected g env he fs' s hoff acc es acc' hok hm a b x v hf hf' hx

/-- one entry replaced by any other (another timestamp, another key) -/
theorem entry_altered_rejected (env : Env G) (he : env.ops = opsOf g) (fs' : G → Option File) (s : G)
    (hoff : ∀ x, x ≠ s → fs' x = env.fs x) (acc : G) (es : List Edit) (acc' : G)
    (hok : verifyFragment env acc es = .ok acc') (hm : ∃ e ∈ es.drop 1, Mentions env e s)
    (a b : List Entry) (x x' : Entry) (hf : env.fs s = some (a ++ x :: b)) (hf' : fs' s = some (a ++ x' :: b))
    (hx : env.h x' ≠ env.h x) : verifyFragment (withFs env fs') acc es = .error .contents :=
  Blue.VerifyOne.entry_altered_rejected g env he fs' s hoff acc es acc' hok hm a b x x' hf hf' hx

/-- non-vacuity of the tamper theorems: the fragment "ingest `{a@5, a@2, b@3, c@1}`, collect it into
    `{a@5, b@3, c@1}`" is accepted, its collection names the output, and with the value of `b@3`
    altered under the output's name it is rejected with the contents error -/
example :
    (verifyFragment (exEnv [[a5, a2, b3, c1], [a5, b3, c1]] false) 0 (exFrag [a5, a2, b3, c1] [a5, b3, c1])).toOption
        = some (setsumOf (opsOf intGrp) exH [a5, b3, c1])
    ∧ (∃ e ∈ (exFrag [a5, a2, b3, c1] [a5, b3, c1]).drop 1,
        Mentions (exEnv [[a5, a2, b3, c1], [a5, b3, c1]] false) e (setsumOf (opsOf intGrp) exH [a5, b3, c1]))
    ∧ exH { b3 with val := some [9] } ≠ exH b3 :=
  ⟨ex_honest_accepted, ⟨_, List.mem_cons_of_mem _ List.mem_cons_self, _, List.mem_cons_self, by decide⟩, by decide⟩

/-- **C04 ∘ C08 `verifier_pass_sound`**: `Blue.Verifier.pass` run with the real checks unlinks in
    `trash/` only names logged under a fragment whose plan names them and for which
    `FragmentFacts` holds: it started at the accumulator of that moment, and every edit `e` after
    its first has `EditFacts`: `I` = the output before it, `I = O + D`, `D = Σ removed − Σ added`,
    every file named is there and its entries sum to its name, a collection satisfies `GcFacts` —
    the precondition under which the inputs of its compactions and collections are redundant -/
theorem verifier_pass_sound (env : Env G) (he : env.ops = opsOf g) (d : Dir G)
    (h : Reach (contentChecker env) d) (i : Nat) (x : Name)
    (hx : (pass (contentChecker env) d).1[i]? = some (Act.unlinkTrash x)) :
    ∃ n es a names later acc',
      (run d ((pass (contentChecker env) d).1.take i)).vM = some n
      ∧ (n, es, a) ∈ (run d ((pass (contentChecker env) d).1.take i)).done
      ∧ plan false later es = some names ∧ x ∈ names
      ∧ FragmentFacts g env a es acc'
      ∧ ∀ e ∈ es.drop 1, ∃ a1 o, EditFacts g env a1 e o :=
  Blue.VerifyOne.verifier_pass_sound g env he d h i x hx

/-- non-vacuity: a directory whose pass, with the real checks, verifies the collection of the
    examples and unlinks its input -/
def exDir : Dir Int :=
  { sst := [exName (setsumOf (opsOf intGrp) exH [a5, b3, c1])],
    trash := [trashSst (exName (setsumOf (opsOf intGrp) exH [a5, a2, b3, c1]))],
    frags := [(1, exFrag [a5, a2, b3, c1] [a5, b3, c1]), (2, [])], live := [],
    vstrs := [], vM := none, vO := 0, done := [] }

/-- is this action the unlink of `x` in `trash/`? -/
def isUnlinkOf (x : Name) : Act Int → Bool
  | .unlinkTrash y => y == x
  | _ => false

example : Reach (contentChecker (exEnv [[a5, a2, b3, c1], [a5, b3, c1]] false)) exDir ∧
    (pass (contentChecker (exEnv [[a5, a2, b3, c1], [a5, b3, c1]] false)) exDir).2 = .ok ∧
    ((pass (contentChecker (exEnv [[a5, a2, b3, c1], [a5, b3, c1]] false)) exDir).1.map
      (isUnlinkOf (trashSst (exName (setsumOf (opsOf intGrp) exH [a5, a2, b3, c1]))))) = [false, false, true, false] :=
  ⟨Reach.fresh _ rfl rfl rfl, by decide, by decide⟩

/-- **as the code is** (observation, not a violation of C04's words — see DESIGN / the hand-back):
    a collection that also drops `c@1`, the newest version of the last key, which the policy
    retains, with every digest consistent, is accepted: the inputs left when the outputs are
    exhausted go to the computed discard unexamined.  The same drop before the last output is "data
    loss"; with the inputs left over compared with the collector too
    (a variant of verify_gc tried in a scratch copy, not in /repo, `tailChecked`), so is this one. -/
theorem gc_tail_loss_accepted :
    (verifyFragment (exEnv [[a5, a2, b3, c1], [a5, b3]] false) 0 (exFrag [a5, a2, b3, c1] [a5, b3])).toOption
        = some (setsumOf (opsOf intGrp) exH [a5, b3])
      ∧ (c1.key, c1.ts) ∈ retained (.versions 1) (mergeTables [[a5, a2, b3, c1]])
      ∧ verifyFragment (exEnv [[a5, a2, b3, c1], [a5, b3]] true) 0 (exFrag [a5, a2, b3, c1] [a5, b3])
        = .error .gcDataLoss
      ∧ verifyFragment (exEnv [[a5, a2, b3, c1], [a5, c1]] false) 0 (exFrag [a5, a2, b3, c1] [a5, c1])
        = .error .gcDataLoss :=
  ⟨ex_tail_loss_accepted.1, ex_tail_loss_accepted.2.1, ex_tail_loss_accepted.2.2, ex_inner_loss_rejected⟩

/-- what `verify_gc` guarantees about retention in general (the clause of `GcFacts`, from the walk):
    every key the collector retains is among the outputs, or — `tail = false`, the code as it is —
    sorts after every output -/
theorem gc_retention_up_to_last_output (h : Entry → G) (tail : Bool) (ins outs : List Entry)
    (R : List KeyRef) (acc d : G) (hs : Strict ins) (hR : R.Sublist (ins.map kr))
    (hok : gcWalk (opsOf g) h tail ins outs R acc = .ok d) :
    ∀ r ∈ R, r ∈ outs.map kr ∨ (tail = false ∧ ∀ o ∈ outs, krLt (kr o) r = true) :=
  gcWalk_retains g h tail ins outs R acc d hs hR hok

/-- a digest text in which the first digit of a byte `0x` is written `+x` reads as the same value
    (`u8::from_str_radix` takes a sign): such an edit of one character of a recorded digest changes
    nothing the verifier computes with — the record says what it said -/
theorem hexdigest_sign_same_value (d : Char) : Blue.Setsum.parsePair '+' d = Blue.Setsum.parsePair '0' d := by
  unfold Blue.Setsum.parsePair
  simp only [if_true]
  have h0 : ('0' = '+') = False := by decide
  simp only [h0, if_false]
  have hz : Blue.Setsum.digitVal '0' = some 0 := rfl
  rw [hz]
  cases Blue.Setsum.digitVal d <;> simp

/-- **`compensating_pair_rejected`**: in a fragment the verifier accepts, one record other than the
    first — second, middle or last — replaced by a record with the same names, `I` and `L` whose
    recorded `O'`, `D'` still balance (`I = O' + D'`) but whose `D'` is not the discard recorded:
    rejected with "manifest has bad discard", by the check on that record.  No group law is
    needed: `D` must be Σ removed − Σ added recomputed from the names, whatever `O` says. -/
theorem compensating_pair_rejected (env : Env G) (acc : G) (e0 : Edit) (a b : List Edit) (e e' : Edit) (acc' : G)
    (hok : verifyFragment env acc (e0 :: (a ++ e :: b)) = .ok acc') (hs : SameButOD env e e')
    (I D O' D' : G) (hI : info env e 73 = .ok I) (hD : info env e 68 = .ok D)
    (hO' : info env e' 79 = .ok O') (hD' : info env e' 68 = .ok D')
    (hbal : I = env.ops.add O' D') (hne : D' ≠ D) :
    verifyFragment env acc (e0 :: (a ++ e' :: b)) = .error .discard :=
  Blue.VerifyOne.compensating_pair_rejected env acc e0 a b e e' acc' hok hs I D O' D' hI hD hO' hD' hbal hne

/-- **`gc_discard_erased_rejected`**: a record with `D ≠ 0` (a garbage collection) rewritten to
    `D' = 0`, `O' = I` does not pass as a compaction -/
theorem gc_discard_erased_rejected (env : Env G) (he : env.ops = opsOf g) (acc : G) (e0 : Edit)
    (a b : List Edit) (e e' : Edit) (acc' : G)
    (hok : verifyFragment env acc (e0 :: (a ++ e :: b)) = .ok acc') (hs : SameButOD env e e')
    (I D : G) (hI : info env e 73 = .ok I) (hD : info env e 68 = .ok D) (hD0 : D ≠ env.ops.zero)
    (hO' : info env e' 79 = .ok I) (hD' : info env e' 68 = .ok env.ops.zero) :
    verifyFragment env acc (e0 :: (a ++ e' :: b)) = .error .discard :=
  Blue.VerifyOne.gc_discard_erased_rejected g env he acc e0 a b e e' acc' hok hs I D hI hD hD0 hO' hD'

/-- non-vacuity of the two, over the integers: the honest collection followed by an ingest
    verifies; `D, O` shifted by `+1 / −1`, and `D := 0`, `O := I`, are rejected on the discard -/
theorem pairs_rejected_example :
    let X := [a5, a2, b3, c1]
    let Y := [a5, b3, c1]
    let sx := setsumOf (opsOf intGrp) exH X
    let sy := setsumOf (opsOf intGrp) exH Y
    (verifyFragment (exEnv [X, Y, [b1]] false) 0 (exFragThen X Y [b1] sy (sx - sy))).toOption
        = some (sy + setsumOf (opsOf intGrp) exH [b1])
    ∧ verifyFragment (exEnv [X, Y, [b1]] false) 0 (exFragThen X Y [b1] (sy - 1) (sx - sy + 1)) = .error .discard
    ∧ verifyFragment (exEnv [X, Y, [b1]] false) 0 (exFragThen X Y [b1] sx 0) = .error .discard :=
  ex_pairs_rejected

/-- **the discard comparison moved inside the garbage-collection block** (`finishEditGuarded`):
    the erased collection and the shifted ingest are accepted with the honest accumulator; the
    checks in the order of the code reject the same fragments -/
theorem guarded_check_accepts_pair :
    let X := [a5, a2, b3, c1]
    let Y := [a5, b3, c1]
    let sx := setsumOf (opsOf intGrp) exH X
    let sy := setsumOf (opsOf intGrp) exH Y
    (verifyFragmentWith finishEditGuarded (exEnv [X, Y, [b1]] false) 0 (exFragThen X Y [b1] sx 0)).toOption
        = some (sy + setsumOf (opsOf intGrp) exH [b1])
    ∧ (verifyFragmentWith finishEditGuarded (exEnv [X, Y, [b1]] false) 0
        [ Blue.VerifyOne.mkEdit exName 0 0 0 [] [],
          Blue.VerifyOne.mkEdit exName 0 (sx - 1) (-sx + 1) [] [sx],
          Blue.VerifyOne.mkEdit exName sx sy (sx - sy) [sx] [sy] ]).toOption = some sy
    ∧ verifyFragment (exEnv [X, Y, [b1]] false) 0
        [ Blue.VerifyOne.mkEdit exName 0 0 0 [] [],
          Blue.VerifyOne.mkEdit exName 0 (sx - 1) (-sx + 1) [] [sx],
          Blue.VerifyOne.mkEdit exName sx sy (sx - sy) [sx] [sy] ] = .error .discard :=
  Blue.VerifyOne.guarded_check_accepts_pair

/-- `verifyFragmentWith` run with the checks of the code is `verify_one` -/
theorem guarded_model_is_verify_one_otherwise (env : Env G) (acc : G) (es : List Edit) :
    verifyFragmentWith finishEdit env acc es = verifyFragment env acc es :=
  verifyFragmentWith_finishEdit env acc es

end Contents

-- BEGIN BooksCrash
/-! ## the books at the crash points of C02 -/
section BooksCrash
open Blue.StoreCrash Blue.StoreFault Blue.BooksCrash
variable {G : Type} [DecidableEq G] (g : Grp G) (h : Nat → G)

/-- **`books_at_every_crash_point`**: every history of C02's alphabet (puts, flushes, merge
    compactions, clean reopens), every crash point `n` of its system-call sequence, both
    persistence models (`b = true`: unsynced bytes are lost; `b = false`: completed calls persist).
    `M` is the manifest the crash leaves (`maniOf`), `booked g h [] M` its records with the digests
    the code writes (`I` = Σ files, `D` = Σ removed − Σ added, `O = I − D`; digest of a file = group
    sum of its batches under the item hash `h`).  The verifier accepts the chain from the zero
    setsum; its last `O` is the sum over the files it lists; every listed file is in `sst/` and the
    digest recomputed from its bytes (as the persistence model shows them) is the recorded one;
    the comparison `Tree::from_manifest` makes holds; and `O` plus the batches of the logs in the
    directory that are not in a listed file is the group sum over the batches `0 … k-1`,
    `acknowledged ≤ k ≤ appended`. -/
theorem books_at_every_crash_point (hist : List Client) (n : Nat) (b : Bool) :
    let fs := run fs0 ((opsOf hist kv0).take n)
    let M := maniOf b fs
    verify g (digest g h) g.zero (booked g h [] M) = true
    ∧ maniO g h M = total g (digest g h) (live M)
    ∧ (∀ nm ∈ live M, fileDigest g h (viewOf b) fs nm = some (digest g h nm))
    ∧ fromManifestOk g h (viewOf b) M fs = true
    ∧ ∃ k, acked ((opsOf hist kv0).take n) ≤ k ∧ k ≤ appended ((opsOf hist kv0).take n)
        ∧ g.add (maniO g h M) (total g h (logPart (live M) (fs.logs.map (fun l => viewOf b l.2))))
            = total g h (List.range k) :=
  Blue.BooksCrash.books_at_every_crash_point g h hist n b

/-- **`books_after_recovery`**: the reopen of that crash image (`image b`), at the point where
    `recover` has run (`recover_one` per log, ascending: `recLogs`) and `from_manifest` compares.
    The booked manifest is the old chain followed by `recoverRecs` (`recover_chains` above) on the
    non-empty logs of the image; the verifier accepts it; its last `O` is the old `O` plus the
    recovered files, is the sum over the files listed now, and is the group sum over the batches
    `0 … k-1`, `acknowledged ≤ k ≤ appended` — every acknowledged batch, and of the unacknowledged
    ones exactly those whose log append the image shows (at most the put in flight); every listed
    file recomputes to its digest from written and from synced bytes; `from_manifest`'s comparison
    succeeds; the rest of the open (`cleanup_orphans`, the new log) leaves that manifest. -/
theorem books_after_recovery (hist : List Client) (n : Nat) (b : Bool) :
    let img := image b (run fs0 ((opsOf hist kv0).take n))
    let M := maniOf b (run fs0 ((opsOf hist kv0).take n))
    let fs1 := run img (recLogs img.logs img)
    img.maniDurable = M
    ∧ (run img (recoverOps img)).maniDurable = fs1.maniDurable
    ∧ booked g h [] fs1.maniDurable
        = booked g h [] M ++ recoverRecs g (digest g h) (live M) (maniO g h M) (logNames img)
    ∧ verify g (digest g h) g.zero (booked g h [] fs1.maniDurable) = true
    ∧ maniO g h fs1.maniDurable = g.add (maniO g h M) (total g (digest g h) (recovered (live M) (logNames img)))
    ∧ maniO g h fs1.maniDurable = total g (digest g h) (live fs1.maniDurable)
    ∧ (∀ nm ∈ live fs1.maniDurable, fileDigest g h (·.data) fs1 nm = some (digest g h nm)
        ∧ fileDigest g h (·.durable) fs1 nm = some (digest g h nm))
    ∧ fromManifestOk g h (·.data) fs1.maniDurable fs1 = true
    ∧ fromManifestOk g h (·.durable) fs1.maniDurable fs1 = true
    ∧ ∃ k, acked ((opsOf hist kv0).take n) ≤ k ∧ k ≤ appended ((opsOf hist kv0).take n)
        ∧ maniO g h fs1.maniDurable = total g h (List.range k) :=
  Blue.BooksCrash.books_after_recovery g h hist n b

/-- **`books_over_incarnations`** (C02 `epochs_ok` with the books): any number of incarnations,
    each opening what the previous one left, running any history and cut anywhere — inside its
    recovery too — by a crash under either persistence model (or a surfaced fault: the same
    directory), from a directory of the class `Img` whose manifest is a good chain (`GoodTxs`: each
    transaction removes, of the listed files, exactly its `rms`; the empty store: `img_empty`).  The
    last directory is of the class again and its manifest is a good chain … -/
theorem books_over_incarnations (es : List Epoch) (fs : Fs) (k : Nat) (himg : Img fs k)
    (hgood : GoodTxs [] fs.maniDurable) :
    ∃ k', Img (runEpochs fs es) k' ∧ k + ackedEpochs fs es ≤ k' ∧ k' ≤ k + appendedEpochs fs es
      ∧ GoodTxs [] (runEpochs fs es).maniDurable :=
  Blue.BooksCrash.books_over_incarnations es fs k himg hgood

/-- … **and of such a directory the books hold**: the verifier accepts the booked manifest, `O` is
    the sum over the listed files, each listed file recomputes to its digest, `from_manifest`'s
    comparison holds, `O` plus the logs' batches not in a listed file is the sum over `0 … k-1` … -/
theorem books_of_img {fs : Fs} {k : Nat} (himg : Img fs k) (hgood : GoodTxs [] fs.maniDurable) :
    verify g (digest g h) g.zero (booked g h [] fs.maniDurable) = true
    ∧ maniO g h fs.maniDurable = total g (digest g h) (live fs.maniDurable)
    ∧ (∀ nm ∈ live fs.maniDurable, fileDigest g h (·.data) fs nm = some (digest g h nm))
    ∧ fromManifestOk g h (·.data) fs.maniDurable fs = true
    ∧ g.add (maniO g h fs.maniDurable)
        (total g h (logPart (live fs.maniDurable) (fs.logs.map (fun l => l.2.data)))) = total g h (List.range k) :=
  Blue.BooksCrash.books_of_img g h himg hgood

/-- … and its next reopen extends the chain by `recoverRecs` to one the verifier accepts, ending at
    the sum over all the batches `0 … k-1`, with `from_manifest`'s comparison succeeding -/
theorem books_recovery_img {fs : Fs} {k : Nat} (himg : Img fs k) (hgood : GoodTxs [] fs.maniDurable) :
    let fs1 := run fs (recLogs fs.logs fs)
    booked g h [] fs1.maniDurable
        = booked g h [] fs.maniDurable
          ++ recoverRecs g (digest g h) (live fs.maniDurable) (maniO g h fs.maniDurable) (logNames fs)
    ∧ verify g (digest g h) g.zero (booked g h [] fs1.maniDurable) = true
    ∧ maniO g h fs1.maniDurable
        = g.add (maniO g h fs.maniDurable) (total g (digest g h) (recovered (live fs.maniDurable) (logNames fs)))
    ∧ maniO g h fs1.maniDurable = total g (digest g h) (live fs1.maniDurable)
    ∧ maniO g h fs1.maniDurable = total g h (List.range k)
    ∧ (∀ nm ∈ live fs1.maniDurable, fileDigest g h (·.data) fs1 nm = some (digest g h nm)
        ∧ fileDigest g h (·.durable) fs1 nm = some (digest g h nm))
    ∧ fromManifestOk g h (·.data) fs1.maniDurable fs1 = true
    ∧ fromManifestOk g h (·.durable) fs1.maniDurable fs1 = true :=
  Blue.BooksCrash.books_recovery_img g h himg hgood

/-- the transactions of every history are good from the client's files; so is every prefix -/
theorem history_txs_good (hist : List Client) (kv : Kv) : GoodTxs kv.files (appendedTxs (opsOf hist kv)) :=
  good_hist hist kv

/-- non-vacuity of the hypotheses of `books_over_incarnations`: the empty store -/
example : Img fs0 0 ∧ GoodTxs [] fs0.maniDurable := ⟨img0, trivial⟩

/-- the history and the crash image of the example below -/
def exCrashOps : List Op := opsOf [.put, .put, .flush, .put] kv0
def exCrashFs : Fs := run fs0 (exCrashOps.take 11)

/-- non-vacuity, digests in ℤ mod 7 with item hash `b ↦ 3b + 1`: put, put, flush, put, cut after the
    flush's manifest append and before its sync (call 11).  Model (b): the manifest is empty, `O = 0`,
    the log holds both acknowledged batches; model (a): one record `I = 0, O = 5, D = 2` adding the
    file `{0,1}`, accepted, `O = 5 = h 0 + h 1`.  The reopen: under (b) `recover_one` appends that
    record (`recoverRecs` has one entry); under (a) the file is listed and it appends nothing; both
    end with `O = 5`, the sum over the two acknowledged batches, and `from_manifest` agrees. -/
example :
    exCrashOps[10]? = some (Op.maniAppend ⟨[[0, 1]], []⟩) ∧ acked (exCrashOps.take 11) = 2
    ∧ maniOf true exCrashFs = [] ∧ maniOf false exCrashFs = [⟨[[0, 1]], []⟩]
    ∧ (booked z7 h7 [] (maniOf false exCrashFs)).map (fun r => (r.I, r.O, r.D)) = [(0, 5, 2)]
    ∧ (booked z7 h7 [] (maniOf false exCrashFs)).map (fun r => (r.rm, r.ad)) = [([], [[0, 1]])]
    ∧ verify z7 (digest z7 h7) 0 (booked z7 h7 [] (maniOf false exCrashFs)) = true
    ∧ maniO z7 h7 (maniOf true exCrashFs) = 0 ∧ maniO z7 h7 (maniOf false exCrashFs) = 5
    ∧ fromManifestOk z7 h7 (viewOf false) (maniOf false exCrashFs) exCrashFs = true
    ∧ fromManifestOk z7 h7 (viewOf true) (maniOf true exCrashFs) exCrashFs = true
    ∧ total z7 h7 (logPart (live (maniOf true exCrashFs)) (exCrashFs.logs.map (fun l => viewOf true l.2))) = 5
    ∧ total z7 h7 (List.range 2) = 5
    ∧ logNames (image true exCrashFs) = [[0, 1]]
    ∧ (recoverRecs z7 (digest z7 h7) (live (maniOf true exCrashFs)) 0 (logNames (image true exCrashFs))).map
        (fun r => (r.I, r.O, r.D)) = [(0, 5, 2)]
    ∧ (recoverRecs z7 (digest z7 h7) (live (maniOf false exCrashFs)) 5 (logNames (image false exCrashFs))).length = 0
    ∧ maniO z7 h7 (run (image true exCrashFs) (recLogs (image true exCrashFs).logs (image true exCrashFs))).maniDurable = 5
    ∧ maniO z7 h7 (run (image false exCrashFs) (recLogs (image false exCrashFs).logs (image false exCrashFs))).maniDurable = 5
    ∧ fromManifestOk z7 h7 (·.durable) (run (image true exCrashFs) (recLogs (image true exCrashFs).logs (image true exCrashFs))).maniDurable
        (run (image true exCrashFs) (recLogs (image true exCrashFs).logs (image true exCrashFs))) = true := by decide

/-- non-vacuity over incarnations (the epochs of C02's example): a flush cut (power loss) after its SST
    is linked and before the manifest is written; the recovery of that image cut (power loss) right
    after ITS manifest append, unsynced — the manifest is empty, `O = 0`, the log carries `h 0 + h 1 = 5`;
    cut one call later (synced) — `O = 5`, one record; `from_manifest` agrees either way -/
example :
    let e1 : Epoch := ⟨[.put, .put, .flush], 2 + 6 + 4, true⟩
    (runEpochs fs0 [e1, ⟨[], 3, true⟩]).maniDurable = []
    ∧ total z7 h7 (logPart [] ((runEpochs fs0 [e1, ⟨[], 3, true⟩]).logs.map (fun l => l.2.data))) = 5
    ∧ (runEpochs fs0 [e1, ⟨[], 4, true⟩]).maniDurable = [⟨[[0, 1]], []⟩]
    ∧ maniO z7 h7 (runEpochs fs0 [e1, ⟨[], 4, true⟩]).maniDurable = 5
    ∧ fromManifestOk z7 h7 (·.data) (runEpochs fs0 [e1, ⟨[], 4, true⟩]).maniDurable (runEpochs fs0 [e1, ⟨[], 4, true⟩]) = true := by
  decide

/-- as the model is: `ValidReqs` of `verifier_accepts` (distinct names) is not what the crash theorems
    use — the alphabet allows a compaction with two empty outputs, after which the manifest lists the
    name `[]` twice; `GoodTxs` holds of it and the books balance all the same -/
example : validCompact kv0 (fun _ => true) [[], []]
    ∧ live (appendedTxs (opsOf [.compact (fun _ => true) [[], []]] kv0)) = [[], []] := by decide

end BooksCrash
-- END BooksCrash

-- BEGIN BooksBytes
/-! ## the books through the MANIFEST's bytes (C04 ∘ C13), and across the manifest's rollover -/
section BooksBytes
open Blue.BooksCrash Blue.BooksBytes
variable {G : Type} [DecidableEq G] (g : Grp G) (h : Nat → G)

/-- **`booked_edit_roundtrip`**: the manifest edit `apply_manifest_*` builds for a booked transaction
    (`bookedEdit`: the removed and the added files as the rendered digests that name them, info
    `D`, `I`, `O` as rendered digests) reads back, through `get_info` and `from_hexdigest`
    (`recOfEdit`), as that record; and it is an edit the (repaired) API accepts and C13's reader
    returns as written.  `Codec.Ok`: `parse (render x) = some x` and a rendered digest is a
    non-empty ASCII string without newline or trailing `\r`. -/
theorem booked_edit_roundtrip (c : Codec G) (hc : c.Ok) (r : Rec G G) :
    recOfEdit c (bookedEdit c r) = some r ∧ (bookedEdit c r).Ok :=
  ⟨Blue.BooksBytes.booked_edit_roundtrip c hc r, bookedEdit_ok c hc r⟩

/-- **the codec of the code**: for the setsum group of C14 (`group`), `Setsum::hexdigest` and
    `Setsum::from_hexdigest` as the C14 model has them (64 hex digits, as bytes) satisfy `Codec.Ok` —
    so the theorems of this block hold with `g := setsumGrp`, `c := setsumCodec` with no hypothesis
    about the rendering -/
theorem setsum_codec_ok : setsumCodec.Ok := setsumCodec_ok

/-- the chain / balance / discard pass over records whose files are named by their digests (as the
    manifest names them) is the pass over the records themselves, and does not depend on the order
    in which an edit lists its strings (`mani::Edit` holds `BTreeSet`s; the writer emits them sorted) -/
theorem digest_names_same_verdict {F : Type} [DecidableEq F] (s : F → G) (recs recs' : List (Rec G F)) (o : G)
    (hs : SameUpToOrder recs recs') :
    verify g id o (recs.map (digestRec s)) = verify g s o recs
    ∧ lastO o (recs.map (digestRec s)) = lastO o recs
    ∧ verify g s o recs = verify g s o recs' :=
  ⟨verify_digestRec g s recs o, lastO_digestRec s recs o, verify_perm g s recs recs' o hs⟩

/-- **`books_from_manifest_bytes`**: every history of C02's alphabet, every crash point `n` of its
    system-call sequence, both persistence models; `M` the manifest (a list of transactions) the
    crash leaves, `es` the booked edits `Manifest::apply` was called with, and then the BYTES C13's
    writer lays down for them, cut at ANY byte `m` — a torn append.  C13's reader on those bytes
    (the fuel is `openBytes`'s):
    * either ends in a corruption error — `Manifest::open` FAILS (`openBytes = none`): a torn tail is
      an error, not an accepted prefix; the store does not open on it (the error is raised at the
      torn line; every line before it was read as written);
    * or returns exactly the edits of the first `k` transactions, whole (the cut fell on a line
      boundary: the lines of an unterminated edit are dropped); they parse back, digests through
      `from_hexdigest`, to the booked records of `M.take k`; `Books.verify` accepts those from the
      zero setsum; and their last `O` is the group sum over the files `M.take k` lists.
    `hnc` is C13's hypothesis about the CRC (no proper prefix of a written line's body carries the
    body's checksum); `c.Ok` is about `hexdigest` / `from_hexdigest`. -/
theorem books_from_manifest_bytes (crc : List Nat → Nat) (hcrc : Blue.Mani.CrcOk crc) (c : Codec G) (hc : c.Ok)
    (hist : List Blue.StoreCrash.Client) (n : Nat) (b : Bool)
    (hnc : ∀ l ∈ Blue.Mani.linesOf (maniEdits g h c
      (maniOf b (Blue.StoreCrash.run Blue.StoreCrash.fs0 ((Blue.StoreCrash.opsOf hist Blue.StoreCrash.kv0).take n)))),
        l.NoCollision crc) (m : Nat) :
    let M := maniOf b (Blue.StoreCrash.run Blue.StoreCrash.fs0 ((Blue.StoreCrash.opsOf hist Blue.StoreCrash.kv0).take n))
    let es := maniEdits g h c M
    let bytes := (Blue.Mani.fileBytes crc es).take m
    ((Blue.Mani.readEdits crc (bytes.length + 2) bytes Blue.Mani.Edit.empty).2 = true
      ∧ Blue.Mani.openBytes crc bytes = none)
    ∨ ∃ k, Blue.Mani.readEdits crc (bytes.length + 2) bytes Blue.Mani.Edit.empty = (es.take k, false)
        ∧ Blue.Mani.openBytes crc bytes = some (Blue.ManiCrash.replay Blue.Mani.maniAlgebra (es.take k))
        ∧ recsOfEdits c (es.take k) = some (maniRecs g h (M.take k))
        ∧ verify g id g.zero (maniRecs g h (M.take k)) = true
        ∧ lastO g.zero (maniRecs g h (M.take k))
            = total g (Blue.BooksCrash.digest g h) (Blue.StoreCrash.live (M.take k)) :=
  Blue.BooksBytes.books_from_manifest_bytes g h crc hcrc c hc hist n b hnc m

/-- … for any manifest of good transactions (`GoodTxs`: what `history_txs_good` shows of every
    history), not only those of a crash image -/
theorem books_from_bytes_good (crc : List Nat → Nat) (hcrc : Blue.Mani.CrcOk crc) (c : Codec G) (hc : c.Ok)
    (M : List Blue.StoreCrash.Tx) (hgood : GoodTxs [] M)
    (hnc : ∀ l ∈ Blue.Mani.linesOf (maniEdits g h c M), l.NoCollision crc) (m : Nat) :
    let es := maniEdits g h c M
    let bytes := (Blue.Mani.fileBytes crc es).take m
    ((Blue.Mani.readEdits crc (bytes.length + 2) bytes Blue.Mani.Edit.empty).2 = true
      ∧ Blue.Mani.openBytes crc bytes = none)
    ∨ ∃ k, Blue.Mani.readEdits crc (bytes.length + 2) bytes Blue.Mani.Edit.empty = (es.take k, false)
        ∧ Blue.Mani.openBytes crc bytes = some (Blue.ManiCrash.replay Blue.Mani.maniAlgebra (es.take k))
        ∧ recsOfEdits c (es.take k) = some (maniRecs g h (M.take k))
        ∧ verify g id g.zero (maniRecs g h (M.take k)) = true
        ∧ lastO g.zero (maniRecs g h (M.take k))
            = total g (Blue.BooksCrash.digest g h) (Blue.StoreCrash.live (M.take k)) :=
  Blue.BooksBytes.books_from_bytes_good g h crc hcrc c hc M hgood hnc m

/-- **`books_across_rollover`**: the manifest holds the good transactions `M1` and rolls over
    (`Manifest::rollover` writes ONE edit, `to_edit` of the state: no removal, every live string
    added, the info map as it stands — so `I`, `O`, `D` of the LAST transaction: `rollRec`); the
    transactions `M2` follow.  Then: the roll-up's `O` is the accumulator the verifier holds after
    the old fragment, and is the sum over the files the roll-up lists (so `from_manifest` on the
    roll-up alone succeeds); the new fragment `roll-up :: later records` is accepted by
    `verify_one`'s rule (`verifyFrag`: the first record is checked for `O = acc` only —
    `first_edit_checks` — the rest is `Books.verify`); its last `O` is the sum over the files listed
    after `M1 ++ M2`; the later records are those the unrolled manifest holds at these positions;
    and the roll-up's `I` and `D` are the last transaction's (the tree's sum BEFORE it; its
    discard), not quantities of the roll-up itself. -/
theorem books_across_rollover (M1 M2 : List Blue.StoreCrash.Tx) (hgood : GoodTxs [] (M1 ++ M2)) :
    let recs1 := booked g h [] M1
    let files1 := Blue.StoreCrash.live M1
    let acc := lastO g.zero recs1
    let R := rollRec g.zero recs1 files1
    let later := booked g h files1 M2
    R.O = acc ∧ acc = total g (Blue.BooksCrash.digest g h) R.ad ∧ R.rm = []
    ∧ verifyFrag g (Blue.BooksCrash.digest g h) acc (R :: later) = true
    ∧ lastO acc (R :: later) = total g (Blue.BooksCrash.digest g h) (Blue.StoreCrash.live (M1 ++ M2))
    ∧ later = (booked g h [] (M1 ++ M2)).drop M1.length
    ∧ (∀ M0 tx, M1 = M0 ++ [tx] →
        R.I = total g (Blue.BooksCrash.digest g h) (Blue.StoreCrash.live M0)
        ∧ R.D = computedDiscard g (Blue.BooksCrash.digest g h) tx.rms tx.adds) :=
  Blue.BooksBytes.books_across_rollover g h M1 M2 hgood

/-- **the first-record rule is needed for acceptance**: the checks of a later record applied to the
    roll-up pass only if its `I` (the last transaction's input) is the accumulator (the last
    transaction's OUTPUT) and its `D` (the last transaction's discard) is minus the sum over all
    live files — after an ingest (`D` = minus the new file) neither holds: see the example -/
theorem rollup_needs_first_record_rule {F : Type} [DecidableEq F] (s : F → G) (acc : G)
    (recs1 : List (Rec G F)) (files1 : List F) (later : List (Rec G F))
    (hv : verify g s acc (rollRec g.zero recs1 files1 :: later) = true) :
    (lastIOD g.zero recs1).1 = acc ∧ (lastIOD g.zero recs1).2.2 = computedDiscard g s [] files1 :=
  Blue.BooksBytes.rollup_needs_first_record_rule g s acc recs1 files1 later hv

/-- **… through the bytes**: the new MANIFEST (the roll-up's edit, then the later booked edits) cut
    at any byte: `Manifest::open` fails; or reads nothing (the cut fell inside the roll-up — which is
    written to a temporary, synced, and only then renamed: C13 `crash_recover`); or reads the
    roll-up and the first `k` later transactions, whole — records that `verify_one`'s rule accepts
    from the old accumulator and whose last `O` is the sum over the files then listed -/
theorem books_across_rollover_bytes (crc : List Nat → Nat) (hcrc : Blue.Mani.CrcOk crc) (c : Codec G) (hc : c.Ok)
    (M1 M2 : List Blue.StoreCrash.Tx) (hgood : GoodTxs [] (M1 ++ M2))
    (hnc : ∀ l ∈ Blue.Mani.linesOf (((rollRec g.zero (booked g h [] M1) (Blue.StoreCrash.live M1)
        :: booked g h (Blue.StoreCrash.live M1) M2).map (digestRec (Blue.BooksCrash.digest g h))).map (bookedEdit c)),
          l.NoCollision crc)
    (m : Nat) :
    let acc := lastO g.zero (booked g h [] M1)
    let R := rollRec g.zero (booked g h [] M1) (Blue.StoreCrash.live M1)
    let recs := (R :: booked g h (Blue.StoreCrash.live M1) M2).map (digestRec (Blue.BooksCrash.digest g h))
    let es := recs.map (bookedEdit c)
    let bytes := (Blue.Mani.fileBytes crc es).take m
    Blue.Mani.openBytes crc bytes = none
    ∨ Blue.Mani.openBytes crc bytes = some (Blue.ManiCrash.replay Blue.Mani.maniAlgebra [])
    ∨ ∃ k, Blue.Mani.openBytes crc bytes = some (Blue.ManiCrash.replay Blue.Mani.maniAlgebra (es.take (k + 1)))
        ∧ recsOfEdits c (es.take (k + 1))
            = some ((R :: booked g h (Blue.StoreCrash.live M1) (M2.take k)).map (digestRec (Blue.BooksCrash.digest g h)))
        ∧ verifyFrag g (Blue.BooksCrash.digest g h) acc (R :: booked g h (Blue.StoreCrash.live M1) (M2.take k)) = true
        ∧ lastO acc (R :: booked g h (Blue.StoreCrash.live M1) (M2.take k))
            = total g (Blue.BooksCrash.digest g h) (Blue.StoreCrash.live (M1 ++ M2.take k)) :=
  Blue.BooksBytes.books_across_rollover_bytes g h crc hcrc c hc M1 M2 hgood hnc m

/-- non-vacuity of the hypotheses: the toy codec (ℤ mod 7 as one ASCII digit) is `Ok`; the manifest
    "flush `{0}`, flush `{1}`, merge both into `{0,1}`" is good; under the toy checksum `lenCrc`
    (a 32-bit function) no line of its edits, nor of the rolled manifest's, has a colliding prefix -/
example : c7.Ok ∧ GoodTxs [] exM3 ∧ Blue.Mani.CrcOk lenCrc
    ∧ (∀ l ∈ Blue.Mani.linesOf (maniEdits z7 h7 c7 exM3), l.NoCollision lenCrc)
    ∧ (∀ l ∈ Blue.Mani.linesOf (((rollRec z7.zero (booked z7 h7 [] (exM3.take 2)) (Blue.StoreCrash.live (exM3.take 2))
        :: booked z7 h7 (Blue.StoreCrash.live (exM3.take 2)) (exM3.drop 2)).map
          (digestRec (Blue.BooksCrash.digest z7 h7))).map (bookedEdit c7)), l.NoCollision lenCrc) :=
  ⟨c7_ok, by refine ⟨?_, ?_, ?_, trivial⟩ <;> (unfold GoodTx; decide), crcOk_lenCrc, noCollision_lenCrc _ (by decide), noCollision_lenCrc _ (by decide)⟩

/-- non-vacuity of `booked_edit_roundtrip` and the text of a booked edit: the merge's record
    (`I = 5, O = 5, D = 0`, removing the files with digests 1 and 4, adding the one with digest 5) is
    the edit `-1 -4 +5 D0 I5 O5` and reads back -/
example :
    (maniRecs z7 h7 exM3).map (fun r => (r.I, r.O, r.D, r.rm, r.ad)) = [(0, 1, 6, [], [1]), (1, 5, 3, [], [4]), (5, 5, 0, [1, 4], [5])]
    ∧ (maniEdits z7 h7 c7 exM3)[2]? = some ⟨[[49], [52]], [[53]], [(68, [48]), (73, [53]), (79, [53])]⟩
    ∧ recsOfEdits c7 (maniEdits z7 h7 c7 exM3) = some (maniRecs z7 h7 exM3) := by decide

/-- non-vacuity of `books_from_manifest_bytes`, both branches, under CRC-32C: the three-transaction
    MANIFEST is 181 bytes, the third edit starts at byte 106.  Cut at 122, in the middle of the third
    record's second line: `Manifest::open` fails.  Cut at 128, after that line (no separator yet):
    the reader returns the first two edits, they parse to the first two booked records, which
    verify from zero, and their last `O = 5` is the sum over the two files listed. -/
example :
    let es := maniEdits z7 h7 c7 exM3
    let file := Blue.Mani.fileBytes Blue.Crc32c.crc32c es
    file.length = 181 ∧ (Blue.Mani.fileBytes Blue.Crc32c.crc32c (es.take 2)).length = 106
    ∧ Blue.Mani.openBytes Blue.Crc32c.crc32c (file.take 122) = none
    ∧ Blue.Mani.readEdits Blue.Crc32c.crc32c 130 (file.take 128) Blue.Mani.Edit.empty = (es.take 2, false)
    ∧ recsOfEdits c7 (es.take 2) = some (maniRecs z7 h7 (exM3.take 2))
    ∧ verify z7 id 0 (maniRecs z7 h7 (exM3.take 2)) = true
    ∧ lastO 0 (maniRecs z7 h7 (exM3.take 2)) = 5
    ∧ total z7 (Blue.BooksCrash.digest z7 h7) (Blue.StoreCrash.live (exM3.take 2)) = 5 := by
  decide +kernel

/-- non-vacuity of `books_across_rollover`: a rollover after the second transaction.  The roll-up is
    `I = 1, O = 5, D = 3` (the second flush's), adding the digests 1 and 4; its edit is the one C13's
    `rollup` writes for the state the first two edits replay to; `verify_one`'s rule accepts
    `roll-up :: merge` from the accumulator 5 and ends at `O = 5`, the digest of `{0,1}`; the checks of
    a later record REJECT the roll-up (`I = 1 ≠ 5`): the first-record rule is what accepts it. -/
example :
    let M1 := exM3.take 2
    let R := rollRec z7.zero (booked z7 h7 [] M1) (Blue.StoreCrash.live M1)
    let later := booked z7 h7 (Blue.StoreCrash.live M1) (exM3.drop 2)
    (R.I, R.O, R.D, R.rm, R.ad) = (1, 5, 3, [], [[0], [1]])
    ∧ lastO z7.zero (booked z7 h7 [] M1) = 5
    ∧ Blue.Mani.maniAlgebra.rollup (Blue.ManiCrash.replay Blue.Mani.maniAlgebra (maniEdits z7 h7 c7 M1))
        = bookedEdit c7 (digestRec (Blue.BooksCrash.digest z7 h7) R)
    ∧ verifyFrag z7 (Blue.BooksCrash.digest z7 h7) 5 (R :: later) = true
    ∧ verify z7 (Blue.BooksCrash.digest z7 h7) 5 (R :: later) = false
    ∧ lastO 5 (R :: later) = 5 ∧ Blue.StoreCrash.live exM3 = [[0, 1]]
    ∧ total z7 (Blue.BooksCrash.digest z7 h7) (Blue.StoreCrash.live exM3) = 5 := by decide

end BooksBytes
-- END BooksBytes

-- BEGIN BooksRollCrash
/-! ## the books across a manifest rollover interrupted by a crash (C04 ∘ C13's system calls) -/
section BooksRollCrash
open Blue.BooksCrash Blue.BooksBytes Blue.BooksRollCrash Blue.Mani Blue.ManiCrash
variable {G : Type} [DecidableEq G] (g : Grp G) (h : Nat → G)

/-- **`rollup_is_booked_rollrec`** (general form of the equality the `BooksBytes` example checks):
    for every non-empty good booked manifest `M` whose live files have pairwise distinct digests at
    every prefix (`hnd`: what makes the `BTreeSet<String>` of rendered digests faithful — two live
    files with one digest are one string, and removing one would remove both), the edit C13's
    `rollover` writes for the state the booked edits replay to IS `bookedEdit` of a record with
    `rollRec`'s `I`, `O`, `D`, no removal, and an added list that is a permutation of the live
    files' digests (the set's order).  `M ≠ []`: with no transaction the info map is empty, while
    `rollRec` carries the zeros `LsmTree::open` writes. -/
theorem rollup_is_booked_rollrec (c : Codec G) (hc : c.Ok) (M : List Blue.StoreCrash.Tx) (hne : M ≠ [])
    (hgood : GoodTxs [] M)
    (hnd : ∀ k, ((Blue.StoreCrash.live (M.take k)).map (Blue.BooksCrash.digest g h)).Nodup) :
    let R := rollRec g.zero (booked g h [] M) (Blue.StoreCrash.live M)
    ∃ ad : List G, ad.Perm ((Blue.StoreCrash.live M).map (Blue.BooksCrash.digest g h))
      ∧ maniAlgebra.rollup (replay maniAlgebra (maniEdits g h c M)) = bookedEdit c ⟨R.I, R.O, R.D, [], ad⟩ :=
  Blue.BooksRollCrash.rollup_is_booked_rollrec g h c hc M hne hgood hnd

/-- what `OldBooks` / `NewBooks` say of the edits `d` MANIFEST holds -/
theorem rollover_books_mean (c : Codec G) (M : List Blue.StoreCrash.Tx) (d : List Edit) :
    (OldBooks g h c M d ↔
      d = maniEdits g h c M
      ∧ recsOfEdits c d = some (maniRecs g h M)
      ∧ verify g id g.zero (maniRecs g h M) = true
      ∧ lastO g.zero (maniRecs g h M) = total g (Blue.BooksCrash.digest g h) (Blue.StoreCrash.live M))
    ∧ (NewBooks g h c M d ↔
      d = [maniAlgebra.rollup (replay maniAlgebra (maniEdits g h c M))]
      ∧ ∃ R' : Rec G G, recsOfEdits c d = some [R']
        ∧ SameUpToOrder [R'] [digestRec (Blue.BooksCrash.digest g h)
            (rollRec g.zero (booked g h [] M) (Blue.StoreCrash.live M))]
        ∧ verifyFrag g id (lastO g.zero (booked g h [] M)) [R'] = true
        ∧ lastO (lastO g.zero (booked g h [] M)) [R'] = total g (Blue.BooksCrash.digest g h) (Blue.StoreCrash.live M)
        ∧ lastO g.zero (booked g h [] M) = total g id R'.ad) :=
  ⟨Iff.rfl, Iff.rfl⟩

/-- **`books_at_every_crash_point_of_a_rollover`**: the booked history of the good transactions `M`
    (one `apply` per transaction: C13 `Client.edit`), then `Manifest::rollover` (C13
    `Client.rollover`: link, unlink tmp, write tmp, sync tmp, rename); a crash at ANY call `n` from
    the rollover's first on (`3·|M| ≤ n`), both persistence models `b`.  Before the rename MANIFEST
    is the old fragment, whole (`OldBooks`: its edits parse to the booked records, `Books.verify`
    accepts them from zero, last `O` = Σ live files); from the rename on it is the roll-up alone
    (`NewBooks`: it parses to `rollRec` up to order, `verify_one`'s first-record rule accepts it from
    the old accumulator, its `O` = Σ live files = Σ of the digests it adds) — never a torn roll-up,
    the temporary being synced before it is renamed.  `Manifest::open` reads either from its BYTES
    to the state of all of `M`, and once the reopen's rollover (which finishes the interrupted one)
    has completed MANIFEST is the roll-up, read from its bytes to the same state, `NewBooks`. -/
theorem books_at_every_crash_point_of_a_rollover (crc : List Nat → Nat) (hcrc : CrcOk crc) (c : Codec G) (hc : c.Ok)
    (M : List Blue.StoreCrash.Tx) (hne : M ≠ []) (hgood : GoodTxs [] M)
    (hnd : ∀ k, ((Blue.StoreCrash.live (M.take k)).map (Blue.BooksCrash.digest g h)).Nodup)
    (n : Nat) (hn : 3 * M.length ≤ n) (b : Bool) :
    let es := maniEdits g h c M
    let fs := crash b (run emptyFs ((opsOf maniAlgebra (es.map Client.edit ++ [Client.rollover]) []).take n))
    let fs' := run fs (reopenOps maniAlgebra fs)
    ((n < 3 * M.length + 5 ∧ OldBooks g h c M fs.mani.durable)
      ∨ (3 * M.length + 5 ≤ n ∧ NewBooks g h c M fs.mani.durable))
    ∧ openBytes crc (fileBytes crc fs.mani.durable) = some (replay maniAlgebra es)
    ∧ openBytes crc (fileBytes crc fs'.mani.durable) = some (replay maniAlgebra es)
    ∧ NewBooks g h c M fs'.mani.durable :=
  Blue.BooksRollCrash.books_at_every_crash_point_of_a_rollover g h c crc hcrc hc M hne hgood hnd n hn b

/-- … the rollover inside the `apply` that crossed the ratio (C13 `Client.editRoll`: the last
    transaction's append and sync, the five calls, then the acknowledgement): every crash point
    from the `link` on (`3·|M0| + 2 ≤ n`) -/
theorem books_at_every_crash_point_of_an_apply_rollover (crc : List Nat → Nat) (hcrc : CrcOk crc) (c : Codec G)
    (hc : c.Ok) (M0 : List Blue.StoreCrash.Tx) (tx : Blue.StoreCrash.Tx) (hgood : GoodTxs [] (M0 ++ [tx]))
    (hnd : ∀ k, ((Blue.StoreCrash.live ((M0 ++ [tx]).take k)).map (Blue.BooksCrash.digest g h)).Nodup)
    (n : Nat) (hn : 3 * M0.length + 2 ≤ n) (b : Bool) :
    let M := M0 ++ [tx]
    let es := maniEdits g h c M
    let e := bookedEdit c (digestRec (Blue.BooksCrash.digest g h)
      (storeRec g (Blue.BooksCrash.digest g h) (Blue.StoreCrash.live M0) tx.rms tx.adds))
    let fs := crash b (run emptyFs
      ((opsOf maniAlgebra ((maniEdits g h c M0).map Client.edit ++ [Client.editRoll e]) []).take n))
    let fs' := run fs (reopenOps maniAlgebra fs)
    ((n < 3 * M0.length + 7 ∧ OldBooks g h c M fs.mani.durable)
      ∨ (3 * M0.length + 7 ≤ n ∧ NewBooks g h c M fs.mani.durable))
    ∧ openBytes crc (fileBytes crc fs.mani.durable) = some (replay maniAlgebra es)
    ∧ openBytes crc (fileBytes crc fs'.mani.durable) = some (replay maniAlgebra es)
    ∧ NewBooks g h c M fs'.mani.durable :=
  Blue.BooksRollCrash.books_at_every_crash_point_of_an_apply_rollover g h c crc hcrc hc M0 tx hgood hnd n hn b

/-- non-vacuity of the hypotheses (ℤ mod 7, codec `c7`): the two flushes `{0}`, `{1}` are a non-empty
    good manifest whose live files have distinct digests (1 and 4) at every prefix -/
example : exM3.take 2 ≠ [] ∧ GoodTxs [] (exM3.take 2)
    ∧ ∀ k, ((Blue.StoreCrash.live ((exM3.take 2).take k)).map (Blue.BooksCrash.digest z7 h7)).Nodup := by
  refine ⟨by decide, by refine ⟨?_, ?_, trivial⟩ <;> (unfold GoodTx; decide), ?_⟩
  intro k
  rcases k with _ | _ | k
  · decide
  · decide
  · have : (exM3.take 2).take (k + 1 + 1) = exM3.take 2 := by simp [exM3]
    rw [this]; decide

/-- non-vacuity of the conclusion, the crash INSIDE the rollover: two transactions, rollover, crash
    after the temporary is written and before it is synced or renamed (call 9 = 3·2 + 3), model (b).
    MANIFEST still holds the two booked edits (linked to its backup, the unsynced temporary empty);
    they parse to the booked records, verify from zero, last `O = 5`.  The reopen finishes the
    rollover without a second link: MANIFEST is the roll-up `+1 +4 D3 I1 O5`, it parses to the record
    `I = 1, O = 5, D = 3`, adding the digests 1 and 4, the first-record rule accepts it from 5, and
    `5 = 1 + 4` is the sum over the two live files. -/
example :
    let M := exM3.take 2
    let es := maniEdits z7 h7 c7 M
    let fs := crash true (run emptyFs ((opsOf maniAlgebra (es.map Client.edit ++ [Client.rollover]) []).take 9))
    let fs' := run fs (reopenOps maniAlgebra fs)
    fs.mani.durable = es ∧ fs.linked = true ∧ fs.backups = [es]
    ∧ fs.tmp.map (fun f => (f.durable, f.pending)) = some ([], [])
    ∧ recsOfEdits c7 fs.mani.durable = some (maniRecs z7 h7 M)
    ∧ verify z7 id 0 (maniRecs z7 h7 M) = true ∧ lastO 0 (maniRecs z7 h7 M) = 5
    ∧ fs'.mani.durable = [⟨[], [[49], [52]], [(68, [51]), (73, [49]), (79, [53])]⟩]
    ∧ fs'.backups = [es] ∧ fs'.linked = false
    ∧ fs'.mani.durable = [maniAlgebra.rollup (replay maniAlgebra es)]
    ∧ recsOfEdits c7 fs'.mani.durable = some [⟨1, 5, 3, [], [1, 4]⟩]
    ∧ verifyFrag z7 id 5 [(⟨1, 5, 3, [], [1, 4]⟩ : Rec (Fin 7) (Fin 7))] = true
    ∧ total z7 (Blue.BooksCrash.digest z7 h7) (Blue.StoreCrash.live M) = 5
    ∧ total z7 id [1, 4] = 5 := by decide

/-- … the rollover inside `apply` (`editRoll`), same two transactions: cut at call 8 (append, sync of
    the second edit, link, unlink, write tmp) MANIFEST holds both booked edits; cut at call 10
    (after the rename, before `apply` returns) it holds the roll-up, under both models -/
example :
    let es := maniEdits z7 h7 c7 (exM3.take 2)
    let e := bookedEdit c7 (digestRec (Blue.BooksCrash.digest z7 h7)
      (storeRec z7 (Blue.BooksCrash.digest z7 h7) (Blue.StoreCrash.live (exM3.take 1)) [] [[1]]))
    let ops := opsOf maniAlgebra ((maniEdits z7 h7 c7 (exM3.take 1)).map Client.edit ++ [Client.editRoll e]) []
    (crash true (run emptyFs (ops.take 8))).mani.durable = es
    ∧ (crash false (run emptyFs (ops.take 8))).mani.durable = es
    ∧ (crash true (run emptyFs (ops.take 10))).mani.durable = [maniAlgebra.rollup (replay maniAlgebra es)]
    ∧ (crash false (run emptyFs (ops.take 10))).mani.durable = [maniAlgebra.rollup (replay maniAlgebra es)]
    ∧ acked (ops.take 10) = 1 := by decide

/-- **the distinct-digest hypothesis is needed**: the files `{0}` and `{7}` have the same toy digest
    (1).  Flush both: a good manifest, two live files, `O = 1 + 1 = 2`; the manifest's string set
    holds ONE string, so the roll-up adds one digest, and `from_manifest`'s comparison on it
    (`O` against the sum of the added digests) would fail: `2 ≠ 1`.  (With the real setsum, files
    are NAMED by their digest, so two live files with one digest are also one path in `sst/`.) -/
example :
    let M : List Blue.StoreCrash.Tx := [⟨[[0]], []⟩, ⟨[[7]], []⟩]
    Blue.StoreCrash.live M = [[0], [7]]
    ∧ (Blue.StoreCrash.live M).map (Blue.BooksCrash.digest z7 h7) = [1, 1]
    ∧ lastO 0 (maniRecs z7 h7 M) = 2
    ∧ recsOfEdits c7 [maniAlgebra.rollup (replay maniAlgebra (maniEdits z7 h7 c7 M))] = some [⟨1, 2, 6, [], [1]⟩]
    ∧ total z7 id [(1 : Fin 7)] = 1 := by decide

end BooksRollCrash
-- END BooksRollCrash

end Blue.Props.C04

#print axioms Blue.Props.C04.group
#print axioms Blue.Props.C04.sub_is_group_sub
#print axioms Blue.Props.C04.tx_balances
#print axioms Blue.Props.C04.verifier_accepts
#print axioms Blue.Props.C04.tamper_output_rejected
#print axioms Blue.Props.C04.tamper_discard_rejected
#print axioms Blue.Props.C04.last_output
#print axioms Blue.Props.C04.tamper_input_rejected
#print axioms Blue.Props.C04.tamper_added_file_rejected
#print axioms Blue.Props.C04.tamper_removed_file_rejected
#print axioms Blue.Props.C04.recorded_discard_is_removed_minus_added
#print axioms Blue.Props.C04.first_edit_checks
#print axioms Blue.Props.C04.verifier_accepts_honest
#print axioms Blue.Props.C04.verifier_accepts_honest_rollovers
#print axioms Blue.Props.C04.verify_one_sound
#print axioms Blue.Props.C04.gc_outputs_are_inputs
#print axioms Blue.Props.C04.discard_altered_rejected
#print axioms Blue.Props.C04.content_tamper_rejected
#print axioms Blue.Props.C04.entry_dropped_rejected
#print axioms Blue.Props.C04.entry_added_rejected
#print axioms Blue.Props.C04.entry_duplicated_rejected
#print axioms Blue.Props.C04.entry_value_altered_rejected
#print axioms Blue.Props.C04.entry_altered_rejected
#print axioms Blue.Props.C04.verifier_pass_sound
#print axioms Blue.Props.C04.gc_tail_loss_accepted
#print axioms Blue.Props.C04.gc_retention_up_to_last_output
#print axioms Blue.Props.C04.hexdigest_sign_same_value
#print axioms Blue.Props.C04.recover_chains
#print axioms Blue.Props.C04.recover_output
#print axioms Blue.Props.C04.hoisted_recovery_rejected
#print axioms Blue.Props.C04.recovery_and_discard_check_from_source
#print axioms Blue.Props.C04.compensating_pair_rejected
#print axioms Blue.Props.C04.gc_discard_erased_rejected
#print axioms Blue.Props.C04.pairs_rejected_example
#print axioms Blue.Props.C04.guarded_check_accepts_pair
#print axioms Blue.Props.C04.guarded_model_is_verify_one_otherwise
#print axioms Blue.Props.C04.books_at_every_crash_point
#print axioms Blue.Props.C04.books_after_recovery
#print axioms Blue.Props.C04.books_over_incarnations
#print axioms Blue.Props.C04.books_of_img
#print axioms Blue.Props.C04.books_recovery_img
#print axioms Blue.Props.C04.history_txs_good
#print axioms Blue.Props.C04.booked_edit_roundtrip
#print axioms Blue.Props.C04.setsum_codec_ok
#print axioms Blue.Props.C04.digest_names_same_verdict
#print axioms Blue.Props.C04.books_from_manifest_bytes
#print axioms Blue.Props.C04.books_from_bytes_good
#print axioms Blue.Props.C04.books_across_rollover
#print axioms Blue.Props.C04.rollup_needs_first_record_rule
#print axioms Blue.Props.C04.books_across_rollover_bytes
#print axioms Blue.Props.C04.rollup_is_booked_rollrec
#print axioms Blue.Props.C04.rollover_books_mean
#print axioms Blue.Props.C04.books_at_every_crash_point_of_a_rollover
#print axioms Blue.Props.C04.books_at_every_crash_point_of_an_apply_rollover
