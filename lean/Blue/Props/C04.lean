import Blue.Proofs.Books
import Blue.Proofs.Ledger
import Blue.Proofs.SetsumGrp
/-! # Property C04 — one setsum covers all data: manifest, files and contents always balance

Property theorems only.  The bookkeeping is stated over any commutative group (`Grp`), and the
canonical setsum values of C14 are shown to be one (`setsumGrp`); the driver runs
`Blue.Books.verify setsumGrp` — the verifier's chain / balance / recomputed-discard pass — on
the records of every manifest fragment the real store writes and compares the verdict with the
real `ManifestVerifier`, also on tampered copies.

Not a theorem: that a file's setsum equals the setsum of the entries stored in it (C10's
`metadata_exact` + C14's `matches_definition`, checked per file by the harness), and that a
changed entry changes the file's setsum (`h(e) ≠ 0`, `h(e) ≠ h(e')`: a hash assumption). -/
namespace Blue.Props.C04
open Blue.Books Blue.Setsum

/-- the canonical setsum values with column-wise addition are a commutative group -/
def group : Grp CState := setsumGrp

/-- the code's subtraction is addition of the group inverse (never underflows on API values) -/
theorem sub_is_group_sub {a b : State} (ha : Canonical a) (hb : Canonical b) :
    sub a b = some (add a (negState b)) := sub_eq_add_neg ha hb

variable {G : Type} [DecidableEq G] (g : Grp G) {F : Type} [DecidableEq F] (s : F → G)

/-- **every transaction balances**: with `I` the sum over the tree's files, `D` = removed − added
    and `O = I − D` (what `apply_manifest_*` writes), `I = O + D` and `O` is the sum over the
    files of the new version -/
theorem tx_balances (files rm ad : List F) (hnd : files.Nodup) (hrm : rm.Nodup)
    (hsub : ∀ f ∈ rm, f ∈ files) :
    let I := total g s files
    let D := computedDiscard g s rm ad
    let O := g.sub I D
    I = g.add O D ∧ total g s (applyTx files rm ad) = O := Blue.Books.tx_balances g s files rm ad hnd hrm hsub

/-- **the verifier accepts every chain of transactions the store writes** (any mix of ingests,
    moves, compactions, GCs), and the last `O` is the sum over the final files -/
theorem verifier_accepts (reqs : List (List F × List F)) (files : List F) (hnd : files.Nodup)
    (hv : ValidReqs files reqs) :
    verify g s (total g s files) (ledger g s files reqs) = true :=
  Blue.Books.verifier_accepts g s reqs files hnd hv

/-- one altered output digest ⇒ reject -/
theorem tamper_output_rejected (prev : G) (a b : List (Rec G F)) (r : Rec G F) (o' : G)
    (hv : verify g s prev (a ++ r :: b) = true) (hne : o' ≠ r.O) :
    verify g s prev (a ++ { r with O := o' } :: b) = false :=
  Blue.Books.tamper_output_rejected g s prev a b r o' hv hne

/-- one altered discard digest ⇒ reject -/
theorem tamper_discard_rejected (prev : G) (a b : List (Rec G F)) (r : Rec G F) (d' : G)
    (hv : verify g s prev (a ++ r :: b) = true) (hne : d' ≠ r.D) :
    verify g s prev (a ++ { r with D := d' } :: b) = false :=
  Blue.Books.tamper_discard_rejected g s prev a b r d' hv hne

end Blue.Props.C04

#print axioms Blue.Props.C04.group
#print axioms Blue.Props.C04.sub_is_group_sub
#print axioms Blue.Props.C04.tx_balances
#print axioms Blue.Props.C04.verifier_accepts
#print axioms Blue.Props.C04.tamper_output_rejected
#print axioms Blue.Props.C04.tamper_discard_rejected
#print axioms Blue.Books.tamper_file_rejected
#print axioms Blue.Books.total_change
