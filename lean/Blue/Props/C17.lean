import Blue.Proofs.ListFree
import Blue.Proofs.SkipList
/-! Property C17: the theorems the check builds and audits (spike inventory; the build phase
    completes the list from DESIGN Appendix C.0). -/
