import Blue.Proofs.ListFree
import Blue.Proofs.SkipList
import Blue.Proofs.SkipIter
import Blue.Proofs.SkipMLMain
import Blue.Proofs.SkipLife
import Blue.Proofs.ListFreeIter
import Blue.Proofs.ConstsTieC17
/-! # Property C17 — the lock-free skiplist loses no insert and always iterates in order; an
    iterator remains valid for as long as it is held; the same for the prepend-only list

Property theorems only (helper lemmas live in `Blue/Proofs/{SkipChain,SkipList,SkipIter,SkipML*,ListFree}.lean`).

* `Blue.SkipML` — `skipfree::SkipList` with all its levels and its iterator: one step per atomic
  access (`get_next`, `set_next`, `cas_next`) of `insert` (search with recorded predecessors and
  successors, allocation, per level store / CAS / re-advance on failure), of `find_greater_or_equal`
  (`seek`, `contains`), `find_less_than` / `find_last` (`prev`) and of the single load of `next` /
  `seek_to_first`.  `Reach` = any interleaving of any number of threads; an insert may begin with
  a key that is neither linked nor being inserted (the property's "distinct keys").
* `Blue.SkipList` — the level-0 part on its own (the search through the upper levels abstracted).
* `Blue.ListFree` — `listfree::List::prepend`, one step per atomic access.
* `Blue.SkipLife` — who keeps the nodes alive (the repaired ownership, finding D-4).

**Assumed, not proved**: the atomic accesses of different threads interleave sequentially
consistently (the code uses `Acquire`/`Release`/`SeqCst`; weak memory is outside the model), and
memory that has not been released stays valid.  The harness replays every recorded run of the real
structures through `Blue.SkipML.step` / `Blue.ListFree.step`: every access must be the one the
model's thread does next, with the outcome the model computes, and every insert must satisfy
`insertOk` — so each recorded run is a `Reach` run and the theorems below speak about each of its
states. -/
namespace Blue.Props.C17

/-! ## skiplist, all levels -/
section skipml
open Blue.SkipML

/-- in every reachable state every level's chain from the head is strictly sorted by key, level
    `l + 1` is a sub-chain of level `l`, level 0 holds exactly the keys whose level-0 CAS has
    succeeded, and a walk along a level (what a traversal sees) yields exactly its chain -/
theorem upper_levels_are_subchains {s : St} (h : Reach s) :
    ∃ ids : Nat → List Nat,
      (∀ l, l < s.H → chainFrom s.heap l ((ids l).length + 1) (mnext s.heap l 0) = ids l) ∧
      (∀ l, l < s.H → ((ids l).map (mkey s.heap)).Pairwise (· < ·)) ∧
      (∀ l n, n ∈ ids (l + 1) → n ∈ ids l) ∧
      (∀ k, k ∈ s.inserted ↔ k ∈ (ids 0).map (mkey s.heap)) :=
  Blue.SkipML.upper_levels_are_subchains h

/-- no insert is lost: a key whose `insert` has returned is linked at level 0 … -/
theorem returned_insert_is_linked {s : St} (h : Reach s) : ∀ k ∈ s.returned, k ∈ s.inserted :=
  Blue.SkipML.returned_linked h

/-- … and linked keys stay linked whatever step whichever thread takes -/
theorem linked_stays_linked {s : St} (h : Reach s) (i : Nat) : ∀ k ∈ s.inserted, k ∈ (step s i).inserted :=
  Blue.SkipML.linked_stays_linked h i

/-- neither assertion in the code (`insert` meeting its own key, `find_less_than` standing on a
    node not before the key) can fire -/
theorem no_assertion_fires {s : St} (h : Reach s) (i : Nat) : (th s i).pc ≠ .panicked :=
  Blue.SkipML.no_panic h i

/-- `iterator_moves`, `seek` / `contains`: the last load of `find_greater_or_equal` returns the
    node with the smallest linked key `≥ k` (null: every linked key is `< k`), with respect to the
    keys linked at the time of that load -/
theorem iterator_moves_seek {s : St} (h : Reach s) (i k x : Nat) (c : Bool) (hpc : (th s i).pc = .geq k x 0 c)
    (hstop : ∀ n, mnext s.heap 0 x = some n → ¬ mkey s.heap n < k) :
    (mnext s.heap 0 x = none → ∀ k' ∈ s.inserted, k' < k) ∧
    (∀ n, mnext s.heap 0 x = some n →
      mkey s.heap n ∈ s.inserted ∧ k ≤ mkey s.heap n ∧ ∀ k' ∈ s.inserted, k ≤ k' → mkey s.heap n ≤ k') :=
  seek_lands h i k x c hpc hstop

/-- `iterator_moves`, `next` / `seek_to_first`: the load yields the node with the smallest linked
    key above the one the iterator is on (`x = 0`: the head), or null if there is none -/
theorem iterator_moves_next {s : St} (h : Reach s) (i x : Nat) (hpc : (th s i).pc = .nxt x) :
    (mnext s.heap 0 x = none → ∀ k' ∈ s.inserted, x ≠ 0 ∧ k' ≤ mkey s.heap x) ∧
    (∀ n, mnext s.heap 0 x = some n →
      mkey s.heap n ∈ s.inserted ∧ (x ≠ 0 → mkey s.heap x < mkey s.heap n) ∧
      ∀ k' ∈ s.inserted, (x ≠ 0 ∧ k' ≤ mkey s.heap x) ∨ mkey s.heap n ≤ k') :=
  next_lands h i x hpc

/-- `iterator_moves`, `prev` from a key: the last load of `find_less_than(k)` returns the node
    with the largest linked key `< k`, or the head (not valid) if there is none -/
theorem iterator_moves_prev {s : St} (h : Reach s) (i k x : Nat) (hpc : (th s i).pc = .lt k x 0)
    (hstop : ∀ n, mnext s.heap 0 x = some n → ¬ mkey s.heap n < k) :
    (x = 0 → ∀ k' ∈ s.inserted, ¬ k' < k) ∧
    (x ≠ 0 → mkey s.heap x ∈ s.inserted ∧ mkey s.heap x < k ∧ ∀ k' ∈ s.inserted, k' < k → k' ≤ mkey s.heap x) :=
  prev_lands h i k x hpc hstop

/-- `iterator_moves`, `prev` from the end: `find_last` returns the node with the largest linked
    key, or the head if nothing is linked -/
theorem iterator_moves_last {s : St} (h : Reach s) (i x : Nat) (hpc : (th s i).pc = .last x 0)
    (hstop : mnext s.heap 0 x = none) :
    (x = 0 → ∀ k' ∈ s.inserted, False) ∧
    (x ≠ 0 → mkey s.heap x ∈ s.inserted ∧ ∀ k' ∈ s.inserted, k' ≤ mkey s.heap x) :=
  last_lands h i x hpc hstop

/-- between operations an iterator points at null, the head, or a linked node -/
theorem iterator_on_chain {s : St} (h : Reach s) (i x : Nat) (hp : (th s i).pos = some x) :
    x = 0 ∨ mkey s.heap x ∈ s.inserted :=
  Blue.SkipML.iterator_on_chain h i x hp

/-- the precondition check of the trace validator is the precondition of `Reach.insert` -/
theorem insertOk_sound {s : St} {k : Nat} (h : insertOk s k = true) : InsertOk s k :=
  Blue.SkipML.insertOk_sound h

/-- non-vacuity (`MAX_HEIGHT = 2`): threads 0 and 1 insert 5 (tower of 2) and 3 concurrently while
    thread 2 seeks 4.  Both inserters read the empty list; thread 1 links first, so thread 0's
    level-0 CAS fails, it re-reads, advances past 3 and links behind it, then links level 1; the
    seek, begun on the empty list, ends on 5.  Both keys are linked and returned, level 1 is a
    sub-chain of level 0. -/
example :
    let s0 := callSeek (callInsert (callInsert (init 2 3) 0 5 2) 1 3 1) 2 4
    let s := [0, 0, 0, 0, 1, 1, 1, 1, 1, 2, 0, 0, 0, 0, 0, 2, 0, 0, 2].foldl step s0
    s.inserted = [5, 3] ∧ s.returned = [5, 3] ∧ (chain s 0).map (mkey s.heap) = [3, 5] ∧
      (chain s 1).map (mkey s.heap) = [5] ∧ ((th s 2).pos.map (mkey s.heap)) = some 5 ∧ chainsOk s = true := by
  decide

/-- … and that run is a `Reach` run (so the hypotheses of the theorems above are satisfiable) -/
example : Reach (step (callSeek (callInsert (callInsert (init 2 3) 0 5 2) 1 3 1) 2 4) 0) :=
  .step 0 (.seek 2 4 (.insert 1 3 1 (.insert 0 5 2 (.init 2 3 (by decide)) (insertOk_sound (by decide)))
    (insertOk_sound (by decide))))

/-- `MAX_HEIGHT` of the default instantiation is the source's -/
example : Reach (init defaultMaxHeight 4) := .init _ _ (by decide)
end skipml

/-! ## skiplist, level 0 on its own -/
section skip0
open Blue.SkipList

/-- `level0_sorted_complete`: in every reachable state a level-0 walk from the head yields a
    strictly increasing list of exactly the linked keys -/
theorem level0_sorted_complete {s : St} (h : Reach s) :
    ∃ (ids : List Nat) (h0 : Node), s.heap[0]? = some h0 ∧
      walk s.heap (ids.length + 1) h0.next = ids.map (keyOf s.heap) ∧
      (ids.map (keyOf s.heap)).Pairwise (· < ·) ∧
      ∀ k, k ∈ s.inserted ↔ k ∈ ids.map (keyOf s.heap) :=
  reach_walk h

/-- published nodes stay published and keep their keys: a search's "I stand on a published node
    before the key" survives every step of every other thread -/
theorem published_stable {s : St} {x : Nat} (h : Published s x) (i : Nat) :
    Published (step s i) x ∧ keyOf (step s i).heap x = keyOf s.heap x :=
  Blue.SkipList.published_stable h i
end skip0

/-! ## prepend-only list -/
section list
open Blue.ListFree
variable {D : Type}

/-- `listfree_prepend`: after any schedule of any number of prepending threads the chain from the
    head is exactly the data whose CAS succeeded, newest first, each once; and an iteration
    started at any published pointer walks exactly that chain -/
theorem listfree_prepend (evs : List (Ev D)) :
    ∃ ids, Chain (evs.foldl apply (init : St D)).heap (evs.foldl apply (init : St D)).head ids
        (evs.foldl apply (init : St D)).pushed ∧
      walk (evs.foldl apply (init : St D)).heap (ids.length + 1) (evs.foldl apply (init : St D)).head
        = (evs.foldl apply (init : St D)).pushed :=
  run_contents evs

/-- non-vacuity: two threads prepend 1 and 2; both read the empty head, thread 1 links first,
    thread 0's CAS fails and it retries: the list is 1, 2 (newest first) -/
example :
    let s := ([.call 0 1, .call 1 2, .step 0, .step 1, .step 0, .step 1, .step 0, .step 1, .step 1, .step 0,
      .step 0, .step 0, .step 0] : List (Ev Nat)).foldl apply init
    s.pushed = [1, 2] ∧ walk s.heap 3 s.head = [1, 2] := by
  decide
end list

/-! ## an iterator remains valid for as long as it is held (repaired ownership, D-4) -/
section life
open Blue.SkipLife

/-- while a handle (the list or any iterator) is held, no node has been released -/
theorem iterator_keeps_nodes_alive (s : St) (j : Nat) (h : held s j = true) : live s = s.nodes :=
  held_live s j h

/-- nodes are released exactly when the last holder (list or iterator) is gone -/
theorem nodes_released_with_last_holder (s : St) : live s = 0 ↔ (holders s = 0 ∨ s.nodes = 0) :=
  released_iff s

/-- non-vacuity: the list is dropped while an iterator is held, the iterator is used, then dropped:
    the nodes are alive until the last holder is gone -/
example : ([Op.insert, .insert, .iter, .dropList, .use 0, .dropIter 0].foldl
    (fun (acc : Option St × List Nat) op => match acc.1.bind (step · op) with
      | some s' => (some s', acc.2 ++ [live s'])
      | none => (none, acc.2)) (some {}, [])).2 = [2, 3, 3, 3, 3, 0] := by
  decide
end life

end Blue.Props.C17

#print axioms Blue.Props.C17.upper_levels_are_subchains
#print axioms Blue.Props.C17.returned_insert_is_linked
#print axioms Blue.Props.C17.linked_stays_linked
#print axioms Blue.Props.C17.no_assertion_fires
#print axioms Blue.Props.C17.iterator_moves_seek
#print axioms Blue.Props.C17.iterator_moves_next
#print axioms Blue.Props.C17.iterator_moves_prev
#print axioms Blue.Props.C17.iterator_moves_last
#print axioms Blue.Props.C17.iterator_on_chain
#print axioms Blue.Props.C17.insertOk_sound
#print axioms Blue.Props.C17.level0_sorted_complete
#print axioms Blue.Props.C17.published_stable
#print axioms Blue.Props.C17.listfree_prepend
#print axioms Blue.Props.C17.iterator_keeps_nodes_alive
#print axioms Blue.Props.C17.nodes_released_with_last_holder
#print axioms Blue.ConstsTie.skipfree_default_max_height
