import Blue.Proofs.ListFree
import Blue.Proofs.SkipList
import Blue.Proofs.SkipIter
import Blue.Proofs.SkipMLMain
import Blue.Proofs.SkipLife
import Blue.Proofs.ListFreeIter
import Blue.Proofs.ListFreeStable
import Blue.Proofs.SkipRuns
import Blue.Proofs.SkipIterate
import Blue.Proofs.SkipOwn
import Blue.Proofs.ConstsTieC17
import Blue.Proofs.SkipProgress
import Blue.Proofs.SkipProgressIns
import Blue.Proofs.ListFreeProgress
/-! # Property C17 — the lock-free skiplist loses no insert and always iterates in order; an
    iterator remains valid for as long as it is held; the same for the prepend-only list

Property theorems only (helper lemmas live in `Blue/Proofs/{SkipChain,SkipList,SkipIter,SkipML*,SkipProgress*,ListFree}.lean`).

* `Blue.SkipML` — `skipfree::SkipList` with all its levels and its iterator: one step per atomic
  access (`get_next`, `set_next`, `cas_next`) of `insert` (search with recorded predecessors and
  successors, allocation, per level store / CAS / re-advance on failure), of `find_greater_or_equal`
  (`seek`, `contains`), `find_less_than` / `find_last` (`prev`) and of the single load of `next` /
  `seek_to_first`.  `Reach` = any interleaving of any number of threads; an insert may begin with
  a key that is neither linked nor being inserted (the property's "distinct keys").
* `Blue.SkipList` — the level-0 part on its own (the search through the upper levels abstracted).
* `Blue.ListFree` — `listfree::List::prepend`, one step per atomic access.
* `Blue.SkipOwn` — who keeps the nodes alive, as a transition system (reference count, released set,
  ghost use-after-free flag; the repaired ownership, finding D-4); `Blue.SkipLife` is the
  definitional form of it that the check replays (`life_refines`).

* Progress (block `SkipProgress`; `Blue/Proofs/SkipProgress.lean`, `SkipProgressIns.lean`): over runs
  (lists of thread ids, one atomic access each) of `Blue.SkipML` from any `Reach` state - a search
  or an insert that runs alone finishes within an explicit measure of the state
  (`search_terminates_without_interference`, `operation_terminates_without_interference`); an
  operation that takes more own steps than that without finishing was overtaken by a successful
  CAS of another thread (`lock_freedom`, all levels; `search_lock_freedom`: for a search, by a
  level-0 CAS); explicit step bounds per successful CAS of others (`all_operations_finish`,
  `all_searches_finish`); a failed CAS is the trace of another thread's successful CAS at the
  same level on the same predecessor (`cas_failure_means_progress`).  Lock-freedom, not
  wait-freedom: no bound without counting the other threads' CASes.  Fair scheduling is not
  modelled (the theorems bound a thread's own steps).  The same for `Blue.ListFree` (`prepend_*`, `all_prepends_finish`; `Blue/Proofs/ListFreeProgress.lean`).

**Assumed, not proved**: the atomic accesses of different threads interleave sequentially
consistently (the code uses `Acquire`/`Release`/`SeqCst`; weak memory is outside the model), and
memory that has not been released stays valid.  The harness replays every recorded run of the real
structures through `Blue.SkipML.step` / `Blue.ListFree.step`: every access must be the one the
model's thread does next, with the outcome the model computes, and every insert must satisfy
`insertOk` — so each recorded run is a `Reach` run and the theorems below speak about each of its
states. -/
namespace Blue.Props.C17

/-! ## skiplist, all levels -/
section skipml
open Blue.SkipML

/-- in every reachable state every level's chain from the head is strictly sorted by key, level
    `l + 1` is a sub-chain of level `l`, level 0 holds exactly the keys whose level-0 CAS has
    succeeded, and a walk along a level (what a traversal sees) yields exactly its chain -/
theorem upper_levels_are_subchains {s : St} (h : Reach s) :
    ∃ ids : Nat → List Nat,
      (∀ l, l < s.H → chainFrom s.heap l ((ids l).length + 1) (mnext s.heap l 0) = ids l) ∧
      (∀ l, l < s.H → ((ids l).map (mkey s.heap)).Pairwise (· < ·)) ∧
      (∀ l n, n ∈ ids (l + 1) → n ∈ ids l) ∧
      (∀ k, k ∈ s.inserted ↔ k ∈ (ids 0).map (mkey s.heap)) :=
  Blue.SkipML.upper_levels_are_subchains h

/-- no insert is lost: a key whose `insert` has returned is linked at level 0 … -/
theorem returned_insert_is_linked {s : St} (h : Reach s) : ∀ k ∈ s.returned, k ∈ s.inserted :=
  Blue.SkipML.returned_linked h

/-- … and linked keys stay linked whatever step whichever thread takes (one step) -/
theorem linked_stays_linked {s : St} (h : Reach s) (i : Nat) : ∀ k ∈ s.inserted, k ∈ (step s i).inserted :=
  Blue.SkipML.linked_stays_linked h i

/-- … along every run: `Reaches s s'` = any number of calls (`insert`, `seek`, `contains`, `first`,
    `last`, `next`, `prev` beginning on any thread) and steps of any threads, in any order -/
theorem linked_stays_linked_run {s s' : St} (h : Reach s) (hr : Reaches s s') :
    ∀ k ∈ s.inserted, k ∈ s'.inserted :=
  Blue.SkipML.linked_stays_linked_run h hr

/-- `Reaches` is the closure `Reach` is built from: every reachable state is reached from an
    initial state, and what is reached from a reachable state is reachable -/
theorem reaches_is_reach_closure {s : St} :
    (Reach s → ∃ H T, 0 < H ∧ Reaches (init H T) s) ∧ (∀ s', Reach s → Reaches s s' → Reach s') :=
  ⟨reaches_of_reach, fun _ h hr => reach_of_reaches h hr⟩

/-- **no insert is lost, ever**: a key whose `insert` has returned is linked in every later state -/
theorem returned_stays_linked {s s' : St} (h : Reach s) (hr : Reaches s s') :
    ∀ k ∈ s.returned, k ∈ s'.inserted :=
  Blue.SkipML.returned_stays_linked h hr

/-- **the answer of `contains`**: at the last load of its `find_greater_or_equal` the boolean it
    stores is `true` exactly when the key is linked at the time of that load -/
theorem contains_answer {s : St} (h : Reach s) (i k x : Nat) (hpc : (th s i).pc = .geq k x 0 true)
    (hstop : ∀ n, mnext s.heap 0 x = some n → ¬ mkey s.heap n < k) :
    (th (step s i) i).pc = .idle ∧ ((th (step s i) i).found = true ↔ k ∈ s.inserted) :=
  Blue.SkipML.contains_answer h i k x hpc hstop

/-- **a returned insert is found by every later search**: whatever calls and steps of whichever
    threads follow the return of `insert(k)`, a `contains(k)` doing its last load answers `true` … -/
theorem returned_found_by_later_contains {s s' : St} (h : Reach s) (hr : Reaches s s') (k : Nat)
    (hk : k ∈ s.returned) (i x : Nat) (hpc : (th s' i).pc = .geq k x 0 true)
    (hstop : ∀ n, mnext s'.heap 0 x = some n → ¬ mkey s'.heap n < k) :
    (th (step s' i) i).found = true :=
  Blue.SkipML.returned_found_by_later_contains h hr k hk i x hpc hstop

/-- … and a `seek(k)` doing its last load lands on the node of `k` -/
theorem returned_found_by_later_seek {s s' : St} (h : Reach s) (hr : Reaches s s') (k : Nat)
    (hk : k ∈ s.returned) (i x : Nat) (c : Bool) (hpc : (th s' i).pc = .geq k x 0 c)
    (hstop : ∀ n, mnext s'.heap 0 x = some n → ¬ mkey s'.heap n < k) :
    ∃ n, mnext s'.heap 0 x = some n ∧ mkey s'.heap n = k :=
  Blue.SkipML.returned_found_by_later_seek h hr k hk i x c hpc hstop

/-- **a returned insert is on the level-0 chain of every later state, once**: the walk from the
    head along level 0 in any later state is strictly increasing in key and holds the key.  (A full
    iteration by `next()` calls spread over several states: `iteration_complete` below.) -/
theorem returned_in_later_chain {s s' : St} (h : Reach s) (hr : Reaches s s') :
    ∃ ids0 : List Nat, chainFrom s'.heap 0 (ids0.length + 1) (mnext s'.heap 0 0) = ids0 ∧
      (ids0.map (mkey s'.heap)).Pairwise (· < ·) ∧ ∀ k ∈ s.returned, k ∈ ids0.map (mkey s'.heap) :=
  Blue.SkipML.returned_in_later_chain h hr

/-- **a whole forward iteration, composed from its loads.**  `Iter i s x ks`: thread `i` stands
    before the load of `next()` from node `x` in state `s` (`x = 0`: `seek_to_first`), and iterating on
    until `next()` reaches the null pointer — any calls and steps of any threads between two loads —
    yields the keys `ks`.  Then `ks` is strictly increasing (no key twice), lies above the key of
    `x`, and holds every key that was linked when the iteration began and lies above the starting
    point.  (That the iteration reaches the null pointer is part of `Iter`: termination under
    concurrent inserts is not proved.) -/
theorem iteration_complete {i : Nat} {s : St} {x : Nat} {ks : List Nat} (hit : Iter i s x ks) (h : Reach s) :
    ks.Pairwise (· < ·) ∧ (x ≠ 0 → ∀ k ∈ ks, mkey s.heap x < k) ∧
    ∀ k ∈ s.inserted, (x = 0 ∨ mkey s.heap x < k) → k ∈ ks :=
  Blue.SkipML.iteration_complete hit h

/-- **every returned insert appears in every later full iteration, exactly once**: an iteration
    from the head begun in any state after `insert(k)` returned yields `k`, and no key twice -/
theorem full_iteration_shows_returned {s0 s : St} (h0 : Reach s0) (hr : Reaches s0 s) {i : Nat} {ks : List Nat}
    (hit : Iter i s 0 ks) : ks.Pairwise (· < ·) ∧ ∀ k ∈ s0.returned, k ∈ ks :=
  Blue.SkipML.full_iteration_shows_returned h0 hr hit

/-- neither assertion in the code (`insert` meeting its own key, `find_less_than` standing on a
    node not before the key) can fire -/
theorem no_assertion_fires {s : St} (h : Reach s) (i : Nat) : (th s i).pc ≠ .panicked :=
  Blue.SkipML.no_panic h i

/-- `iterator_moves`, `seek` / `contains`: the last load of `find_greater_or_equal` returns the
    node with the smallest linked key `≥ k` (null: every linked key is `< k`), with respect to the
    keys linked at the time of that load -/
theorem iterator_moves_seek {s : St} (h : Reach s) (i k x : Nat) (c : Bool) (hpc : (th s i).pc = .geq k x 0 c)
    (hstop : ∀ n, mnext s.heap 0 x = some n → ¬ mkey s.heap n < k) :
    (mnext s.heap 0 x = none → ∀ k' ∈ s.inserted, k' < k) ∧
    (∀ n, mnext s.heap 0 x = some n →
      mkey s.heap n ∈ s.inserted ∧ k ≤ mkey s.heap n ∧ ∀ k' ∈ s.inserted, k ≤ k' → mkey s.heap n ≤ k') :=
  seek_lands h i k x c hpc hstop

/-- `iterator_moves`, `next` / `seek_to_first`: the load yields the node with the smallest linked
    key above the one the iterator is on (`x = 0`: the head), or null if there is none -/
theorem iterator_moves_next {s : St} (h : Reach s) (i x : Nat) (hpc : (th s i).pc = .nxt x) :
    (mnext s.heap 0 x = none → ∀ k' ∈ s.inserted, x ≠ 0 ∧ k' ≤ mkey s.heap x) ∧
    (∀ n, mnext s.heap 0 x = some n →
      mkey s.heap n ∈ s.inserted ∧ (x ≠ 0 → mkey s.heap x < mkey s.heap n) ∧
      ∀ k' ∈ s.inserted, (x ≠ 0 ∧ k' ≤ mkey s.heap x) ∨ mkey s.heap n ≤ k') :=
  next_lands h i x hpc

/-- `iterator_moves`, `prev` from a key: the last load of `find_less_than(k)` returns the node
    with the largest linked key `< k`, or the head (not valid) if there is none -/
theorem iterator_moves_prev {s : St} (h : Reach s) (i k x : Nat) (hpc : (th s i).pc = .lt k x 0)
    (hstop : ∀ n, mnext s.heap 0 x = some n → ¬ mkey s.heap n < k) :
    (x = 0 → ∀ k' ∈ s.inserted, ¬ k' < k) ∧
    (x ≠ 0 → mkey s.heap x ∈ s.inserted ∧ mkey s.heap x < k ∧ ∀ k' ∈ s.inserted, k' < k → k' ≤ mkey s.heap x) :=
  prev_lands h i k x hpc hstop

/-- `iterator_moves`, `prev` from the end: `find_last` returns the node with the largest linked
    key, or the head if nothing is linked -/
theorem iterator_moves_last {s : St} (h : Reach s) (i x : Nat) (hpc : (th s i).pc = .last x 0)
    (hstop : mnext s.heap 0 x = none) :
    (x = 0 → ∀ k' ∈ s.inserted, False) ∧
    (x ≠ 0 → mkey s.heap x ∈ s.inserted ∧ ∀ k' ∈ s.inserted, k' ≤ mkey s.heap x) :=
  last_lands h i x hpc hstop

/-- between operations an iterator points at null, the head, or a linked node -/
theorem iterator_on_chain {s : St} (h : Reach s) (i x : Nat) (hp : (th s i).pos = some x) :
    x = 0 ∨ mkey s.heap x ∈ s.inserted :=
  Blue.SkipML.iterator_on_chain h i x hp

/-- the precondition check of the trace validator is the precondition of `Reach.insert` -/
theorem insertOk_sound {s : St} {k : Nat} (h : insertOk s k = true) : InsertOk s k :=
  Blue.SkipML.insertOk_sound h

/-- non-vacuity (`MAX_HEIGHT = 2`): threads 0 and 1 insert 5 (tower of 2) and 3 concurrently while
    thread 2 seeks 4.  Both inserters read the empty list; thread 1 links first, so thread 0's
    level-0 CAS fails, it re-reads, advances past 3 and links behind it, then links level 1; the
    seek, begun on the empty list, ends on 5.  Both keys are linked and returned, level 1 is a
    sub-chain of level 0. -/
example :
    let s0 := callSeek (callInsert (callInsert (init 2 3) 0 5 2) 1 3 1) 2 4
    let s := [0, 0, 0, 0, 1, 1, 1, 1, 1, 2, 0, 0, 0, 0, 0, 2, 0, 0, 2].foldl step s0
    s.inserted = [5, 3] ∧ s.returned = [5, 3] ∧ (chain s 0).map (mkey s.heap) = [3, 5] ∧
      (chain s 1).map (mkey s.heap) = [5] ∧ ((th s 2).pos.map (mkey s.heap)) = some 5 ∧ chainsOk s = true := by
  decide

/-- … and that run is a `Reach` run (so the hypotheses of the theorems above are satisfiable) -/
example : Reach (step (callSeek (callInsert (callInsert (init 2 3) 0 5 2) 1 3 1) 2 4) 0) :=
  .step 0 (.seek 2 4 (.insert 1 3 1 (.insert 0 5 2 (.init 2 3 (by decide)) (insertOk_sound (by decide)))
    (insertOk_sound (by decide))))

/-! non-vacuity of `iterator_moves_*` and `contains_answer`: REACHABLE states in which a thread
    stands at the last load of each search (the hypotheses `hpc` and `hstop` hold), continuing the
    run above (`sS` = that run up to the seek's last load) -/
section witnesses
def wS0 : St := callSeek (callInsert (callInsert (init 2 3) 0 5 2) 1 3 1) 2 4
theorem wS0_reach : Reach wS0 :=
  .seek 2 4 (.insert 1 3 1 (.insert 0 5 2 (.init 2 3 (by decide)) (insertOk_sound (by decide)))
    (insertOk_sound (by decide)))
def wPre : List Nat := [0, 0, 0, 0, 1, 1, 1, 1, 1, 2, 0, 0, 0, 0, 0, 2, 0, 0]
/-- `seek(4)` at its last load: stands on node 2 (key 3), loads node 1 (key 5) -/
def wSeek : St := wPre.foldl step wS0
/-- the seek has finished (iterator on key 5) -/
def wDone : St := step wSeek 2
theorem wDone_reach : Reach wDone := .step 2 (reach_steps wS0_reach wPre)
/-- `prev()` from key 5 at the last load of `find_less_than(5)` -/
def wPrev : St := step (step (callPrev wDone 2) 2) 2
/-- `prev()` from the end at the last load of `find_last` -/
def wLast : St := step (step (callPrev (callLast wDone 2) 2) 2) 2
/-- `contains(5)` at its last load, after both inserts have returned -/
def wCont : St := step (step (callContains wDone 2 5) 2) 2

set_option maxRecDepth 100000 in
example : Reach wSeek ∧ (th wSeek 2).pc = .geq 4 2 0 false ∧ mnext wSeek.heap 0 2 = some 1
    ∧ ¬ mkey wSeek.heap 1 < 4 ∧ wSeek.inserted = [5, 3] :=
  ⟨reach_steps wS0_reach wPre, by decide⟩

set_option maxRecDepth 100000 in
example : Reach wPrev ∧ (th wPrev 2).pc = .lt 5 2 0 ∧ mnext wPrev.heap 0 2 = some 1 ∧ ¬ mkey wPrev.heap 1 < 5 :=
  ⟨.step 2 (.step 2 (.prev 2 wDone_reach)), by decide⟩

set_option maxRecDepth 100000 in
example : Reach wLast ∧ (th wLast 2).pc = .last 1 0 ∧ mnext wLast.heap 0 1 = none :=
  ⟨.step 2 (.step 2 (.prev 2 (.last 2 wDone_reach))), by decide⟩

set_option maxRecDepth 100000 in
example : Reach (callNext wDone 2) ∧ (th (callNext wDone 2) 2).pc = .nxt 1 :=
  ⟨.next 2 wDone_reach, by decide⟩

set_option maxRecDepth 100000 in
example : Reach wCont ∧ Reaches wDone wCont ∧ 5 ∈ wDone.returned ∧ (th wCont 2).pc = .geq 5 2 0 true
    ∧ mnext wCont.heap 0 2 = some 1 ∧ ¬ mkey wCont.heap 1 < 5 ∧ (th (step wCont 2) 2).found = true :=
  ⟨.step 2 (.step 2 (.contains 2 5 wDone_reach)), .step 2 (.step 2 (.contains 2 5 .refl)), by decide⟩
/-- an `Iter` witness: after both inserts have returned, thread 2 iterates from the head
    (`seek_to_first`, `next`, `next`) and sees 3, 5 -/
def wIt0 : St := callFirst wDone 2
def wIt1 : St := callNext (step wIt0 2) 2
def wIt2 : St := callNext (step wIt1 2) 2
set_option maxRecDepth 100000 in
example : ∃ ks, Iter 2 wIt0 0 ks ∧ ks = [3, 5] ∧ Reach wIt0 ∧ Reaches wDone wIt0 ∧ wDone.returned = [5, 3] :=
  ⟨_, .more (s' := wIt1) (n := 2) (by decide) (by decide) (.next 2 .refl)
        (.more (s' := wIt2) (n := 1) (by decide) (by decide) (.next 2 .refl) (.done (by decide) (by decide))),
   by decide, .first 2 wDone_reach, .first 2 .refl, by decide⟩
end witnesses

/-- `MAX_HEIGHT` of the default instantiation is the source's -/
example : Reach (init defaultMaxHeight 4) := .init _ _ (by decide)
end skipml

/-! ## skiplist, level 0 on its own -/
section skip0
open Blue.SkipList

/-- `level0_sorted_complete`: in every reachable state a level-0 walk from the head yields a
    strictly increasing list of exactly the linked keys -/
theorem level0_sorted_complete {s : St} (h : Reach s) :
    ∃ (ids : List Nat) (h0 : Node), s.heap[0]? = some h0 ∧
      walk s.heap (ids.length + 1) h0.next = ids.map (keyOf s.heap) ∧
      (ids.map (keyOf s.heap)).Pairwise (· < ·) ∧
      ∀ k, k ∈ s.inserted ↔ k ∈ ids.map (keyOf s.heap) :=
  reach_walk h

/-- published nodes stay published and keep their keys: a search's "I stand on a published node
    before the key" survives every step of every other thread -/
theorem published_stable {s : St} {x : Nat} (h : Published s x) (i : Nat) :
    Published (step s i) x ∧ keyOf (step s i).heap x = keyOf s.heap x :=
  Blue.SkipList.published_stable h i

/-- non-vacuity: a `Reach` run of the level-0 model (one insert of key 5, four steps) — the
    invariant premise of `Reach.call` is met by `inv_init` -/
example : Reach ([0, 0, 0, 0].foldl step (call init 0 5 0))
    ∧ ([0, 0, 0, 0].foldl step (call init 0 5 0)).inserted = [5] := by
  have h1 : Reach (call init 0 5 0) := by
    refine .call [] 0 5 0 .init inv_init ⟨rfl, by simp [init], ?_, Or.inl rfl⟩
    intro j; simp [init, Blue.SkipList.pcKey]
  exact ⟨.step 0 (.step 0 (.step 0 (.step 0 h1))), by decide⟩
end skip0

/-! ## prepend-only list -/
section list
open Blue.ListFree
variable {D : Type}

/-- `listfree_prepend`: after any schedule of any number of prepending threads the chain from the
    head is exactly the data whose CAS succeeded, newest first, each once, and a walk from the head
    through the heap OF THE SAME STATE yields it.  (An iteration that loaded the head earlier, with
    prepends going on meanwhile: `iteration_from_old_head` below.) -/
theorem listfree_prepend (evs : List (Ev D)) :
    ∃ ids, Chain (evs.foldl apply (init : St D)).heap (evs.foldl apply (init : St D)).head ids
        (evs.foldl apply (init : St D)).pushed ∧
      walk (evs.foldl apply (init : St D)).heap (ids.length + 1) (evs.foldl apply (init : St D)).head
        = (evs.foldl apply (init : St D)).pushed :=
  run_contents evs

/-- **`chain_stable`**: a chain whose nodes no thread owns (every node reachable from a pointer that
    has been the head is such) is the same chain after any further calls and steps of any threads -/
theorem chain_stable (evs : List (Ev D)) {s : St D} {p : Option Nat} {ids : List Nat} {ds : List D}
    (hc : Chain s.heap p ids ds) (hf : Frozen s ids) :
    Chain (evs.foldl apply s).heap p ids ds ∧ Frozen (evs.foldl apply s) ids :=
  Blue.ListFree.chain_stable evs hc hf

/-- **an iteration that loaded the head earlier**: after any schedule `evs` an iterator loads the
    head; any further schedule `evs'` runs (more prepends by any threads).  The walk from the
    pointer it loaded, through the heap as it is AFTERWARDS, yields exactly the data pushed when it
    loaded the head — newest first, each once — and that list is a suffix of what an iteration from
    the new head shows: every prepended element appears exactly once in every later iteration -/
theorem iteration_from_old_head (evs evs' : List (Ev D)) :
    let s := evs.foldl apply (init : St D)
    let s' := evs'.foldl apply s
    ∃ ids : List Nat, walk s'.heap (ids.length + 1) s.head = s.pushed ∧ s.pushed <:+ s'.pushed :=
  Blue.ListFree.iteration_from_old_head evs evs'

/-- … `next()` by `next()`: each load of that iterator, made in the later state, returns the data and
    the successor the node had when the head was loaded -/
theorem iterNext_stable (evs' : List (Ev D)) {s : St D} {p : Nat} {ids : List Nat} {ds : List D}
    (hc : Chain s.heap (some p) ids ds) (hf : Frozen s ids) :
    iterNext (evs'.foldl apply s).heap (some p) = iterNext s.heap (some p) :=
  Blue.ListFree.iterNext_stable evs' hc hf

/-- non-vacuity: thread 0 prepends 1; an iterator loads the head (node 0); thread 1 prepends 2 and
    thread 0 starts a third prepend; the old pointer still walks `[1]`, the new head walks `[2, 1]` -/
example :
    let s := ([.call 0 1, .step 0, .step 0, .step 0, .step 0] : List (Ev Nat)).foldl apply init
    let s' := ([.call 1 2, .step 1, .step 1, .step 1, .step 1, .call 0 3, .step 0] : List (Ev Nat)).foldl apply s
    s.head = some 0 ∧ s.pushed = [1] ∧ walk s'.heap 2 s.head = [1] ∧ s'.pushed = [2, 1]
      ∧ walk s'.heap 3 s'.head = [2, 1] := by
  decide

/-- non-vacuity: two threads prepend 1 and 2; both read the empty head, thread 1 links first,
    thread 0's CAS fails and it retries: the list is 1, 2 (newest first) -/
example :
    let s := ([.call 0 1, .call 1 2, .step 0, .step 1, .step 0, .step 1, .step 0, .step 1, .step 1, .step 0,
      .step 0, .step 0, .step 0] : List (Ev Nat)).foldl apply init
    s.pushed = [1, 2] ∧ walk s.heap 3 s.head = [1, 2] := by
  decide
end list

/-! ## an iterator remains valid for as long as it is held (repaired ownership, D-4) -/
section life

/-- **no use after free**: along every run of handle events from a fresh list — iterators opened,
    cloned, dropped, the list dropped, inserts, dereferences through iterators, in any order — no
    event dereferences nodes after a node has been released (`Blue.SkipOwn`: reference count and
    released set updated by the events; an invariant over `step`) -/
theorem no_use_after_free (ops : List Blue.SkipLife.Op) {s : Blue.SkipOwn.St}
    (hr : Blue.SkipOwn.run false {} ops = some s) : s.uaf = false :=
  Blue.SkipOwn.no_use_after_free ops hr

/-- … at the event: a dereference enabled in a reachable state finds every node unreleased -/
theorem deref_finds_all_nodes (ops : List Blue.SkipLife.Op) {s s' : Blue.SkipOwn.St}
    (hr : Blue.SkipOwn.run false {} ops = some s) (op : Blue.SkipLife.Op)
    (hop : (∃ j, op = .use j) ∨ op = .insert) (hs : Blue.SkipOwn.step false s op = some s') : s.freed = [] :=
  Blue.SkipOwn.deref_finds_all_nodes ops hr op hop hs

/-- nothing is released while a handle (list or iterator) exists, every node once none does -/
theorem freed_iff_no_holder (ops : List Blue.SkipLife.Op) {s : Blue.SkipOwn.St}
    (hr : Blue.SkipOwn.run false {} ops = some s) :
    (Blue.SkipLife.holders (Blue.SkipOwn.abs s) ≠ 0 → s.freed = []) ∧
    (Blue.SkipLife.holders (Blue.SkipOwn.abs s) = 0 → s.freed = List.range s.nodes) :=
  Blue.SkipOwn.freed_iff_no_holder ops hr

/-- the only event that releases nodes is the drop of the last holder -/
theorem release_only_at_last_drop (ops : List Blue.SkipLife.Op) {s s' : Blue.SkipOwn.St}
    (hr : Blue.SkipOwn.run false {} ops = some s) (op : Blue.SkipLife.Op)
    (hs : Blue.SkipOwn.step false s op = some s') (hbefore : s.freed = []) (hafter : s'.freed ≠ []) :
    (op = .dropList ∨ ∃ j, op = .dropIter j) ∧ Blue.SkipLife.holders (Blue.SkipOwn.abs s) = 1
      ∧ Blue.SkipLife.holders (Blue.SkipOwn.abs s') = 0 :=
  Blue.SkipOwn.release_only_at_last_drop ops hr op hs hbefore hafter

/-- **bridge to the model the check replays** (`skip life` requests: `Blue.SkipLife.step`, `live`
    compared with the allocation registry after every op): each of its runs is the handle part of a
    run of the transition system, and `live` is the number of nodes that system has not released -/
theorem life_refines (ops : List Blue.SkipLife.Op) {t : Blue.SkipLife.St}
    (hr : Blue.SkipOwn.lifeRun {} ops = some t) :
    ∃ s, Blue.SkipOwn.run false {} ops = some s ∧ Blue.SkipOwn.abs s = t
      ∧ Blue.SkipLife.live t = Blue.SkipOwn.liveNodes s ∧ s.uaf = false :=
  Blue.SkipOwn.life_refines ops hr

/-- **finding D-4 as a theorem about the ownership as it was**: `SkipList::drop` released every node
    while an iterator still shared the head pointer — the next dereference is a use after free;
    the same schedule under the repaired ownership keeps every node until the iterator goes -/
theorem use_after_free_as_found :
    (Blue.SkipOwn.run true {} [.insert, .insert, .iter, .dropList, .use 0]).map (fun s => (s.uaf, s.freed))
      = some (true, [0, 1, 2])
    ∧ (Blue.SkipOwn.run false {} [.insert, .insert, .iter, .dropList, .use 0]).map (fun s => (s.uaf, s.freed, s.rc))
      = some (false, [], 1)
    ∧ (Blue.SkipOwn.run false {} [.insert, .insert, .iter, .dropList, .use 0, .dropIter 0]).map
        (fun s => (s.uaf, s.freed, s.rc)) = some (false, [0, 1, 2], 0) :=
  Blue.SkipOwn.use_after_free_as_found

/-- non-vacuity: an iterator and its clone outlive the list; an insert through the dropped list
    handle is refused; a dereference is enabled with nothing released; the last drop releases all -/
example :
    Blue.SkipOwn.run false {} [.insert, .iter, .insert, .cloneIter 0, .dropList, .use 1, .dropIter 0, .insert, .use 1] = none
    ∧ (Blue.SkipOwn.run false {} [.insert, .iter, .insert, .cloneIter 0, .dropList, .use 1, .dropIter 0, .use 1]).map
        (fun s => (s.rc, s.freed, s.uaf)) = some (1, [], false)
    ∧ (Blue.SkipOwn.run false {} [.insert, .iter, .insert, .cloneIter 0, .dropList, .use 1, .dropIter 0, .use 1,
        .dropIter 1]).map (fun s => (s.rc, s.freed, s.uaf)) = some (0, [0, 1, 2], false) := by
  decide

open Blue.SkipLife

/-- MODEL FACT (definitional): `Blue.SkipLife.live s` is *defined* as `if holders s = 0 then 0 else
    s.nodes`; this unfolds the definition for an arbitrary state (no transition system, no
    reachability).  The property content is `no_use_after_free` / `freed_iff_no_holder` above. -/
theorem iterator_keeps_nodes_alive (s : St) (j : Nat) (h : held s j = true) : live s = s.nodes :=
  held_live s j h

/-- MODEL FACT (definitional), as above -/
theorem nodes_released_with_last_holder (s : St) : live s = 0 ↔ (holders s = 0 ∨ s.nodes = 0) :=
  released_iff s

/-- the run the driver replays: the list is dropped while an iterator is held, the iterator is
    used, then dropped: the nodes are alive until the last holder is gone -/
example : ([Op.insert, .insert, .iter, .dropList, .use 0, .dropIter 0].foldl
    (fun (acc : Option St × List Nat) op => match acc.1.bind (step · op) with
      | some s' => (some s', acc.2 ++ [live s'])
      | none => (none, acc.2)) (some {}, [])).2 = [2, 3, 3, 3, 3, 0] := by
  decide
end life

-- BEGIN SkipProgress
/-! ## progress: searches terminate; a search is delayed only by an insert that takes effect; a
    failed CAS is the trace of another thread's successful CAS (`Blue/Proofs/SkipProgress.lean`) -/
section progress
open Blue.SkipML Blue.SkipProgress

/-- a search (seek, contains, prev, the load of next, or the search of an insert, by any thread,
    for any key, from any reachable state) that runs alone reaches its last load within
    `searchBound s t` own steps: the allocated nodes with a linked key between the node it stands
    on and its target, plus one, plus its level times (the nodes with a linked key, plus one) -/
theorem search_terminates_without_interference {s : St} (h : Reach s) (t : Nat) :
    ∃ m, m ≤ searchBound s t ∧ searching (th (run s (List.replicate m t)) t).pc = false :=
  Blue.SkipProgress.search_terminates_without_interference h t

/-- lock-freedom of the searches, in its sharp form (`searching` covers `find_greater_or_equal`,
    `find_less_than`, `find_last`, `next` and the search phase of `insert`; `lock_freedom` below
    covers every operation).  In every run (list of thread ids, one atomic access each) from a
    reachable state: if thread `t` is searching in every state of the run and has taken more than
    `searchBound s t` steps, some other thread's LEVEL-0 CAS succeeded during the run (an insert
    took effect; CASes on upper levels do not delay a search beyond its bound). -/
theorem search_lock_freedom {s : St} (h : Reach s) (t : Nat) (r : List Nat)
    (hbusy : searchingAlong t s r = true) (hsteps : searchBound s t < r.count t) :
    ∃ r1 j r2, r = r1 ++ j :: r2 ∧ j ≠ t ∧ succCasAt (run s r1) j = some 0 :=
  Blue.SkipProgress.search_lock_freedom h t r hbusy hsteps

/-- every search finishes: a search that
    has not reached its last load has taken at most `MAX_HEIGHT * (nodes + 1)` own steps, times one
    plus the number of inserts of other threads that took effect during the run (`nodes` = nodes
    allocated at the end of the run, head included: at most one per insert begun) -/
theorem all_searches_finish {s : St} (h : Reach s) (t : Nat) (r : List Nat)
    (hbusy : searchingAlong t s r = true) :
    r.count t ≤ s.H * ((run s r).heap.length + 1) * (insertsByOthers t s r + 1) :=
  Blue.SkipProgress.all_searches_finish h t r hbusy

/-- a failed CAS means progress of another thread: `t` has loaded `prev[idx].next[idx] = obs[idx]`
    and is at `set_next` / `cas_next` with these values during the whole run; if at the end the
    predecessor's pointer differs from what it loaded (its CAS fails, `cas_fails_iff`), a step of
    the run by another thread was a successful CAS at level `idx` on the same predecessor -/
theorem cas_failure_means_progress {s : St} (h : Reach s) (t nd k idx hh : Nat) (prev : List Nat)
    (obs : List (Option Nat)) (r : List Nat)
    (hwait : along step (casWait t nd k idx hh prev obs) s r) (hfresh : freshAt s idx prev obs)
    (hfail : ¬ freshAt (run s r) idx prev obs) :
    ∃ r1 i r2, r = r1 ++ i :: r2 ∧ i ≠ t ∧ casOn (run s r1) i idx (prev.getD idx 0) :=
  Blue.SkipProgress.cas_failure_means_progress h t nd k idx hh prev obs r hwait hfresh hfail

/-- the CAS of a thread at `cas_next` fails exactly when the pointer is no longer what it loaded;
    and the load that ends the re-advance loop leaves it fresh (where the interval of
    `cas_failure_means_progress` begins) -/
theorem cas_fails_iff (s : St) (t nd k idx hh : Nat) (prev : List Nat) (obs : List (Option Nat))
    (hpc : (th s t).pc = .cas nd k idx hh prev obs) :
    access s t = some (.cas (prev.getD idx 0) idx (obs.getD idx none) nd false) ↔ ¬ freshAt s idx prev obs :=
  Blue.SkipProgress.cas_fails_iff s t nd k idx hh prev obs hpc

theorem adv_load_fresh {s : St} (h : Reach s) (t nd k idx hh : Nat) (prev prev' : List Nat) (obs obs' : List (Option Nat))
    (hpc : (th s t).pc = .adv nd k idx hh prev obs)
    (hpc' : (th (step s t) t).pc = .setNext nd k idx hh prev' obs') : freshAt (step s t) idx prev' obs' :=
  Blue.SkipProgress.adv_load_fresh h t nd k idx hh prev prev' obs obs' hpc hpc'

/-- non-vacuity of the search theorems (`MAX_HEIGHT = 2`): thread 2 seeks 9 in the empty list
    (bound 2) and takes its first load; threads 1 and 0 then insert 3 and 5 (two level-0 CASes
    succeed); the seek's next two loads move it to 3 and to 5 and it is still searching: 3 own
    steps > 2, as `search_lock_freedom` allows only because inserts took effect; the bound of
    `all_searches_finish` is 2 * (3 + 1) * (2 + 1).  Alone, it ends with one more load. -/
def pS0 : St := callSeek (callInsert (callInsert (init 2 3) 0 5 1) 1 3 1) 2 9
theorem pS0_reach : Reach pS0 :=
  .seek 2 9 (.insert 1 3 1 (.insert 0 5 1 (.init 2 3 (by decide)) (insertOk_sound (by decide)))
    (insertOk_sound (by decide)))
def pRun : List Nat := [2, 1, 1, 1, 1, 1, 0, 0, 0, 0, 0, 0, 2, 2]

example :
    searchBound pS0 2 = 2 ∧ searchingAlong 2 pS0 pRun = true ∧ pRun.count 2 = 3 ∧
      insertsByOthers 2 pS0 pRun = 2 ∧ (run pS0 pRun).inserted = [5, 3] ∧ (run pS0 pRun).returned = [5, 3] ∧
      (run pS0 pRun).H * ((run pS0 pRun).heap.length + 1) * (insertsByOthers 2 pS0 pRun + 1) = 24 ∧
      searchBound (run pS0 pRun) 2 = 1 ∧
      searching (th (run (run pS0 pRun) (List.replicate 1 2)) 2).pc = false ∧
      ((th (run (run pS0 pRun) [2]) 2).pos) = none := by
  decide

example : ∃ r1 j r2, pRun = r1 ++ j :: r2 ∧ j ≠ 2 ∧ succCasAt (run pS0 r1) j = some 0 :=
  search_lock_freedom pS0_reach 2 pRun (by decide) (by decide)

/-- non-vacuity of `cas_failure_means_progress`: two threads insert the adjacent keys 5 and 3 into
    the empty list (the run of the example above).  Thread 0 has loaded `head.next[0] = null` and
    allocated node 1 (`cS`: it is at `set_next`, the pointer is fresh); it stores, thread 1 searches,
    allocates node 2, stores and its CAS on the head succeeds; thread 0's CAS then fails (once),
    it re-advances past 3, and both inserts return. -/
def cS : St := [0, 0, 0].foldl step wS0
theorem cS_reach : Reach cS := reach_steps wS0_reach [0, 0, 0]
def cRun : List Nat := [0, 1, 1, 1, 1, 1]

example :
    along step (casWait 0 1 5 0 2 [0, 0] [none, none]) cS cRun ∧ freshAt cS 0 [0, 0] [none, none] ∧
      ¬ freshAt (run cS cRun) 0 [0, 0] [none, none] ∧
      access (run cS cRun) 0 = some (.cas 0 0 none 1 false) ∧
      access (run cS [0, 1, 1, 1, 1]) 1 = some (.cas 0 0 none 2 true) ∧
      (run cS (cRun ++ [0, 0, 0, 0, 0, 0, 0, 0])).returned = [5, 3] := by
  decide

example : ∃ r1 i r2, cRun = r1 ++ i :: r2 ∧ i ≠ 0 ∧ casOn (run cS r1) i 0 0 :=
  cas_failure_means_progress cS_reach 0 1 5 0 2 [0, 0] [none, none] cRun (by decide) (by decide) (by decide)

/-! ### every operation, the CAS loops of `insert` included (`Blue/Proofs/SkipProgressIns.lean`) -/

/-- an operation (insert: search, allocation, per level store / CAS / re-advance; or any search)
    that runs alone finishes within `opBound s t` own steps: for a search its `searchBound`; for an
    insert in its search that plus one plus `height * (linked nodes + 5)`; from the allocation on,
    per level still to link, 2 if the predecessor's pointer is still the recorded one and else 5
    plus the linked keys between the predecessor and the key (failed CAS, re-advance, second try) -/
theorem operation_terminates_without_interference {s : St} (h : Reach s) (t : Nat) :
    ∃ m, m ≤ opBound s t ∧ pending (th (run s (List.replicate m t)) t).pc = false :=
  Blue.SkipProgress.operation_terminates_without_interference h t

/-- **lock-freedom** (all levels, every operation): in every run from a reachable state, if thread
    `t` has a pending operation in every state of the run and has taken more than `opBound s t`
    steps, a step of the run by ANOTHER thread was a successful CAS (it linked a node at some
    level): an operation is delayed only by the progress of another -/
theorem lock_freedom {s : St} (h : Reach s) (t : Nat) (r : List Nat)
    (hbusy : pendingAlong t s r = true) (hsteps : opBound s t < r.count t) :
    ∃ r1 j r2, r = r1 ++ j :: r2 ∧ j ≠ t ∧ (succCasAt (run s r1) j).isSome = true :=
  Blue.SkipProgress.lock_freedom h t r hbusy hsteps

/-- every operation finishes: an operation still pending at the end of a run has taken at most
    `opB MAX_HEIGHT nodes = MAX_HEIGHT * (nodes + 1) + 1 + MAX_HEIGHT * (nodes + 5)` own steps, times
    one plus the number of successful CASes of other threads in the run (`nodes`: allocated at the
    end of the run, head included).  An insert makes at most `MAX_HEIGHT` successful CASes and one
    node, so in a workload of `N` inserts an operation that keeps being scheduled finishes within
    `opB MAX_HEIGHT (N + 1) * (MAX_HEIGHT * N + 1)` own steps (this last product is arithmetic on
    the two counts, not a stated theorem). -/
theorem all_operations_finish {s : St} (h : Reach s) (t : Nat) (r : List Nat)
    (hbusy : pendingAlong t s r = true) :
    r.count t ≤ opB s.H (run s r).heap.length * (casesByOthers t s r + 1) :=
  Blue.SkipProgress.all_operations_finish h t r hbusy

/-- non-vacuity: two threads insert the adjacent keys 5 (tower of 2) and 3 into the empty list
    (`MAX_HEIGHT = 2`).  In `qS` thread 0 stands before its level-0 CAS with both recorded pointers
    still fresh: `opBound = 3` (CAS, store, CAS).  Thread 1 then inserts 3 (its CAS on the head
    succeeds), so thread 0's CAS fails once, it re-advances past 3 and stores again: 4 own steps
    > 3 and still pending, which `lock_freedom` allows only because of thread 1's CAS; the bound of
    `all_operations_finish` is `opB 2 3 * (1 + 1) = 50`.  Three more steps and both have returned. -/
def qS : St := [0, 0, 0, 0].foldl step (callInsert (callInsert (init 2 2) 0 5 2) 1 3 1)
theorem qS_reach : Reach qS :=
  reach_steps (.insert 1 3 1 (.insert 0 5 2 (.init 2 2 (by decide)) (insertOk_sound (by decide)))
    (insertOk_sound (by decide))) [0, 0, 0, 0]
def qRun : List Nat := [1, 1, 1, 1, 1, 0, 0, 0, 0]

example :
    opBound qS 0 = 3 ∧ pendingAlong 0 qS qRun = true ∧ qRun.count 0 = 4 ∧ casesByOthers 0 qS qRun = 1 ∧
      opB (qS).H (run qS qRun).heap.length * (casesByOthers 0 qS qRun + 1) = 50 ∧
      access (run qS [1, 1, 1, 1, 1]) 0 = some (.cas 0 0 none 1 false) ∧
      opBound (run qS qRun) 0 = 3 ∧
      (run qS (qRun ++ [0, 0, 0])).returned = [5, 3] ∧ (run qS (qRun ++ [0, 0, 0])).inserted = [5, 3] ∧
      pending (th (run (run qS qRun) (List.replicate 3 0)) 0).pc = false := by
  decide

example : ∃ r1 j r2, qRun = r1 ++ j :: r2 ∧ j ≠ 0 ∧ (succCasAt (run qS r1) j).isSome = true :=
  lock_freedom qS_reach 0 qRun (by decide) (by decide)

example : qRun.count 0 ≤ opB qS.H (run qS qRun).heap.length * (casesByOthers 0 qS qRun + 1) :=
  all_operations_finish qS_reach 0 qRun (by decide)

end progress

/-! ### the prepend-only list (`Blue/Proofs/ListFreeProgress.lean`) -/
section listprogress
open Blue.ListFree

/-- a prepend that runs alone finishes within `prependBound s t ≤ 5` own steps (from its beginning
    4: allocation, load of the head, store, CAS) -/
theorem prepend_terminates_without_interference {D : Type} {s : Blue.ListFree.St D} (h : Inv s) (t : Nat) :
    ∃ m, m ≤ prependBound s t ∧ Blue.ListFree.pending ((Blue.ListFree.run s (List.replicate m t)).pcs t) = false :=
  Blue.ListFree.prepend_terminates_without_interference h t

/-- lock-freedom of `prepend`: more own steps than `prependBound` while pending means another
    thread's CAS on the head succeeded during the run -/
theorem prepend_lock_freedom {D : Type} {s : Blue.ListFree.St D} (h : Inv s) (t : Nat) (r : List Nat)
    (hbusy : Blue.ListFree.pendingAlong t s r = true) (hsteps : prependBound s t < r.count t) :
    ∃ r1 j r2, r = r1 ++ j :: r2 ∧ j ≠ t ∧ headCas (Blue.ListFree.run s r1) j = true :=
  Blue.ListFree.prepend_lock_freedom h t r hbusy hsteps

/-- every prepend finishes: at most 5 own steps per successful prepend of another thread, plus 5 -/
theorem all_prepends_finish {D : Type} {s : Blue.ListFree.St D} (h : Inv s) (t : Nat) (r : List Nat)
    (hbusy : Blue.ListFree.pendingAlong t s r = true) : r.count t ≤ 5 * (prependsByOthers t s r + 1) :=
  Blue.ListFree.all_prepends_finish h t r hbusy

/-- a failed CAS on the head means another prepend succeeded since the load (no invariant needed:
    the head is written by nothing but a successful CAS) -/
theorem prepend_cas_failure_means_progress {D : Type} (t n : Nat) (hd : Option Nat) (r : List Nat)
    (s : Blue.ListFree.St D) (hwait : Blue.SkipProgress.along Blue.ListFree.step (Blue.ListFree.casWait t n hd) s r)
    (hfresh : s.head = hd) (hfail : (Blue.ListFree.run s r).head ≠ hd) :
    ∃ r1 i r2, r = r1 ++ i :: r2 ∧ i ≠ t ∧ headCas (Blue.ListFree.run s r1) i = true :=
  Blue.ListFree.prepend_cas_failure_means_progress t n hd r s hwait hfresh hfail

/-- non-vacuity: threads 0 and 1 prepend 7 and 8.  In `lS` thread 0 has allocated node 0 and loaded
    the empty head (bound 2: store, CAS).  It stores; thread 1 allocates, loads, stores and its CAS
    succeeds; thread 0's CAS fails, it loads and stores again: 4 own steps > 2, still pending.  One
    more step and both are in the list. -/
def lEvs : List (Ev Nat) := [.call 0 7, .call 1 8, .step 0, .step 0]
def lS : Blue.ListFree.St Nat := lEvs.foldl Blue.ListFree.apply Blue.ListFree.init
theorem lS_inv : Inv lS := inv_run lEvs
def lRun : List Nat := [0, 1, 1, 1, 1]

example :
    prependBound lS 0 = 2 ∧ Blue.ListFree.pendingAlong 0 lS (lRun ++ [0, 0, 0]) = true ∧
      (lRun ++ [0, 0, 0]).count 0 = 4 ∧ prependsByOthers 0 lS (lRun ++ [0, 0, 0]) = 1 ∧
      lS.head = none ∧ (Blue.ListFree.run lS lRun).head = some 1 ∧
      headCas (Blue.ListFree.run lS [0, 1, 1, 1]) 1 = true ∧
      (Blue.ListFree.run lS (lRun ++ [0, 0, 0, 0])).pushed = [7, 8] ∧
      Blue.ListFree.pending ((Blue.ListFree.run lS (lRun ++ [0, 0, 0, 0])).pcs 0) = false := by
  decide

example : ∃ r1 j r2, lRun ++ [0, 0, 0] = r1 ++ j :: r2 ∧ j ≠ 0 ∧ headCas (Blue.ListFree.run lS r1) j = true :=
  prepend_lock_freedom lS_inv 0 (lRun ++ [0, 0, 0]) (by decide) (by decide)

example : ∃ r1 i r2, lRun = r1 ++ i :: r2 ∧ i ≠ 0 ∧ headCas (Blue.ListFree.run lS r1) i = true :=
  prepend_cas_failure_means_progress 0 0 none lRun lS
    (by refine ⟨?_, ?_, ?_, ?_, ?_, ?_⟩ <;> first | exact Or.inl rfl | exact Or.inr rfl) rfl (by decide)

end listprogress
-- END SkipProgress

end Blue.Props.C17

#print axioms Blue.Props.C17.upper_levels_are_subchains
#print axioms Blue.Props.C17.returned_insert_is_linked
#print axioms Blue.Props.C17.linked_stays_linked
#print axioms Blue.Props.C17.linked_stays_linked_run
#print axioms Blue.Props.C17.reaches_is_reach_closure
#print axioms Blue.Props.C17.returned_stays_linked
#print axioms Blue.Props.C17.contains_answer
#print axioms Blue.Props.C17.returned_found_by_later_contains
#print axioms Blue.Props.C17.returned_found_by_later_seek
#print axioms Blue.Props.C17.returned_in_later_chain
#print axioms Blue.Props.C17.iteration_complete
#print axioms Blue.Props.C17.full_iteration_shows_returned
#print axioms Blue.Props.C17.no_assertion_fires
#print axioms Blue.Props.C17.iterator_moves_seek
#print axioms Blue.Props.C17.iterator_moves_next
#print axioms Blue.Props.C17.iterator_moves_prev
#print axioms Blue.Props.C17.iterator_moves_last
#print axioms Blue.Props.C17.iterator_on_chain
#print axioms Blue.Props.C17.insertOk_sound
#print axioms Blue.Props.C17.level0_sorted_complete
#print axioms Blue.Props.C17.published_stable
#print axioms Blue.Props.C17.listfree_prepend
#print axioms Blue.Props.C17.chain_stable
#print axioms Blue.Props.C17.iteration_from_old_head
#print axioms Blue.Props.C17.iterNext_stable
#print axioms Blue.Props.C17.no_use_after_free
#print axioms Blue.Props.C17.deref_finds_all_nodes
#print axioms Blue.Props.C17.freed_iff_no_holder
#print axioms Blue.Props.C17.release_only_at_last_drop
#print axioms Blue.Props.C17.life_refines
#print axioms Blue.Props.C17.use_after_free_as_found
#print axioms Blue.Props.C17.iterator_keeps_nodes_alive
#print axioms Blue.Props.C17.nodes_released_with_last_holder
#print axioms Blue.ConstsTie.skipfree_default_max_height
#print axioms Blue.Props.C17.search_terminates_without_interference
#print axioms Blue.Props.C17.search_lock_freedom
#print axioms Blue.Props.C17.all_searches_finish
#print axioms Blue.Props.C17.cas_failure_means_progress
#print axioms Blue.Props.C17.cas_fails_iff
#print axioms Blue.Props.C17.adv_load_fresh
#print axioms Blue.Props.C17.operation_terminates_without_interference
#print axioms Blue.Props.C17.lock_freedom
#print axioms Blue.Props.C17.all_operations_finish
#print axioms Blue.Props.C17.prepend_terminates_without_interference
#print axioms Blue.Props.C17.prepend_lock_freedom
#print axioms Blue.Props.C17.all_prepends_finish
#print axioms Blue.Props.C17.prepend_cas_failure_means_progress
