import Blue.Proofs.FileRefs
import Blue.Proofs.StoreCrash
/-! # Property C08 — no needed file is ever removed; clean-up removes only unreferenced files

Property theorems only.  `Blue.FileRefs` is the transition system of
`LsmTree::{install_version, explicit_ref, explicit_unref}`, `VersionRef` and the move of
unreferenced SSTs to `trash/`; its `step` is the function the correspondence check runs against
the directory listings of the real store after every version install.  The crash half is
`StoreCrash.crash_recover`: at every crash point of every history of puts, flushes, reopens and
compactions, under both persistence models, every SST the durable manifest names is present and
whole (that is what makes the reopen succeed).

Checked per run rather than proved: that a verifier pass removes only names from `trash/` and
fully processed manifest fragments, and that the store reopens with unchanged contents after
every pass (oracle on the real directory).  A reader's lazy cursor does not hold its
`VersionRef` (D-5), so `held_files_present` does not cover files a cursor opens later — see C07. -/
namespace Blue.Props.C08
open Blue.FileRefs

variable {F : Type} [DecidableEq F]

/-- the invariant (counter exact, held versions counted, positive count ⇒ in `sst/`) is preserved
    by every event: installing a version, taking a snapshot, dropping a reference -/
theorem refcount_invariant_preserved {s : St F} (h : Inv s) :
    (∀ files, Inv (step s (.install files))) ∧ (CurOk s → Inv (step s .snapshot)) ∧ (∀ i, Inv (step s (.release i))) :=
  ⟨fun files => inv_install h files, fun hc => inv_snapshot h hc, fun i => inv_release h i⟩

/-- **every file of every version that still has a holder — the current version included — is in
    `sst/`** -/
theorem live_files_stay {s : St F} (h : Inv s) (v : Ver F) (hv : v ∈ s.versions) (hh : v.holders ≥ 1)
    (f : F) (hf : f ∈ v.files) : f ∈ s.sst := held_files_present h v hv hh f hf

/-- crash half: at every crash point of every history, both persistence models, the reopen
    succeeds (every manifest-named SST present and whole) and yields exactly the batches
    `0 … k-1`, `acknowledged ≤ k ≤ appended` -/
theorem crash_keeps_named_files (h : List Blue.StoreCrash.Client) (n : Nat) :
    Blue.StoreCrash.Ok (Blue.StoreCrash.recoverB (Blue.StoreCrash.run Blue.StoreCrash.fs0 ((Blue.StoreCrash.opsOf h Blue.StoreCrash.kv0).take n)))
        (Blue.StoreCrash.acked ((Blue.StoreCrash.opsOf h Blue.StoreCrash.kv0).take n))
        (Blue.StoreCrash.appended ((Blue.StoreCrash.opsOf h Blue.StoreCrash.kv0).take n))
    ∧ Blue.StoreCrash.Ok (Blue.StoreCrash.recoverA (Blue.StoreCrash.run Blue.StoreCrash.fs0 ((Blue.StoreCrash.opsOf h Blue.StoreCrash.kv0).take n)))
        (Blue.StoreCrash.acked ((Blue.StoreCrash.opsOf h Blue.StoreCrash.kv0).take n))
        (Blue.StoreCrash.appended ((Blue.StoreCrash.opsOf h Blue.StoreCrash.kv0).take n)) :=
  Blue.StoreCrash.crash_recover_init h n

/-- non-vacuity: a version is replaced while a snapshot of it is held; its file stays in `sst/`
    until the snapshot is released, then moves to `trash/` -/
example :
    let s0 : St Nat := { versions := [⟨[1, 2], 1, true⟩], refs := fun f => [1, 2].count f, sst := [1, 2], trash := [] }
    let s1 := step (step s0 .snapshot) (.install [2, 3])
    let s2 := step s1 (.release 0)
    s1.sst = [1, 2, 3] ∧ s1.trash = [] ∧ s2.sst = [2, 3] ∧ s2.trash = [1] := by decide

end Blue.Props.C08

#print axioms Blue.Props.C08.refcount_invariant_preserved
#print axioms Blue.Props.C08.live_files_stay
#print axioms Blue.Props.C08.crash_keeps_named_files
