import Blue.Proofs.FileRefs
import Blue.Proofs.StoreCrash
import Blue.Proofs.Orphans
import Blue.Proofs.Verifier
import Blue.Proofs.VerifierCrash
import Blue.Proofs.FileLink
import Blue.Proofs.ConstsTieC08
/-! # Property C08 — no needed file is ever removed; clean-up removes only unreferenced files

Property theorems only.  `Blue.FileRefs` is the transition system of
`LsmTree::{install_version, explicit_ref, explicit_unref}`, `VersionRef` and the move of
unreferenced SSTs to `trash/`; its `step` is the function the correspondence check runs against
the directory listings of the real store after every version install.  The crash half is
`StoreCrash.crash_recover`: at every crash point of every history of puts, flushes, reopens and
compactions, under both persistence models, every SST the durable manifest names is present and
whole (that is what makes the reopen succeed).

The offline verifier (`lsmtk/src/verifier.rs`) is `Blue.Verifier`: one pass is the list of its
durable actions (unlink a fragment, unlink a trash entry, the two edits of `verify/MANIFEST`) over
an abstract directory; a crash is a cut of that list, a restart a new pass from what is on disk.
The reopen-time clean-up (`cleanup_orphans`) is `Blue.Orphans`.  Both are run against the real code
on the dumped directory of every real pass / reopen, against the traced system calls of passes
run under strace, and against every crash image of those traces (see `harness/src/c08.rs`).

A reader's lazy cursor does not hold its `VersionRef` (D-5), so `live_files_stay` does not cover
files a cursor opens later — see C07. -/
namespace Blue.Props.C08
open Blue.FileRefs

variable {F : Type} [DecidableEq F]

/-- the invariant (counter exact, held versions counted, positive count ⇒ in `sst/`) is preserved
    by every event: installing a version, taking a snapshot, dropping a reference -/
theorem refcount_invariant_preserved {s : St F} (h : Inv s) :
    (∀ files, Inv (step s (.install files))) ∧ (CurOk s → Inv (step s .snapshot)) ∧ (∀ i, Inv (step s (.release i))) :=
  ⟨fun files => inv_install h files, fun hc => inv_snapshot h hc, fun i => inv_release h i⟩

/-- **every file of every version that still has a holder — the current version included — is in
    `sst/`** -/
theorem live_files_stay {s : St F} (h : Inv s) (v : Ver F) (hv : v ∈ s.versions) (hh : v.holders ≥ 1)
    (f : F) (hf : f ∈ v.files) : f ∈ s.sst := held_files_present h v hv hh f hf

/-- crash half: at every crash point of every history, both persistence models, the reopen
    succeeds (every manifest-named SST present and whole) and yields exactly the batches
    `0 … k-1`, `acknowledged ≤ k ≤ appended` -/
theorem crash_keeps_named_files (h : List Blue.StoreCrash.Client) (n : Nat) :
    Blue.StoreCrash.Ok (Blue.StoreCrash.recoverB (Blue.StoreCrash.run Blue.StoreCrash.fs0 ((Blue.StoreCrash.opsOf h Blue.StoreCrash.kv0).take n)))
        (Blue.StoreCrash.acked ((Blue.StoreCrash.opsOf h Blue.StoreCrash.kv0).take n))
        (Blue.StoreCrash.appended ((Blue.StoreCrash.opsOf h Blue.StoreCrash.kv0).take n))
    ∧ Blue.StoreCrash.Ok (Blue.StoreCrash.recoverA (Blue.StoreCrash.run Blue.StoreCrash.fs0 ((Blue.StoreCrash.opsOf h Blue.StoreCrash.kv0).take n)))
        (Blue.StoreCrash.acked ((Blue.StoreCrash.opsOf h Blue.StoreCrash.kv0).take n))
        (Blue.StoreCrash.appended ((Blue.StoreCrash.opsOf h Blue.StoreCrash.kv0).take n)) :=
  Blue.StoreCrash.crash_recover_init h n

/-- non-vacuity: a version is replaced while a snapshot of it is held; its file stays in `sst/`
    until the snapshot is released, then moves to `trash/` -/
example :
    let s0 : St Nat := { versions := [⟨[1, 2], 1, true⟩], refs := fun f => [1, 2].count f, sst := [1, 2], trash := [] }
    let s1 := step (step s0 .snapshot) (.install [2, 3])
    let s2 := step s1 (.release 0)
    s1.sst = [1, 2, 3] ∧ s1.trash = [] ∧ s2.sst = [2, 3] ∧ s2.trash = [1] := by decide

/-! ## linking a compaction's outputs while a reader holds a file of the same name

`Blue.FileLink`: per-file reference counts, `sst/` and `trash/` under the events of one
compaction (`link` an output, `ref` by the version being installed, `unref` by a holder).  The
code as it is links without taking a reference (finding `snapshot-released-between-output-link-
and-install`): a counterexample; the repaired link (/repo commit dcee38b) takes
one: referenced files stay in `sst/`. -/
section FileLink
open Blue.FileLink
variable {G : Type} [DecidableEq G]

/-- as repaired: "every referenced file is in `sst/`" is kept by the link, by a holder letting go,
    and by a version taking references to files that are referenced already (its outputs, by the
    link; the files it keeps) -/
theorem linked_output_invariant (s : Blue.FileLink.St G) (x : G) (h : Blue.FileLink.Inv s) :
    Blue.FileLink.Inv (Blue.FileLink.step true s (.link x)) ∧
    (∀ pin, Blue.FileLink.Inv (Blue.FileLink.step pin s (.unref x))) ∧
    (∀ pin, s.refs x > 0 → Blue.FileLink.Inv (Blue.FileLink.step pin s (.ref x))) :=
  ⟨inv_link_pin s x h, fun pin => inv_unref pin s x h, fun pin hx => inv_ref pin s x h hx⟩

/-- as repaired: whatever number `k` of the holders `x` had before the link let go before the new
    version is installed, `x` is still referenced and in `sst/` -/
theorem pinned_output_stays (s : Blue.FileLink.St G) (x : G) (h : Blue.FileLink.Inv s) (k : Nat) (hk : k ≤ s.refs x) :
    let s' := Blue.FileLink.run true (Blue.FileLink.step true s (.link x)) (List.replicate k (.unref x))
    Blue.FileLink.Inv s' ∧ s'.refs x = s.refs x + 1 - k ∧ x ∈ s'.sst :=
  Blue.FileLink.pinned_output_stays s x h k hk

/-- **as the code is** (counterexample to "no needed file is ever removed"): `x` is in `sst/` with
    one reference that belongs to a reader's snapshot; a compaction links an output named `x`, the
    reader lets go, the new version takes its reference — `x` is referenced, listed by the manifest
    edit that follows, and in `trash/` -/
theorem unpinned_output_lost (s : Blue.FileLink.St G) (x : G) (hx : x ∈ s.sst) (hn : s.refs x = 1) :
    let s' := Blue.FileLink.step false (Blue.FileLink.step false (Blue.FileLink.step false s (.link x)) (.unref x)) (.ref x)
    s'.refs x = 1 ∧ x ∉ s'.sst ∧ x ∈ s'.trash ∧ ¬ Blue.FileLink.Inv s' :=
  Blue.FileLink.unpinned_output_lost s x hx hn

/-- non-vacuity of the hypotheses: one file, one reference -/
example : (1 : Nat) ∈ ({ refs := fun _ => 1, sst := [1], trash := [] } : Blue.FileLink.St Nat).sst ∧
    Blue.FileLink.Inv ({ refs := fun x => if x = 1 then 1 else 0, sst := [1], trash := [] } : Blue.FileLink.St Nat) :=
  ⟨List.mem_cons_self, fun x hx => by
    by_cases h : x = 1
    · subst h; exact List.mem_cons_self
    · simp [h] at hx⟩

end FileLink

/-! ## the offline verifier -/
section Verifier
open Blue.Verifier Blue.Mani
variable {A : Type}

/-- **The verifier unlinks only logged trash.**  In every directory the verifier can be in — after
    any interleaving of pass prefixes (a crash after any durable action, then a restart from what
    is on disk) with arbitrary steps of the store that leave `verify/` alone — every unlink a pass
    makes in `trash/` is of a name that is, at that moment, logged in `verify/` under the number of
    a fragment whose plan names it and which passed the check (`verify_one`) against the
    accumulator of the moment its intent was logged. -/
theorem verifier_unlinks_only_logged_trash (C : Checker A) (d : Dir A) (h : Reach C d) (i : Nat) (x : Name)
    (hx : (pass C d).1[i]? = some (Act.unlinkTrash x)) :
    ∃ n es a names later, (run d ((pass C d).1.take i)).vM = some n ∧ (n, es, a) ∈ (run d ((pass C d).1.take i)).done
      ∧ plan C.asWas later es = some names ∧ x ∈ names ∧ (C.check a es).isSome = true :=
  unlinks_justified C _ d (reach_justified C d h) (pass_legal C d) i x hx

/-- … and a name in a plan is the trash name of a file an edit of the fragment removes and does not
    add again itself (`7cb13e3`), or of the log an edit other than the first records in `L` -/
theorem plan_names_recorded_removals (asWas : Bool) (later : List Name) (es : List Edit) (names : List Name)
    (h : plan asWas later es = some names) (x : Name) (hx : x ∈ names) :
    (∃ e, e ∈ es ∧ ∃ r, r ∈ e.rm ∧ r ∉ e.add ∧ x = trashSst r) ∨
    (∃ e, e ∈ es.drop 1 ∧ ∃ v k, getInfo e 76 = some v ∧ parseU64 v = some k ∧ x = trashLog k) :=
  mem_plan asWas later es names h x hx

/-- **The verifier keeps the trash a later check needs** (as repaired, D-28;
    /repo fix 9994d2c).  Files are named after their contents: a
    compaction can write a removed file again, a later edit can remove it again, and `trash/` then
    holds one copy for both removals, which the checks of the fragments that add it back and remove
    it again read.  Whenever a pass logs an intent for fragment `n`, no name in it is the trash
    entry of a file that a fragment numbered above `n` or `MANIFEST` removes again (`laterRm`): the
    copy is left to the last removal. -/
theorem verifier_keeps_needed_trash (C : Checker A) (hC : C.asWas = false) (d : Dir A) (i n : Nat) (es : List Edit)
    (names : List Name) (o : A) (h : (pass C d).1[i]? = some (Act.intent n es names o)) (r : Name)
    (hr : r ∈ laterRm (run d ((pass C d).1.take i)) n) : trashSst r ∉ names :=
  pass_keeps_needed_trash C hC d i n es names o h r hr

/-- **as the code was** (counterexample, D-28): `x` removed by fragment 1, added again by fragment 2,
    removed again by fragment 3, one copy in `trash/`: the pass gives the copy to fragment 1, stops
    at fragment 2 with an error (`x` is neither in `trash/` nor in `sst/`), and so does every pass
    after it; as repaired the pass goes through and fragment 3 takes the copy -/
theorem verifier_removed_recreated_removed :
    ((pass chainCheckerAsWas exR).2 = .corrupt ∧ (final chainCheckerAsWas exR).trash = []
      ∧ (pass chainCheckerAsWas (final chainCheckerAsWas exR)).2 = .corrupt
      ∧ (final chainCheckerAsWas (final chainCheckerAsWas exR)).frags.map (·.1) = [2, 3, 4]) ∧
    ((pass chainChecker exR).2 = .ok ∧ (final chainChecker exR).trash = []
      ∧ (final chainChecker exR).frags.map (·.1) = [4]) :=
  ⟨⟨exR_as_was.1, exR_as_was.2.1, exR_as_was.2.2.2.1, exR_as_was.2.2.2.2⟩,
   ⟨exR_repaired.1, exR_repaired.2.1, exR_repaired.2.2.1⟩⟩

/-- … and an intent is logged only for a fragment that is in `mani/` other than the newest one and
    `MANIFEST`, with nothing else pending, after its check passed against the accumulator in
    `verify/`, and with every name of its plan present in `trash/`; a fragment is unlinked only
    under the number `M` holds; a trash entry only while its name is logged (`Legal`) -/
theorem verifier_acts_legal (C : Checker A) (d : Dir A) :
    LegalRun C d (pass C d).1 ∧
    ∀ n es names o, Act.intent n es names o ∈ (pass C d).1 → (n, es) ∈ d.frags.dropLast :=
  ⟨pass_legal C d, fun n es names o h => pass_intents_are_entries C d n es names o h⟩

/-- the names the manifest state lists: the replay of `MANIFEST` -/
def listedOf (live : List Edit) : List Name := (Blue.ManiCrash.replay maniAlgebra live).strs

/-- **The verifier never removes a listed file**: no prefix of any pass (hence no step, no crash
    state) changes `sst/` or `MANIFEST`; every file the manifest lists that was in `sst/` still is;
    nothing appears in `trash/` or `mani/`. -/
theorem verifier_never_removes_listed (C : Checker A) (d : Dir A) (k : Nat) :
    (run d ((pass C d).1.take k)).sst = d.sst ∧ (run d ((pass C d).1.take k)).live = d.live ∧
    (∀ x, x ∈ listedOf (run d ((pass C d).1.take k)).live → x ∈ d.sst → x ∈ (run d ((pass C d).1.take k)).sst) ∧
    (run d ((pass C d).1.take k)).trash.Sublist d.trash ∧ (run d ((pass C d).1.take k)).frags.Sublist d.frags :=
  ⟨run_sst _ d, run_live _ d, fun x _ hx => by rw [run_sst]; exact hx, run_trash_sublist _ d, run_frags_sublist _ d⟩

/-- **Crash safety.**  A pass cut by a crash after any number `k` of its durable actions and then
    restarted ends where the uninterrupted pass ends, up to the execution of a still-pending intent
    (`finish`: what the next pass with an entry does before anything else) — same `sst/`, `MANIFEST`,
    fragments, `trash/`, `M`, `O`.  Hypotheses: the fragments are numbered in ascending order, and
    a `verify/` manifest without `M` logs nothing (both hold initially and are kept, `crash_keeps`). -/
theorem verifier_crash_safe (C : Checker A) (d : Dir A) (hs : Sorted d) (hn : NoneEmpty d) (k : Nat) :
    finish (final C (run d ((pass C d).1.take k))) = finish (final C d) :=
  crash_converges C d hs hn k

/-- … for any number of passes and crashes in a row; all the while `sst/` and `MANIFEST` are those of
    the start and the fragments left are a suffix of the fragments there were -/
theorem verifier_crash_safe_any_restarts (C : Checker A) (d0 d : Dir A) (hs : Sorted d0) (hn : NoneEmpty d0)
    (h : Restarts C d0 d) :
    finish (final C d) = finish (final C d0) ∧ Sorted d ∧ NoneEmpty d ∧ d.frags <:+ d0.frags
      ∧ d.sst = d0.sst ∧ d.live = d0.live :=
  restarts_converge C d0 d hs hn h

/-- … and the store reopens on it with the manifest state it had, the orphan clean-up of that reopen
    renaming nothing the state lists -/
theorem reopen_after_verifier (C : Checker A) (d0 d : Dir A) (hs : Sorted d0) (hn : NoneEmpty d0)
    (hchain : chainOk (fragLists d0) = true) (h : Restarts C d0 d) (sst trash : List Name) :
    chainOk (fragLists d) = true ∧ Blue.Orphans.listed (fragLists d) = Blue.Orphans.listed (fragLists d0) ∧
      ∀ x, x ∈ Blue.Orphans.moved sst trash (fragLists d) → x ∉ Blue.Orphans.listed (fragLists d) :=
  cleanup_after_restarts C d0 d hs hn hchain h sst trash

/-- non-vacuity: a directory whose pass logs an intent, unlinks the fragment and the file; cut after
    the unlink of the fragment, the restart has no entry left and ends with the name still logged
    and the file still in `trash/` — `finish` of it is where the whole pass ends -/
example : (pass chainChecker exD).1.length = 4 ∧ (final chainChecker exD).trash = [] ∧
    (final chainChecker (run exD ((pass chainChecker exD).1.take 2))).trash = [[120, 46, 115, 115, 116]] ∧
    (finish (final chainChecker (run exD ((pass chainChecker exD).1.take 2)))).trash = [] :=
  ⟨exD_pass.1, exD_whole.1, exD_cut.1, exD_cut.2.2⟩

example : Sorted exD ∧ NoneEmpty exD ∧ Reach chainChecker exD :=
  ⟨by unfold Sorted; decide, fun _ => rfl, Reach.fresh _ rfl rfl rfl⟩

end Verifier

/-! ## orphan clean-up on open -/
section Orphans
open Blue.Orphans Blue.Mani

/-- **`cleanup_orphans` keeps every listed file**: on a chained manifest directory (what
    `Manifest::verify` checks; it holds after every history of edits, rollovers, crashes and reopens —
    `chain_holds` below — and for what the verifier leaves of it, `reopen_after_verifier`), the set
    the scan collects holds no name the manifest state lists — whether the file was removed and
    added by one edit, removed by one edit and re-added by a later one, or re-added in a later
    fragment — so nothing listed is renamed to `trash/`. -/
theorem cleanup_orphans_keeps_listed (sst trash : List Name) (frags : List (List Edit)) (hc : chainOk frags = true) :
    (∀ x, x ∈ listed frags → x ∉ scan frags) ∧ (∀ x, x ∈ moved sst trash frags → x ∉ listed frags) :=
  ⟨scan_clear_of_listed frags hc, moved_not_listed sst trash frags hc⟩

/-- the hypothesis holds: after a crash at any system call of any history of manifest edits,
    rollovers and reopens, under either persistence model, followed by the reopen's rollover, the
    fragments are chained -/
theorem chain_holds (h : List (Blue.ManiCrash.Client Edit)) (n : Nat) :
    let fs := Blue.ManiCrash.run emptyFs ((Blue.ManiCrash.opsOf maniAlgebra h []).take n)
    chainOk (fragments (Blue.ManiCrash.run (Blue.ManiCrash.crashA fs) (Blue.ManiCrash.reopenOps maniAlgebra (Blue.ManiCrash.crashA fs)))) = true
    ∧ chainOk (fragments (Blue.ManiCrash.run (Blue.ManiCrash.crashB fs) (Blue.ManiCrash.reopenOps maniAlgebra (Blue.ManiCrash.crashB fs)))) = true :=
  chain_after_crash_and_reopen h n

/-- non-vacuity, and what the removal of the added names is for: `x` is removed by an edit of the
    first fragment and added again by an edit of the second; the scan lets it be, a scan that only
    collected removals would rename a listed file -/
example : chainOk exA = true ∧ listed exA = [[120], [122]] ∧ scan exA = [[121]] ∧
    ([120] ∈ scanNoReadd exA ∧ [120] ∈ listed exA) :=
  ⟨exA_chain, exA_listed, exA_scan, exA_no_readd_scan_hits_listed⟩

end Orphans

end Blue.Props.C08

#print axioms Blue.Props.C08.refcount_invariant_preserved
#print axioms Blue.Props.C08.live_files_stay
#print axioms Blue.Props.C08.crash_keeps_named_files
#print axioms Blue.Props.C08.verifier_unlinks_only_logged_trash
#print axioms Blue.Props.C08.plan_names_recorded_removals
#print axioms Blue.Props.C08.verifier_keeps_needed_trash
#print axioms Blue.Props.C08.verifier_removed_recreated_removed
#print axioms Blue.Props.C08.verifier_acts_legal
#print axioms Blue.Props.C08.verifier_never_removes_listed
#print axioms Blue.Props.C08.verifier_crash_safe
#print axioms Blue.Props.C08.verifier_crash_safe_any_restarts
#print axioms Blue.Props.C08.reopen_after_verifier
#print axioms Blue.Props.C08.cleanup_orphans_keeps_listed
#print axioms Blue.Props.C08.chain_holds
#print axioms Blue.Props.C08.linked_output_invariant
#print axioms Blue.Props.C08.pinned_output_stays
#print axioms Blue.Props.C08.unpinned_output_lost
