import Blue.Proofs.FileRefs
import Blue.Proofs.StoreCrash
import Blue.Proofs.Orphans
import Blue.Proofs.Verifier
import Blue.Proofs.VerifierCrash
import Blue.Proofs.FileLink
import Blue.Proofs.FileLinkRun
import Blue.Proofs.SnapRefs
import Blue.Proofs.VerifierWitness
import Blue.Proofs.VerifierKeeps
import Blue.Proofs.ManiOpenBytes
import Blue.Proofs.VerifierNewest
import Blue.Proofs.OrphansLive
import Blue.Proofs.ConstsTieC08
import Blue.Proofs.LogRetire
import Blue.Proofs.SstRetire
import Blue.Proofs.VerifierProgress
import Blue.Proofs.VerifierHonest
/-! # Property C08 — no needed file is ever removed; clean-up removes only unreferenced files

Property theorems only.  `Blue.FileRefs` is the transition system of
`LsmTree::{install_version, explicit_ref, explicit_unref}`, `VersionRef` and the move of
unreferenced SSTs to `trash/`; its `step` is the function the correspondence check runs against
the directory listings of the real store after every version install.  The crash half is
`StoreCrash.crash_recover`: at every crash point of every history of puts, flushes, reopens and
compactions, under both persistence models, every SST the durable manifest names is present and
whole (that is what makes the reopen succeed).

The offline verifier (`lsmtk/src/verifier.rs`) is `Blue.Verifier`: one pass is the list of its
durable actions (unlink a fragment, unlink a trash entry, the two edits of `verify/MANIFEST`) over
an abstract directory; a crash is a cut of that list, a restart a new pass from what is on disk.
The reopen-time clean-up (`cleanup_orphans`) is `Blue.Orphans`.  Both are run against the real code
on the dumped directory of every real pass / reopen, against the traced system calls of passes
run under strace, and against every crash image of those traces (see `harness/src/c08.rs`).

Reader snapshots: as repaired (D-5) a cursor keeps its `VersionRef` for its whole life; a held
reference is a `snapshot` event of `Blue.FileRefs` that is not yet released, so `live_files_stay`
/ `refcount_run` cover the files of every version a cursor still holds (the cursor side is C07:
`cursor_files_present`).

The two newest manifest entries (`MANIFEST.<newest>` and `MANIFEST`) are never processed by a pass,
but `last_removals` ranges over them (it is computed BEFORE the two `entries.pop()`:
`source_ranges_tied`): `verifier_keeps_newest_two_removed` is the semantic statement,
`verifier_narrowed_range_loses_copy` the counterexample for a range narrowed to the processed
entries.  The orphan scan reads the live `MANIFEST` as it is AT THE TIME OF THE SCAN, i.e. with
the edits log recovery wrote during the same open (`cleanup_orphans_keeps_listed_after_recovery`;
`cleanup_skipping_live_moves_relisted` is the counterexample for a scan that leaves it out).

What is a THEOREM ABOUT THE MODEL'S ALPHABET rather than about a behaviour (said here once):
`verifier_never_removes_listed` holds because the model's verifier has no action on `sst/` or
`MANIFEST` (that the real verifier makes no such call is compared by strace);
`verifier_keeps_needed_trash` says that the repaired plan's filter removes what it removes (that
the later checks then FIND the copy is shown on `exR`); `Reach.env` lets the store act between
pass prefixes, not during one.

Log retirement ("a log is moved to the trash only when no unreplayed write depends on it") is block
`LogRetire`, on the file-system protocol of `Blue.StoreCrash` (the op lists C02 compares with the
traced system calls of every real flush and recovery): at every `rename log.N → trash/` of every
history the durable (appended AND synced) manifest lists the SST holding that log's batches and the
SST is in `sst/`, whole and synced (`log_trashed_only_after_manifest_sync`; as positions in the op
list: `log_trashed_after_append_then_sync`); at every crash point,
both persistence models, every acknowledged batch is in a log still in the directory or in a listed,
present, whole SST (`crash_keeps_needed_files` and its two readings); the swapped order loses an
acknowledged batch (`swapped_order_loses_batch`).

SST retirement ("an SST is moved to the trash only when the manifest edit that drops it is durable
and its batches have another home") is block `SstRetire`, on the same protocol model: at every
`rename sst/x → trash/` of every history neither the durable nor the durable + pending manifest lists
`x`, and every batch of `x` is in a listed SST that is in `sst/`, whole and synced
(`sst_trashed_only_after_manifest_sync`; as positions in the op list — `maniAppend tx` with `x` in
`tx.rms` and the batches of `x` in `tx.adds`, then `maniSync`, then the rename —
`sst_trashed_after_append_then_sync`); at every crash point, both persistence models, every listed SST
is in `sst/` whole (`crash_keeps_listed_ssts`); inputs renamed between the append and the sync make
the reopen after a crash fail (`swapped_order_loses_sst`).  The model's compactions write outputs
under FRESH names (`validCompact`), as in `crash_keeps_named_files`.

Progress of the verifier is block `VerifierProgress`: `Processable` (every entry passes — check,
readable files, parsable `L`, plan names in `trash/` — each in the directory the entries before it
leave) is a HYPOTHESIS there; block `VerifierHonest` derives it, with the real checks
(`contentChecker`, C04 `verifier_accepts_honest`), for every directory that satisfies `HonestDir`
(the fragments are those of a store history of C04's model numbered upwards, `verify/` clean, and —
ASSUMED, as fields — removed files are in `trash/`, named files are live or removed later);
under it a pass returns `Ok`,
makes at least 3 durable actions per entry, unlinks every processed fragment and exactly the names
of the plans, and the next pass is empty (`verifier_pass_progress`, `verifier_passes_converge`).
A pending intent left by a crash is finished by the first actions of the next pass that HAS an entry,
i.e. after the next manifest rollover (`verifier_crash_then_rollover_converges`); until then every pass
is empty and the files stay in `trash/` (`verifier_leftover_stays_until_rollover`: a leak, not a loss). -/
namespace Blue.Props.C08
open Blue.FileRefs

variable {F : Type} [DecidableEq F]

/-- the invariant (counter exact, held versions counted, positive count ⇒ in `sst/`) is preserved
    by every event: installing a version, taking a snapshot, dropping a reference -/
theorem refcount_invariant_preserved {s : St F} (h : Inv s) :
    (∀ files, Inv (step s (.install files))) ∧ (CurOk s → Inv (step s .snapshot)) ∧ (∀ i, Inv (step s (.release i))) :=
  ⟨fun files => inv_install h files, fun hc => inv_snapshot h hc, fun i => inv_release h i⟩

/-- **every file of every version that still has a holder — the current version included — is in
    `sst/`** -/
theorem live_files_stay {s : St F} (h : Inv s) (v : Ver F) (hv : v ∈ s.versions) (hh : v.holders ≥ 1)
    (f : F) (hf : f ∈ v.files) : f ∈ s.sst := held_files_present h v hv hh f hf

/-- the invariant is not vacuous and holds in EVERY state of EVERY run from a freshly opened store:
    `init files` satisfies it and every event sequence — version installs, snapshots taken and
    released by cursors (a release only of a reference a cursor holds: the ghost count `out`) —
    keeps it; so `live_files_stay` applies to every reachable state -/
theorem refcount_run (files : List F) (evs : List (Ev F)) :
    Inv (grun (init files, fun _ => 0) evs).1
    ∧ Ghost (grun (init files, fun _ => 0) evs).1 (grun (init files, fun _ => 0) evs).2 :=
  ghost_run (inv_init files) (ghost_init files) evs

/-- … hence: in every state of every run, every file of every version that still has a holder is
    in `sst/` -/
theorem live_files_stay_in_every_run (files : List F) (evs : List (Ev F)) (v : Ver F)
    (hv : v ∈ (grun (init files, fun _ => 0) evs).1.versions) (hh : v.holders ≥ 1) (f : F) (hf : f ∈ v.files) :
    f ∈ (grun (init files, fun _ => 0) evs).1.sst :=
  held_files_present (refcount_run files evs).1 v hv hh f hf

/-- crash half: at every crash point of every history, both persistence models, the reopen
    succeeds (every manifest-named SST present and whole) and yields exactly the batches
    `0 … k-1`, `acknowledged ≤ k ≤ appended`.  (This is C02's `crash_recover`; its compactions
    write outputs under FRESH names — `validCompact` excludes an output named like a file of the
    tree, the "same-setsum re-creation" of the property's quantifier; that case is the
    `Blue.FileLink` theorems below and the oracle, not this theorem.) -/
theorem crash_keeps_named_files (h : List Blue.StoreCrash.Client) (n : Nat) :
    Blue.StoreCrash.Ok (Blue.StoreCrash.recoverB (Blue.StoreCrash.run Blue.StoreCrash.fs0 ((Blue.StoreCrash.opsOf h Blue.StoreCrash.kv0).take n)))
        (Blue.StoreCrash.acked ((Blue.StoreCrash.opsOf h Blue.StoreCrash.kv0).take n))
        (Blue.StoreCrash.appended ((Blue.StoreCrash.opsOf h Blue.StoreCrash.kv0).take n))
    ∧ Blue.StoreCrash.Ok (Blue.StoreCrash.recoverA (Blue.StoreCrash.run Blue.StoreCrash.fs0 ((Blue.StoreCrash.opsOf h Blue.StoreCrash.kv0).take n)))
        (Blue.StoreCrash.acked ((Blue.StoreCrash.opsOf h Blue.StoreCrash.kv0).take n))
        (Blue.StoreCrash.appended ((Blue.StoreCrash.opsOf h Blue.StoreCrash.kv0).take n)) :=
  Blue.StoreCrash.crash_recover_init h n

/-- non-vacuity: a version is replaced while a snapshot of it is held; its file stays in `sst/`
    until the snapshot is released, then moves to `trash/` -/
example :
    let s0 : St Nat := { versions := [⟨[1, 2], 1, true⟩], refs := fun f => [1, 2].count f, sst := [1, 2], trash := [] }
    let s1 := step (step s0 .snapshot) (.install [2, 3])
    let s2 := step s1 (.release 0)
    s1.sst = [1, 2, 3] ∧ s1.trash = [] ∧ s2.sst = [2, 3] ∧ s2.trash = [1] := by decide

/-! ## linking a compaction's outputs while a reader holds a file of the same name

`Blue.FileLink`: per-file reference counts, `sst/` and `trash/` under the events of one
compaction (`link` an output, `ref` by the version being installed, `unref` by a holder).  The
code as it is links without taking a reference (finding `snapshot-released-between-output-link-
and-install`): a counterexample; the repaired link (/repo commit dcee38b) takes
one: referenced files stay in `sst/`. -/
section FileLink
open Blue.FileLink
variable {G : Type} [DecidableEq G]

/-- as repaired: "every referenced file is in `sst/`" is kept by the link, by a holder letting go,
    and by a version taking references to files that are referenced already (its outputs, by the
    link; the files it keeps) -/
theorem linked_output_invariant (s : Blue.FileLink.St G) (x : G) (h : Blue.FileLink.Inv s) :
    Blue.FileLink.Inv (Blue.FileLink.step true s (.link x)) ∧
    (∀ pin, Blue.FileLink.Inv (Blue.FileLink.step pin s (.unref x))) ∧
    (∀ pin, s.refs x > 0 → Blue.FileLink.Inv (Blue.FileLink.step pin s (.ref x))) :=
  ⟨inv_link_pin s x h, fun pin => inv_unref pin s x h, fun pin hx => inv_ref pin s x h hx⟩

/-- as repaired: whatever number `k` of the holders `x` had before the link let go before the new
    version is installed, `x` is still referenced and in `sst/` -/
theorem pinned_output_stays (s : Blue.FileLink.St G) (x : G) (h : Blue.FileLink.Inv s) (k : Nat) (hk : k ≤ s.refs x) :
    let s' := Blue.FileLink.run true (Blue.FileLink.step true s (.link x)) (List.replicate k (.unref x))
    Blue.FileLink.Inv s' ∧ s'.refs x = s.refs x + 1 - k ∧ x ∈ s'.sst :=
  Blue.FileLink.pinned_output_stays s x h k hk

/-- as repaired, ANY run after the link: other compactions link their outputs, versions take
    references to files that are referenced already, holders of any files let go — as long as `x`
    is released at most as often as it had holders before the link, every referenced file is in
    `sst/` and `x` is still referenced and in `sst/` -/
theorem pinned_output_stays_any_run (s : Blue.FileLink.St G) (x : G) (h : Blue.FileLink.Inv s) (evs : List (Blue.FileLink.Ev G))
    (hg : RefGuard true (Blue.FileLink.step true s (.link x)) evs) (hk : unrefs x evs ≤ s.refs x) :
    let s' := Blue.FileLink.run true (Blue.FileLink.step true s (.link x)) evs
    Blue.FileLink.Inv s' ∧ s'.refs x ≥ 1 ∧ x ∈ s'.sst :=
  Blue.FileLink.pinned_output_stays_any_run s x h evs hg hk

/-- **as the code is** (counterexample to "no needed file is ever removed"): `x` is in `sst/` with
    one reference that belongs to a reader's snapshot; a compaction links an output named `x`, the
    reader lets go, the new version takes its reference — `x` is referenced, listed by the manifest
    edit that follows, and in `trash/` -/
theorem unpinned_output_lost (s : Blue.FileLink.St G) (x : G) (hx : x ∈ s.sst) (hn : s.refs x = 1) :
    let s' := Blue.FileLink.step false (Blue.FileLink.step false (Blue.FileLink.step false s (.link x)) (.unref x)) (.ref x)
    s'.refs x = 1 ∧ x ∉ s'.sst ∧ x ∈ s'.trash ∧ ¬ Blue.FileLink.Inv s' :=
  Blue.FileLink.unpinned_output_lost s x hx hn

/-- non-vacuity, ONE state for both theorems: file 1 in `sst/` with one reference (a reader's),
    file 2 with one.  It satisfies `Inv` and the hypotheses of `unpinned_output_lost`; under the
    repaired link the run "link 1; the reader lets go of 1; a holder lets go of 2; the new version
    references 1" is guarded, releases 1 once, and leaves 1 referenced in `sst/` and 2 in `trash/` -/
def sEx : Blue.FileLink.St Nat := { refs := fun x => if x = 1 ∨ x = 2 then 1 else 0, sst := [1, 2], trash := [] }

example : (1 : Nat) ∈ sEx.sst ∧ sEx.refs 1 = 1 ∧ Blue.FileLink.Inv sEx :=
  ⟨List.mem_cons_self, rfl, fun x hx => by
    by_cases h1 : x = 1
    · subst h1; exact List.mem_cons_self
    · by_cases h2 : x = 2
      · subst h2; exact List.mem_cons_of_mem _ List.mem_cons_self
      · simp [sEx, h1, h2] at hx⟩

example :
    let evs : List (Blue.FileLink.Ev Nat) := [.unref 1, .unref 2, .ref 1]
    let s' := Blue.FileLink.run true (Blue.FileLink.step true sEx (.link 1)) evs
    RefGuard true (Blue.FileLink.step true sEx (.link 1)) evs ∧ unrefs 1 evs = 1
    ∧ s'.refs 1 = 2 ∧ s'.sst = [1] ∧ s'.trash = [2] := by
  refine ⟨⟨trivial, trivial, ?_, trivial⟩, ?_, ?_, ?_, ?_⟩ <;> decide

end FileLink

/-! ## the offline verifier -/
section Verifier
open Blue.Verifier Blue.Mani
variable {A : Type}

/-- **The verifier unlinks only logged trash.**  In every directory the verifier can be in — after
    any sequence of pass prefixes (a crash after any durable action, then a restart from what is on
    disk) and, BETWEEN them (not during a prefix: a verifier running concurrently with a store is
    not modelled), arbitrary changes outside `verify/` (`Reach.env`) — every unlink a pass
    makes in `trash/` is of a name that is, at that moment, logged in `verify/` under the number of
    a fragment whose plan names it and which passed the check (`verify_one`) against the
    accumulator of the moment its intent was logged.  (`es` is the edit list recorded with the
    intent in the ghost field `done`, `later` is existential: the statement ties the unlink to the
    LOG, not to what `mani/` holds at that moment.) -/
theorem verifier_unlinks_only_logged_trash (C : Checker A) (d : Dir A) (h : Reach C d) (i : Nat) (x : Name)
    (hx : (pass C d).1[i]? = some (Act.unlinkTrash x)) :
    ∃ n es a names later, (run d ((pass C d).1.take i)).vM = some n ∧ (n, es, a) ∈ (run d ((pass C d).1.take i)).done
      ∧ plan C.asWas later es = some names ∧ x ∈ names ∧ (C.check a es).isSome = true :=
  unlinks_justified C _ d (reach_justified C d h) (pass_legal C d) i x hx

/-- … and a name in a plan is the trash name of a file an edit of the fragment removes and does not
    add again itself (`7cb13e3`), or of the log an edit other than the first records in `L` -/
theorem plan_names_recorded_removals (asWas : Bool) (later : List Name) (es : List Edit) (names : List Name)
    (h : plan asWas later es = some names) (x : Name) (hx : x ∈ names) :
    (∃ e, e ∈ es ∧ ∃ r, r ∈ e.rm ∧ r ∉ e.add ∧ x = trashSst r) ∨
    (∃ e, e ∈ es.drop 1 ∧ ∃ v k, getInfo e 76 = some v ∧ parseU64 v = some k ∧ x = trashLog k) :=
  mem_plan asWas later es names h x hx

/-- **The verifier keeps the trash a later check needs** (as repaired, D-28;
    /repo fix 9994d2c).  Files are named after their contents: a
    compaction can write a removed file again, a later edit can remove it again, and `trash/` then
    holds one copy for both removals, which the checks of the fragments that add it back and remove
    it again read.  Whenever a pass logs an intent for fragment `n`, no name in it is the trash
    entry of a file that a fragment numbered above `n` or `MANIFEST` removes again (`laterRm`): the
    copy is left to the last removal.  MODEL FACT: the repaired `plan` filters its names by the very
    list `laterRm` this statement quantifies over, so this says "the filter's output contains
    nothing the filter removes"; that the later checks then succeed on the copy is shown on `exR`
    (`verifier_removed_recreated_removed`); the semantic statement for a last removal by `MANIFEST`
    is `verifier_keeps_manifest_removed` below. -/
theorem verifier_keeps_needed_trash (C : Checker A) (hC : C.asWas = false) (d : Dir A) (i n : Nat) (es : List Edit)
    (names : List Name) (o : A) (h : (pass C d).1[i]? = some (Act.intent n es names o)) (r : Name)
    (hr : r ∈ laterRm (run d ((pass C d).1.take i)) n) : trashSst r ∉ names :=
  pass_keeps_needed_trash C hC d i n es names o h r hr

/-- the SEMANTIC form, for the last removal being `MANIFEST`'s own: in a directory where no trash
    name of a file `MANIFEST` removes is logged in `verify/` (a fresh directory: nothing is), the
    trash copy of every file that `MANIFEST` removes — whatever fragments removed and re-created it
    before — is in `trash/` after every prefix of the pass (repaired plan, any checker).  From
    `Legal` alone: an entry is unlinked only while logged, logged only by an intent, and an intent
    names nothing `MANIFEST` removes. -/
theorem verifier_keeps_manifest_removed (C : Checker A) (hC : C.asWas = false) (d : Dir A)
    (hv : ∀ x, x ∈ d.vstrs → ¬ Protected d x) (k : Nat) (r : Name) (hr : r ∈ d.live.flatMap removedBy)
    (ht : trashSst r ∈ d.trash) : trashSst r ∈ (run d ((pass C d).1.take k)).trash :=
  pass_keeps_manifest_removed C hC d hv k r hr ht

/-- non-vacuity: `dM` — `x` removed by fragment 1, re-created by fragment 2, removed again by
    `MANIFEST`, one copy in `trash/`: the repaired pass does 7 actions and the copy stays; as the
    code was it is unlinked with fragment 1 and fragment 2's check fails -/
example (k : Nat) : trashSst [120] ∈ (run dM ((pass chainChecker dM).1.take k)).trash :=
  verifier_keeps_manifest_removed chainChecker rfl dM (fun x hx => by rw [dM_hyps.1] at hx; cases hx) k [120]
    dM_hyps.2.1 dM_hyps.2.2
example : (pass chainChecker dM).2 = .ok ∧ (pass chainChecker dM).1.length = 7
    ∧ (final chainChecker dM).trash = [[120, 46, 115, 115, 116]] ∧ (final chainChecker dM).frags.map (·.1) = [3]
    ∧ (pass chainCheckerAsWas dM).2 = .corrupt ∧ (final chainCheckerAsWas dM).trash = [] := dM_kept

/-- **The copies the two newest entries still need stay.**  `LsmVerifier::verify` never processes
    the newest numbered fragment and `MANIFEST`, but `last_removals` ranges over them: in a sorted
    directory in which none of these names is logged in `verify/` (a fresh one: nothing is), the
    trash copy of every file whose removal the newest numbered fragment or `MANIFEST` records
    (`newestTwoRm`) — whatever older fragments removed and re-created the file before — is in
    `trash/` after every prefix of the pass, whatever the checker.  For `MANIFEST` this is
    `verifier_keeps_manifest_removed`; for the newest numbered fragment it needs that a pass acts
    only on the numbers of its entries (`nums_of_pass`), so that the newest fragment is still in
    `mani/`, and its removals in `laterRm`, at every intent. -/
theorem verifier_keeps_newest_two_removed (C : Checker A) (hC : C.asWas = false) (d : Dir A) (hs : Sorted d)
    (hv : ∀ x, x ∈ d.vstrs → ∀ r, r ∈ newestTwoRm d → x ≠ trashSst r) (k : Nat) (r : Name)
    (hr : r ∈ newestTwoRm d) (ht : trashSst r ∈ d.trash) : trashSst r ∈ (run d ((pass C d).1.take k)).trash :=
  pass_keeps_newest_two_removed C hC d hs hv k r hr ht

/-- the pass with the RANGE of `last_removals` as a parameter (`passL`, `Blue.Model.VerifierRange`)
    is the pass at the range the code has: every fragment numbered above the one processed, the
    newest one included, and `MANIFEST` (`laterRm`); and the range narrowed to the processed entries
    (`laterRmNarrow`: `last_removals` called after the two pops) knows of no removal the full one
    does not -/
theorem verifier_range_is_all_entries (C : Checker A) (d : Dir A) :
    passL laterRm C d = pass C d ∧ ∀ n r, r ∈ laterRmNarrow d n → r ∈ laterRm d n :=
  ⟨passL_laterRm C d, fun n r h => laterRmNarrow_sub d n r h⟩

/-- **with the range narrowed to the processed entries** (counterexample; `last_removals` called
    after `entries.pop(); entries.pop()`): `x` removed by fragment 1, added again by fragment 2,
    removed again by the NEWEST numbered fragment (`dN`) or by `MANIFEST` (`dM`), one copy in
    `trash/`.  The pass gives the copy to fragment 1 and stops at fragment 2 with an error (`x` is
    in neither `trash/` nor `sst/`); every later pass, with either range, stops there too (the
    verifier is wedged, fragments 2 and 3 are never unlinked).  As the code is the pass goes
    through and leaves the copy (`dN_kept`, `dM_kept`). -/
theorem verifier_narrowed_range_loses_copy :
    ((passL laterRmNarrow chainChecker dN).2 = .corrupt ∧ (finalL laterRmNarrow chainChecker dN).trash = []
      ∧ (passL laterRmNarrow chainChecker (finalL laterRmNarrow chainChecker dN)).2 = .corrupt
      ∧ (pass chainChecker (finalL laterRmNarrow chainChecker dN)).2 = .corrupt
      ∧ (final chainChecker (finalL laterRmNarrow chainChecker dN)).frags.map (·.1) = [2, 3]) ∧
    ((passL laterRmNarrow chainChecker dM).2 = .corrupt ∧ (finalL laterRmNarrow chainChecker dM).trash = []
      ∧ (pass chainChecker (finalL laterRmNarrow chainChecker dM)).2 = .corrupt
      ∧ (final chainChecker (finalL laterRmNarrow chainChecker dM)).frags.map (·.1) = [2, 3]) :=
  narrowed_range_loses_copy

/-- non-vacuity: `dN` (last removal in the newest numbered fragment, NOT in `MANIFEST`) and `dM` (in
    `MANIFEST`) meet every hypothesis of `verifier_keeps_newest_two_removed`; on `dN` the pass as
    the code is verifies and unlinks fragments 1 and 2 and the copy is still there -/
example (k : Nat) : trashSst [120] ∈ (run dN ((pass chainChecker dN).1.take k)).trash :=
  verifier_keeps_newest_two_removed chainChecker rfl dN dN_hyps.1 (fun x hx => by rw [dN_hyps.2.1] at hx; cases hx) k [120]
    dN_hyps.2.2.1 dN_hyps.2.2.2.2
example (k : Nat) : trashSst [120] ∈ (run dM ((pass chainChecker dM).1.take k)).trash :=
  verifier_keeps_newest_two_removed chainChecker rfl dM dM_newest_hyps.1 (fun x hx => by rw [dM_hyps.1] at hx; cases hx) k [120]
    dM_newest_hyps.2 dM_hyps.2.2
example : [120] ∉ dN.live.flatMap removedBy ∧ (pass chainChecker dN).2 = .ok
    ∧ (final chainChecker dN).trash = [[120, 46, 115, 115, 116]] ∧ (final chainChecker dN).frags.map (·.1) = [3] :=
  ⟨dN_hyps.2.2.2.1, dN_kept⟩

/-- **as the code was** (counterexample, D-28): `x` removed by fragment 1, added again by fragment 2,
    removed again by fragment 3, one copy in `trash/`: the pass gives the copy to fragment 1, stops
    at fragment 2 with an error (`x` is neither in `trash/` nor in `sst/`), and so does every pass
    after it; as repaired the pass goes through and fragment 3 takes the copy -/
theorem verifier_removed_recreated_removed :
    ((pass chainCheckerAsWas exR).2 = .corrupt ∧ (final chainCheckerAsWas exR).trash = []
      ∧ (pass chainCheckerAsWas (final chainCheckerAsWas exR)).2 = .corrupt
      ∧ (final chainCheckerAsWas (final chainCheckerAsWas exR)).frags.map (·.1) = [2, 3, 4]) ∧
    ((pass chainChecker exR).2 = .ok ∧ (final chainChecker exR).trash = []
      ∧ (final chainChecker exR).frags.map (·.1) = [4]) :=
  ⟨⟨exR_as_was.1, exR_as_was.2.1, exR_as_was.2.2.2.1, exR_as_was.2.2.2.2⟩,
   ⟨exR_repaired.1, exR_repaired.2.1, exR_repaired.2.2.1⟩⟩

/-- … and an intent is logged only for a fragment that is in `mani/` other than the newest one and
    `MANIFEST`, with nothing else pending, after its check passed against the accumulator in
    `verify/`, and with every name of its plan present in `trash/`; a fragment is unlinked only
    under the number `M` holds; a trash entry only while its name is logged (`Legal`) -/
theorem verifier_acts_legal (C : Checker A) (d : Dir A) :
    LegalRun C d (pass C d).1 ∧
    ∀ n es names o, Act.intent n es names o ∈ (pass C d).1 → (n, es) ∈ d.frags.dropLast :=
  ⟨pass_legal C d, fun n es names o h => pass_intents_are_entries C d n es names o h⟩

/-- the names the manifest state lists: the replay of `MANIFEST` -/
def listedOf (live : List Edit) : List Name := (Blue.ManiCrash.replay maniAlgebra live).strs

/-- **The verifier never removes a listed file**: no prefix of any pass (hence no step, no crash
    state) changes `sst/` or `MANIFEST`; every file the manifest lists that was in `sst/` still is;
    nothing appears in `trash/` or `mani/`.  BY CONSTRUCTION OF THE ALPHABET: `Act` has no action on
    `sst/` or `MANIFEST` (the third conjunct holds for any predicate in place of `listedOf`); that
    the real verifier issues no such call is what the strace comparison checks. -/
theorem verifier_never_removes_listed (C : Checker A) (d : Dir A) (k : Nat) :
    (run d ((pass C d).1.take k)).sst = d.sst ∧ (run d ((pass C d).1.take k)).live = d.live ∧
    (∀ x, x ∈ listedOf (run d ((pass C d).1.take k)).live → x ∈ d.sst → x ∈ (run d ((pass C d).1.take k)).sst) ∧
    (run d ((pass C d).1.take k)).trash.Sublist d.trash ∧ (run d ((pass C d).1.take k)).frags.Sublist d.frags :=
  ⟨run_sst _ d, run_live _ d, fun x _ hx => by rw [run_sst]; exact hx, run_trash_sublist _ d, run_frags_sublist _ d⟩

/-- **Crash safety.**  A pass cut by a crash after any number `k` of its durable actions and then
    restarted ends where the uninterrupted pass ends, up to the execution of a still-pending intent
    (`finish`: what the next pass with an entry does before anything else) — same `sst/`, `MANIFEST`,
    fragments, `trash/`, `M`, `O`.  Hypotheses: the fragments are numbered in ascending order, and
    a `verify/` manifest without `M` logs nothing (both hold initially and are kept, `crash_keeps`). -/
theorem verifier_crash_safe (C : Checker A) (d : Dir A) (hs : Sorted d) (hn : NoneEmpty d) (k : Nat) :
    finish (final C (run d ((pass C d).1.take k))) = finish (final C d) :=
  crash_converges C d hs hn k

/-- … for any number of passes and crashes in a row; all the while `sst/` and `MANIFEST` are those of
    the start and the fragments left are a suffix of the fragments there were -/
theorem verifier_crash_safe_any_restarts (C : Checker A) (d0 d : Dir A) (hs : Sorted d0) (hn : NoneEmpty d0)
    (h : Restarts C d0 d) :
    finish (final C d) = finish (final C d0) ∧ Sorted d ∧ NoneEmpty d ∧ d.frags <:+ d0.frags
      ∧ d.sst = d0.sst ∧ d.live = d0.live :=
  restarts_converge C d0 d hs hn h

/-- … and the store reopens on it with the manifest state it had, the orphan clean-up of that reopen
    renaming nothing the state lists -/
theorem reopen_after_verifier (C : Checker A) (d0 d : Dir A) (hs : Sorted d0) (hn : NoneEmpty d0)
    (hchain : chainOk (fragLists d0) = true) (h : Restarts C d0 d) (sst trash : List Name) :
    chainOk (fragLists d) = true ∧ Blue.Orphans.listed (fragLists d) = Blue.Orphans.listed (fragLists d0) ∧
      ∀ x, x ∈ Blue.Orphans.moved sst trash (fragLists d) → x ∉ Blue.Orphans.listed (fragLists d) :=
  cleanup_after_restarts C d0 d hs hn hchain h sst trash

/-- non-vacuity: a directory whose pass logs an intent, unlinks the fragment and the file; cut after
    the unlink of the fragment, the restart has no entry left and ends with the name still logged
    and the file still in `trash/` — `finish` of it is where the whole pass ends -/
example : (pass chainChecker exD).1.length = 4 ∧ (final chainChecker exD).trash = [] ∧
    (final chainChecker (run exD ((pass chainChecker exD).1.take 2))).trash = [[120, 46, 115, 115, 116]] ∧
    (finish (final chainChecker (run exD ((pass chainChecker exD).1.take 2)))).trash = [] :=
  ⟨exD_pass.1, exD_whole.1, exD_cut.1, exD_cut.2.2⟩

example : Sorted exD ∧ NoneEmpty exD ∧ Reach chainChecker exD :=
  ⟨by unfold Sorted; decide, fun _ => rfl, Reach.fresh _ rfl rfl rfl⟩

/-- non-vacuity of `reopen_after_verifier` — all hypotheses at once (`exD` and `exR` are not
    chained): `dW` has three chained fragments + MANIFEST, two files in `trash/`; its pass has 9
    durable actions and empties `trash/`.  The theorem is applied to the restart after a cut at
    action 3 (first trash entry gone, its intent still logged) followed by a cut at action 2 of the
    next pass. -/
example : Sorted dW ∧ NoneEmpty dW ∧ chainOk (fragLists dW) = true ∧ Reach chainChecker dW := dW_hyps
example : (pass chainChecker dW).2 = .ok ∧ (pass chainChecker dW).1.length = 9
    ∧ (final chainChecker dW).trash = [] ∧ (final chainChecker dW).frags.map (·.1) = [3]
    ∧ (final chainChecker dW).sst = [[99]] := dW_pass
example (sst trash : List Name) :=
  reopen_after_verifier chainChecker dW _ dW_hyps.1 dW_hyps.2.1 dW_hyps.2.2.1
    (Restarts.crash _ 2 (Restarts.crash dW 3 Restarts.start)) sst trash
example : Blue.Orphans.listed (fragLists dW) = [[99]]
    ∧ Blue.Orphans.listed (fragLists (run dW ((pass chainChecker dW).1.take 3))) = [[99]] := by decide

/-- a reachable directory with a pending intent (non-vacuity of `Reach` beyond `fresh`), and: a
    checker that never passes makes every pass empty — the verifier theorems are SAFETY statements -/
example : Reach chainChecker dCut ∧ dCut.vM = some 1 := ⟨dCut_reach, dCut_state.2.1⟩
example : (pass neverChecker exD).1 = [] ∧ (pass neverChecker dW).1 = [] := never_does_nothing

end Verifier

/-! ## orphan clean-up on open -/
section Orphans
open Blue.Orphans Blue.Mani

/-- **`cleanup_orphans` keeps every listed file**: on a chained manifest directory (what
    `Manifest::verify` checks; it holds after one crash of a crash-free history and a completed
    reopen — `chain_holds` —, after any number of incarnations, crashes during a reopen included —
    `chain_holds_any_incarnations` —, and for what the verifier leaves of it,
    `reopen_after_verifier`), the set
    the scan collects (over `frags` = every entry of `mani/` AT THE TIME OF THE SCAN, the live
    `MANIFEST` last and with whatever was appended to it since the rollover: see
    `cleanup_orphans_keeps_listed_after_recovery`) holds no name the manifest state lists — whether the file was removed and
    added by one edit, removed by one edit and re-added by a later one, or re-added in a later
    fragment — so nothing listed is renamed to `trash/`. -/
theorem cleanup_orphans_keeps_listed (sst trash : List Name) (frags : List (List Edit)) (hc : chainOk frags = true) :
    (∀ x, x ∈ listed frags → x ∉ scan frags) ∧ (∀ x, x ∈ moved sst trash frags → x ∉ listed frags) :=
  ⟨scan_clear_of_listed frags hc, moved_not_listed sst trash frags hc⟩

/-- **the scan's input is the live `MANIFEST` AS IT IS AT THE TIME OF THE SCAN.**  `frags` above is
    what `list_mani_fragments` returns when `cleanup_orphans` runs, `MANIFEST` last; at
    `KeyValueStore::open` that is `scanInput numbered rollup recovery`: the numbered fragments, then
    the roll-up the open wrote FOLLOWED BY the edits log recovery (`recover_one`) appended before the
    clean-up ran.  On a chained directory nothing the manifest state lists after those edits is
    renamed — in particular not a file an older fragment removed and recovery lists again. -/
theorem cleanup_orphans_keeps_listed_after_recovery (sst trash : List Name) (numbered : List (List Edit)) (rollup : Edit)
    (recovery : List Edit) (hc : chainOk (scanInput numbered rollup recovery) = true) :
    listed (scanInput numbered rollup recovery) = (Blue.ManiCrash.replay maniAlgebra (rollup :: recovery)).strs ∧
    ∀ x, x ∈ moved sst trash (scanInput numbered rollup recovery) →
      x ∉ (Blue.ManiCrash.replay maniAlgebra (rollup :: recovery)).strs :=
  ⟨listed_scanInput numbered rollup recovery, cleanup_keeps_listed_after_recovery sst trash numbered rollup recovery hc⟩

/-- without recovery edits (`LsmTree::open`: `MANIFEST` holds the roll-up and nothing else) a scan
    that leaves `MANIFEST` out collects the same set — why leaving it out looks harmless -/
theorem cleanup_skipping_live_same_without_recovery (numbered : List (List Edit)) (rollup : Edit) :
    scanSkipLive (scanInput numbered rollup []) = scan (scanInput numbered rollup []) :=
  skip_live_same_without_recovery numbered rollup

/-- **a scan that leaves the live `MANIFEST` out renames a listed file** (counterexample; the crash
    image of the directed case `relisted_case` of the harness): the flush thread had ingested `X2`
    (log not yet in `trash/`), the compaction thread had written `-X1 -X2 +Y` (version not yet
    installed); the open rolls over, log recovery lists `X2` again in `MANIFEST`.  `exL` is chained,
    the state lists `X2` and `Y`; the scan as the code has it collects `X1` alone, the scan without
    `MANIFEST` collects `X1` and `X2`, and the clean-up renames `X2` although it is listed. -/
theorem cleanup_skipping_live_moves_relisted :
    chainOk exL = true ∧ listed exL = [[98], [121]] ∧ scan exL = [[97]] ∧ scanSkipLive exL = [[97], [98]]
    ∧ moved [[97], [98], [121]] [] exL = [[97]]
    ∧ ([98] ∈ movedSkipLive [[97], [98], [121]] [] exL ∧ [98] ∈ listed exL) :=
  skip_live_moves_relisted

/-- non-vacuity of `cleanup_orphans_keeps_listed_after_recovery`: `exL` is a `scanInput` with one
    recovery edit and is chained -/
example := cleanup_orphans_keeps_listed_after_recovery [[97], [98], [121]] [] exLnumbered exLrollup exLrecovery
  cleanup_skipping_live_moves_relisted.1

/-- the two facts the theorems above lean on, AS THE SOURCE STATES THEM (regenerated by
    `translate/extract.py` on every run): `LsmVerifier::verify` has popped no entry when it calls
    `last_removals(&entries)`, and `cleanup_orphans` drops no entry of `list_mani_fragments` before
    its loop -/
theorem source_ranges_tied :
    Blue.Generated.lsmtkVerifierPopsBeforeLastRemovals = Blue.Verifier.popsBeforeLastRemovals
    ∧ Blue.Generated.lsmtkCleanupOrphansEntriesDropped = Blue.Orphans.entriesDropped :=
  ⟨Blue.ConstsTie.c08_last_removals_before_pops.symm, Blue.ConstsTie.c08_cleanup_scans_every_entry.symm⟩

/-- the hypothesis holds: after ONE crash at any system call of any crash-free history of manifest
    edits and rollovers from the empty directory, under either persistence model, followed by a
    COMPLETED reopen (its rollover), the fragments are chained (C13 `chain_after_crash_and_reopen`) -/
theorem chain_holds (h : List (Blue.ManiCrash.Client Edit)) (n : Nat) :
    let fs := Blue.ManiCrash.run emptyFs ((Blue.ManiCrash.opsOf maniAlgebra h []).take n)
    chainOk (fragments (Blue.ManiCrash.run (Blue.ManiCrash.crashA fs) (Blue.ManiCrash.reopenOps maniAlgebra (Blue.ManiCrash.crashA fs)))) = true
    ∧ chainOk (fragments (Blue.ManiCrash.run (Blue.ManiCrash.crashB fs) (Blue.ManiCrash.reopenOps maniAlgebra (Blue.ManiCrash.crashB fs)))) = true :=
  chain_after_crash_and_reopen h n

/-- … and after ANY number of incarnations (C13 `chain_incarnations`): start from a directory of the
    class a crash leaves (`Cls`; the crash image of a first history is one, `cls_first`), let any
    sequence of incarnations follow — each: open with the repaired rollover, any history, a crash
    at any system call, of the rollover too, under either model —; after the next completed reopen,
    and through the crash-free history after it, the fragments are chained -/
theorem chain_holds_any_incarnations (g0 : Blue.ManiCrash.Fs Edit) (h0 : Cls g0) (is : List (Blue.ManiCrash.Inc Edit))
    (h : List (Blue.ManiCrash.Client Edit)) :
    let g := Blue.ManiCrash.runIncs maniAlgebra g0 is
    chainOk (fragments (Blue.ManiCrash.run g (Blue.ManiCrash.reopenOps maniAlgebra g))) = true
    ∧ chainOk (fragments (Blue.ManiCrash.run g
        (Blue.ManiCrash.reopenOps maniAlgebra g ++ Blue.ManiCrash.opsOf maniAlgebra h g.mani.durable))) = true :=
  ⟨chain_after_incarnations g0 h0 is, chain_after_incarnations_and_history g0 h0 is h⟩

theorem first_crash_image_in_class (h : List (Blue.ManiCrash.Client Edit)) (n : Nat) (b : Bool) :
    Cls (Blue.ManiCrash.crash b (Blue.ManiCrash.run emptyFs ((Blue.ManiCrash.opsOf maniAlgebra h []).take n))) :=
  cls_first h n b

/-- non-vacuity, and what the removal of the added names is for: `x` is removed by an edit of the
    first fragment and added again by an edit of the second; the scan lets it be, a scan that only
    collected removals would rename a listed file -/
example : chainOk exA = true ∧ listed exA = [[120], [122]] ∧ scan exA = [[121]] ∧
    ([120] ∈ scanNoReadd exA ∧ [120] ∈ listed exA) :=
  ⟨exA_chain, exA_listed, exA_scan, exA_no_readd_scan_hits_listed⟩

end Orphans

-- BEGIN LogRetire
/-! ## log retirement -/

/-- what "log `n` may be retired in `fs`" means: each log file numbered `n` is empty, or the SST named
    by its batches is listed by the DURABLE manifest and is in `sst/`, whole and synced -/
theorem retirable_means (fs : Blue.StoreCrash.Fs) (n : Nat) :
    Blue.StoreCrash.Retirable fs n ↔
      ∀ l ∈ fs.logs, l.1 = n → l.2.data = [] ∨
        (l.2.data ∈ Blue.StoreCrash.live fs.maniDurable
          ∧ Blue.StoreCrash.find fs.sst l.2.data = some ⟨l.2.data, l.2.data⟩) := Iff.rfl

/-- **a log is moved to the trash only after the manifest edit listing its SST is durable**: in the
    op list of EVERY history of the model's alphabet (puts, flushes, compactions, recoveries; from
    any block-boundary state, so from the empty store: `inv0`), at every `rename log.N → trash/` —
    every way of writing the list as `pre ++ logTrash n :: post` — the program-order prefix `pre`
    has left the file system in a state where log `n` is retirable -/
theorem log_trashed_only_after_manifest_sync (h : List Blue.StoreCrash.Client) (fs : Blue.StoreCrash.Fs)
    (kv : Blue.StoreCrash.Kv) (hi : Blue.StoreCrash.Inv fs kv) (pre post : List Blue.StoreCrash.Op) (n : Nat)
    (hsplit : Blue.StoreCrash.opsOf h kv = pre ++ .logTrash n :: post) :
    Blue.StoreCrash.Retirable (Blue.StoreCrash.run fs pre) n :=
  Blue.StoreCrash.log_trashed_only_after_manifest_sync h fs kv hi pre post n hsplit

/-- **program order, from the empty store**: every `rename log.N → trash/` of a non-empty log is
    preceded in the op list by a `maniAppend tx` whose transaction adds the SST named by that log's
    batches and, between that append and the rename, by a `maniSync` -/
theorem log_trashed_after_append_then_sync (h : List Blue.StoreCrash.Client) (pre post : List Blue.StoreCrash.Op) (n : Nat)
    (hsplit : Blue.StoreCrash.opsOf h Blue.StoreCrash.kv0 = pre ++ .logTrash n :: post) :
    ∀ l ∈ (Blue.StoreCrash.run Blue.StoreCrash.fs0 pre).logs, l.1 = n → l.2.data ≠ [] →
      ∃ tx a b c, l.2.data ∈ tx.adds
        ∧ pre = a ++ Blue.StoreCrash.Op.maniAppend tx :: (b ++ Blue.StoreCrash.Op.maniSync :: c) :=
  Blue.StoreCrash.log_trashed_after_append_then_sync h pre post n hsplit

/-- … block by block: every `logTrash` of a put / flush / compaction / recovery block is guarded -/
theorem retire_ok_every_block {fs : Blue.StoreCrash.Fs} {kv : Blue.StoreCrash.Kv} (hi : Blue.StoreCrash.Inv fs kv)
    (c : Blue.StoreCrash.Client) :
    Blue.StoreCrash.RetireOk fs (Blue.StoreCrash.block kv c)
    ∧ Blue.StoreCrash.Inv (Blue.StoreCrash.run fs (Blue.StoreCrash.block kv c)) (Blue.StoreCrash.after kv c) :=
  ⟨Blue.StoreCrash.retireOk_block hi c, Blue.StoreFault.inv_block hi c⟩

/-- **no needed file is in the trash or gone**: at every crash point of every history, under both
    persistence models ((b): synced bytes, synced manifest; (a): written bytes, whole manifest),
    every SST the manifest lists is in `sst/` and whole, and every acknowledged batch is in a
    listed SST or in a log of the directory (`needed_present_means`) -/
theorem crash_keeps_needed_files (h : List Blue.StoreCrash.Client) (n : Nat) :
    let g := Blue.StoreCrash.run Blue.StoreCrash.fs0 ((Blue.StoreCrash.opsOf h Blue.StoreCrash.kv0).take n)
    Blue.StoreCrash.NeededPresent (·.durable) g.maniDurable g
      (Blue.StoreCrash.acked ((Blue.StoreCrash.opsOf h Blue.StoreCrash.kv0).take n))
    ∧ Blue.StoreCrash.NeededPresent (·.data) (g.maniDurable ++ g.maniPending) g
      (Blue.StoreCrash.acked ((Blue.StoreCrash.opsOf h Blue.StoreCrash.kv0).take n)) :=
  Blue.StoreCrash.crash_keeps_needed_files h n

theorem needed_present_means (view : Blue.StoreCrash.File → List Nat) (txs : List Blue.StoreCrash.Tx)
    (fs : Blue.StoreCrash.Fs) (ackd : Nat) :
    Blue.StoreCrash.NeededPresent view txs fs ackd ↔
      (∀ nm ∈ Blue.StoreCrash.live txs, (Blue.StoreCrash.find fs.sst nm).map view = some nm)
      ∧ ∀ b, b < ackd → (∃ nm ∈ Blue.StoreCrash.live txs, b ∈ nm) ∨ (∃ lg ∈ fs.logs, b ∈ view lg.2) := Iff.rfl

/-- **crash before the retirement**: an acknowledged batch that no SST listed by the (durable)
    manifest holds is in a log that is still in the directory -/
theorem crash_before_retire_keeps_log (h : List Blue.StoreCrash.Client) (n b : Nat)
    (hb : b < Blue.StoreCrash.acked ((Blue.StoreCrash.opsOf h Blue.StoreCrash.kv0).take n)) :
    let g := Blue.StoreCrash.run Blue.StoreCrash.fs0 ((Blue.StoreCrash.opsOf h Blue.StoreCrash.kv0).take n)
    ((∀ nm ∈ Blue.StoreCrash.live g.maniDurable, b ∉ nm) → ∃ lg ∈ g.logs, b ∈ lg.2.durable)
    ∧ ((∀ nm ∈ Blue.StoreCrash.live (g.maniDurable ++ g.maniPending), b ∉ nm) → ∃ lg ∈ g.logs, b ∈ lg.2.data) :=
  Blue.StoreCrash.crash_before_retire_keeps_log h n b hb

/-- **crash after the retirement**: an acknowledged batch that is in no log of the directory is in an
    SST that the (durable) manifest lists and that is in `sst/`, whole -/
theorem crash_after_retire_has_sst (h : List Blue.StoreCrash.Client) (n b : Nat)
    (hb : b < Blue.StoreCrash.acked ((Blue.StoreCrash.opsOf h Blue.StoreCrash.kv0).take n)) :
    let g := Blue.StoreCrash.run Blue.StoreCrash.fs0 ((Blue.StoreCrash.opsOf h Blue.StoreCrash.kv0).take n)
    ((∀ lg ∈ g.logs, b ∉ lg.2.durable) →
      ∃ nm ∈ Blue.StoreCrash.live g.maniDurable, b ∈ nm
        ∧ (Blue.StoreCrash.find g.sst nm).map (·.durable) = some nm)
    ∧ ((∀ lg ∈ g.logs, b ∉ lg.2.data) →
      ∃ nm ∈ Blue.StoreCrash.live (g.maniDurable ++ g.maniPending), b ∈ nm
        ∧ (Blue.StoreCrash.find g.sst nm).map (·.data) = some nm) :=
  Blue.StoreCrash.crash_after_retire_has_sst h n b hb

/-- **the swapped order** (seeded change `log-trashed-before-ingest`: the rename of the log above the
    manifest edit): the log is trashed in a state in which it is not retirable, and a crash right
    after the rename — or after the manifest append, before its sync — reopens without the
    acknowledged batch 0; the real order keeps it at the same cuts -/
theorem swapped_order_loses_batch :
    let ops := Blue.StoreCrash.opsOf [.put] Blue.StoreCrash.kv0 ++ Blue.StoreCrash.flushSwapped [0] 0
    Blue.StoreCrash.acked (ops.take 8) = 1
    ∧ ¬ Blue.StoreCrash.Retirable (Blue.StoreCrash.run Blue.StoreCrash.fs0 (ops.take 7)) 0
    ∧ Blue.StoreCrash.recoverB (Blue.StoreCrash.run Blue.StoreCrash.fs0 (ops.take 8)) = some []
    ∧ Blue.StoreCrash.recoverA (Blue.StoreCrash.run Blue.StoreCrash.fs0 (ops.take 8)) = some []
    ∧ Blue.StoreCrash.recoverB (Blue.StoreCrash.run Blue.StoreCrash.fs0 (ops.take 9)) = some []
    ∧ Blue.StoreCrash.recoverB (Blue.StoreCrash.run Blue.StoreCrash.fs0 ops) = some [0]
    ∧ Blue.StoreCrash.recoverB (Blue.StoreCrash.run Blue.StoreCrash.fs0
        ((Blue.StoreCrash.opsOf [.put, .flush] Blue.StoreCrash.kv0).take 8)) = some [0]
    ∧ Blue.StoreCrash.recoverB (Blue.StoreCrash.run Blue.StoreCrash.fs0
        ((Blue.StoreCrash.opsOf [.put, .flush] Blue.StoreCrash.kv0).take 9)) = some [0] :=
  Blue.StoreCrash.swapped_order_loses_batch

/-- non-vacuity: the empty store is a block-boundary state; the history put, flush, put, recovery has
    two `logTrash` (positions 10 and 20), and the state before each lists the log's SST durably -/
example : Blue.StoreCrash.Inv Blue.StoreCrash.fs0 Blue.StoreCrash.kv0 := Blue.StoreCrash.inv0
example :
    let ops := Blue.StoreCrash.opsOf [.put, .flush, .put, .reopen] Blue.StoreCrash.kv0
    ops[10]? = some (.logTrash 0) ∧ ops[20]? = some (.logTrash 1)
    ∧ Blue.StoreCrash.live (Blue.StoreCrash.run Blue.StoreCrash.fs0 (ops.take 10)).maniDurable = [[0]]
    ∧ Blue.StoreCrash.live (Blue.StoreCrash.run Blue.StoreCrash.fs0 (ops.take 20)).maniDurable = [[0], [1]]
    ∧ (Blue.StoreCrash.run Blue.StoreCrash.fs0 (ops.take 20)).logs = [(1, ⟨[1], [1]⟩)]
    ∧ Blue.StoreCrash.Retirable (Blue.StoreCrash.run Blue.StoreCrash.fs0 (ops.take 20)) 1
    ∧ ¬ Blue.StoreCrash.Retirable (Blue.StoreCrash.run Blue.StoreCrash.fs0 (ops.take 18)) 1 := by decide
/-- … and of the crash theorems: cut after the second put's acknowledgement (2 acknowledged): batch 0
    is in the listed SST `[0]`, its log is gone; batch 1 is in no listed SST and in log 1 -/
example :
    let ops := Blue.StoreCrash.opsOf [.put, .flush, .put, .reopen] Blue.StoreCrash.kv0
    let g := Blue.StoreCrash.run Blue.StoreCrash.fs0 (ops.take 14)
    Blue.StoreCrash.acked (ops.take 14) = 2 ∧ Blue.StoreCrash.live g.maniDurable = [[0]]
    ∧ g.logs = [(1, ⟨[1], [1]⟩)] := by decide
-- END LogRetire

-- BEGIN SstRetire
/-! ## SST retirement (compaction inputs) -/

/-- what "SST `x` may be moved to the trash in `fs`" means: neither the DURABLE manifest (model (b))
    nor the durable + pending one (model (a)) lists `x`, and under each every batch of `x` is in a
    listed SST that is in `sst/`, whole and synced -/
theorem sst_retirable_means (fs : Blue.StoreCrash.Fs) (x : Blue.StoreCrash.Name) :
    Blue.StoreCrash.SstRetirable fs x ↔
      (x ∉ Blue.StoreCrash.live fs.maniDurable
        ∧ ∀ b ∈ x, ∃ nm ∈ Blue.StoreCrash.live fs.maniDurable, b ∈ nm
            ∧ Blue.StoreCrash.find fs.sst nm = some ⟨nm, nm⟩)
      ∧ (x ∉ Blue.StoreCrash.live (fs.maniDurable ++ fs.maniPending)
        ∧ ∀ b ∈ x, ∃ nm ∈ Blue.StoreCrash.live (fs.maniDurable ++ fs.maniPending), b ∈ nm
            ∧ Blue.StoreCrash.find fs.sst nm = some ⟨nm, nm⟩) := Iff.rfl

/-- **an SST is moved to the trash only after the manifest edit that drops it — and lists the
    outputs holding its batches — is durable**: in the op list of EVERY history of the model's
    alphabet (puts, flushes, recoveries, compactions of any selection of files into any fresh-named
    outputs holding the same batches; from any block-boundary state, so from the empty store:
    `inv0`), at every `rename sst/x → trash/` — every way of writing the list as
    `pre ++ sstTrash x :: post` — the program-order prefix `pre` has left the file system in a state
    where `x` is retirable -/
theorem sst_trashed_only_after_manifest_sync (h : List Blue.StoreCrash.Client) (fs : Blue.StoreCrash.Fs)
    (kv : Blue.StoreCrash.Kv) (hi : Blue.StoreCrash.Inv fs kv) (pre post : List Blue.StoreCrash.Op)
    (x : Blue.StoreCrash.Name) (hsplit : Blue.StoreCrash.opsOf h kv = pre ++ .sstTrash x :: post) :
    Blue.StoreCrash.SstRetirable (Blue.StoreCrash.run fs pre) x :=
  Blue.StoreCrash.sst_trashed_only_after_manifest_sync h fs kv hi pre post x hsplit

/-- **program order** (every history, from every client state): every `rename sst/x → trash/` is
    preceded in the op list by a `maniAppend tx` whose transaction removes `x` and whose additions
    hold every batch of `x`, and, between that append and the rename, by a `maniSync` -/
theorem sst_trashed_after_append_then_sync (h : List Blue.StoreCrash.Client) (kv : Blue.StoreCrash.Kv)
    (pre post : List Blue.StoreCrash.Op) (x : Blue.StoreCrash.Name)
    (hsplit : Blue.StoreCrash.opsOf h kv = pre ++ .sstTrash x :: post) :
    ∃ tx a b c, x ∈ tx.rms ∧ (∀ n ∈ x, ∃ o ∈ tx.adds, n ∈ o)
      ∧ pre = a ++ Blue.StoreCrash.Op.maniAppend tx :: (b ++ Blue.StoreCrash.Op.maniSync :: c) :=
  Blue.StoreCrash.sst_trashed_after_append_then_sync h kv pre post x hsplit

/-- … block by block: every `sstTrash` of a put / flush / compaction / recovery block is guarded -/
theorem sst_retire_ok_every_block {fs : Blue.StoreCrash.Fs} {kv : Blue.StoreCrash.Kv} (hi : Blue.StoreCrash.Inv fs kv)
    (c : Blue.StoreCrash.Client) :
    Blue.StoreCrash.SstRetireOk fs (Blue.StoreCrash.block kv c) := Blue.StoreCrash.sstRetireOk_block hi c

/-- **no listed SST is in the trash or gone**: at every crash point of every history, under both
    persistence models, every SST the manifest lists — the durable manifest under (b), the durable +
    pending one under (a) — is in `sst/` and whole (its synced bytes under (b)) -/
theorem crash_keeps_listed_ssts (h : List Blue.StoreCrash.Client) (n : Nat) :
    let g := Blue.StoreCrash.run Blue.StoreCrash.fs0 ((Blue.StoreCrash.opsOf h Blue.StoreCrash.kv0).take n)
    (∀ nm ∈ Blue.StoreCrash.live g.maniDurable, (Blue.StoreCrash.find g.sst nm).map (·.durable) = some nm)
    ∧ (∀ nm ∈ Blue.StoreCrash.live (g.maniDurable ++ g.maniPending),
        (Blue.StoreCrash.find g.sst nm).map (·.data) = some nm) :=
  Blue.StoreCrash.crash_keeps_listed_ssts h n

/-- … and right after the rename of `x` the durable manifest does not list `x` and every batch of
    `x` is in a listed SST that is in `sst/`, whole and synced -/
theorem trashed_sst_batches_listed (h : List Blue.StoreCrash.Client) (pre post : List Blue.StoreCrash.Op)
    (x : Blue.StoreCrash.Name)
    (hsplit : Blue.StoreCrash.opsOf h Blue.StoreCrash.kv0 = pre ++ .sstTrash x :: post) :
    let g := Blue.StoreCrash.run Blue.StoreCrash.fs0 (pre ++ [.sstTrash x])
    x ∉ Blue.StoreCrash.live g.maniDurable
    ∧ ∀ b ∈ x, ∃ nm ∈ Blue.StoreCrash.live g.maniDurable, b ∈ nm
        ∧ Blue.StoreCrash.find g.sst nm = some ⟨nm, nm⟩ :=
  Blue.StoreCrash.trashed_sst_batches_listed h pre post x hsplit

/-- **the swapped order** (inputs renamed after the manifest append, before its sync): the first
    input is renamed in a state in which it is not retirable, and a crash after that rename (or after
    both, before the sync) leaves a durable manifest that names a file in the trash — the reopen
    fails under model (b); the real order reopens with both batches at the same cuts and its two
    renames are guarded -/
theorem swapped_order_loses_sst :
    let pre := Blue.StoreCrash.opsOf [.put, .flush, .put, .flush] Blue.StoreCrash.kv0
    let ops := pre ++ Blue.StoreCrash.compactSwapped [[1, 0]] [[0], [1]]
    let real := Blue.StoreCrash.opsOf [.put, .flush, .put, .flush, .compact (fun _ => true) [[1, 0]]] Blue.StoreCrash.kv0
    ops[27]? = some (.sstTrash [0]) ∧ ops[28]? = some (.sstTrash [1]) ∧ ops[29]? = some .maniSync
    ∧ Blue.StoreCrash.acked (ops.take 27) = 2
    ∧ ¬ Blue.StoreCrash.SstRetirable (Blue.StoreCrash.run Blue.StoreCrash.fs0 (ops.take 27)) [0]
    ∧ [0] ∈ Blue.StoreCrash.live (Blue.StoreCrash.run Blue.StoreCrash.fs0 (ops.take 28)).maniDurable
    ∧ Blue.StoreCrash.find (Blue.StoreCrash.run Blue.StoreCrash.fs0 (ops.take 28)).sst [0] = none
    ∧ Blue.StoreCrash.recoverB (Blue.StoreCrash.run Blue.StoreCrash.fs0 (ops.take 28)) = none
    ∧ Blue.StoreCrash.recoverB (Blue.StoreCrash.run Blue.StoreCrash.fs0 (ops.take 29)) = none
    ∧ Blue.StoreCrash.recoverB (Blue.StoreCrash.run Blue.StoreCrash.fs0 ops) = some [1, 0]
    ∧ real[28]? = some (.sstTrash [0]) ∧ real[29]? = some (.sstTrash [1])
    ∧ Blue.StoreCrash.SstRetirable (Blue.StoreCrash.run Blue.StoreCrash.fs0 (real.take 28)) [0]
    ∧ Blue.StoreCrash.SstRetirable (Blue.StoreCrash.run Blue.StoreCrash.fs0 (real.take 29)) [1]
    ∧ Blue.StoreCrash.recoverB (Blue.StoreCrash.run Blue.StoreCrash.fs0 (real.take 28)) = some [1, 0]
    ∧ Blue.StoreCrash.recoverB (Blue.StoreCrash.run Blue.StoreCrash.fs0 (real.take 29)) = some [1, 0]
    ∧ Blue.StoreCrash.recoverB (Blue.StoreCrash.run Blue.StoreCrash.fs0 (real.take 27)) = some [0, 1] :=
  Blue.StoreCrash.swapped_order_loses_sst

/-- non-vacuity: the history put, flush, put, flush, compaction of both files into `[1, 0]` has 30
    operations; the two renames are at positions 28 and 29, after `maniAppend` (26) and `maniSync`
    (27); before the sync the first input is not retirable, after it it is; at the crash point 28
    the durable manifest lists `[1, 0]` alone, which is in `sst/` whole, and `[0]` is still in `sst/` -/
example :
    let ops := Blue.StoreCrash.opsOf [.put, .flush, .put, .flush, .compact (fun _ => true) [[1, 0]]] Blue.StoreCrash.kv0
    ops.length = 30
    ∧ ops[26]? = some (.maniAppend ⟨[[1, 0]], [[0], [1]]⟩) ∧ ops[27]? = some .maniSync
    ∧ ops[28]? = some (.sstTrash [0]) ∧ ops[29]? = some (.sstTrash [1])
    ∧ ¬ Blue.StoreCrash.SstRetirable (Blue.StoreCrash.run Blue.StoreCrash.fs0 (ops.take 27)) [0]
    ∧ Blue.StoreCrash.SstRetirable (Blue.StoreCrash.run Blue.StoreCrash.fs0 (ops.take 28)) [0]
    ∧ Blue.StoreCrash.live (Blue.StoreCrash.run Blue.StoreCrash.fs0 (ops.take 28)).maniDurable = [[1, 0]]
    ∧ Blue.StoreCrash.find (Blue.StoreCrash.run Blue.StoreCrash.fs0 (ops.take 28)).sst [1, 0] = some ⟨[1, 0], [1, 0]⟩
    ∧ Blue.StoreCrash.find (Blue.StoreCrash.run Blue.StoreCrash.fs0 (ops.take 28)).sst [0] = some ⟨[0], [0]⟩
    ∧ Blue.StoreCrash.find (Blue.StoreCrash.run Blue.StoreCrash.fs0 (ops.take 29)).sst [0] = none := by decide
/-- … and the theorems applied to it (the split at position 28) -/
example :=
  sst_trashed_only_after_manifest_sync [.put, .flush, .put, .flush, .compact (fun _ => true) [[1, 0]]]
    Blue.StoreCrash.fs0 Blue.StoreCrash.kv0 Blue.StoreCrash.inv0
    ((Blue.StoreCrash.opsOf [.put, .flush, .put, .flush, .compact (fun _ => true) [[1, 0]]] Blue.StoreCrash.kv0).take 28)
    [.sstTrash [1]] [0] (by decide)
-- END SstRetire

-- BEGIN VerifierProgress
/-! ## progress of the offline verifier -/
section VerifierProgress
open Blue.Verifier Blue.Mani
variable {A : Type}

/-- what "the entry `(n, es)` is processable in `g`, leaving `g'`" means: `n` is not below `M`; the
    files the edits read are in `trash/` or `sst/` and the checker passes the fragment against the
    accumulator `O` (`checkAll`); the `L` fields parse (`plan`); every name of the plan is in
    `trash/`; `g'` is `g` with the intent logged and executed -/
theorem processable_means (C : Checker A) (g : Dir A) (n : Nat) (es : List Edit) (g' : Dir A) :
    absStep C g n es = some g' ↔
      outOfOrder g n = false ∧ ∃ o names, checkAll C g es = some o ∧ plan C.asWas (laterRm g n) es = some names
        ∧ (∀ x, x ∈ names → x ∈ g.trash) ∧ g' = finish (g.apply (Act.intent n es names o)) :=
  Blue.Verifier.processable_means C g n es g'

/-- **a pass makes progress** — for EVERY number of entries and every fragment contents: over a
    sorted directory with nothing pending (`Clean`: nothing logged, `M` below every fragment) whose
    entries are all processable (`Processable`: each in the directory the ones before it leave — the
    checker passing each fragment is part of this HYPOTHESIS), `LsmVerifier::verify` returns `Ok`,
    performs at least 3 durable actions per entry, among them the unlink of the entry's fragment,
    and ends with: only the newest fragment left, nothing pending, `M` at the last processed number,
    `trash/` holding exactly what it held minus the names of the plans, `sst/` and `MANIFEST` as they
    were -/
theorem verifier_pass_progress (C : Checker A) (d : Dir A) (hs : Sorted d) (hcl : Clean d) (hnil : d.frags ≠ [])
    (hp : Processable C d (entries d)) :
    (pass C d).2 = .ok
    ∧ 3 * (entries d).length ≤ (pass C d).1.length
    ∧ (∀ f, f ∈ entries d → Act.unlinkFrag f.1 ∈ (pass C d).1)
    ∧ (final C d).frags = [d.frags.getLast hnil]
    ∧ Clean (final C d)
    ∧ (final C d).vM = (match (entries d).getLast? with | some f => some f.1 | none => d.vM)
    ∧ (∀ x, x ∈ (final C d).trash ↔ x ∈ d.trash ∧ x ∉ plans C d (entries d))
    ∧ (final C d).sst = d.sst ∧ (final C d).live = d.live :=
  pass_progress C d hs hcl hnil hp

/-- … where every name of `plans` is a name of the plan of one of the entries, computed against the
    removals of the fragments numbered above it and of `MANIFEST` IN THE DIRECTORY THE PASS STARTED
    FROM (so `plan_names_recorded_removals` says what it is, and — repaired plan — it is no file a
    later fragment or `MANIFEST` removes again) -/
theorem verifier_progress_unlinks_plans (C : Checker A) (d : Dir A) (hs : Sorted d) (hn : NoneEmpty d)
    (hnil : d.frags ≠ []) (x : Name) (hx : x ∈ plans C d (entries d)) :
    ∃ f, f ∈ entries d ∧ ∃ names, plan C.asWas (laterRm d f.1) f.2 = some names ∧ x ∈ names :=
  plans_mem C (entries d) d _ (ctx_entries d hs hn hnil) x hx

/-- **repeated passes reach a fixed point, and one pass suffices**: after such a pass no entry is
    left and the next pass is empty; with a crash after any number `k` of the pass's actions, the
    restarted pass ends — once a still-pending intent is executed — in the same directory -/
theorem verifier_passes_converge (C : Checker A) (d : Dir A) (hs : Sorted d) (hcl : Clean d) (hnil : d.frags ≠ [])
    (hp : Processable C d (entries d)) :
    (entries (final C d) = [] ∧ pass C (final C d) = ([], .ok) ∧ final C (final C d) = final C d)
    ∧ ∀ k, finish (final C (run d ((pass C d).1.take k))) = final C d :=
  ⟨pass_fixed_point C d hs hcl hnil hp, crashed_pass_restart_reaches_fixed_point C d hs hcl hnil hp⟩

/-- **a pending intent is finished by the first pass after the next rollover**: a pass over `d0` is
    cut after any number `k` of its actions; `d'` is ANY sorted directory with the `verify/` state
    the crash left (the store does not write `verify/`), at least one entry (the store has rolled
    its manifest over) and no fragment numbered below `M`.  The pass over `d'` starts with the
    actions that execute the intent — it reaches `finish d'` —, whatever the checker says about
    the entry; where it ends, no name logged at the crash is in `trash/` and the fragment `M` named
    is gone. -/
theorem verifier_crash_then_rollover_converges (C : Checker A) (d0 : Dir A) (hs0 : Sorted d0) (hn0 : NoneEmpty d0)
    (k : Nat) (d' : Dir A) (hv : d'.vstrs = (run d0 ((pass C d0).1.take k)).vstrs)
    (hM : d'.vM = (run d0 ((pass C d0).1.take k)).vM) (hs : Sorted d')
    (hent : entries d' ≠ []) (hord : ∀ m, d'.vM = some m → ∀ f, f ∈ d'.frags → m ≤ f.1) :
    (∃ j, run d' ((pass C d').1.take j) = finish d')
    ∧ (∀ x, x ∈ (run d0 ((pass C d0).1.take k)).vstrs → x ∉ (final C d').trash)
    ∧ (∀ m, d'.vM = some m → ∀ f, f ∈ (final C d').frags → f.1 ≠ m) :=
  crash_then_rollover_converges C d0 hs0 hn0 k d' hv hM hs hent hord

/-- **until then the leftover stays** (a leak of `trash/` files, not a loss of a needed one): in a
    directory without an entry — at most one numbered fragment — every pass is empty and changes
    nothing, whatever is logged in `verify/` -/
theorem verifier_leftover_stays_until_rollover (C : Checker A) (d : Dir A) (h : entries d = []) :
    pass C d = ([], .ok) ∧ final C d = d :=
  leftover_stays_until_rollover C d h

/-- non-vacuity of the progress theorems: `dP` — four chained fragments + MANIFEST, THREE entries, two
    files in `trash/` — meets every hypothesis (so does `dW`, two entries); its pass makes 13
    actions (≥ 9), empties `trash/`, leaves fragment 4 and `M = 3` -/
example : Sorted dP ∧ Clean dP ∧ dP.frags ≠ [] ∧ (entries dP).length = 3 ∧ Processable chainChecker dP (entries dP) :=
  dP_hyps
example : Sorted dW ∧ Clean dW ∧ dW.frags ≠ [] ∧ (entries dW).length = 2 ∧ Processable chainChecker dW (entries dW) :=
  dW_clean
example : (pass chainChecker dP).2 = .ok ∧ (pass chainChecker dP).1.length = 13
    ∧ (final chainChecker dP).trash = [] ∧ (final chainChecker dP).frags.map (·.1) = [4]
    ∧ (final chainChecker dP).vM = some 3
    ∧ plans chainChecker dP (entries dP) = [trashSst [97], trashSst [98]] := by decide
example := verifier_pass_progress chainChecker dP dP_hyps.1 dP_hyps.2.1 dP_hyps.2.2.1 dP_hyps.2.2.2.2
example := verifier_passes_converge chainChecker dP dP_hyps.1 dP_hyps.2.1 dP_hyps.2.2.1 dP_hyps.2.2.2.2

/-- non-vacuity of the two theorems on pending intents: `dCut` (`exD` cut at action 2) has no entry,
    one name logged and the file in `trash/`: its passes are empty; `dCutRolled` (one more fragment)
    meets every hypothesis of `verifier_crash_then_rollover_converges` with `d0 = exD`, `k = 2`, and
    its pass empties `trash/` and the log -/
example : entries dCut = [] ∧ dCut.vstrs = [trashSst [120]] ∧ dCut.trash = [trashSst [120]] ∧ dCut.vM = some 1 :=
  dCut_leftover
example := verifier_leftover_stays_until_rollover chainChecker dCut dCut_leftover.1
example := verifier_crash_then_rollover_converges chainChecker exD (by unfold Sorted; decide) (fun _ => rfl) 2 dCutRolled
  dCutRolled_hyps.1 dCutRolled_hyps.2.1 dCutRolled_hyps.2.2.1 dCutRolled_hyps.2.2.2.1 dCutRolled_hyps.2.2.2.2
example : (final chainChecker dCutRolled).trash = [] ∧ (final chainChecker dCutRolled).vstrs = [] := dCutRolled_pass

end VerifierProgress
-- END VerifierProgress

-- BEGIN VerifierHonest
/-! ## `Processable` for the directory of an honest store history (C08 ∘ C04) -/
section VerifierHonest
open Blue.Verifier Blue.VerifyOne Blue.Books
open Blue.Mani (Edit)
variable {G : Type} [DecidableEq G] (g : Grp G)

/-- what `HonestDir env nm I D k files segs d` says (the bridge between C04's store history and
    C08's directory; `trashF`, `trashL`, `named` are ASSUMED of the store side — the rename into
    `trash/` is C08 `sst_trashed_after_append_then_sync`, in another model; no reader snapshot
    delays it; the store is not running): the fragments of `d` are C04's `fragmentsOf` numbered
    upwards from `k`; the hypotheses of `verifier_accepts_honest_rollovers` hold; `O` is the sum over
    the files at the first roll-over; nothing is pending; whatever an edit of a fragment or of
    `MANIFEST` removes is in `trash/`; whatever an edit names is in `sst/` or removed by the same
    fragment, a later one or `MANIFEST` -/
theorem honestDir_means (env : Env G) (nm : G → Name) (I D : G) (k : Nat) (files : List File)
    (segs : List (List StoreOp)) (d : Dir G) (h : HonestDir env nm I D k files segs d) :
    d.frags = number k (fragmentsOf env.ops env.h env.policy nm I D files segs)
    ∧ files.Nodup ∧ ValidSegs env files segs
    ∧ d.vO = treeSum env.ops env.h files
    ∧ d.vstrs = [] ∧ (∀ m, d.vM = some m → m < k)
    ∧ (∀ f, f ∈ d.frags → ∀ e, e ∈ f.2 → ∀ r, r ∈ removedBy e → trashSst r ∈ d.trash)
    ∧ (∀ e, e ∈ d.live → ∀ r, r ∈ removedBy e → trashSst r ∈ d.trash)
    ∧ (∀ f, f ∈ d.frags → ∀ e, e ∈ f.2.drop 1 → ∀ r, r ∈ e.add ++ e.rm →
        r ∈ d.sst ∨ r ∈ f.2.flatMap removedBy ∨ r ∈ laterRm d f.1) :=
  ⟨h.frags, h.nodup, h.valid, h.acc, h.vstrs, h.vM, h.trashF, h.trashL, h.named⟩

/-- **one entry**: the oldest fragment of an honest directory is processable — not below `M`, files
    readable, ACCEPTED BY THE REAL CHECKS (C04), no `L` field that does not parse (the store model
    writes none), plan names in `trash/`: all four are derived — and what the entry leaves is the
    honest directory of the rest of the history -/
theorem honest_step (env : Env G) (nm : G → Name) (hh : Honest g env nm) (I D : G) (k : Nat) (files : List File)
    (seg : List StoreOp) (segs : List (List StoreOp)) (d : Dir G)
    (h : HonestDir env nm I D k files (seg :: segs) d) :
    ∃ d', absStep (contentChecker env) d k
        (rollup env.ops env.h nm I D files :: editsOf env.ops env.h env.policy nm files seg) = some d'
      ∧ HonestDir env nm I D (k + 1) (finalFiles env.policy files seg) segs d' :=
  Blue.VerifyOne.honest_step g env nm hh I D k files seg segs d h

/-- **`Processable` is no hypothesis for an honest history** — any number of fragments, any
    transactions (ingests, compactions cut anywhere, garbage collections, moves, reproduced inputs) -/
theorem honest_directory_processable (env : Env G) (nm : G → Name) (hh : Honest g env nm) (I D : G)
    (segs : List (List StoreOp)) (k : Nat) (files : List File) (d : Dir G)
    (h : HonestDir env nm I D k files segs d) : Processable (contentChecker env) d (entries d) :=
  Blue.VerifyOne.honest_directory_processable g env nm hh I D segs k files d h

/-- **progress on honest histories**: `verifier_pass_progress` and `verifier_passes_converge` for the
    directory of every honest history with at least one fragment, run with the real checks; the
    store is not running during the pass.  No hypothesis about the checker or `Processable`. -/
theorem honest_pass_progress (env : Env G) (nm : G → Name) (hh : Honest g env nm) (I D : G) (k : Nat)
    (files : List File) (segs : List (List StoreOp)) (d : Dir G) (h : HonestDir env nm I D k files segs d)
    (hne : segs ≠ []) :
    ∃ hnil : d.frags ≠ [],
      Processable (contentChecker env) d (entries d)
      ∧ (entries d).length = segs.length - 1
      ∧ ((pass (contentChecker env) d).2 = .ok
        ∧ 3 * (entries d).length ≤ (pass (contentChecker env) d).1.length
        ∧ (∀ f, f ∈ entries d → Act.unlinkFrag f.1 ∈ (pass (contentChecker env) d).1)
        ∧ (final (contentChecker env) d).frags = [d.frags.getLast hnil]
        ∧ Clean (final (contentChecker env) d)
        ∧ (final (contentChecker env) d).vM = (match (entries d).getLast? with | some f => some f.1 | none => d.vM)
        ∧ (∀ x, x ∈ (final (contentChecker env) d).trash ↔ x ∈ d.trash ∧ x ∉ plans (contentChecker env) d (entries d))
        ∧ (final (contentChecker env) d).sst = d.sst ∧ (final (contentChecker env) d).live = d.live)
      ∧ (entries (final (contentChecker env) d) = [] ∧ pass (contentChecker env) (final (contentChecker env) d) = ([], .ok)
        ∧ final (contentChecker env) (final (contentChecker env) d) = final (contentChecker env) d)
      ∧ ∀ j, finish (final (contentChecker env) (run d ((pass (contentChecker env) d).1.take j)))
          = final (contentChecker env) d :=
  Blue.VerifyOne.honest_pass_progress g env nm hh I D k files segs d h hne

/-- non-vacuity: `hDir` — the directory of "ingest, ingest | compact both | ingest" (three fragments,
    two entries; the compaction's inputs in `trash/`, its output and the last ingest in `sst/`) over the
    integers — satisfies `HonestDir` (every field by `decide`), its environment is `Honest`; the real
    pass over it returns `Ok` after 9 actions, empties `trash/`, leaves fragment 3 and `M = 2` -/
example : Honest intGrp hEnv exName ∧ HonestDir hEnv exName 0 0 1 [] hSegs hDir ∧ hSegs ≠ [] :=
  ⟨hEnv_honest, hDir_honest, by decide⟩
example : (entries hDir).length = 2 ∧ finalFiles hEnv.policy [] hSegs.flatten = [hM, hF3]
    ∧ (pass (contentChecker hEnv) hDir).2 = .ok ∧ (pass (contentChecker hEnv) hDir).1.length = 9
    ∧ (final (contentChecker hEnv) hDir).trash = [] ∧ (final (contentChecker hEnv) hDir).frags.map (·.1) = [3]
    ∧ (final (contentChecker hEnv) hDir).vM = some 2 := by decide
example := honestDir_means hEnv exName 0 0 1 [] hSegs hDir hDir_honest
example := honest_step intGrp hEnv exName hEnv_honest 0 0 1 [] _ _ hDir hDir_honest
example := honest_directory_processable intGrp hEnv exName hEnv_honest 0 0 hSegs 1 [] hDir hDir_honest
example := honest_pass_progress intGrp hEnv exName hEnv_honest 0 0 1 [] hSegs hDir hDir_honest (by decide)

end VerifierHonest
-- END VerifierHonest

end Blue.Props.C08

#print axioms Blue.Props.C08.refcount_invariant_preserved
#print axioms Blue.Props.C08.live_files_stay
#print axioms Blue.Props.C08.refcount_run
#print axioms Blue.Props.C08.live_files_stay_in_every_run
#print axioms Blue.Props.C08.crash_keeps_named_files
#print axioms Blue.Props.C08.verifier_unlinks_only_logged_trash
#print axioms Blue.Props.C08.plan_names_recorded_removals
#print axioms Blue.Props.C08.verifier_keeps_needed_trash
#print axioms Blue.Props.C08.verifier_keeps_manifest_removed
#print axioms Blue.Props.C08.verifier_removed_recreated_removed
#print axioms Blue.Props.C08.verifier_keeps_newest_two_removed
#print axioms Blue.Props.C08.verifier_range_is_all_entries
#print axioms Blue.Props.C08.verifier_narrowed_range_loses_copy
#print axioms Blue.Props.C08.verifier_acts_legal
#print axioms Blue.Props.C08.verifier_never_removes_listed
#print axioms Blue.Props.C08.verifier_crash_safe
#print axioms Blue.Props.C08.verifier_crash_safe_any_restarts
#print axioms Blue.Props.C08.reopen_after_verifier
#print axioms Blue.Props.C08.cleanup_orphans_keeps_listed
#print axioms Blue.Props.C08.cleanup_orphans_keeps_listed_after_recovery
#print axioms Blue.Props.C08.cleanup_skipping_live_same_without_recovery
#print axioms Blue.Props.C08.cleanup_skipping_live_moves_relisted
#print axioms Blue.Props.C08.source_ranges_tied
#print axioms Blue.Props.C08.chain_holds
#print axioms Blue.Props.C08.chain_holds_any_incarnations
#print axioms Blue.Props.C08.first_crash_image_in_class
#print axioms Blue.Props.C08.linked_output_invariant
#print axioms Blue.Props.C08.pinned_output_stays
#print axioms Blue.Props.C08.pinned_output_stays_any_run
#print axioms Blue.Props.C08.unpinned_output_lost
#print axioms Blue.Props.C08.retirable_means
#print axioms Blue.Props.C08.log_trashed_only_after_manifest_sync
#print axioms Blue.Props.C08.log_trashed_after_append_then_sync
#print axioms Blue.Props.C08.retire_ok_every_block
#print axioms Blue.Props.C08.crash_keeps_needed_files
#print axioms Blue.Props.C08.needed_present_means
#print axioms Blue.Props.C08.crash_before_retire_keeps_log
#print axioms Blue.Props.C08.crash_after_retire_has_sst
#print axioms Blue.Props.C08.swapped_order_loses_batch
#print axioms Blue.Props.C08.sst_retirable_means
#print axioms Blue.Props.C08.sst_trashed_only_after_manifest_sync
#print axioms Blue.Props.C08.sst_trashed_after_append_then_sync
#print axioms Blue.Props.C08.sst_retire_ok_every_block
#print axioms Blue.Props.C08.crash_keeps_listed_ssts
#print axioms Blue.Props.C08.trashed_sst_batches_listed
#print axioms Blue.Props.C08.swapped_order_loses_sst
#print axioms Blue.Props.C08.processable_means
#print axioms Blue.Props.C08.verifier_pass_progress
#print axioms Blue.Props.C08.verifier_progress_unlinks_plans
#print axioms Blue.Props.C08.verifier_passes_converge
#print axioms Blue.Props.C08.verifier_crash_then_rollover_converges
#print axioms Blue.Props.C08.verifier_leftover_stays_until_rollover
#print axioms Blue.Props.C08.honestDir_means
#print axioms Blue.Props.C08.honest_step
#print axioms Blue.Props.C08.honest_directory_processable
#print axioms Blue.Props.C08.honest_pass_progress
