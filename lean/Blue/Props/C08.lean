import Blue.Proofs.FileRefs
import Blue.Proofs.StoreCrash
/-! Property C08: the theorems the check builds and audits (spike inventory; the build phase
    completes the list from DESIGN Appendix C.0). -/
#print axioms Blue.StoreCrash.crash_recover
