import Blue.Proofs.EntryCodec
import Blue.Proofs.Block
import Blue.Proofs.BlockCursor
import Blue.Proofs.BlockRestarts
import Blue.Proofs.BlockSeal
import Blue.Proofs.BlockBytes
import Blue.Proofs.SstCur
import Blue.Proofs.SstDivide
import Blue.Proofs.SstLoad
import Blue.Proofs.SstCut
import Blue.Proofs.SstMeta
import Blue.Proofs.SstRoundtrip
import Blue.Proofs.SstBytes
import Blue.Proofs.SstAccept
import Blue.Proofs.SstWf
import Blue.Proofs.SstFileB
import Blue.Proofs.BlockEmpty
import Blue.Proofs.SstFits
import Blue.Proofs.SstHeadline
import Blue.Proofs.ConstsTieC10
import Blue.Proofs.Sbbf
import Blue.Proofs.SbbfSst
import Blue.Proofs.SstSetsum
import Blue.Proofs.SstMetaHeadline
import Blue.Proofs.SstMultiRoll
import Blue.Proofs.SstApprox
/-! # Property C10 — an SST or block returns exactly what was put in, under every cursor movement

Property theorems only (helper lemmas live in `Blue/Proofs/{Wire,EntryCodec,Block,BlockRestarts,
BlockCursor,BlockSeal,BlockEmpty,SstCur,SstDivide,SstCut,SstAccept,SstWf,SstFits,SstFile*,SstRoundtrip,
SstHeadline}.lean`).

The models: `Blue/Model/{Wire,EntryCodec,Block}.lean` (entry messages, `BlockBuilder` with prefix
compression and the restart policy by bytes and pairs), `Blue/Model/BlockSeal.lean` (the builder's
accept/refuse decision, `seal`'s footer, `Block::new`, bytes → decoded block),
`Blue/Model/BlockCursor.lean` (`BlockCursor` over a decoded block), `Blue/Model/SstCur.lean`
(`SstCursor`), `Blue/Model/SstBuild.lean` (`SstBuilder`, `SstMultiBuilder`, `divide_keys`,
`minimal_successor_key`, file layout, `Sst::{load, metadata}`), `Blue/Model/{SstOpen,SstFile}.lean`
(`Sst::new` / `Sst::load_block` / `SstCursor` over a file's bytes, reference cursor inside a block)
and `Blue/Model/SstFileB.lean` (the same with `BlockCursor` inside a block; not run by the driver,
proved equal to the former on builder-written files).  The correspondence check compares
them with the real crates byte-for-byte (block bytes; a table's data blocks, index block and final
block; the packed `SstMetadata`) and observation-for-observation (cursor programs, `load`).

Block `SstMeta` (end of file): the packed `SstMetadata` bytes are a theorem (`metadata_bytes_roundtrip`,
`metadata_bytes_of_sealed_file`: C15 interpreter on the schema of lib.rs:1306-1326), the file-size
hypothesis `hsize` is derived from the builders' checks (`file_size_bound_from_table_full`,
`sst_file_roundtrip_no_size_hyp`, `sst_file_roundtrip_bcur_no_size_hyp`; the bound is coarse, below
2^63), and the multi-builder's roll-over rule and `split_hint` are characterised on the model
(`multi_builder_roll_rule`, `multi_builder_hints_and_cuts`; that `MB.roll` / `MB.splitHint` are the
decisions of the real code stays correspondence, `split_hint` is not yet exercised by the harness;
no file is empty for `u64` timestamps: `multi_builder_no_empty_file`).

Block `SstApprox` (end of file): `SstBuilder::approximate_size` is related to the bytes written
(`approx_size_tracks_bytes`) and the table bound is derived from `put`'s own
`check_table_size(self.approximate_size())`: a sealed file is shorter than `TABLE_FULL_SIZE` + 148186
+ the filter block (`sealed_file_size_le_table_full_plus`; below 1543652058 < 2^31 for all options).
The filter is not part of `approximate_size`; it is bounded from the entry count
(`filter_block_from_count`, at most 2^29 bytes).  Constants are coarse (varints taken as 10 bytes).

What is a theorem here and what is held by correspondence only is said at each statement; the
piece named `_partial` is weaker than the property's sentence and says what is missing — and
`sst_file_roundtrip` (below it) supplies the missing step: the *file image* the builder writes,
opened from its bytes by the model of `Sst::new` / `Sst::load_block` that C09 uses
(`Blue/Model/SstOpen.lean`), is a table whose cursor programs, `load` and `metadata` are the
reference over the accepted entries.  The
empty entry sequence is inside the theorems about bytes (`sealed_bytes_decode`), about the block
cursor (`sealed_empty_block_cursor`) and about the table (`sst_cursor_refines` with no blocks,
`sst_file_roundtrip` with nothing accepted); the model describes the *repaired* cursor of an empty
block (D-7).

Added after the independent audit of the statements (docs/AUDIT_REPORT.md, C10):
`sst_builder_rejects` / `sst_put_refuses` (the spec side `accepted` is the list of attempts answered
`Ok`, sorted and in-limit — at the table builder, not only at `BlockBuilder`), `limits_imply_wf` /
`accepted_wf` / `block_builder_side_conditions` / `side_conditions_from_limits` (every `Wf` / `Fits`
side condition is derived from the builders' own checks: key / value limits and `TABLE_FULL_SIZE`),
`sst_file_roundtrip_limits` / `sst_file_roundtrip_bcur_limits` (the round trip without those
hypotheses and without the sealed-state parameter),
`multi_builder_files_sorted`, `empty_block_cursor_refines` / `sealed_empty_block_cursor`,
`table_block_cursor_refines` / `sealed_blocks_good` / `sst_file_roundtrip_bcur(_crc32c)`
(`BlockCursor`'s restart logic composed into the table cursor, with the interval ≥ 1 hypothesis),
a multi-entry-block non-vacuity instance of the whole round trip, and an interval-0 instance on
which the `BlockCursor` machine and the reference machine differ.  Theorems that only unfold a
definition of the model are labelled **model fact**.

The setsum clause of the metadata (section SstSetsum at the end, `Blue/Model/SstSetsum.lean`,
`Blue/Proofs/SstSetsum.lean`): the 32 bytes `seal` stores are modelled as the builder computes them
(`Setsum::default()`, one `insert_vectored` of `[[8], key, ts_le, value]` / `[[9], key, ts_le]` per
accepted entry, `digest()`), and `metadata_setsum_is_sum_of_accepted` shows that `metadata()` of
the opened file returns the digest of the C14 group sum of exactly the accepted entries' items, in
any order, refused attempts adding nothing.  SHA3-256 stays a parameter (`hash`: hasher input →
eight `u32` words, as in C14); that the real builder's digest equals this value for SHA3-256 is the
harness comparison (each table setsum recomputed through `sst::Setsum::{put, del}` and through the
published definition).  The framing of puts is not injective (`setsum_put_framing_not_injective`). -/
namespace Blue.Props.C10
open Blue.Wire Blue.EntryCodec Blue.Block Blue.BlockCursor Blue.Cursor Blue.Sst Blue.SstOpen

/-! ## constants -/
/-- limits, message field numbers / wire types and the footer tags are the ones in the source -/
theorem limits_from_source :
    MAX_KEY_LEN = Blue.Generated.sstMaxKeyLen ∧ MAX_VALUE_LEN = Blue.Generated.sstMaxValueLen
    ∧ TABLE_FULL_SIZE = Blue.Generated.sstTableFullSize :=
  ⟨Blue.ConstsTie.sst_limits.1, Blue.ConstsTie.sst_limits.2.1, Blue.ConstsTie.sst_limits.2.2.1⟩

/-! ## entries and the entry area of a block -/
/-- a block entry (`KeyValueEntry::{Put, Del}`) round-trips through the wire format, and the
    unpacker hands back exactly the bytes that follow it -/
theorem decEntry_enc (e : Entry) (h : e.Wf) (rest : List Nat) :
    decEntry (encEntry e ++ rest) = some (e, rest) := Blue.EntryCodec.decEntry_enc e h rest

/-- prefix compression is undone by `truncate(shared); extend(key_frag)`, restart or not -/
theorem rebuild_key (last key : List Nat) (restart : Bool) :
    let shared := if restart then 0 else sharedLen last key
    last.take shared ++ key.drop shared = key := Blue.Block.rebuild_key last key restart

/-- the entry area of a built block decodes to exactly the entries that were put, for *every*
    restart policy (any `bytes_restart_interval`, any `key_value_pairs_restart_interval`) -/
theorem block_roundtrip (o : Opts) (es : List KV) (hwf : ∀ e ∈ es, e.Wf) :
    decodeAll (es.length + 1) (build o es).buffer [] = some es := Blue.Block.block_roundtrip o es hwf

/-! ## the builder's decision (refusals) -/
/-- **model fact** (the definition of `putCheck` unfolded; that `putCheck` is the decision of
    `BlockBuilder::put` / `del` — `check_key_len`, `check_value_len`, `check_table_size`,
    `enforce_sort_order`, in this order — is the correspondence check's business):
    `put` / `del` accept exactly: key ≤ `MAX_KEY_LEN`, value ≤ `MAX_VALUE_LEN`, builder below
    `TABLE_FULL_SIZE`, strictly after the last accepted entry (key ascending, timestamp
    descending; an equal key and timestamp is refused) -/
theorem builder_accepts_iff (approx : Nat) (lastKey : List Nat) (lastTs : Nat) (e : KV) :
    putCheck approx lastKey lastTs e = none ↔
      e.key.length ≤ MAX_KEY_LEN ∧ (∀ v, e.val = some v → v.length ≤ MAX_VALUE_LEN)
      ∧ approx < TABLE_FULL_SIZE ∧ keyRefLt lastKey lastTs e.key e.ts = true :=
  putCheck_none_iff approx lastKey lastTs e

/-- `BlockBuilder`: whatever is attempted — out of order, duplicates, oversize — the builder ends up
    holding exactly the accepted attempts (refused ones append nothing), and these are strictly
    sorted (`acceptedOf results attempts` does not mention the builder) -/
theorem builder_rejects (o : Opts) (atts : List KV) :
    (CBuilder.putAll o CBuilder.init atts).2.b = build o (acceptedOf (CBuilder.putAll o CBuilder.init atts).1 atts)
    ∧ Sorted (acceptedOf (CBuilder.putAll o CBuilder.init atts).1 atts) := by
  refine ⟨putAll_builds o atts CBuilder.init, ?_⟩
  have := putAll_sorted o atts CBuilder.init [] List.Pairwise.nil trivial (fun _ => ⟨rfl, rfl⟩)
  simpa using this

/-- NEW (audit): **`SstBuilder` rejects out-of-order and oversize input.**  After any run of attempts
    (one answer per attempt) the builder's `accepted` list — the spec side of
    `sst_builder_refines_partial` / `sst_file_roundtrip`, a ghost field the model writes itself —
    *is* the list of attempts answered `Ok` (`acceptedOfB results attempts`, defined without the
    builder); that list is strictly sorted and every entry of it is within `MAX_KEY_LEN` /
    `MAX_VALUE_LEN`; the builder's `(last_key, last_timestamp)` is its last entry. -/
theorem sst_builder_rejects (o : SstOpts) (atts : List KV) :
    (SB.putAll o SB.init atts).1.length = atts.length
    ∧ (SB.putAll o SB.init atts).2.accepted = acceptedOfB (SB.putAll o SB.init atts).1 atts
    ∧ Sorted (acceptedOfB (SB.putAll o SB.init atts).1 atts)
    ∧ (∀ e ∈ acceptedOfB (SB.putAll o SB.init atts).1 atts,
        e.key.length ≤ MAX_KEY_LEN ∧ ∀ v, e.val = some v → v.length ≤ MAX_VALUE_LEN)
    ∧ (∀ l, (acceptedOfB (SB.putAll o SB.init atts).1 atts).getLast? = some l →
        (SB.putAll o SB.init atts).2.lastKey = l.key ∧ (SB.putAll o SB.init atts).2.lastTs = l.ts) :=
  Blue.Sst.sst_builder_rejects o atts

/-- NEW (audit): … *with an error instead of writing it*: in any state of the table builder, an
    attempt that is oversize, meets a full table, or is not strictly after `(last_key,
    last_timestamp)` is answered with an error (and `SB.putAll` then continues from the unchanged
    builder: that an `Err` leaves the real builder unchanged is compared by the check) -/
theorem sst_put_refuses (o : SstOpts) (s : SB) (e : KV)
    (h : ¬ (e.key.length ≤ MAX_KEY_LEN ∧ (∀ v, e.val = some v → v.length ≤ MAX_VALUE_LEN)
      ∧ s.approxSize < TABLE_FULL_SIZE ∧ keyRefLt s.lastKey s.lastTs e.key e.ts = true)) :
    ∃ err, s.put o e = .error (.put err) := put_refuses_iff_check h

/-- NEW (audit): the wire-format side condition follows from the builder's limits: an entry within
    `MAX_KEY_LEN` / `MAX_VALUE_LEN` with a `u64` timestamp is `Wf` … -/
theorem limits_imply_wf (e : KV) (hts : e.ts < U64) (hk : e.key.length ≤ MAX_KEY_LEN)
    (hv : ∀ v, e.val = some v → v.length ≤ MAX_VALUE_LEN) : e.Wf := kv_wf_of_limits e hts hk hv

/-- NEW (audit): … hence the hypothesis `hwfE` of `sst_builder_refines_partial` /
    `sst_file_roundtrip` holds for every attempt sequence with `u64` timestamps -/
theorem accepted_wf (o : SstOpts) (atts : List KV) (hts : ∀ e ∈ atts, e.ts ≤ U64MAX) :
    ∀ e ∈ (SB.putAll o SB.init atts).2.accepted, e.Wf := Blue.Sst.accepted_wf o atts hts

/-- NEW (audit): `BlockBuilder` alone: whatever is attempted (timestamps `u64`), the accepted entries
    fit their wire types and the block stays inside the `u32` restart format — the hypotheses
    `hwf` / `hfit` of `sealed_bytes_decode` / `sealed_block_cursor_refines` hold for the entries a
    builder accepted, because `put` / `del` refuse oversize keys / values and refuse at
    `approximate_size() ≥ TABLE_FULL_SIZE` -/
theorem block_builder_side_conditions (o : Opts) (atts : List KV) (hts : ∀ e ∈ atts, e.ts ≤ U64MAX) :
    (∀ e ∈ acceptedOf (CBuilder.putAll o CBuilder.init atts).1 atts, e.Wf)
    ∧ Fits (build o (acceptedOf (CBuilder.putAll o CBuilder.init atts).1 atts)) :=
  Blue.Sst.block_builder_side_conditions o atts hts

/-- NEW (audit): **every `Wf` / `Fits` side condition of the table theorems holds for every attempt
    sequence and every builder option** (timestamps `u64`): accepted entries and index entries fit
    their wire types, every data block and the index block stay inside the `u32` restart format —
    `SstBuilder` puts its index entries through the same `BlockBuilder::put`.  (What the doc comment
    "which `TABLE_FULL_SIZE` guarantees" used to assert.) -/
theorem side_conditions_from_limits (o : SstOpts) (atts : List KV) (hts : ∀ e ∈ atts, e.ts ≤ U64MAX) (s1 : SB)
    (hs1 : sealedState o (SB.putAll o SB.init atts).2 = .ok s1) :
    (∀ e ∈ (SB.putAll o SB.init atts).2.accepted, e.Wf) ∧ (∀ d ∈ s1.divE, d.Wf)
    ∧ (∀ es ∈ s1.cutE, Fits (build o.blk es)) ∧ Fits (build o.blk s1.divE) :=
  sealed_side_conditions o atts hts s1 hs1

/-- NEW (audit): **`SstMultiBuilder`** (sort order enforced across a roll-over, /repo fix 22ee7e6):
    after any run of attempts every file — the sealed builders and the open one — is a state an
    `SstBuilder` reaches from `new` by `put` / `del` calls (so `sst_builder_refines_partial`,
    `sst_file_roundtrip`, `metadata_exact` apply to each file, for the entries that file accepted);
    the files' entries concatenated in file order are exactly the attempts answered `Ok`; and that
    concatenation is strictly sorted — the order holds *across* files.  The roll-over decision
    (`MB.roll`: `approximate_size` against `TABLE_FULL_SIZE` and the target file size) is the
    model's, tied by correspondence; the theorem holds whatever it decides. -/
theorem multi_builder_files_sorted (o : SstOpts) (atts : List KV) :
    (∀ s ∈ (MB.putAll o MB.init atts).2.files, ∃ as, s = (SB.putAll o SB.init as).2)
    ∧ (MB.putAll o MB.init atts).2.files.flatMap (·.accepted) = acceptedOfB (MB.putAll o MB.init atts).1 atts
    ∧ Sorted (acceptedOfB (MB.putAll o MB.init atts).1 atts) := mb_files_sorted o atts

/-! ## the block cursor -/
/-- the builder's restart points, read as entry indices, make a well-formed decoded block, for
    every non-empty entry list and every pair of restart intervals ≥ 1 -/
theorem build_wf (o : Opts) (ho : 1 ≤ o.bytesRestartInterval ∧ 1 ≤ o.pairsRestartInterval)
    (es : List KV) (hne : es ≠ []) : WfBlock ⟨es, (buildG o es).ridx⟩ := Blue.Block.build_wf o ho es hne

/-- NEW: the restart *offsets* in the footer are the byte offsets of the entries those indices
    name (prefix sums of the encoded entry lengths) -/
theorem restarts_are_entry_offsets (o : Opts) (es : List KV) :
    (build o es).restarts = (buildG o es).ridx.map (entryOffset o es) :=
  Blue.Block.restarts_are_entry_offsets o es

/-- over a well-formed decoded block every finite program of
    `seek_to_first / seek_to_last / next / prev / seek` (binary search over the restart points,
    linear scan, reverse step through a restart interval) shows what the reference cursor shows -/
theorem block_cursor_refines {E : Type} {b : DBlock E} (wf : WfBlock b) (ops : List (Op E))
    (hops : ∀ pred, Op.seek pred ∈ ops → MonoAlong b.entries pred) :
    BlockCursor.run ⟨b, .first⟩ ops = Ref.run ⟨b.entries, 0⟩ ops :=
  Blue.BlockCursor.block_cursor_refines wf ops .first 0 BRel.first hops

theorem built_block_cursor_refines (o : Opts) (ho : 1 ≤ o.bytesRestartInterval ∧ 1 ≤ o.pairsRestartInterval)
    (es : List KV) (hne : es ≠ []) (ops : List (Op KV))
    (hops : ∀ pred, Op.seek pred ∈ ops → MonoAlong es pred) :
    BlockCursor.run ⟨⟨es, (buildG o es).ridx⟩, .first⟩ ops = Ref.run ⟨es, 0⟩ ops :=
  Blue.Block.built_block_cursor_refines o ho es hne ops hops

/-- NEW: from bytes to the decoded block: `Block::new` on the sealed bytes, the forward decode
    and the offset → index translation give back exactly the entries and the builder's restart
    points as entry indices — every entry list (the empty one included), every restart policy.
    (`Fits` — the buffer length and the number of restarts are below 2^32, so the `u32` offsets of
    the format suffice — is a *hypothesis* of this statement about an arbitrary entry list; for the
    lists a builder accepted it follows from `TABLE_FULL_SIZE`: `block_builder_side_conditions`,
    `side_conditions_from_limits`.) -/
theorem sealed_bytes_decode (o : Opts) (es : List KV) (hwf : ∀ e ∈ es, e.Wf) (hfit : Fits (build o es)) :
    ∃ blk, Blk.new (build o es).seal = .ok blk ∧ blk.toDBlock = some ⟨es, (buildG o es).ridx⟩ :=
  toDBlock_seal o es hwf hfit

/-- NEW: a block end to end at the byte level, for programs over *keys* (in a sorted block every
    `seek(k)` is monotone, so no side condition on the program remains): sealed bytes → `Block::new`
    → decode → cursor program = reference cursor over the entries; `seek(k)` shows the first entry
    whose key is at least `k`. -/
theorem sealed_block_cursor_refines (o : Opts) (ho : 1 ≤ o.bytesRestartInterval ∧ 1 ≤ o.pairsRestartInterval)
    (es : List KV) (hne : es ≠ []) (hs : Sorted es) (hwf : ∀ e ∈ es, e.Wf) (hfit : Fits (build o es))
    (ops : List KOp) :
    (∃ blk d, Blk.new (build o es).seal = .ok blk ∧ blk.toDBlock = some d ∧ d.entries = es
      ∧ BlockCursor.run ⟨d, .first⟩ (ops.map KOp.toOp) = Ref.run ⟨es, 0⟩ (ops.map KOp.toOp))
    ∧ ∀ k pos, (Ref.seek (atOrAfter k) ⟨es, pos⟩).kv = es.find? (atOrAfter k) :=
  ⟨Blue.Block.sealed_block_cursor_refines o ho es hne hs hwf hfit ops, fun k pos => ref_seek_first_ge es k pos⟩

/-- the excluded configuration: a restart interval of 0 records offset 0 twice -/
theorem interval_zero_not_wf :
    let o : Opts := ⟨0, 16⟩
    let es : List KV := [⟨[1], 1, some []⟩, ⟨[2], 1, some []⟩]
    (build o es).restarts.take 2 = [0, 0] ∧ (buildG o es).ridx.take 2 = [0, 0] :=
  Blue.Block.interval_zero_not_wf

/-- NEW (audit): **the cursor of a block without entries** (`WfBlock` asks for one entry, so the
    theorems above do not cover it): whatever the restart list and the position, every finite
    program shows `None` after every call — the reference cursor over the empty sequence.  The
    model is the repaired `BlockCursor` (D-7, /repo fix b7b0796). -/
theorem empty_block_cursor_refines {E : Type} (restarts : List Nat) (pos : Pos) (p : Nat) (ops : List (Op E)) :
    BlockCursor.run ⟨⟨[], restarts⟩, pos⟩ ops = Ref.run ⟨([] : List E), p⟩ ops
    ∧ Ref.run ⟨([] : List E), p⟩ ops = ops.map (fun _ => none) :=
  Blue.BlockCursor.empty_block_cursor_refines restarts pos p ops

/-- NEW (audit): the sealed empty block from its bytes (`BlockBuilder::seal` with nothing put →
    `Block::new` → decode → cursor), for every restart policy, interval 0 included -/
theorem sealed_empty_block_cursor (o : Opts) (ops : List KOp) :
    ∃ blk d, Blk.new (build o []).seal = .ok blk ∧ blk.toDBlock = some d ∧ d.entries = []
      ∧ BlockCursor.run ⟨d, .first⟩ (ops.map KOp.toOp) = Ref.run ⟨([] : List KV), 0⟩ (ops.map KOp.toOp)
      ∧ BlockCursor.run ⟨d, .first⟩ (ops.map KOp.toOp) = ops.map (fun _ => none) :=
  Blue.Block.sealed_empty_block_cursor o ops

/-! ## the table cursor -/
/-- over non-empty blocks with separating dividers the two-level cursor shows, for every finite
    program, what a cursor over the concatenation of the blocks shows -/
theorem sst_cursor_refines {E : Type} (L : List (List E)) (D : List E) (hne : ∀ blk ∈ L, blk ≠ [])
    (ops : List (Op E)) (hops : ∀ pred, Op.seek pred ∈ ops → DivOk L D pred) :
    SstCur.run ⟨L, D, 0, none⟩ ops = Ref.run ⟨L.flatten, 0⟩ ops :=
  Blue.Cursor.sst_cursor_refines L D hne ops 0 none 0 SRel.first hops

/-- NEW: `divide_keys` returns a key in `[lhs, rhs)` of the `KeyRef` order, for all inputs (the
    code checks this with `assert!` at run time) -/
theorem divide_keys_between (kl : List Nat) (tl : Nat) (kr : List Nat) (tr : Nat)
    (h : keyRefLt kl tl kr tr = true) :
    keyRefLt (divideKeys kl tl kr tr).1 (divideKeys kl tl kr tr).2 kl tl = false
    ∧ keyRefLt (divideKeys kl tl kr tr).1 (divideKeys kl tl kr tr).2 kr tr = true :=
  divideKeys_between kl tl kr tr h

/-- NEW: `minimal_successor_key` is a strict successor -/
theorem minimal_successor_gt (k : List Nat) (t : Nat) :
    keyRefLt k t (minimalSuccessor k t).1 (minimalSuccessor k t).2 = true := minimalSuccessor_gt k t

/-- NEW: `divide_keys` ⇒ `DivOk`: cut a sorted entry list into non-empty blocks anywhere; the
    index keys `SstBuilder` computes separate the blocks, for every seek target -/
theorem divide_keys_gives_divOk (L : List (List KV)) (hne : ∀ b ∈ L, b ≠ []) (hs : Sorted L.flatten)
    (k : List Nat) : DivOk L (dividersOf L) (atOrAfter k) :=
  separates_divOk (dividersOf_separates L hne hs) k

/-- NEW: hence, for programs over keys and *any* cut with these dividers, no side condition
    remains -/
theorem cut_cursor_refines (L : List (List KV)) (hne : ∀ b ∈ L, b ≠ []) (hs : Sorted L.flatten)
    (ops : List KOp) :
    SstCur.run ⟨L, dividersOf L, 0, none⟩ (ops.map KOp.toOp) = Ref.run ⟨L.flatten, 0⟩ (ops.map KOp.toOp) :=
  Blue.Sst.cut_cursor_refines L hne hs ops

/-! ## point lookups -/
/-- NEW: on a sorted table the first entry at or after `(k, ts)` — what `load` returns when its
    key is `k` — is the newest version of `k` not newer than `ts`; otherwise `k` has no version at
    or below `ts` -/
theorem load_spec_is_newest {es : List KV} (hs : Sorted es) (k : List Nat) (ts : Nat) :
    match es.find? (notBefore k ts) with
    | some e =>
      (e.key = k → e ∈ es ∧ e.ts ≤ ts ∧ ∀ e' ∈ es, e'.key = k → e'.ts ≤ ts → e'.ts ≤ e.ts)
      ∧ (e.key ≠ k → ∀ e' ∈ es, e'.key = k → ¬ e'.ts ≤ ts)
    | none => ∀ e' ∈ es, e'.key = k → ¬ e'.ts ≤ ts := first_notBefore_is_newest hs k ts

/-- NEW: `Block::load` (seek, then step while before `(key, timestamp)`) over a well-formed sorted
    block is that specification: value, tombstone or absent -/
theorem block_load_spec {b : DBlock KV} (wf : WfBlock b) (hs : Sorted b.entries) (k : List Nat) (ts : Nat) :
    bload b k ts = loadSpec b.entries k ts := bload_eq_spec wf hs k ts

/-- NEW: `Sst::load` over non-empty blocks with separating dividers likewise (the bloom filter is
    a parameter: modelled as having no false negatives, checked by the harness on every inserted
    entry) -/
theorem sst_load_spec (t : Table) (hne : ∀ blk ∈ t.blocks, blk ≠ []) (hs : Sorted t.blocks.flatten)
    (k : List Nat) (ts : Nat) (hd : DivOk t.blocks t.dividers (atOrAfter k)) :
    t.load k ts = loadSpec t.blocks.flatten k ts := table_load_eq_spec t hne hs k ts hd

/-! ## `SstBuilder`, start to `seal` -/
/-- NEW: feed any attempts to `SstBuilder` (refused ones change nothing); at `seal` the data
    blocks and the index block *as written* decode (`Block::new`, forward decode) to a cut of the
    accepted entries into non-empty blocks and to separating index entries; the accepted entries are
    sorted; the table cursor over them shows, for every finite program over keys, what the
    reference cursor over the accepted entries shows; `load` is the specification.
    `_partial`: the blocks are taken from the builder's output list, not re-read from the file image
    through the index entries' `(start, limit, crc32c)` (`Sst::load_block`); that step, the final
    block and the packed metadata are compared byte-for-byte by the correspondence; the bloom filter
    bytes and the setsum digest are parameters (here; `sst_load_with_filter` and
    `metadata_setsum_is_sum_of_accepted` compute them as the builder does). -/
theorem sst_builder_refines_partial (o : SstOpts) (atts : List KV) (c : CBuilder) (sf : SB)
    (hcur : (SB.putAll o SB.init atts).2.cur = some c)
    (hf : (SB.putAll o SB.init atts).2.flush o
        (minimalSuccessor (SB.putAll o SB.init atts).2.lastKey (SB.putAll o SB.init atts).2.lastTs).1
        (minimalSuccessor (SB.putAll o SB.init atts).2.lastKey (SB.putAll o SB.init atts).2.lastTs).2 = .ok sf)
    (hwfE : ∀ e ∈ (SB.putAll o SB.init atts).2.accepted, e.Wf) (hwfD : ∀ d ∈ sf.divE, d.Wf)
    (hfitE : ∀ es ∈ sf.cutE, Fits (build o.blk es)) (hfitD : Fits (build o.blk sf.divE)) :
    mapOpt decodeBlock sf.blocks = some sf.cutE
    ∧ decodeBlock sf.index.b.seal = some sf.divE
    ∧ sf.cutE.flatten = (SB.putAll o SB.init atts).2.accepted
    ∧ (∀ b ∈ sf.cutE, b ≠ [])
    ∧ Sorted (SB.putAll o SB.init atts).2.accepted
    ∧ Separates sf.cutE sf.divE
    ∧ (∀ ops : List KOp, SstCur.run ⟨sf.cutE, sf.divE, 0, none⟩ (ops.map KOp.toOp)
        = Ref.run ⟨(SB.putAll o SB.init atts).2.accepted, 0⟩ (ops.map KOp.toOp))
    ∧ (∀ (fileSize : Nat) (setsum : List Nat) (smallest biggest : Nat) (k : List Nat) (ts : Nat),
        (Table.mk sf.cutE sf.divE fileSize setsum smallest biggest).load k ts
          = loadSpec (SB.putAll o SB.init atts).2.accepted k ts) :=
  sst_builder_refines o atts c sf hcur hf hwfE hwfD hfitE hfitD

/-! ## the file round trip: builder → bytes → `Sst::new` → cursor -/
/-- NEW: **`sst_file_roundtrip`** — the step `sst_builder_refines_partial` leaves out.  Feed any
    attempts to `SstBuilder` (refused ones change nothing) and `seal`; `s1` is the builder after the
    `flush_block` of `seal` (the builder itself when nothing was put: the empty table is covered),
    `f` the sealed file.  Then `f.bytes` — data block frames, index block frame, filter block frame,
    final block ending in the eight-byte trailer — opened the way `Sst::new` opens a file (trailer
    → `FinalBlock::unpack` → `BlockMetadata::sanity_check` and the two ordering checks → index block
    through its `(start, limit, crc32c)` → `BlockMetadata::unpack` of every index entry → filter
    block), with every data block fetched through `Sst::load_block` (the `SstEntry` frame at
    `[start, limit)` of the file, its payload's CRC against the recorded one, `Block::new`), is a
    table on which **no call fails** and

    * every finite program of `seek_to_first / seek_to_last / next / prev / seek(k)` shows after
      every call what the reference cursor over the accepted entries shows,
    * `load(k, ts)` is `loadSpec` (newest version of `k` not newer than `ts`, tombstone, absent:
      `load_spec_is_newest`),
    * `metadata()` = (the setsum *parameter* handed to `seal` — in THIS statement any 32 bytes;
      `metadata_setsum_is_sum_of_accepted` (section SstSetsum below) instantiates it with the
      digest the builder computes, `sealSetsum`, and shows it is the digest of the C14 group sum
      of the framed accepted entries, SHA3-256 being a parameter; that the real builder's digest
      is that value with `hash` = SHA3-256 is the harness's comparison —,
      first and last accepted key, the final block's
      smallest / biggest timestamp — which `metadata_exact` shows are those of the accepted
      entries —, the length of the file),
    * the whole forward walk (`seek_to_first`, `next` to the end — what C09 renders of a pristine
      file) is the accepted entries, the backward walk their reverse, neither ends in an error.

    The proof composes `sst_builder_refines` with the open of the image: the final block and the
    `BlockMetadata` values are the packings of their schema values (so the C15 round trip reads
    them back), the builder's `bytes_written` bookkeeping makes the index entries name exactly
    the extents the frames were written to (`frameAt_metasOf`), and the lazily loading cursor
    takes the same steps as the table model's cursor.

    Parameters and hypotheses that remain, explicitly:
    * `crc` — the reader's checksum function: any function that agrees with the writer's
      (`Blue.Sst.crc32c`) on the payloads written, the writer's value fitting the `fixed32` field
      (`hcrc`; `sst_file_roundtrip_crc32c` instantiates `crc := crc32c` and asks only that the
      keys, values and filter handed to the builder are byte strings).  No other property of the checksum is used.
    * `filter` — the bloom filter block's bytes: of the length `Filter::new` gives for the number
      of accepted entries (`hfilter`); `Sst::load` is modelled under "no false negatives".
    * `setsum` — the digest handed to `seal`: 32 bytes (`hsetsum`; discharged for the builder's own
      digest by `seal_setsum_length`, and the parameter removed in `metadata_setsum_is_sum_of_accepted`).
    * the file is shorter than 2^64 bytes (`hsize`); timestamps are `u64` (`hts`); `Wf` / `Fits` as in
      `sst_builder_refines_partial`: fields fit the wire types and the restart offsets fit `u32`.
      These are *hypotheses* of this statement; all four (`hwfE`, `hwfD`, `hfitE`, `hfitD`) follow
      from the builders' own checks (`side_conditions_from_limits`), and
      `sst_file_roundtrip_limits` is this theorem without them.
    * inside a data block this machine steps the *reference* cursor over the decoded entries —
      `BlockCursor`'s restart logic is not in it, and the statement holds for restart interval 0
      as well.  `sst_file_roundtrip_bcur` below is the statement with `BlockCursor` inside, and
      has the interval ≥ 1 hypothesis. -/
theorem sst_file_roundtrip (crc : List Nat → Nat) (o : SstOpts) (atts : List KV) (filter setsum : List Nat)
    (f : SstFile) (s1 : SB)
    (hs1 : sealedState o (SB.putAll o SB.init atts).2 = .ok s1)
    (hseal : (SB.putAll o SB.init atts).2.seal o filter setsum = .ok f)
    (hts : ∀ e ∈ atts, e.ts ≤ U64MAX)
    (hwfE : ∀ e ∈ (SB.putAll o SB.init atts).2.accepted, e.Wf) (hwfD : ∀ d ∈ s1.divE, d.Wf)
    (hfitE : ∀ es ∈ s1.cutE, Fits (build o.blk es)) (hfitD : Fits (build o.blk s1.divE))
    (hsetsum : setsum.length = 32)
    (hfilter : filter.length = filterLen (SB.putAll o SB.init atts).2.count o.bloomBits)
    (hsize : f.bytes.length < U64)
    (hcrc : ∀ b, b ∈ f.index :: f.filter :: f.blocks → crc b = crc32c b ∧ crc32c b < 4294967296) :
    ∃ t, openSst crc f.bytes = .ok t
      ∧ (∀ ops : List KOp, t.run crc t.toFirst ops
          = (Ref.run ⟨(SB.putAll o SB.init atts).2.accepted, 0⟩ (ops.map KOp.toOp)).map .ok)
      ∧ (∀ (k : List Nat) (ts : Nat), t.load crc k ts = .ok (loadSpec (SB.putAll o SB.init atts).2.accepted k ts))
      ∧ t.metadata crc = .ok
          ⟨setsum,
           (match (SB.putAll o SB.init atts).2.accepted.head? with | some e => e.key | none => []),
           (match (SB.putAll o SB.init atts).2.accepted.getLast? with | some e => e.key | none => MAX_KEY),
           f.fin.smallest, f.fin.biggest, f.bytes.length⟩
      ∧ t.forward crc = ((SB.putAll o SB.init atts).2.accepted, none)
      ∧ t.backward crc = ((SB.putAll o SB.init atts).2.accepted.reverse, none) :=
  Blue.SstOpen.sst_file_roundtrip crc o atts filter setsum f s1 hs1 hseal hts hwfE hwfD hfitE hfitD hsetsum hfilter
    hsize hcrc

/-- NEW: the same with the model's own CRC32C on both sides (the instance the driver runs): the
    checksum is no longer a parameter, and nothing is asked of the image's bytes — the attempts' keys
    and values and the filter parameter are byte strings (`KVBytes`, `Bytes`: values below 256), hence
    so is every payload written (`sealed_payload_bytes`) and its CRC32C is a 32-bit value
    (`crc32c_lt`) -/
theorem sst_file_roundtrip_crc32c (o : SstOpts) (atts : List KV) (filter setsum : List Nat)
    (f : SstFile) (s1 : SB)
    (hs1 : sealedState o (SB.putAll o SB.init atts).2 = .ok s1)
    (hseal : (SB.putAll o SB.init atts).2.seal o filter setsum = .ok f)
    (hts : ∀ e ∈ atts, e.ts ≤ U64MAX)
    (hwfE : ∀ e ∈ (SB.putAll o SB.init atts).2.accepted, e.Wf) (hwfD : ∀ d ∈ s1.divE, d.Wf)
    (hfitE : ∀ es ∈ s1.cutE, Fits (build o.blk es)) (hfitD : Fits (build o.blk s1.divE))
    (hsetsum : setsum.length = 32)
    (hfilter : filter.length = filterLen (SB.putAll o SB.init atts).2.count o.bloomBits)
    (hsize : f.bytes.length < U64)
    (hbE : ∀ e ∈ atts, KVBytes e) (hbF : Bytes filter) :
    ∃ t, openSst crc32c f.bytes = .ok t
      ∧ (∀ ops : List KOp, t.run crc32c t.toFirst ops
          = (Ref.run ⟨(SB.putAll o SB.init atts).2.accepted, 0⟩ (ops.map KOp.toOp)).map .ok)
      ∧ (∀ (k : List Nat) (ts : Nat), t.load crc32c k ts = .ok (loadSpec (SB.putAll o SB.init atts).2.accepted k ts))
      ∧ t.metadata crc32c = .ok
          ⟨setsum,
           (match (SB.putAll o SB.init atts).2.accepted.head? with | some e => e.key | none => []),
           (match (SB.putAll o SB.init atts).2.accepted.getLast? with | some e => e.key | none => MAX_KEY),
           f.fin.smallest, f.fin.biggest, f.bytes.length⟩
      ∧ t.forward crc32c = ((SB.putAll o SB.init atts).2.accepted, none)
      ∧ t.backward crc32c = ((SB.putAll o SB.init atts).2.accepted.reverse, none) :=
  Blue.SstOpen.sst_file_roundtrip_bytes o atts filter setsum f s1 hs1 hseal hts hwfE hwfD hfitE hfitD hsetsum hfilter
    hsize hbE hbF

/-! ## `BlockCursor` inside the table cursor (audit: the composition) -/
/-- NEW (audit): over ANY opened table — damaged or not — whose data blocks, wherever they load, have
    well-formed restart points and sorted entries (`GoodD`), the table cursor that walks each data
    block with the model of `BlockCursor` (`Opened.runB` …, `Blue/Model/SstFileB.lean`: restart
    binary search, linear scan, reverse step through a restart interval, on the decoded block *with*
    its restart indices) and the table cursor that steps the reference cursor there
    (`Opened.run` …, what `sst_file_roundtrip` is about and the driver runs) make the same
    observations, call by call, errors included: programs, `load`, `metadata`, whole walks. -/
theorem table_block_cursor_refines (crc : List Nat → Nat) (t : Opened)
    (hgood : ∀ i d, t.loadIdxD crc i = .ok d → GoodD d) :
    (∀ ops : List KOp, t.runB crc t.toFirstB ops = t.run crc t.toFirst ops)
    ∧ (∀ (k : List Nat) (ts : Nat), t.loadB crc k ts = t.load crc k ts)
    ∧ t.metadataB crc = t.metadata crc
    ∧ t.forwardB crc = t.forward crc ∧ t.backwardB crc = t.backward crc :=
  ⟨fun ops => runB_eq_run crc t hgood ops ⟨0, none⟩ (goodL_none 0), loadB_eq_load crc t hgood,
   metadataB_eq_metadata crc t hgood, (walksB_eq crc t hgood).1, (walksB_eq crc t hgood).2⟩

/-- NEW (audit): every data block of a file the builder sealed is such a block — **for restart
    intervals ≥ 1** (`ho`); hypotheses otherwise as in `sst_file_roundtrip` -/
theorem sealed_blocks_good (crc : List Nat → Nat) (o : SstOpts)
    (ho : 1 ≤ o.blk.bytesRestartInterval ∧ 1 ≤ o.blk.pairsRestartInterval)
    (atts : List KV) (filter setsum : List Nat) (f : SstFile) (s1 : SB)
    (hs1 : sealedState o (SB.putAll o SB.init atts).2 = .ok s1)
    (hseal : (SB.putAll o SB.init atts).2.seal o filter setsum = .ok f)
    (hts : ∀ e ∈ atts, e.ts ≤ U64MAX)
    (hwfE : ∀ e ∈ (SB.putAll o SB.init atts).2.accepted, e.Wf) (hwfD : ∀ d ∈ s1.divE, d.Wf)
    (hfitE : ∀ es ∈ s1.cutE, Fits (build o.blk es)) (hfitD : Fits (build o.blk s1.divE))
    (hsetsum : setsum.length = 32)
    (hfilter : filter.length = filterLen (SB.putAll o SB.init atts).2.count o.bloomBits)
    (hsize : f.bytes.length < U64)
    (hcrc : ∀ b, b ∈ f.index :: f.filter :: f.blocks → crc b = crc32c b ∧ crc32c b < 4294967296) :
    ∃ t, openSst crc f.bytes = .ok t ∧ ∀ i d, t.loadIdxD crc i = .ok d → GoodD d :=
  Blue.SstOpen.sealed_blocks_good crc o ho atts filter setsum f s1 hs1 hseal hts hwfE hwfD hfitE hfitD hsetsum hfilter
    hsize hcrc

/-- NEW (audit): **the file round trip with `BlockCursor` inside the data blocks.**  As
    `sst_file_roundtrip`, with the hypothesis `ho` (both restart intervals ≥ 1 — the property's
    quantifier; without it the builder records offset 0 twice, `interval_zero_not_wf`, and the two
    machines differ: see the interval-0 example below): the sealed file's bytes, opened by the model
    of `Sst::new`, every data block fetched through `Sst::load_block` as a decoded block with its
    restart points and walked by the model of `BlockCursor`: no call fails; programs, `load`,
    `metadata` and the whole walks are the reference over the accepted entries; and (last conjunct,
    the bridge) the machine of `sst_file_roundtrip` shows the same, call by call. -/
theorem sst_file_roundtrip_bcur (crc : List Nat → Nat) (o : SstOpts)
    (ho : 1 ≤ o.blk.bytesRestartInterval ∧ 1 ≤ o.blk.pairsRestartInterval)
    (atts : List KV) (filter setsum : List Nat) (f : SstFile) (s1 : SB)
    (hs1 : sealedState o (SB.putAll o SB.init atts).2 = .ok s1)
    (hseal : (SB.putAll o SB.init atts).2.seal o filter setsum = .ok f)
    (hts : ∀ e ∈ atts, e.ts ≤ U64MAX)
    (hwfE : ∀ e ∈ (SB.putAll o SB.init atts).2.accepted, e.Wf) (hwfD : ∀ d ∈ s1.divE, d.Wf)
    (hfitE : ∀ es ∈ s1.cutE, Fits (build o.blk es)) (hfitD : Fits (build o.blk s1.divE))
    (hsetsum : setsum.length = 32)
    (hfilter : filter.length = filterLen (SB.putAll o SB.init atts).2.count o.bloomBits)
    (hsize : f.bytes.length < U64)
    (hcrc : ∀ b, b ∈ f.index :: f.filter :: f.blocks → crc b = crc32c b ∧ crc32c b < 4294967296) :
    ∃ t, openSst crc f.bytes = .ok t
      ∧ (∀ ops : List KOp, t.runB crc t.toFirstB ops
          = (Ref.run ⟨(SB.putAll o SB.init atts).2.accepted, 0⟩ (ops.map KOp.toOp)).map .ok)
      ∧ (∀ (k : List Nat) (ts : Nat), t.loadB crc k ts = .ok (loadSpec (SB.putAll o SB.init atts).2.accepted k ts))
      ∧ t.metadataB crc = .ok
          ⟨setsum,
           (match (SB.putAll o SB.init atts).2.accepted.head? with | some e => e.key | none => []),
           (match (SB.putAll o SB.init atts).2.accepted.getLast? with | some e => e.key | none => MAX_KEY),
           f.fin.smallest, f.fin.biggest, f.bytes.length⟩
      ∧ t.forwardB crc = ((SB.putAll o SB.init atts).2.accepted, none)
      ∧ t.backwardB crc = ((SB.putAll o SB.init atts).2.accepted.reverse, none)
      ∧ (∀ ops : List KOp, t.runB crc t.toFirstB ops = t.run crc t.toFirst ops) :=
  Blue.SstOpen.sst_file_roundtrip_bcur crc o ho atts filter setsum f s1 hs1 hseal hts hwfE hwfD hfitE hfitD hsetsum
    hfilter hsize hcrc

/-- NEW (audit): the same with the model's own CRC32C on both sides; keys, values and the filter
    parameter are byte strings -/
theorem sst_file_roundtrip_bcur_crc32c (o : SstOpts)
    (ho : 1 ≤ o.blk.bytesRestartInterval ∧ 1 ≤ o.blk.pairsRestartInterval)
    (atts : List KV) (filter setsum : List Nat) (f : SstFile) (s1 : SB)
    (hs1 : sealedState o (SB.putAll o SB.init atts).2 = .ok s1)
    (hseal : (SB.putAll o SB.init atts).2.seal o filter setsum = .ok f)
    (hts : ∀ e ∈ atts, e.ts ≤ U64MAX)
    (hwfE : ∀ e ∈ (SB.putAll o SB.init atts).2.accepted, e.Wf) (hwfD : ∀ d ∈ s1.divE, d.Wf)
    (hfitE : ∀ es ∈ s1.cutE, Fits (build o.blk es)) (hfitD : Fits (build o.blk s1.divE))
    (hsetsum : setsum.length = 32)
    (hfilter : filter.length = filterLen (SB.putAll o SB.init atts).2.count o.bloomBits)
    (hsize : f.bytes.length < U64)
    (hbE : ∀ e ∈ atts, KVBytes e) (hbF : Bytes filter) :
    ∃ t, openSst crc32c f.bytes = .ok t
      ∧ (∀ ops : List KOp, t.runB crc32c t.toFirstB ops
          = (Ref.run ⟨(SB.putAll o SB.init atts).2.accepted, 0⟩ (ops.map KOp.toOp)).map .ok)
      ∧ (∀ (k : List Nat) (ts : Nat), t.loadB crc32c k ts = .ok (loadSpec (SB.putAll o SB.init atts).2.accepted k ts))
      ∧ t.metadataB crc32c = .ok
          ⟨setsum,
           (match (SB.putAll o SB.init atts).2.accepted.head? with | some e => e.key | none => []),
           (match (SB.putAll o SB.init atts).2.accepted.getLast? with | some e => e.key | none => MAX_KEY),
           f.fin.smallest, f.fin.biggest, f.bytes.length⟩
      ∧ t.forwardB crc32c = ((SB.putAll o SB.init atts).2.accepted, none)
      ∧ t.backwardB crc32c = ((SB.putAll o SB.init atts).2.accepted.reverse, none)
      ∧ (∀ ops : List KOp, t.runB crc32c t.toFirstB ops = t.run crc32c t.toFirst ops) :=
  Blue.SstOpen.sst_file_roundtrip_bcur_crc32c o ho atts filter setsum f s1 hs1 hseal hts hwfE hwfD hfitE hfitD hsetsum
    hfilter hsize hbE hbF

/-- NEW (audit): **the file round trip, side conditions discharged** (reference cursor inside a block,
    model CRC32C on both sides).  For every attempt sequence with `u64` timestamps and byte-string
    keys / values, every builder option, a filter parameter of the length `Filter::new` gives (byte
    string) and a 32-byte setsum parameter: if `seal` succeeds and the file is shorter than 2^64
    bytes, its bytes open, no call fails, and programs / `load` / `metadata` / whole walks are the
    reference over the accepted entries (= the attempts answered `Ok`, `sst_builder_rejects`).
    No `Wf` / `Fits` hypothesis and no sealed-state parameter remain. -/
theorem sst_file_roundtrip_limits (o : SstOpts) (atts : List KV) (filter setsum : List Nat) (f : SstFile)
    (hseal : (SB.putAll o SB.init atts).2.seal o filter setsum = .ok f)
    (hts : ∀ e ∈ atts, e.ts ≤ U64MAX)
    (hsetsum : setsum.length = 32)
    (hfilter : filter.length = filterLen (SB.putAll o SB.init atts).2.count o.bloomBits)
    (hsize : f.bytes.length < U64)
    (hbE : ∀ e ∈ atts, KVBytes e) (hbF : Bytes filter) :
    ∃ t, openSst crc32c f.bytes = .ok t
      ∧ (∀ ops : List KOp, t.run crc32c t.toFirst ops
          = (Ref.run ⟨(SB.putAll o SB.init atts).2.accepted, 0⟩ (ops.map KOp.toOp)).map .ok)
      ∧ (∀ (k : List Nat) (ts : Nat), t.load crc32c k ts = .ok (loadSpec (SB.putAll o SB.init atts).2.accepted k ts))
      ∧ t.metadata crc32c = .ok
          ⟨setsum,
           (match (SB.putAll o SB.init atts).2.accepted.head? with | some e => e.key | none => []),
           (match (SB.putAll o SB.init atts).2.accepted.getLast? with | some e => e.key | none => MAX_KEY),
           f.fin.smallest, f.fin.biggest, f.bytes.length⟩
      ∧ t.forward crc32c = ((SB.putAll o SB.init atts).2.accepted, none)
      ∧ t.backward crc32c = ((SB.putAll o SB.init atts).2.accepted.reverse, none) :=
  Blue.SstOpen.sst_file_roundtrip_limits o atts filter setsum f hseal hts hsetsum hfilter hsize hbE hbF

/-- NEW (audit): **the same with `BlockCursor` inside the data blocks** — the only extra hypothesis
    is `ho`, both restart intervals ≥ 1 (the property's quantifier) -/
theorem sst_file_roundtrip_bcur_limits (o : SstOpts)
    (ho : 1 ≤ o.blk.bytesRestartInterval ∧ 1 ≤ o.blk.pairsRestartInterval)
    (atts : List KV) (filter setsum : List Nat) (f : SstFile)
    (hseal : (SB.putAll o SB.init atts).2.seal o filter setsum = .ok f)
    (hts : ∀ e ∈ atts, e.ts ≤ U64MAX)
    (hsetsum : setsum.length = 32)
    (hfilter : filter.length = filterLen (SB.putAll o SB.init atts).2.count o.bloomBits)
    (hsize : f.bytes.length < U64)
    (hbE : ∀ e ∈ atts, KVBytes e) (hbF : Bytes filter) :
    ∃ t, openSst crc32c f.bytes = .ok t
      ∧ (∀ ops : List KOp, t.runB crc32c t.toFirstB ops
          = (Ref.run ⟨(SB.putAll o SB.init atts).2.accepted, 0⟩ (ops.map KOp.toOp)).map .ok)
      ∧ (∀ (k : List Nat) (ts : Nat), t.loadB crc32c k ts = .ok (loadSpec (SB.putAll o SB.init atts).2.accepted k ts))
      ∧ t.metadataB crc32c = .ok
          ⟨setsum,
           (match (SB.putAll o SB.init atts).2.accepted.head? with | some e => e.key | none => []),
           (match (SB.putAll o SB.init atts).2.accepted.getLast? with | some e => e.key | none => MAX_KEY),
           f.fin.smallest, f.fin.biggest, f.bytes.length⟩
      ∧ t.forwardB crc32c = ((SB.putAll o SB.init atts).2.accepted, none)
      ∧ t.backwardB crc32c = ((SB.putAll o SB.init atts).2.accepted.reverse, none)
      ∧ (∀ ops : List KOp, t.runB crc32c t.toFirstB ops = t.run crc32c t.toFirst ops) :=
  Blue.SstOpen.sst_file_roundtrip_bcur_limits o ho atts filter setsum f hseal hts hsetsum hfilter hsize hbE hbF

/-- NEW: the pieces of the open, each a statement about bytes: `FinalBlock::unpack` and
    `BlockMetadata::unpack` read back what `seal` / `flush_block` packed, and the `i`-th index
    entry's `(start, limit)` is the extent of the `i`-th data block's frame in the file -/
theorem final_block_and_index_entries_read_back :
    (∀ (fin : Final), FinalFits fin →
      decFinal (encFinal fin) = some ⟨fin.index, fin.filter, fin.setsum, fin.smallest, fin.biggest⟩)
    ∧ (∀ (m : BlockMeta), MetaFits m → decMeta (encBlockMeta m) = some m)
    ∧ (∀ (blocks : List (List Nat)) (pre post : List Nat) (i : Nat) (m : BlockMeta) (b : List Nat),
        (metasOf pre.length blocks)[i]? = some m → blocks[i]? = some b → b.length < U64 →
        frameAt (pre ++ blocks.flatMap (frame SE_PLAIN) ++ post) m = .ok (0, b) ∧ m.crc = crc32c b) :=
  ⟨decFinal_enc, decMeta_enc, frameAt_metasOf⟩

/-- NEW: the `assert!(lhs < rhs)` inside `divide_keys` (a panic) never fires from `put` / `del`
    (a block is flushed only for an entry that passed the sort-order check) nor from `seal` -/
theorem divide_keys_assert_never_fires (o : SstOpts) (s : SB) (e : KV) (filter setsum : List Nat) :
    s.put o e ≠ .error .assert ∧ s.seal o filter setsum ≠ .error .assert :=
  ⟨put_not_assert o s e, seal_not_assert o s filter setsum⟩

/-! ## metadata -/
/-- NEW: `metadata()`'s first and last key are the keys of the first and last entry (defaults
    `[]` / `MAX_KEY` for a table without entries) -/
theorem metadata_keys (t : Table) (hne : ∀ b ∈ t.blocks, b ≠ []) :
    t.metadata.firstKey = (match t.blocks.flatten.head? with | some e => e.key | none => [])
    ∧ t.metadata.lastKey = (match t.blocks.flatten.getLast? with | some e => e.key | none => MAX_KEY) :=
  Blue.Sst.metadata_keys t hne

/-- NEW: the final block's timestamps are the smallest and biggest timestamp among the accepted
    entries (0, 0 without entries), the filter is sized for exactly the accepted entries, and the
    file size field is the length of the bytes written -/
theorem metadata_exact (o : SstOpts) (atts : List KV) (hts : ∀ e ∈ atts, e.ts ≤ U64MAX)
    (filter setsum : List Nat) (f : SstFile)
    (h : (SB.putAll o SB.init atts).2.seal o filter setsum = .ok f) :
    let acc := (SB.putAll o SB.init atts).2.accepted
    (∀ e ∈ acc, f.fin.smallest ≤ e.ts ∧ e.ts ≤ f.fin.biggest)
    ∧ (acc ≠ [] → (∃ e ∈ acc, e.ts = f.fin.smallest) ∧ ∃ e ∈ acc, e.ts = f.fin.biggest)
    ∧ (acc = [] → f.fin.smallest = 0 ∧ f.fin.biggest = 0)
    ∧ (SB.putAll o SB.init atts).2.count = acc.length
    ∧ f.fileSize = f.bytes.length ∧ f.fin.setsum = setsum := by
  have hi := minv_putAll o atts SB.init hts minv_init
  obtain ⟨h1, h2, h3, h4⟩ := seal_timestamps hi h
  obtain ⟨_, _, _, _, _, hss, _⟩ := seal_ok h
  exact ⟨h1, h2, h3, h4, seal_fileSize hi h, hss⟩

/-! ## the code as found -/
/-- (one closed instance, by evaluation — not a general statement)
    `SstMultiBuilder` as found: each file's builder knows only its own keys, so after a roll-over
    an entry that sorts before the previous file's last key is written (first two conjuncts);
    with the order kept across files it is refused (third).  File size 0 rolls over at every put. -/
theorem multi_builder_as_found_writes_unordered :
    let o : SstOpts := ⟨⟨16, 16⟩, 4096, 17, 0⟩
    let r1 := MB.putAsFound o MB.init ⟨[98], 1, some []⟩
    let r2 := MB.putAsFound o r1.2 ⟨[97], 1, some []⟩
    r1.1 = none ∧ r2.1 = none ∧ r2.2.files.length = 2
    ∧ (MB.put o (MB.put o MB.init ⟨[98], 1, some []⟩).2 ⟨[97], 1, some []⟩).1 = some (.put .sortOrder) := by
  decide +kernel

/-! ## non-vacuity -/
/-- a sorted block with three versions of one key, neighbours in the last byte and a tombstone -/
def sample : List KV :=
  [⟨[], 7, some [1]⟩, ⟨[97], 9, some []⟩, ⟨[97], 8, none⟩, ⟨[97], 0, some [2]⟩, ⟨[97, 0], 5, none⟩, ⟨[98], 5, some [3]⟩]

example : Sorted sample := by unfold Sorted sample; decide
example : sample ≠ [] := by decide
example : ∀ e ∈ sample, e.Wf := by
  intro e he
  refine ⟨?_, ?_⟩
  · simp only [sample, List.mem_cons, List.mem_nil_iff, or_false] at he
    rcases he with rfl | rfl | rfl | rfl | rfl | rfl <;> decide
  · intro shared hsh
    simp only [sample, List.mem_cons, List.mem_nil_iff, or_false] at he
    have : shared ≤ 2 := by rcases he with rfl | rfl | rfl | rfl | rfl | rfl <;> simp at hsh <;> omega
    have : shared = 0 ∨ shared = 1 ∨ shared = 2 := by omega
    rcases this with rfl | rfl | rfl <;> rcases he with rfl | rfl | rfl | rfl | rfl | rfl <;>
      (simp only [wireEntry, Entry.Wf, Put.Wf, Del.Wf, U64]; decide +kernel)
example : Fits (build ⟨1, 1⟩ sample) := by unfold Fits; decide +kernel
example : (1 : Nat) ≤ (⟨1, 1⟩ : Opts).bytesRestartInterval ∧ 1 ≤ (⟨1, 1⟩ : Opts).pairsRestartInterval := by decide
/-- restart interval 1: every entry is a restart point -/
example : (buildG ⟨1, 1⟩ sample).ridx = [0, 1, 2, 3, 4, 5] := by decide +kernel
/-- a cut of `sample` into three blocks, one of them a single entry; the dividers -/
example : dividersOf [sample.take 2, (sample.drop 2).take 1, sample.drop 3]
    = [⟨[97], 9, none⟩, ⟨[97], 8, none⟩, ⟨[98], 5, none⟩] := by decide +kernel
example : keyRefLt [97] 8 [97] 0 = true ∧ divideKeys [97] 8 [97] 0 = ([97], 8) := by decide
/-- the first branch of `divide_keys`: a shorter key strictly between -/
example : divideKeys [97, 1] 3 [97, 9, 9] 4 = ([97, 2], 0) := by decide
/-- a refused attempt appends nothing (duplicate, then descending key, then an accepted one) -/
example : (CBuilder.putAll ⟨16, 16⟩ CBuilder.init
    [⟨[5], 3, some []⟩, ⟨[5], 3, some [1]⟩, ⟨[4], 9, none⟩, ⟨[5], 2, none⟩]).1
    = [none, some .sortOrder, some .sortOrder, none] := by decide +kernel
/-- `SstBuilder` with target block size 0 over `sample`: every entry gets its own block (the
    hypotheses `hcur`, `hf` of `sst_builder_refines_partial` are met), six blocks, six dividers -/
def sampleOpts : SstOpts := ⟨⟨1, 1⟩, 0, 17, 0⟩
example : (match (SB.putAll sampleOpts SB.init sample).2.cur with | some _ => true | none => false) = true := by
  decide +kernel
example :
    (match (SB.putAll sampleOpts SB.init sample).2.flush sampleOpts
        (minimalSuccessor (SB.putAll sampleOpts SB.init sample).2.lastKey (SB.putAll sampleOpts SB.init sample).2.lastTs).1
        (minimalSuccessor (SB.putAll sampleOpts SB.init sample).2.lastKey (SB.putAll sampleOpts SB.init sample).2.lastTs).2 with
      | .ok sf => (sf.cutE.map List.length, sf.divE.map keyTs)
      | .error _ => ([], []))
    = ([1, 1, 1, 1, 1, 1], [([], 7), ([97], 9), ([97], 8), ([97], 0), ([97, 0], 5), ([98], 5)]) := by
  decide +kernel
/-- the file round trip on `sample` (one entry per block): the builder seals, `s1` exists, the
    hypotheses on sizes, filter, setsum and bytes hold, and the image — 411 bytes — opens; a program
    with reversals and seeks shows the expected entries -/
def zeros32 : List Nat := List.replicate 32 0
def sampleFile : Option SstFile :=
  match (SB.putAll sampleOpts SB.init sample).2.seal sampleOpts zeros32 zeros32 with
  | .ok f => some f
  | .error _ => none
example : (match sealedState sampleOpts (SB.putAll sampleOpts SB.init sample).2 with
    | .ok s1 => (s1.cutE.length, s1.divE.length) | .error _ => (0, 0)) = (6, 6) := by decide +kernel
example : zeros32.length = 32 ∧ zeros32.length = filterLen (SB.putAll sampleOpts SB.init sample).2.count sampleOpts.bloomBits := by
  decide +kernel
example : (match sampleFile with
    | some f => decide (f.bytes.length = 411) && (f.index :: f.filter :: f.blocks).all (fun b => b.all (fun x => decide (x < 256)))
    | none => false) = true := by decide +kernel
example : (∀ e ∈ sample, KVBytes e) ∧ Bytes zeros32 := by
  refine ⟨?_, by unfold Bytes zeros32; decide⟩
  intro e he
  simp only [sample, List.mem_cons, List.mem_nil_iff, or_false] at he
  rcases he with rfl | rfl | rfl | rfl | rfl | rfl <;>
    (refine ⟨by unfold Bytes; decide, ?_⟩; intro v hv; cases hv <;> (unfold Bytes; decide))
example : (match sampleFile with
    | some f =>
      (match openSst crc32c f.bytes with
       | .ok t => (t.run crc32c t.toFirst [.first, .next, .next, .seek [97, 0], .prev, .last, .prev, .seek [99], .prev]).map
           (fun r => match r with | Except.ok (some e) => some (e.key, e.ts) | _ => none)
       | .error _ => [])
    | none => [])
    = [none, some ([], 7), some ([97], 9), some ([97, 0], 5), some ([97], 0), none, some ([98], 5), none, some ([98], 5)] := by
  decide +kernel
example : ∀ e ∈ sample, e.ts ≤ U64MAX := by decide
/-- a lookup between two versions: newest version of `[97]` at or below 8 is the tombstone at 8;
    at or below 7 likewise; below 0 there is none — and key `[97, 1]` is absent -/
example : loadSpec sample [97] 8 = .tombstone ∧ loadSpec sample [97] 7 = .value [2] ∧ loadSpec sample [97] 100 = .value []
    ∧ loadSpec sample [97, 1] 100 = .absent := by decide
/-- the builders' sentinel: the empty key at the largest timestamp cannot be an entry -/
example : putCheck 0 [] U64MAX ⟨[], U64MAX, none⟩ = some .sortOrder := by decide

/-! ### audit: richer witnesses -/
/-- the side conditions `hwfD`, `hfitE`, `hfitD`, `hsize` on the one-entry-per-block instance above
    (they had no witness) -/
example : (match sealedState sampleOpts (SB.putAll sampleOpts SB.init sample).2, sampleFile with
    | .ok s1, some f => sideB sampleOpts s1 f | _, _ => false) = true := by decide +kernel

/-- a **multi-entry-block instance**: restart after every second pair, blocks of about 40 bytes.
    `sample` is cut into blocks of 2, 3 and 1 entries; the middle block has a restart point inside
    (entry 2, byte offset 20) and an entry with a shared key prefix (`shared = 1`) -/
def multiOpts : SstOpts := ⟨⟨1000, 2⟩, 40, 17, 0⟩
example : (match sealedState multiOpts (SB.putAll multiOpts SB.init sample).2 with
    | .ok s1 => (s1.cutE.map List.length, s1.cutE.map (fun es => (buildG multiOpts.blk es).ridx),
        s1.cutE.map (fun es => (build multiOpts.blk es).restarts), s1.divE.map keyTs)
    | .error _ => ([], [], [], []))
    = ([2, 3, 1], [[0], [0, 2], [0]], [[0], [0, 20], [0]], [([97], 9), ([97, 0], 5), ([98], 5)]) := by decide +kernel
example : sharedLen [97] [97] = 1
    ∧ (wireEntry 1 ⟨[97], 0, some [2]⟩ = .put ⟨1, [], 0, [2]⟩) := by decide
/-- the refusals at the table builder: a duplicate, an entry before the last one, an oversize key
    (the answers; the builder then holds exactly the three accepted attempts) -/
example : ((SB.putAll multiOpts SB.init
      [⟨[5], 3, some []⟩, ⟨[5], 3, some [1]⟩, ⟨[4], 9, none⟩, ⟨[5], 2, none⟩, ⟨List.replicate 16385 0, 1, none⟩,
       ⟨[6], 1, some [7]⟩]).1,
    (SB.putAll multiOpts SB.init
      [⟨[5], 3, some []⟩, ⟨[5], 3, some [1]⟩, ⟨[4], 9, none⟩, ⟨[5], 2, none⟩, ⟨List.replicate 16385 0, 1, none⟩,
       ⟨[6], 1, some [7]⟩]).2.accepted.map keyTs)
    = ([none, some (.put .sortOrder), some (.put .sortOrder), none, some (.put .keyTooLarge), none],
       [([5], 3), ([5], 2), ([6], 1)]) := by decide +kernel

/-- the side conditions of the older statements on the multi-entry-block instance -/
example : (match sealedState multiOpts (SB.putAll multiOpts SB.init sample).2,
      (SB.putAll multiOpts SB.init sample).2.seal multiOpts zeros32 zeros32 with
    | .ok s1, .ok f => sideB multiOpts s1 f | _, _ => false) = true := by decide +kernel

/-- **every hypothesis of `sst_file_roundtrip_bcur_limits` (and of `sst_file_roundtrip_limits`) holds
    at once on the multi-entry-block instance**, and the conclusion is instantiated: the file seals,
    opens, and with `BlockCursor` inside the blocks as with the reference cursor every program
    shows the reference over `sample`; `load` is `loadSpec`; the whole walks are `sample` and its
    reverse -/
theorem multi_block_instance :
    ∃ f t, (SB.putAll multiOpts SB.init sample).2.seal multiOpts zeros32 zeros32 = .ok f
      ∧ openSst crc32c f.bytes = .ok t
      ∧ (∀ ops : List KOp, t.runB crc32c t.toFirstB ops = (Ref.run ⟨sample, 0⟩ (ops.map KOp.toOp)).map .ok)
      ∧ (∀ ops : List KOp, t.run crc32c t.toFirst ops = (Ref.run ⟨sample, 0⟩ (ops.map KOp.toOp)).map .ok)
      ∧ (∀ (k : List Nat) (ts : Nat), t.loadB crc32c k ts = .ok (loadSpec sample k ts))
      ∧ t.forwardB crc32c = (sample, none) ∧ t.backwardB crc32c = (sample.reverse, none) := by
  have hchk : (match (SB.putAll multiOpts SB.init sample).2.seal multiOpts zeros32 zeros32 with
      | .ok f => decide (f.bytes.length < U64) | .error _ => false) = true := by decide +kernel
  cases hf : (SB.putAll multiOpts SB.init sample).2.seal multiOpts zeros32 zeros32 with
  | error e => rw [hf] at hchk; cases hchk
  | ok f =>
    rw [hf] at hchk
    have hsize : f.bytes.length < U64 := by simpa using hchk
    have hts : ∀ e ∈ sample, e.ts ≤ U64MAX := by decide
    have hacc : (SB.putAll multiOpts SB.init sample).2.accepted = sample := by decide +kernel
    have hbE : ∀ e ∈ sample, KVBytes e := by
      intro e he
      simp only [sample, List.mem_cons, List.mem_nil_iff, or_false] at he
      rcases he with rfl | rfl | rfl | rfl | rfl | rfl <;>
        (refine ⟨by unfold Bytes; decide, ?_⟩; intro v hv; cases hv <;> (unfold Bytes; decide))
    obtain ⟨t, ho, r1, r2, _, r4, r5, r6⟩ := Blue.Props.C10.sst_file_roundtrip_bcur_limits multiOpts
      ⟨by decide, by decide⟩ sample zeros32 zeros32 f hf hts (by decide) (by decide +kernel) hsize hbE
      (by unfold Bytes zeros32; decide)
    rw [hacc] at r1 r2 r4 r5
    exact ⟨f, t, rfl, ho, r1, fun ops => by rw [← r6 ops]; exact r1 ops, r2, r4, r5⟩

/-- the same instance evaluated: a program with reversals and seeks through both machines -/
example : (match (SB.putAll multiOpts SB.init sample).2.seal multiOpts zeros32 zeros32 with
    | .ok f =>
      (match openSst crc32c f.bytes with
       | .ok t =>
         ((t.runB crc32c t.toFirstB [.first, .next, .next, .next, .seek [97, 0], .prev, .prev, .last, .prev, .seek [99], .prev]).map
           (fun r => match r with | Except.ok (some e) => some (e.key, e.ts) | _ => none),
          decide ((t.runB crc32c t.toFirstB [.first, .next, .next, .next, .seek [97, 0], .prev, .prev, .last, .prev, .seek [99], .prev]).length
            = (t.run crc32c t.toFirst [.first, .next, .next, .next, .seek [97, 0], .prev, .prev, .last, .prev, .seek [99], .prev]).length))
       | .error _ => ([], false))
    | .error _ => ([], false))
    = ([none, some ([], 7), some ([97], 9), some ([97], 8), some ([97, 0], 5), some ([97], 0), some ([97], 8), none,
        some ([98], 5), none, some ([98], 5)], true) := by
  decide +kernel

/-- **restart interval 0** (outside the property; `ho` fails): the builder records offset 0 twice
    (`interval_zero_not_wf`), the file still seals and opens, the machine of `sst_file_roundtrip`
    (reference cursor inside a block) still shows the entries in order — but the machine with
    `BlockCursor` inside shows the first entry twice: the two differ, so `ho` is needed in
    `sst_file_roundtrip_bcur` and `sst_file_roundtrip` alone says nothing about the restart logic -/
def zeroOpts : SstOpts := ⟨⟨0, 0⟩, 64, 17, 0⟩
example : (match (SB.putAll zeroOpts SB.init sample).2.seal zeroOpts zeros32 zeros32 with
    | .ok f =>
      (match openSst crc32c f.bytes with
       | .ok t =>
         ((t.run crc32c t.toFirst [.first, .next, .next, .next]).map
            (fun r => match r with | Except.ok (some e) => some (e.key, e.ts) | _ => none),
          (t.runB crc32c t.toFirstB [.first, .next, .next, .next]).map
            (fun r => match r with | Except.ok (some e) => some (e.key, e.ts) | _ => none))
       | .error _ => ([], []))
    | .error _ => ([], []))
    = ([none, some ([], 7), some ([97], 9), some ([97], 8)], [none, some ([], 7), some ([], 7), some ([97], 9)]) := by
  decide +kernel

/-- the multi-builder on a target file size of 0 (a roll-over before every put): three files, the
    entries in order across them, the out-of-order attempt refused -/
example : ((MB.putAll ⟨⟨16, 16⟩, 4096, 17, 0⟩ MB.init
      [⟨[98], 1, some []⟩, ⟨[97], 1, some []⟩, ⟨[98], 0, none⟩, ⟨[99], 5, some [1]⟩]).1,
    (MB.putAll ⟨⟨16, 16⟩, 4096, 17, 0⟩ MB.init
      [⟨[98], 1, some []⟩, ⟨[97], 1, some []⟩, ⟨[98], 0, none⟩, ⟨[99], 5, some [1]⟩]).2.files.map
        (fun s => s.accepted.map keyTs))
    = ([none, some (.put .sortOrder), none, none], [[([98], 1)], [([98], 0)], [([99], 5)]]) := by decide +kernel

/-! ## the bloom filter (sst/src/sbbf.rs), from the hash word on

The model is `Blue/Model/Sbbf.lean` (`Block::{mask, insert, check}`, `Filter::{new, deferred_insert,
check, to_bytes, try_from}`, `do_hashing` with its assertion; run by the driver's `bloom` requests
against `sst::sbbf::Filter`), the proofs `Blue/Proofs/{Sbbf,SbbfSst}.lean`.  A hash word is what
`Filter::defer_insert(item)` returns (SipHash-2-4 of the external `siphasher` crate: not modelled).
All statements are for any number of blocks ≥ 1 and any hash words. -/
section Bloom
open Blue.Sbbf (Filter Block build blockIdx sealFilter loadWithFilter)

/-- NEW: the `assert!(block_idx < self.blocks.len())` of `do_hashing` can never fire: for every
    hash word and every `n ≥ 1` blocks, `((x >> 32) * n) >> 32 < n` (the model's `blockIdx` IS that
    expression on a `u64`), and the `u64` product does not overflow up to 2^32 blocks -/
theorem bloom_block_idx_in_range (n x : Nat) (hn : 1 ≤ n) :
    blockIdx n x < n
    ∧ (x < 2 ^ 64 → blockIdx n x = (x >>> 32 * n) >>> 32)
    ∧ (n ≤ 2 ^ 32 → x % 2 ^ 64 / 2 ^ 32 * n < 2 ^ 64) :=
  ⟨Blue.Sbbf.block_idx_in_range n x hn, Blue.Sbbf.blockIdx_u64 n x, Blue.Sbbf.block_idx_no_overflow n x⟩

/-- NEW: `Filter::new(size)` has `min(size + 7, u32::MAX) / 256 + 1` blocks for every `size`: at
    least one (its `assert!(size > 0)` never fires; no empty filter is ever made), at most 2^24 -/
theorem bloom_new_nonempty (size : Nat) :
    (Filter.new size).blocks.length = min (size + 7) 4294967295 / 256 + 1
    ∧ 1 ≤ (Filter.new size).blocks.length
    ∧ (Filter.new size).blocks.length ≤ 16777216 := Blue.Sbbf.new_nonempty size

/-- NEW: panic-freedom of insert and check: on every filter with at least one block the code's
    `deferred_insert` and `check` (`Option`-valued in the model: `none` = the assertion fired or an
    index out of range) return, and are the total functions the theorems below speak about;
    building a filter as `SstBuilder::seal` does never panics -/
theorem bloom_never_panics :
    (∀ (f : Filter) (x : Nat), 1 ≤ f.blocks.length →
      f.deferredInsert? x = some (f.deferredInsert x) ∧ f.check? x = some (f.check x)
      ∧ (f.deferredInsert x).blocks.length = f.blocks.length)
    ∧ ∀ (size : Nat) (words : List Nat),
        words.foldlM Filter.deferredInsert? (Filter.new size) = some (build size words) :=
  ⟨fun f x hf => ⟨Blue.Sbbf.deferredInsert?_eq f x hf, Blue.Sbbf.check?_eq f x hf, Blue.Sbbf.deferredInsert_length f x⟩,
   Blue.Sbbf.build_never_panics⟩

/-- NEW: **no false negatives** — for every filter with at least one block, every list of
    inserted hash words and every word of the list, `check` answers true after the inserts -/
theorem bloom_no_false_negatives (f : Filter) (hf : 1 ≤ f.blocks.length) (xs : List Nat) (x : Nat) (hx : x ∈ xs) :
    (xs.foldl Filter.deferredInsert f).check x = true := Blue.Sbbf.no_false_negatives f hf xs x hx

/-- NEW: inserts are monotone: whatever checked true keeps checking true after any further
    inserts, and a set bit (bit `j` of word `i` of block `k`) stays set -/
theorem bloom_insert_monotone (f : Filter) (xs : List Nat) :
    (∀ y, f.check y = true → (xs.foldl Filter.deferredInsert f).check y = true)
    ∧ ∀ (k i j : Nat) (b : Block) (hi : i < 8) (hj : j < 32), f.blocks[k]? = some b → b[i][j] = true →
        ∃ b', (xs.foldl Filter.deferredInsert f).blocks[k]? = some b' ∧ b'[i][j] = true :=
  ⟨fun y h => Blue.Sbbf.check_foldl_mono xs f y h,
   fun k i j b hi hj hb h => Blue.Sbbf.bit_foldl_mono xs f k i j b hi hj hb h⟩

/-- NEW: `Filter::try_from(&f.to_bytes()) == Ok(f)` for every filter with at least one block — the
    filter an SST stores and the reader re-parses is the filter the builder made — and `to_bytes`
    gives `32 · blocks` bytes (values below 256) -/
theorem bloom_bytes_roundtrip (f : Filter) (hf : 1 ≤ f.blocks.length) :
    Filter.tryFrom f.toBytes = .ok f
    ∧ f.toBytes.length = 32 * f.blocks.length
    ∧ ∀ b ∈ f.toBytes, b < 256 :=
  ⟨Blue.Sbbf.bytes_roundtrip f hf, Blue.Sbbf.toBytes_length f, Blue.Sbbf.toBytes_are_bytes f⟩

/-- NEW: `Filter::try_from` on ARBITRARY bytes is total (never panics) and answers by the length
    alone: error iff the slice is empty or its length is not a multiple of 32; otherwise a filter of
    `len / 32 ≥ 1` blocks (so a parsed filter can be inserted into and checked without a panic) -/
theorem bloom_try_from_total (bytes : List Nat) :
    ((∃ e, Filter.tryFrom bytes = .error e) ↔ (bytes = [] ∨ bytes.length % 32 ≠ 0))
    ∧ (bytes = [] → Filter.tryFrom bytes = .error .empty)
    ∧ (bytes ≠ [] → bytes.length % 32 ≠ 0 → Filter.tryFrom bytes = .error .notMultiple)
    ∧ (bytes ≠ [] → bytes.length % 32 = 0 →
        ∃ f, Filter.tryFrom bytes = .ok f ∧ f.blocks.length = bytes.length / 32 ∧ 1 ≤ f.blocks.length) :=
  ⟨Blue.Sbbf.tryFrom_error_iff bytes, Blue.Sbbf.tryFrom_total bytes⟩

/-- NEW: the composition `SstBuilder::seal` → file → `Sst::new` runs: `Filter::new(size)`, one
    `deferred_insert` per word, `to_bytes`, `try_from`: the parse succeeds, gives the very filter,
    and every inserted word checks true on it (no panic) -/
theorem bloom_stored_filter_no_false_negatives (size : Nat) (words : List Nat) :
    ∃ g, Filter.tryFrom (build size words).toBytes = .ok g
      ∧ g = build size words
      ∧ ∀ x ∈ words, g.check? x = some true := Blue.Sbbf.stored_filter_no_false_negatives size words

/-- NEW: **the table with its filter** — `h` is `Filter::defer_insert` on a key (ANY function: SipHash
    is not modelled; builder and reader use the same one).  Feed any attempts to `SstBuilder`; `seal`
    writes the filter block it computes itself (`sealFilter`: sized by `count · bits` saturating,
    one insert per accepted entry — no longer a parameter with a length hypothesis); open the file
    image: the filter block parses back to the builder's filter, every accepted key is answered
    "maybe", and `Sst::load` WITH its filter test (`loadWithFilter`: a negative answer returns
    `None` at once) is, for EVERY key and timestamp and whatever false positives the filter has,
    the specification over the accepted entries, without a panic.  This replaces "load is modelled
    for keys the filter does not rule out". -/
theorem sst_load_with_filter (h : List Nat → Nat) (o : SstOpts) (atts : List KV) (setsum : List Nat) (f : SstFile)
    (hseal : (SB.putAll o SB.init atts).2.seal o
        (sealFilter h o.bloomBits (SB.putAll o SB.init atts).2).toBytes setsum = .ok f)
    (hts : ∀ e ∈ atts, e.ts ≤ U64MAX)
    (hsetsum : setsum.length = 32)
    (hsize : f.bytes.length < U64)
    (hbE : ∀ e ∈ atts, KVBytes e) :
    ∃ t g, openSst crc32c f.bytes = .ok t
      ∧ Filter.tryFrom f.filter = .ok g
      ∧ g = sealFilter h o.bloomBits (SB.putAll o SB.init atts).2
      ∧ (∀ e ∈ (SB.putAll o SB.init atts).2.accepted, g.check? (h e.key) = some true)
      ∧ ∀ (k : List Nat) (ts : Nat),
          loadWithFilter g (h k) (t.load crc32c k ts)
            = some (.ok (loadSpec (SB.putAll o SB.init atts).2.accepted k ts)) :=
  Blue.Sbbf.sst_load_with_filter h o atts setsum f hseal hts hsetsum hsize hbE

/-- NEW: the builder's filter block meets what the file round-trip theorems ask of their filter
    parameter (`hfilter`: the length `Filter::new` gives; `hbF`: bytes) -/
theorem bloom_filter_block_fits (h : List Nat → Nat) (bits : Nat) (s : SB) :
    (sealFilter h bits s).toBytes.length = filterLen s.count bits
    ∧ Bytes (sealFilter h bits s).toBytes := Blue.Sbbf.sealFilter_bytes h bits s

/-- NEW: the salts, the shifts (27; `saturating_add(7) >> 3 >> 5 + 1`; `>> 32`), the sizes (8 words
    of 4 little-endian bytes, 32-byte blocks) and the shapes of `mask` / `insert` / `check` are the
    ones in sst/src/sbbf.rs (regenerated on every run) -/
theorem bloom_constants_from_source :
    Blue.Sbbf.SALT.toList = Blue.Generated.sbbfSalt
    ∧ [1, Blue.Sbbf.MASK_SHIFT] = Blue.Generated.sbbfMask
    ∧ Blue.Generated.sbbfInsertOrCheckAnd = 1
    ∧ [Blue.Sbbf.NEW_ROUND_UP, Blue.Sbbf.NEW_SHIFT_BYTES, Blue.Sbbf.NEW_SHIFT_BLOCKS, Blue.Sbbf.NEW_EXTRA_BLOCKS]
        = Blue.Generated.sbbfNewSize
    ∧ [Blue.Sbbf.HASH_SHIFT, Blue.Sbbf.HASH_SHIFT] = Blue.Generated.sbbfHashShifts
    ∧ List.replicate 5 Blue.Sbbf.BLOCK_WORDS = Blue.Generated.sbbfBlockWords
    ∧ [Blue.Sbbf.BLOCK_BYTES, Blue.Sbbf.WORD_BYTES, Blue.Sbbf.WORD_BYTES, Blue.Sbbf.BLOCK_BYTES, Blue.Sbbf.BLOCK_BYTES,
        Blue.Sbbf.BLOCK_BYTES, Blue.Sbbf.BLOCK_BYTES] = Blue.Generated.sbbfByteLayout :=
  ⟨Blue.ConstsTie.sbbf_salt, Blue.ConstsTie.sbbf_mask.1, Blue.ConstsTie.sbbf_insert_check_shape,
   Blue.ConstsTie.sbbf_new_size, Blue.ConstsTie.sbbf_hash_shifts.1, Blue.ConstsTie.sbbf_block_words.1,
   Blue.ConstsTie.sbbf_byte_layout.1⟩

/-! non-vacuity, by kernel evaluation of the model: a two-block filter (`size = 300`) with two
    words, one in each block; the inserted words check true, a fresh one false; the bytes parse
    back to the filter; a cut copy is refused, the first block alone is a filter -/
example : 1 ≤ (Filter.new 0).blocks.length ∧ (Filter.new 300).blocks.length = 2
    ∧ (Filter.new 4294967295).blocks.length = 16777216 := by
  refine ⟨(bloom_new_nonempty 0).2.1, ?_, ?_⟩ <;> rw [(bloom_new_nonempty _).1] <;> omega
example : blockIdx 2 5 = 0 ∧ blockIdx 2 0x8000000000000001 = 1 ∧ blockIdx 1 (2 ^ 64 - 1) = 0
    ∧ blockIdx 16777216 (2 ^ 64 - 1) = 16777215 := by decide
example : (build 300 [5, 0x8000000000000001]).check 5 = true
    ∧ (build 300 [5, 0x8000000000000001]).check 0x8000000000000001 = true
    ∧ (build 300 [5, 0x8000000000000001]).check 77 = false
    ∧ (build 300 [5, 0x8000000000000001]).check 0x8000000000000005 = false := by decide +kernel
example : (Blue.Sbbf.mask 12345).toList.map (·.toNat)
    = [8, 1048576, 64, 262144, 134217728, 16384, 4194304, 67108864] := by decide +kernel
example : (build 300 [5, 0x8000000000000001]).toBytes.length = 64
    ∧ (Filter.tryFrom (build 300 [5, 0x8000000000000001]).toBytes).toOption = some (build 300 [5, 0x8000000000000001])
    ∧ ((Filter.tryFrom ((build 300 [5, 0x8000000000000001]).toBytes.take 63)).toOption).isNone = true
    ∧ ((Filter.tryFrom ((build 300 [5, 0x8000000000000001]).toBytes.take 32)).toOption).map (·.blocks.length) = some 1 := by
  decide +kernel
/-- the filter is not the constant "maybe": on the empty table's filter every key is ruled out -/
example : (sealFilter (fun k => k.length) 17 SB.init).check 3 = false := by decide +kernel

end Bloom

-- BEGIN SstSetsum
/-! ## the setsum clause of the metadata

`SstBuilder::put` / `del` call `self.setsum.put(key, timestamp, value)` / `self.setsum.del(key,
timestamp)` after the entry is in the block, and `seal` writes `builder.setsum.digest()` into the
final block.  `Blue/Model/SstSetsum.lean` has the framing of sst/src/setsum.rs (`entryPieces`:
`[[8], key, timestamp.to_le_bytes(), value]` for a put, `[[9], key, timestamp.to_le_bytes()]` for
a tombstone), the item of an entry in the C14 group (`entryItem`), the builder's accumulator
(`builderSetsum`: `Setsum::default()`, one `insert_vectored` per accepted entry) and the 32 bytes
`seal` stores (`sealSetsum`).  SHA3-256 is a parameter, as in C14: `hash` maps the bytes fed to
the hasher to the eight little-endian 32-bit words of the hash, and every statement holds for
EVERY such function (`hW`: its values are `u32` words).  That the real builder's digest is this
value with `hash` = SHA3-256 is the harness comparison (every table setsum recomputed through
`sst::Setsum::{put, del}` and through the published definition). -/
section SstSetsum
open Blue.SstSetsum

/-- NEW: a put and a tombstone are never the same item (marker piece `[8]` / `[9]`), for any keys,
    timestamps and value -/
theorem put_del_distinct_pieces (k k' : List Nat) (t t' : Nat) (v : List Nat) :
    entryPieces ⟨k, t, some v⟩ ≠ entryPieces ⟨k', t', none⟩
    ∧ entryBytes ⟨k, t, some v⟩ ≠ entryBytes ⟨k', t', none⟩
    ∧ (entryPieces ⟨k, t, some v⟩).head? = some [8] ∧ (entryPieces ⟨k', t', none⟩).head? = some [9] :=
  Blue.SstSetsum.put_del_distinct_pieces k k' t t' v

/-- NEW: what IS injective about the framing (`u64` timestamps): tombstones among themselves, and
    puts whose keys have the same length -/
theorem setsum_framing_injective_part :
    (∀ (k k' : List Nat) (t t' : Nat), t < U64 → t' < U64 →
        entryBytes ⟨k, t, none⟩ = entryBytes ⟨k', t', none⟩ → k = k' ∧ t = t')
    ∧ (∀ (k k' : List Nat) (t t' : Nat) (v v' : List Nat), t < U64 → t' < U64 → k.length = k'.length →
        entryBytes ⟨k, t, some v⟩ = entryBytes ⟨k', t', some v'⟩ → k = k' ∧ t = t' ∧ v = v') :=
  ⟨fun _ _ _ _ ht ht' h => del_framing_injective ht ht' h,
   fun _ _ _ _ _ _ ht ht' hl h => put_framing_injective_same_key_length ht ht' hl h⟩

/-- NEW: what is NOT (DESIGN, "entry framing is not injective"): no piece is length-prefixed, so two
    puts are the same item exactly when `key ‖ ts_le ‖ value` is the same byte string; the put of
    `k` collides with the put of a longer key `k ‖ x` iff `ts_le ‖ value = x ‖ ts'_le ‖ value'`;
    and a concrete pair of different entries with one item: `put("", 1, [0])`, `put([1], 0, "")`
    (both hash the ten bytes `08 01 00 00 00 00 00 00 00 00`) -/
theorem setsum_put_framing_not_injective :
    (∀ (k k' : List Nat) (t t' : Nat) (v v' : List Nat),
        entryBytes ⟨k, t, some v⟩ = entryBytes ⟨k', t', some v'⟩ ↔ k ++ le64 t ++ v = k' ++ le64 t' ++ v')
    ∧ (∀ (k x : List Nat) (t t' : Nat) (v v' : List Nat),
        entryBytes ⟨k, t, some v⟩ = entryBytes ⟨k ++ x, t', some v'⟩ ↔ le64 t ++ v = x ++ (le64 t' ++ v'))
    ∧ ((⟨[], 1, some [0]⟩ : KV) ≠ ⟨[1], 0, some []⟩
        ∧ entryBytes ⟨[], 1, some [0]⟩ = entryBytes ⟨[1], 0, some []⟩
        ∧ (entryPieces ⟨[], 1, some [0]⟩).flatten = [8, 1, 0, 0, 0, 0, 0, 0, 0, 0]) :=
  ⟨put_framing_collision_iff, put_framing_collision_family, put_framing_not_injective⟩

/-- NEW: the 32 bytes `seal` stores meet what the file round-trip theorems ask of their setsum
    parameter (`hsetsum`), and are bytes -/
theorem seal_setsum_length (hash : List Nat → Vector Nat 8) (s : SB) :
    (sealSetsum hash s).length = 32 ∧ ∀ b ∈ sealSetsum hash s, b < 256 :=
  Blue.SstSetsum.seal_setsum_length hash s

/-- NEW: the builder's accumulator (a left fold of `insert_vectored` from `Setsum::default()`) is
    the C14 group sum of the entries' items, is canonical, and is the same for every order of the
    calls -/
theorem builder_setsum_is_item_sum (hash : List Nat → Vector Nat 8) (hW : ∀ bs, Blue.Setsum.Words (hash bs))
    (es : List KV) :
    builderSetsum hash es = itemSum hash es
    ∧ builderSetsum hash es = Blue.Setsum.ofItems (es.map (entryWords hash))
    ∧ Blue.Setsum.Canonical (builderSetsum hash es)
    ∧ ∀ ys : List KV, es.Perm ys → builderSetsum hash es = builderSetsum hash ys :=
  ⟨builderSetsum_eq_itemSum hW es, builderSetsum_eq_ofItems hash es, builderSetsum_canonical hW es,
   fun _ p => builderSetsum_perm hW p⟩

/-- NEW: **the setsum clause.**  Feed any attempts to `SstBuilder`; `seal` writes the filter block
    and the setsum it computes itself (`sealFilter`, `sealSetsum`: neither is a parameter, no
    `hsetsum` / `hfilter` hypothesis); open the file image.  The table opens and `metadata()`
    returns, as its setsum, the digest of `Σ_{e ∈ accepted} entryItem hash e` in the C14 group
    (first / last key, timestamps and size as in `sst_file_roundtrip_limits`); the group element is
    canonical and `Setsum::from_digest` of the stored bytes is that element; the entries in any
    other order give the same 32 bytes; column `i` is the sum of the accepted entries' `i`-th hash
    words modulo the `i`-th prime (the published definition); and `accepted` is the list of
    attempts answered `Ok`, so a refused attempt contributes nothing. -/
theorem metadata_setsum_is_sum_of_accepted (hash : List Nat → Vector Nat 8)
    (hW : ∀ bs, Blue.Setsum.Words (hash bs))
    (h : List Nat → Nat) (o : SstOpts) (atts : List KV) (f : SstFile)
    (hseal : (SB.putAll o SB.init atts).2.seal o
        (Blue.Sbbf.sealFilter h o.bloomBits (SB.putAll o SB.init atts).2).toBytes
        (sealSetsum hash (SB.putAll o SB.init atts).2) = .ok f)
    (hts : ∀ e ∈ atts, e.ts ≤ U64MAX)
    (hsize : f.bytes.length < U64)
    (hbE : ∀ e ∈ atts, KVBytes e) :
    ∃ t, openSst crc32c f.bytes = .ok t
      ∧ t.metadata crc32c = .ok
          ⟨Blue.Setsum.digest (itemSum hash (SB.putAll o SB.init atts).2.accepted),
           (match (SB.putAll o SB.init atts).2.accepted.head? with | some e => e.key | none => []),
           (match (SB.putAll o SB.init atts).2.accepted.getLast? with | some e => e.key | none => MAX_KEY),
           f.fin.smallest, f.fin.biggest, f.bytes.length⟩
      ∧ f.fin.setsum = Blue.Setsum.digest (itemSum hash (SB.putAll o SB.init atts).2.accepted)
      ∧ Blue.Setsum.Canonical (itemSum hash (SB.putAll o SB.init atts).2.accepted)
      ∧ Blue.Setsum.fromDigest f.fin.setsum = some (itemSum hash (SB.putAll o SB.init atts).2.accepted)
      ∧ (∀ ys : List KV, ys.Perm (SB.putAll o SB.init atts).2.accepted →
          Blue.Setsum.digest (itemSum hash ys) = f.fin.setsum)
      ∧ (∀ (i : Nat) (hi : i < 8), (itemSum hash (SB.putAll o SB.init atts).2.accepted)[i]
          = (((SB.putAll o SB.init atts).2.accepted.map (entryWords hash)).map (fun w => w[i])).sum
              % Blue.Setsum.primes[i])
      ∧ (SB.putAll o SB.init atts).2.accepted = acceptedOfB (SB.putAll o SB.init atts).1 atts :=
  Blue.SstSetsum.metadata_setsum_is_sum_of_accepted hash hW h o atts f hseal hts hsize hbE

/-- NEW: the setsum of a table whose entries are those of two other tables (in any order) is the
    sum of their setsums — on the stored digests: `from_digest` of the two, `+`, `digest()` -/
theorem setsum_of_concat_files (hash : List Nat → Vector Nat 8) (hW : ∀ bs, Blue.Setsum.Words (hash bs))
    (s sx sy : SB) (hacc : s.accepted.Perm (sx.accepted ++ sy.accepted)) :
    ∃ a b, Blue.Setsum.fromDigest (sealSetsum hash sx) = some a ∧ Blue.Setsum.fromDigest (sealSetsum hash sy) = some b
      ∧ a = itemSum hash sx.accepted ∧ b = itemSum hash sy.accepted
      ∧ sealSetsum hash s = Blue.Setsum.digest (Blue.Setsum.add a b) :=
  Blue.SstSetsum.setsum_of_concat_files hW s sx sy hacc

/-- NEW: `Σ inputs = Σ outputs` (what C04 / C05 use): the sum over entries is additive over `++`,
    and whenever the output tables' entries are a permutation of the input tables' entries (the
    pieces of any cut of the merged inputs: C05 `pipeline_conserves_entries`) the group sum of the
    outputs' setsums is the group sum of the inputs' setsums -/
theorem compaction_setsum_conserved (hash : List Nat → Vector Nat 8) (hW : ∀ bs, Blue.Setsum.Words (hash bs)) :
    (∀ xs ys : List KV, itemSum hash (xs ++ ys) = Blue.Setsum.add (itemSum hash xs) (itemSum hash ys))
    ∧ (∀ tables : List (List KV), tablesSum hash tables = itemSum hash tables.flatten)
    ∧ (∀ ins outs : List (List KV), outs.flatten.Perm ins.flatten → tablesSum hash outs = tablesSum hash ins) :=
  ⟨itemSum_append hW, tablesSum_eq_flatten hW, fun ins outs hp => Blue.SstSetsum.compaction_setsum_conserved hW ins outs hp⟩

/-- NEW: 32 hash bytes read as `hash_to_state` reads them (eight little-endian `u32`) meet `hW`: for a
    byte-valued hash `H`, `fun bs => wordsOfHashBytes (H bs)` is an admissible `hash` -/
theorem hash_bytes_are_words (d : List Nat) (hd : ∀ b ∈ d, b < 256) : Blue.Setsum.Words (wordsOfHashBytes d) :=
  wordsOfHashBytes_words d hd

/-! non-vacuity: four attempts — a put, a tombstone of the same key, an out-of-order put (refused),
    a put — with a toy hash (`toyHash`: positional folds of the bytes, one multiplier per column) -/
def setsumAtts : List KV := [⟨[97], 9, some [1]⟩, ⟨[97], 8, none⟩, ⟨[96], 1, some []⟩, ⟨[98], 5, some [3]⟩]
def setsumAcc : List KV := [⟨[97], 9, some [1]⟩, ⟨[97], 8, none⟩, ⟨[98], 5, some [3]⟩]

example : ∀ bs, Blue.Setsum.Words (toyHash bs) := toyHash_words
example : (SB.putAll multiOpts SB.init setsumAtts).2.accepted = setsumAcc
    ∧ (SB.putAll multiOpts SB.init setsumAtts).1 = [none, none, some (.put .sortOrder), none] := by decide +kernel
example : setsumAcc.map entryPieces
    = [[[8], [97], [9, 0, 0, 0, 0, 0, 0, 0], [1]], [[9], [97], [8, 0, 0, 0, 0, 0, 0, 0]],
       [[8], [98], [5, 0, 0, 0, 0, 0, 0, 0], [3]]] := by decide
/-- the stored bytes, evaluated; the same in another order; the refused attempt would have changed them -/
example : sealSetsum toyHash (SB.putAll multiOpts SB.init setsumAtts).2
      = Blue.Setsum.digest (itemSum toyHash setsumAcc)
    ∧ Blue.Setsum.digest (itemSum toyHash setsumAcc) = Blue.Setsum.digest (itemSum toyHash setsumAcc.reverse)
    ∧ Blue.Setsum.digest (itemSum toyHash setsumAcc) ≠ Blue.Setsum.digest (itemSum toyHash setsumAtts)
    ∧ Blue.Setsum.digest (itemSum toyHash setsumAcc) ≠ Blue.Setsum.digest Blue.Setsum.zero := by decide +kernel

/-- every hypothesis of `metadata_setsum_is_sum_of_accepted` holds on the instance (bloom hash: the
    key's length, as in the filter instance above), and its conclusion is instantiated -/
theorem setsum_instance :
    ∃ f t, (SB.putAll multiOpts SB.init setsumAtts).2.seal multiOpts
          (Blue.Sbbf.sealFilter (fun k => k.length) multiOpts.bloomBits (SB.putAll multiOpts SB.init setsumAtts).2).toBytes
          (sealSetsum toyHash (SB.putAll multiOpts SB.init setsumAtts).2) = .ok f
      ∧ openSst crc32c f.bytes = .ok t
      ∧ (t.metadata crc32c).toOption.map (·.setsum) = some (Blue.Setsum.digest (itemSum toyHash setsumAcc))
      ∧ Blue.Setsum.fromDigest f.fin.setsum = some (itemSum toyHash setsumAcc) := by
  have hchk : (match (SB.putAll multiOpts SB.init setsumAtts).2.seal multiOpts
          (Blue.Sbbf.sealFilter (fun k => k.length) multiOpts.bloomBits (SB.putAll multiOpts SB.init setsumAtts).2).toBytes
          (sealSetsum toyHash (SB.putAll multiOpts SB.init setsumAtts).2) with
      | .ok f => decide (f.bytes.length < U64) | .error _ => false) = true := by decide +kernel
  cases hf : (SB.putAll multiOpts SB.init setsumAtts).2.seal multiOpts
          (Blue.Sbbf.sealFilter (fun k => k.length) multiOpts.bloomBits (SB.putAll multiOpts SB.init setsumAtts).2).toBytes
          (sealSetsum toyHash (SB.putAll multiOpts SB.init setsumAtts).2) with
  | error e => rw [hf] at hchk; cases hchk
  | ok f =>
    rw [hf] at hchk
    have hsize : f.bytes.length < U64 := by simpa using hchk
    have hts : ∀ e ∈ setsumAtts, e.ts ≤ U64MAX := by decide
    have hacc : (SB.putAll multiOpts SB.init setsumAtts).2.accepted = setsumAcc := by decide +kernel
    have hbE : ∀ e ∈ setsumAtts, KVBytes e := by
      intro e he
      simp only [setsumAtts, List.mem_cons, List.mem_nil_iff, or_false] at he
      rcases he with rfl | rfl | rfl | rfl <;>
        (refine ⟨by unfold Bytes; decide, ?_⟩; intro v hv; cases hv <;> (unfold Bytes; decide))
    obtain ⟨t, ho, hm, _, _, hfd, _⟩ := Blue.Props.C10.metadata_setsum_is_sum_of_accepted toyHash toyHash_words
      (fun k => k.length) multiOpts setsumAtts f hf hts hsize hbE
    rw [hacc] at hm hfd
    exact ⟨f, t, rfl, ho, by rw [hm]; rfl, hfd⟩

end SstSetsum
-- END SstSetsum

-- BEGIN SstMeta
/-! ## the packed metadata bytes, the file-size bound, the multi-builder's roll-over rule

`Blue/Model/SstMetaMsg.lean` (the `SstMetadata` schema for the C15 interpreter, `split_hint`),
`Blue/Proofs/{SstMetaBytes,SstSize,SstMetaHeadline,SstMultiRoll}.lean`. -/
section SstMeta
open Blue.SstMetaMsg Blue.SstSetsum

/-- NEW (a): `SstMetadata::unpack(stack_pack(m)) = Ok(m)` for every value of the Rust type
    (`MetaOk`: 32-byte setsum, keys below 2^64 bytes, `u64` timestamps and file size); the encoder
    and decoder are the C15 derive-macro interpreter on the schema transcribed from lib.rs:1306-1326
    (fields 1 bytes32, 2 bytes, 3 bytes, 4/5/6 uint64), and the bytes are those of `encMetadata`,
    the function the check compares with the real `stack_pack` byte for byte -/
theorem metadata_bytes_roundtrip (m : Metadata) (h : MetaOk m) :
    unpackMeta (packMeta m) = .ok (some m) ∧ packMeta m = encMetadata m :=
  ⟨Blue.SstMetaMsg.metadata_bytes_roundtrip m h, packMeta_eq_encMetadata m⟩

/-- NEW (a): the schema handed to the interpreter carries the field numbers and wire types that are
    regenerated from `#[prototk(n, type)]` of `SstMetadata` on every run (`bytes32` / `bytes` are wire
    type 2, `uint64` wire type 0; that field 1 is exactly 32 bytes is the transcription) -/
theorem metadata_schema_from_source :
    (match metaSchema with
      | .struct fs => fs.map (fun f => (f.num, f.ty.wt.bits))
      | _ => []) = Blue.Generated.sstMetadataFields.zip Blue.Generated.sstMetadataWire := metaSchema_from_source

/-- NEW (a): the packed metadata of a builder-written file (filter and setsum computed by `seal`, no
    file-size hypothesis): `metadata()` returns a value of the Rust type whose packing is the wire
    image of exactly (digest of the item sum over the accepted entries, first key, last key,
    smallest / biggest accepted timestamp — `0, 0` for none —, file length), and unpacking those
    bytes returns it -/
theorem metadata_bytes_of_sealed_file (hash : List Nat → Vector Nat 8)
    (hW : ∀ bs, Blue.Setsum.Words (hash bs))
    (h : List Nat → Nat) (o : SstOpts) (atts : List KV) (f : SstFile)
    (hseal : (SB.putAll o SB.init atts).2.seal o
        (Blue.Sbbf.sealFilter h o.bloomBits (SB.putAll o SB.init atts).2).toBytes
        (sealSetsum hash (SB.putAll o SB.init atts).2) = .ok f)
    (hts : ∀ e ∈ atts, e.ts ≤ U64MAX)
    (hbE : ∀ e ∈ atts, KVBytes e) :
    let acc := (SB.putAll o SB.init atts).2.accepted
    ∃ t md, openSst crc32c f.bytes = .ok t ∧ t.metadata crc32c = .ok md
      ∧ md = ⟨Blue.Setsum.digest (itemSum hash acc),
              (match acc.head? with | some e => e.key | none => []),
              (match acc.getLast? with | some e => e.key | none => MAX_KEY),
              f.fin.smallest, f.fin.biggest, f.bytes.length⟩
      ∧ MetaOk md
      ∧ packMeta md = encMetadata md
      ∧ unpackMeta (packMeta md) = .ok (some md)
      ∧ (∀ e ∈ acc, f.fin.smallest ≤ e.ts ∧ e.ts ≤ f.fin.biggest)
      ∧ (acc ≠ [] → (∃ e ∈ acc, e.ts = f.fin.smallest) ∧ ∃ e ∈ acc, e.ts = f.fin.biggest)
      ∧ (acc = [] → f.fin.smallest = 0 ∧ f.fin.biggest = 0)
      ∧ f.bytes.length ≤ FILE_SIZE_BOUND :=
  Blue.SstOpen.metadata_bytes_of_sealed_file hash hW h o atts f hseal hts hbE

/-- NEW (c): **the file-size bound derived from the builders' checks**: for every attempt sequence
    with `u64` timestamps and EVERY option value, a sealed file is at most `FILE_SIZE_BOUND` bytes
    (an explicit constant below 2^63): fewer than 2^32 data blocks (one index entry each; the index
    block is a `BlockBuilder` that refuses at `TABLE_FULL_SIZE`), each below 2^30 + 54 framed bytes
    (`BlockBuilder::put` refuses at `TABLE_FULL_SIZE`, entries are within the key / value limits),
    the index frame, the filter frame (a `u32` bit count), the final block.  Coarse on purpose: the
    real table is also held near 960 MiB by `SstBuilder::put`'s own `check_table_size`, which this
    bound does not use (the bound that does: `sealed_file_size_le_table_full_plus`, block `SstApprox`). -/
theorem file_size_bound_from_table_full (o : SstOpts) (atts : List KV) (filter setsum : List Nat) (f : SstFile)
    (hseal : (SB.putAll o SB.init atts).2.seal o filter setsum = .ok f)
    (hts : ∀ e ∈ atts, e.ts ≤ U64MAX)
    (hsetsum : setsum.length = 32)
    (hfilter : filter.length = filterLen (SB.putAll o SB.init atts).2.count o.bloomBits) :
    f.bytes.length ≤ FILE_SIZE_BOUND ∧ FILE_SIZE_BOUND < 9223372036854775808 ∧ FILE_SIZE_BOUND < U64 :=
  ⟨file_size_bound o atts filter setsum f hseal hts hsetsum hfilter, file_size_bound_lt.1, file_size_bound_lt.2⟩

/-- NEW (c): `sst_file_roundtrip_limits` with the `hsize` hypothesis discharged -/
theorem sst_file_roundtrip_no_size_hyp (o : SstOpts) (atts : List KV) (filter setsum : List Nat) (f : SstFile)
    (hseal : (SB.putAll o SB.init atts).2.seal o filter setsum = .ok f)
    (hts : ∀ e ∈ atts, e.ts ≤ U64MAX)
    (hsetsum : setsum.length = 32)
    (hfilter : filter.length = filterLen (SB.putAll o SB.init atts).2.count o.bloomBits)
    (hbE : ∀ e ∈ atts, KVBytes e) (hbF : Bytes filter) :
    ∃ t, openSst crc32c f.bytes = .ok t
      ∧ (∀ ops : List KOp, t.run crc32c t.toFirst ops
          = (Ref.run ⟨(SB.putAll o SB.init atts).2.accepted, 0⟩ (ops.map KOp.toOp)).map .ok)
      ∧ (∀ (k : List Nat) (ts : Nat), t.load crc32c k ts = .ok (loadSpec (SB.putAll o SB.init atts).2.accepted k ts))
      ∧ t.metadata crc32c = .ok
          ⟨setsum,
           (match (SB.putAll o SB.init atts).2.accepted.head? with | some e => e.key | none => []),
           (match (SB.putAll o SB.init atts).2.accepted.getLast? with | some e => e.key | none => MAX_KEY),
           f.fin.smallest, f.fin.biggest, f.bytes.length⟩
      ∧ t.forward crc32c = ((SB.putAll o SB.init atts).2.accepted, none)
      ∧ t.backward crc32c = ((SB.putAll o SB.init atts).2.accepted.reverse, none) :=
  Blue.SstOpen.sst_file_roundtrip_no_size_hyp o atts filter setsum f hseal hts hsetsum hfilter hbE hbF

/-- NEW (c): `sst_file_roundtrip_bcur_limits` with the `hsize` hypothesis discharged -/
theorem sst_file_roundtrip_bcur_no_size_hyp (o : SstOpts)
    (ho : 1 ≤ o.blk.bytesRestartInterval ∧ 1 ≤ o.blk.pairsRestartInterval)
    (atts : List KV) (filter setsum : List Nat) (f : SstFile)
    (hseal : (SB.putAll o SB.init atts).2.seal o filter setsum = .ok f)
    (hts : ∀ e ∈ atts, e.ts ≤ U64MAX)
    (hsetsum : setsum.length = 32)
    (hfilter : filter.length = filterLen (SB.putAll o SB.init atts).2.count o.bloomBits)
    (hbE : ∀ e ∈ atts, KVBytes e) (hbF : Bytes filter) :
    ∃ t, openSst crc32c f.bytes = .ok t
      ∧ (∀ ops : List KOp, t.runB crc32c t.toFirstB ops
          = (Ref.run ⟨(SB.putAll o SB.init atts).2.accepted, 0⟩ (ops.map KOp.toOp)).map .ok)
      ∧ (∀ (k : List Nat) (ts : Nat), t.loadB crc32c k ts = .ok (loadSpec (SB.putAll o SB.init atts).2.accepted k ts))
      ∧ t.metadataB crc32c = .ok
          ⟨setsum,
           (match (SB.putAll o SB.init atts).2.accepted.head? with | some e => e.key | none => []),
           (match (SB.putAll o SB.init atts).2.accepted.getLast? with | some e => e.key | none => MAX_KEY),
           f.fin.smallest, f.fin.biggest, f.bytes.length⟩
      ∧ t.forwardB crc32c = ((SB.putAll o SB.init atts).2.accepted, none)
      ∧ t.backwardB crc32c = ((SB.putAll o SB.init atts).2.accepted.reverse, none)
      ∧ (∀ ops : List KOp, t.runB crc32c t.toFirstB ops = t.run crc32c t.toFirst ops) :=
  Blue.SstOpen.sst_file_roundtrip_bcur_no_size_hyp o ho atts filter setsum f hseal hts hsetsum hfilter hbE hbF

/-- NEW (b): **the roll-over rule** of `SstMultiBuilder::get_builder` (lib.rs:2138-2155) as an iff on
    the state: after its test no builder is open — the entry goes to a fresh file — iff no builder
    was open or the open builder's `approximate_size()` had reached `TABLE_FULL_SIZE` or
    `options.target_file_size`; when the test fires, the open builder, unchanged, becomes the last
    sealed file; otherwise the state is unchanged.  (That `MB.roll` is the decision of the real
    `get_builder` remains correspondence.) -/
theorem multi_builder_roll_rule (o : SstOpts) (m : MB) :
    ((m.roll o).cur = none ↔ m.startsNewFile o)
    ∧ (∀ s, m.cur = some s → (s.approxSize ≥ TABLE_FULL_SIZE ∨ s.approxSize ≥ o.targetFileSize) →
        m.roll o = { m with sealed := m.sealed ++ [s], cur := none })
    ∧ (∀ s, m.cur = some s → ¬ (s.approxSize ≥ TABLE_FULL_SIZE ∨ s.approxSize ≥ o.targetFileSize) → m.roll o = m)
    ∧ (m.cur = none → m.roll o = m) := roll_rule o m

/-- NEW (b): **attempts and split hints** (`split_hint`, lib.rs:2127-2136: seals the open builder
    iff its approximate size has reached `TABLE_FULL_SIZE` or `minimum_file_size`).  After any run
    of `put` / `del` attempts and hints: every file is an `SstBuilder` state reached from `new`
    (the table theorems apply per file); the files' entries in file order are exactly the attempts
    answered `Ok`, in the order made — a hint neither drops nor reorders an entry — strictly sorted
    across files; every file except the open (last) one had reached `TABLE_FULL_SIZE`, the target
    file size, or (cut by a hint) the minimum file size when it was closed.  Extends
    `multi_builder_files_sorted` (the run without hints: last conjunct). -/
theorem multi_builder_hints_and_cuts (o : SstOpts) (minSize : Nat) (cs : List MCall) :
    (let r := MB.runCalls o minSize MB.init cs
     (∀ s ∈ r.2.files, ∃ as, s = (SB.putAll o SB.init as).2)
     ∧ r.2.files.flatMap (·.accepted) = acceptedOfB r.1 (attemptsOf cs)
     ∧ Sorted (acceptedOfB r.1 (attemptsOf cs))
     ∧ (∀ s ∈ r.2.sealed, s.approxSize ≥ TABLE_FULL_SIZE ∨ s.approxSize ≥ o.targetFileSize ∨ s.approxSize ≥ minSize))
    ∧ (∀ atts : List KV, MB.runCalls o minSize MB.init (atts.map MCall.att) = MB.putAll o MB.init atts
        ∧ attemptsOf (atts.map MCall.att) = atts) :=
  ⟨mb_calls_files o minSize cs, fun atts => runCalls_atts o minSize atts MB.init⟩

/-- NEW (b): **no file is empty**: with `u64` timestamps, after any run of attempts and hints every
    file — sealed or open — holds at least one accepted entry.  (A file is created only for an
    entry that passed the multi-builder's own checks; `("", u64::MAX)` is the least key, so the
    fresh `SstBuilder` and its fresh `BlockBuilder` cannot refuse that entry.  In the code a
    builder whose first `put` failed would stay open and be sealed empty: the theorem says this
    cannot happen, I/O errors aside.) -/
theorem multi_builder_no_empty_file (o : SstOpts) (minSize : Nat) (cs : List MCall)
    (hts : ∀ e ∈ attemptsOf cs, e.ts ≤ U64MAX) :
    ∀ s ∈ (MB.runCalls o minSize MB.init cs).2.files, s.accepted ≠ [] := mb_no_empty_file o minSize cs hts

/-! non-vacuity -/
/-- a concrete metadata value and its bytes: field 1 (tag 0x0a, length 0x20) the setsum, field 2
    (0x12) the first key "a", field 3 (0x1a) the last key "zz", fields 4, 5, 6 (0x20, 0x28, 0x30)
    the varints 1, 300 (ac 02), 1000 (e8 07) -/
def metaSample : Metadata := ⟨List.replicate 32 0xab, [0x61], [0x7a, 0x7a], 1, 300, 1000⟩
example : packMeta metaSample = [0x0a, 0x20, 0xab, 0xab, 0xab, 0xab, 0xab, 0xab, 0xab, 0xab, 0xab, 0xab, 0xab, 0xab, 0xab, 0xab, 0xab, 0xab, 0xab, 0xab, 0xab, 0xab, 0xab, 0xab, 0xab, 0xab, 0xab, 0xab, 0xab, 0xab, 0xab, 0xab, 0xab, 0xab, 0x12, 0x01, 0x61, 0x1a, 0x02, 0x7a, 0x7a, 0x20, 0x01, 0x28, 0xac, 0x02, 0x30, 0xe8, 0x07] := by decide +kernel
example : MetaOk metaSample := ⟨by decide, by decide, by decide, by decide, by decide, by decide⟩
example : (match unpackMeta (packMeta metaSample) with | .ok (some m) => decide (m = metaSample) | _ => false) = true := by
  decide +kernel
/-- three accepted entries, target file size 210: one small entry brings a file to approximate
    size 200, two to 212 >= 210, so the roll-over happens exactly once, before the third entry;
    all three are accepted and stay in order -/
def rollOpts : SstOpts := ⟨⟨16, 16⟩, 4096, 17, 210⟩
def rollAtts : List KV := [⟨[1], 5, some [9]⟩, ⟨[2], 5, some [9]⟩, ⟨[3], 5, none⟩]
example : (MB.putAll rollOpts MB.init rollAtts).1.map Option.isNone = [true, true, true] := by decide +kernel
example : (MB.putAll rollOpts MB.init rollAtts).2.sealed.map (fun s => (s.approxSize, s.accepted.map (·.key)))
    = [(212, [[1], [2]])] := by decide +kernel
example : (MB.putAll rollOpts MB.init rollAtts).2.cur.map (fun s => s.accepted.map (·.key)) = some [[3]] := by
  decide +kernel
/-- the rule on that run: after two entries `startsNewFile` holds, after one it does not -/
example : (MB.putAll rollOpts MB.init (rollAtts.take 2)).2.startsNewFile rollOpts :=
  (multi_builder_roll_rule rollOpts _).1.mp (Option.isNone_iff_eq_none.mp (by decide +kernel))
example : ¬ (MB.putAll rollOpts MB.init (rollAtts.take 1)).2.startsNewFile rollOpts := fun h =>
  absurd (Option.isNone_iff_eq_none.mpr ((multi_builder_roll_rule rollOpts _).1.mpr h)) (by decide +kernel)
example : ∀ e ∈ attemptsOf (rollAtts.map MCall.att), e.ts ≤ U64MAX := by decide +kernel
/-- a hint with minimum file size 100 cuts after the first entry; nothing is dropped or reordered -/
example : (MB.runCalls rollOpts 100 MB.init [.att ⟨[1], 5, some [9]⟩, .hint, .att ⟨[2], 5, some [9]⟩]).2.files.map
    (fun s => s.accepted.map (·.key)) = [[[1]], [[2]]] := by decide +kernel
/-- and a hint below the minimum file size (1000) does nothing -/
example : (MB.runCalls rollOpts 1000 MB.init [.att ⟨[1], 5, some [9]⟩, .hint, .att ⟨[2], 5, some [9]⟩]).2.files.map
    (fun s => s.accepted.map (·.key)) = [[[1], [2]]] := by decide +kernel
/-- the hypotheses of `file_size_bound_from_table_full` / `sst_file_roundtrip_no_size_hyp` hold
    together on the closed instance of `multi_block_instance` (same statement minus `hsize`); here:
    the empty table -/
example : ∃ f, (SB.putAll rollOpts SB.init []).2.seal rollOpts (List.replicate 32 0) (List.replicate 32 0) = .ok f
    ∧ (List.replicate 32 0).length = filterLen (SB.putAll rollOpts SB.init []).2.count rollOpts.bloomBits :=
  ⟨_, rfl, by decide⟩
end SstMeta
-- END SstMeta

-- BEGIN SstApprox
/-! ## `approximate_size` against the bytes written: the table bound of about 960 MiB

`Blue/Proofs/SstApprox.lean`.  In the Rust (lib.rs:1976-1992, block.rs:293) `approximate_size` is
`bytes_written + open block's (buffer + 16 + 4·restarts) + 1 + index block's (same) + FINAL_BLOCK_MAX_SZ`;
`put` / `del` test `check_table_size(self.approximate_size())` — the size *before* the entry, no
entry size is added — and the filter is **not** counted (deferred inserts, sized at `seal`). -/
section SstApprox

/-- NEW: **`approximate_size` tracks the bytes.**  At every state the builder reaches (any attempts
    with `u64` timestamps, any options): `bytes_written` is exactly the data block frames written;
    the open block's frame will be within `[estimate − 16, estimate + 38]`; so is the index block's;
    `seal`'s closing flush leaves no open block and raises the estimate by at most 49342 (38 + one
    index entry ≤ 49300 + 4), after which data frames + index frame + 110 ≤ estimate; and the
    estimate is below `TABLE_FULL_SIZE + APPROX_STEP` (98666: what one accepted entry can add).
    Constants are the coarse ones of `SstSize.lean` (every varint taken as 10 bytes). -/
theorem approx_size_tracks_bytes (o : SstOpts) (atts : List KV) (hts : ∀ e ∈ atts, e.ts ≤ U64MAX) :
    let s := (SB.putAll o SB.init atts).2
    s.bytesWritten = (s.blocks.flatMap (frame SE_PLAIN)).length
    ∧ (∀ c, s.cur = some c → (frame SE_PLAIN c.b.seal).length ≤ c.b.approxSize + 38
        ∧ c.b.approxSize ≤ (frame SE_PLAIN c.b.seal).length + 16)
    ∧ ((frame SE_PLAIN s.index.b.seal).length ≤ s.index.b.approxSize + 38
        ∧ s.index.b.approxSize ≤ (frame SE_PLAIN s.index.b.seal).length + 16)
    ∧ (∀ s1, sealedState o s = .ok s1 → s1.cur = none ∧ s1.approxSize ≤ s.approxSize + 49342
        ∧ (s1.blocks.flatMap (frame SE_PLAIN)).length + (frame SE_PLAIN s1.index.b.seal).length + 110
            ≤ s1.approxSize)
    ∧ s.approxSize < TABLE_FULL_SIZE + APPROX_STEP :=
  Blue.Sst.approx_size_tracks_bytes o atts hts

/-- NEW: **the table bound**: every sealed file is shorter than `TABLE_FULL_SIZE + SLACK o count`,
    `SLACK = 148186 + filterLen count bloomBits` — the filter block is the only part that is not in
    `approximate_size`; for all options and counts shorter than `TABLE_FULL_SIZE + SLACK_MAX`
    = 1006632960 + 148186 + 2^29 = 1543652058 < 2^31.  From `SstBuilder::put`'s own
    `check_table_size(self.approximate_size())`; sharpens `file_size_bound_from_table_full` (2^62),
    which stays, as does `sst_file_roundtrip_no_size_hyp`. -/
theorem sealed_file_size_le_table_full_plus (o : SstOpts) (atts : List KV) (filter setsum : List Nat) (f : SstFile)
    (hseal : (SB.putAll o SB.init atts).2.seal o filter setsum = .ok f)
    (hts : ∀ e ∈ atts, e.ts ≤ U64MAX)
    (hsetsum : setsum.length = 32)
    (hfilter : filter.length = filterLen (SB.putAll o SB.init atts).2.count o.bloomBits) :
    f.bytes.length < TABLE_FULL_SIZE + SLACK o (SB.putAll o SB.init atts).2.count
    ∧ f.bytes.length < TABLE_FULL_SIZE + SLACK_MAX
    ∧ TABLE_FULL_SIZE + SLACK_MAX < 2147483648 :=
  Blue.Sst.sealed_file_size_le_table_full_plus o atts filter setsum f hseal hts hsetsum hfilter

/-- NEW: **the filter block from the entry count** (the dominant slack for tiny entries):
    `bloomBits` bits per accepted entry rounded up to bytes, plus at most one 32-byte block; never
    above 2^29 bytes (`u32` bit count, saturating) — reached exactly when `count·bits ≥ 4294967033` -/
theorem filter_block_from_count (count bits : Nat) :
    filterLen count bits ≤ (count * bits + 7) / 8 + 32 ∧ filterLen count bits ≤ 536870912 :=
  filterLen_le_count count bits

/-! non-vacuity: three entries, target block size 20 (every entry flushes the block before it) -/
def apxOpts : SstOpts := ⟨⟨16, 16⟩, 20, 17, 210⟩
example : ∀ e ∈ rollAtts, e.ts ≤ U64MAX := by decide +kernel
/-- before `seal`: two blocks written (50 bytes, exactly the frames), one open; estimate 291 -/
example : ((SB.putAll apxOpts SB.init rollAtts).2.approxSize, (SB.putAll apxOpts SB.init rollAtts).2.bytesWritten,
    ((SB.putAll apxOpts SB.init rollAtts).2.blocks.flatMap (frame SE_PLAIN)).length,
    (SB.putAll apxOpts SB.init rollAtts).2.count) = (291, 50, 50, 3) := by decide +kernel
/-- the sealed file: 265 bytes (3 data frames, index frame 81, filter frame 34, final block 78)
    against the estimate 291 — and against `TABLE_FULL_SIZE + SLACK` -/
example : (match (SB.putAll apxOpts SB.init rollAtts).2.seal apxOpts (List.replicate 32 0) (List.replicate 32 0) with
    | .ok f => decide (f.bytes.length = 265 ∧ f.blocks.length = 3 ∧ (frame SE_PLAIN f.index).length = 81)
    | .error _ => false) = true := by decide +kernel
example (f : SstFile)
    (h : (SB.putAll apxOpts SB.init rollAtts).2.seal apxOpts (List.replicate 32 0) (List.replicate 32 0) = .ok f) :
    f.bytes.length < TABLE_FULL_SIZE + SLACK apxOpts 3 := by
  have hc : (SB.putAll apxOpts SB.init rollAtts).2.count = 3 := by decide +kernel
  have := (sealed_file_size_le_table_full_plus apxOpts rollAtts _ _ f h (by decide +kernel) (by decide)
    (by rw [hc]; decide)).1
  rwa [hc] at this
example : SLACK apxOpts 3 = 148218 ∧ TABLE_FULL_SIZE + SLACK_MAX = 1543652058 := by decide
/-- the filter's worst case is attained: 43 bits per entry and 99882955 entries (an entry takes
    at least a byte of the table, so the count is not bounded away from this by `TABLE_FULL_SIZE`
    in the model) give the full 2^29 bytes; one entry fewer, one 32-byte block less -/
example : filterLen 99882955 43 = 536870912 ∧ filterLen 99882954 43 = 536870880 := by decide
end SstApprox
-- END SstApprox

end Blue.Props.C10

#print axioms Blue.Props.C10.limits_from_source
#print axioms Blue.Props.C10.decEntry_enc
#print axioms Blue.Props.C10.rebuild_key
#print axioms Blue.Props.C10.block_roundtrip
#print axioms Blue.Props.C10.builder_accepts_iff
#print axioms Blue.Props.C10.builder_rejects
#print axioms Blue.Props.C10.sst_builder_rejects
#print axioms Blue.Props.C10.sst_put_refuses
#print axioms Blue.Props.C10.limits_imply_wf
#print axioms Blue.Props.C10.accepted_wf
#print axioms Blue.Props.C10.block_builder_side_conditions
#print axioms Blue.Props.C10.side_conditions_from_limits
#print axioms Blue.Props.C10.multi_builder_files_sorted
#print axioms Blue.Props.C10.build_wf
#print axioms Blue.Props.C10.restarts_are_entry_offsets
#print axioms Blue.Props.C10.block_cursor_refines
#print axioms Blue.Props.C10.built_block_cursor_refines
#print axioms Blue.Props.C10.sealed_bytes_decode
#print axioms Blue.Props.C10.sealed_block_cursor_refines
#print axioms Blue.Props.C10.interval_zero_not_wf
#print axioms Blue.Props.C10.empty_block_cursor_refines
#print axioms Blue.Props.C10.sealed_empty_block_cursor
#print axioms Blue.Props.C10.sst_cursor_refines
#print axioms Blue.Props.C10.divide_keys_between
#print axioms Blue.Props.C10.minimal_successor_gt
#print axioms Blue.Props.C10.divide_keys_gives_divOk
#print axioms Blue.Props.C10.cut_cursor_refines
#print axioms Blue.Props.C10.load_spec_is_newest
#print axioms Blue.Props.C10.block_load_spec
#print axioms Blue.Props.C10.sst_load_spec
#print axioms Blue.Props.C10.sst_builder_refines_partial
#print axioms Blue.Props.C10.sst_file_roundtrip
#print axioms Blue.Props.C10.sst_file_roundtrip_crc32c
#print axioms Blue.Props.C10.table_block_cursor_refines
#print axioms Blue.Props.C10.sealed_blocks_good
#print axioms Blue.Props.C10.sst_file_roundtrip_bcur
#print axioms Blue.Props.C10.sst_file_roundtrip_bcur_crc32c
#print axioms Blue.Props.C10.sst_file_roundtrip_limits
#print axioms Blue.Props.C10.sst_file_roundtrip_bcur_limits
#print axioms Blue.Props.C10.final_block_and_index_entries_read_back
#print axioms Blue.Props.C10.divide_keys_assert_never_fires
#print axioms Blue.Props.C10.metadata_keys
#print axioms Blue.Props.C10.metadata_exact
#print axioms Blue.Props.C10.multi_builder_as_found_writes_unordered
#print axioms Blue.Props.C10.multi_block_instance
#print axioms Blue.Props.C10.bloom_block_idx_in_range
#print axioms Blue.Props.C10.bloom_new_nonempty
#print axioms Blue.Props.C10.bloom_never_panics
#print axioms Blue.Props.C10.bloom_no_false_negatives
#print axioms Blue.Props.C10.bloom_insert_monotone
#print axioms Blue.Props.C10.bloom_bytes_roundtrip
#print axioms Blue.Props.C10.bloom_try_from_total
#print axioms Blue.Props.C10.bloom_stored_filter_no_false_negatives
#print axioms Blue.Props.C10.sst_load_with_filter
#print axioms Blue.Props.C10.bloom_filter_block_fits
#print axioms Blue.Props.C10.bloom_constants_from_source
#print axioms Blue.Props.C10.put_del_distinct_pieces
#print axioms Blue.Props.C10.setsum_framing_injective_part
#print axioms Blue.Props.C10.setsum_put_framing_not_injective
#print axioms Blue.Props.C10.seal_setsum_length
#print axioms Blue.Props.C10.builder_setsum_is_item_sum
#print axioms Blue.Props.C10.metadata_setsum_is_sum_of_accepted
#print axioms Blue.Props.C10.setsum_of_concat_files
#print axioms Blue.Props.C10.compaction_setsum_conserved
#print axioms Blue.Props.C10.hash_bytes_are_words
#print axioms Blue.Props.C10.setsum_instance
#print axioms Blue.Props.C10.metadata_bytes_roundtrip
#print axioms Blue.Props.C10.metadata_bytes_of_sealed_file
#print axioms Blue.Props.C10.file_size_bound_from_table_full
#print axioms Blue.Props.C10.sst_file_roundtrip_no_size_hyp
#print axioms Blue.Props.C10.sst_file_roundtrip_bcur_no_size_hyp
#print axioms Blue.Props.C10.multi_builder_roll_rule
#print axioms Blue.Props.C10.multi_builder_hints_and_cuts
#print axioms Blue.Props.C10.multi_builder_no_empty_file
#print axioms Blue.Props.C10.metadata_schema_from_source
#print axioms Blue.Props.C10.approx_size_tracks_bytes
#print axioms Blue.Props.C10.sealed_file_size_le_table_full_plus
#print axioms Blue.Props.C10.filter_block_from_count
