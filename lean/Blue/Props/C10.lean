import Blue.Proofs.SstCur
import Blue.Proofs.Block
import Blue.Proofs.BlockCursor
import Blue.Proofs.BlockRestarts
/-! Property C10: the theorems the check builds and audits (spike inventory; the build phase
    completes the list from DESIGN Appendix C.0). -/
#print axioms Blue.Block.build_wf
#print axioms Blue.Block.built_block_cursor_refines
#print axioms Blue.Block.interval_zero_not_wf
#print axioms Blue.Cursor.sst_cursor_refines
