import Blue.Proofs.Setsum
import Blue.Proofs.SetsumDigest
/-! Property C14: the theorems the check builds and audits (spike inventory; the build phase
    completes the list from DESIGN Appendix C.0). -/
