import Blue.Proofs.Setsum
import Blue.Proofs.SetsumDigest
import Blue.Proofs.SetsumProg
import Blue.Proofs.ConstsTie
/-! # Property C14 — setsum is an order-independent, invertible, composable multiset checksum

Property theorems only (helper lemmas live in `Blue/Proofs/Setsum*.lean`).  The model
(`Blue/Model/Setsum.lean`) keeps the `u32`/`u64` conversions of `setsum/src/lib.rs` and the
arithmetic underflow of `invert_state` as an explicit `none`.  The SHA3-256 hash is a parameter:
an item enters as the eight little-endian 32-bit words of its hash (`Words`).

Every `Setsum` value the API can produce is `Canonical` (each column below its prime):
`zero`, `insert`, `remove`, `add`, `sub` preserve it and the repaired `from_digest` establishes it
for *every* 32-byte input — so the laws below hold for all values, including those that come
from digests with columns in `p … 2^32-1`.

Level of the statements: an item is its eight hash WORDS (`Words`: eight values below 2^32).  The
step from an item's bytes (and from the pieces of a vectored item) to SHA3-256 and from the 32
hash bytes to eight little-endian words is not in the model; the harness compares it with Python
`hashlib` on every generated item.  `matches_definition` is therefore the published definition
*from the hash words on*; its right-hand side (`List.sum`, `%`) shares nothing with the model's
`addCol` / `reduceCol` (conditional subtractions on `u32`/`u64`).

Orders of calls: `order_independent` is about insert-only sequences; the mixed case (any order of
insert / remove / add / subtract, including a remove before the matching insert) is
`mixed_order_independent`, `mixed_never_underflows` and `mixed_is_multiset_difference`
(`Blue.Setsum.step` has the same four arms as the driver's `stepOp`, which answers the `prog`
requests of the correspondence run: `insert s w`, `remove s w`, `add s t`, `sub s t`, with the
underflow of `invert_state` as `none` = the implementation's panic). -/
namespace Blue.Props.C14
open Blue.Setsum

/-- the primes the theorems are about are the ones in the Rust source (regenerated every run) -/
theorem primes_from_source : primes.toList = Blue.Generated.setsumPrimes := Blue.ConstsTie.setsum_primes

/-- every value is canonical: closure of the whole API (`zero`, `add`, `sub`, `insert`, `remove`,
    `from_digest` on every 32-byte input, `from_hexdigest` on every string it accepts); `sub` and
    `remove` never underflow on canonical values -/
theorem api_closed :
    Canonical zero
    ∧ (∀ a b, Canonical a → Canonical b → Canonical (add a b))
    ∧ (∀ a b, Canonical a → Canonical b → ∃ c, sub a b = some c ∧ Canonical c)
    ∧ (∀ s w, Canonical s → Words w → Canonical (insert s w))
    ∧ (∀ s w, Canonical s → Words w → ∃ c, remove s w = some c ∧ Canonical c)
    ∧ (∀ d s, Bytes d → fromDigest d = some s → Canonical s)
    ∧ (∀ cs s, fromHexdigest cs = some s → Canonical s) :=
  ⟨canonical_zero, fun _ _ ha hb => canonical_add ha hb, fun _ _ ha hb => sub_canonical ha hb,
   fun _ _ hs hw => canonical_insert hs hw, fun _ _ hs hw => canonical_remove hs hw,
   fun _ _ hb h => fromDigest_canonical hb h, fun _ _ h => fromHexdigest_canonical h⟩

/-- insertion order does not matter -/
theorem order_independent {xs ys : List (Vector Nat 8)} (p : xs.Perm ys) (hw : ∀ w ∈ xs, Words w) :
    ofItems xs = ofItems ys := Blue.Setsum.order_independent p hw

/-- the setsum of a union is the sum of the setsums -/
theorem union_is_sum {xs ys : List (Vector Nat 8)} (hx : ∀ w ∈ xs, Words w) (hy : ∀ w ∈ ys, Words w) :
    ofItems (xs ++ ys) = add (ofItems xs) (ofItems ys) := Blue.Setsum.union_is_sum hx hy

/-- removing an item undoes inserting it (and never underflows) -/
theorem remove_undoes_insert {s : State} {w : Vector Nat 8} (hs : Canonical s) (hw : Words w) :
    remove (insert s w) w = some s := remove_insert hs hw

/-- subtraction undoes addition (and never underflows) -/
theorem sub_undoes_add {a b : State} (ha : Canonical a) (hb : Canonical b) : sub (add a b) b = some a :=
  add_sub_cancel ha hb

/-- inserting an item undoes removing it, whether or not the item was there (and the removal never
    underflows) -/
theorem insert_undoes_remove {s : State} {w : Vector Nat 8} (hs : Canonical s) (hw : Words w) :
    (remove s w).map (fun c => insert c w) = some s := insert_remove hs hw

/-- addition undoes subtraction: `(a - b) + b = a` (and the subtraction never underflows).  Not a
    consequence of `group_laws`: the state `invert_state` produces is not canonical when a column is
    zero (`invert_not_canonical`) -/
theorem add_undoes_sub {a b : State} (ha : Canonical a) (hb : Canonical b) :
    (sub a b).map (fun c => add c b) = some a := sub_add_cancel ha hb

theorem invert_not_canonical : ∃ s, Canonical s ∧ ∃ t, invertState s = some t ∧ ¬ Canonical t :=
  Blue.Setsum.invert_not_canonical

/-- all orders of insert / remove / add / subtract: a program of calls (`Op`, run by `run` with the
    code's `invert_state` underflow as `none`) on operands the API can supply (`Op.Ok`: hashes are
    eight u32 words, setsum operands canonical) gives the same value in every order of the calls -/
theorem mixed_order_independent {xs ys : List Op} {s : State} (hs : Canonical s)
    (hok : ∀ o ∈ xs, o.Ok) (p : xs.Perm ys) : run s xs = run s ys := run_perm hs hok p

/-- … and no order underflows: every program returns a canonical value, namely the start value plus
    the sum of the calls' group elements (`delta`: defined without `invert_state`) -/
theorem mixed_never_underflows {os : List Op} {s : State} (hs : Canonical s) (hok : ∀ o ∈ os, o.Ok) :
    (∃ c, run s os = some c ∧ Canonical c) ∧ run s os = some (add s (net os)) :=
  ⟨run_total hs hok, run_eq_add_net hs hok⟩

/-- a program that inserts the items `xs` and removes the items `ys`, in ANY interleaving (a remove
    may come before the matching insert), where `xs` is `ys` plus `zs` as multisets, ends in the
    setsum of `zs` -/
theorem mixed_is_multiset_difference {prog : List Op} {xs ys zs : List (Vector Nat 8)}
    (hx : ∀ w ∈ xs, Words w) (hp : prog.Perm (xs.map Op.ins ++ ys.map Op.rem))
    (hm : xs.Perm (ys ++ zs)) : run zero prog = some (ofItems zs) := run_ins_rem hx hp hm

theorem group_laws {a b c : State} (ha : Canonical a) (hb : Canonical b) (hc : Canonical c) :
    add a b = add b a ∧ add (add a b) c = add a (add b c) ∧ add a zero = a ∧ sub a a = some zero :=
  ⟨add_comm a b, add_assoc ha hb hc, add_zero ha, sub_self ha⟩

/-- the laws for *every* pair of 32-byte digests fed to `from_digest`, whatever their columns -/
theorem laws_for_all_digests {d e : List Nat} {a b : State} (hd : Bytes d) (he : Bytes e)
    (h1 : fromDigest d = some a) (h2 : fromDigest e = some b) :
    sub (add a b) b = some a ∧ add a b = add b a :=
  ⟨add_sub_cancel (fromDigest_canonical hd h1) (fromDigest_canonical he h2), add_comm a b⟩

/-- digests and hex digests round-trip -/
theorem digest_roundtrip {s : State} (hs : Canonical s) :
    fromDigest (digest s) = some s ∧ fromHexdigest (hexdigest s) = some s :=
  ⟨fromDigest_digest hs, fromHexdigest_hexdigest hs⟩

/-- digests identify setsums: two canonical states with the same 32-byte digest (or the same hex
    digest) are the same state — so comparing digests, as the manifest and the verifier do, is
    comparing setsums (corollary of the round-trip; no hypothesis on how the states were built) -/
theorem digest_injective {s t : State} (hs : Canonical s) (ht : Canonical t) :
    (digest s = digest t → s = t) ∧ (hexdigest s = hexdigest t → s = t) := by
  constructor
  · intro h
    have h1 := fromDigest_digest hs
    rw [h, fromDigest_digest ht] at h1
    exact (Option.some.inj h1).symm
  · intro h
    have h1 := fromHexdigest_hexdigest hs
    rw [h, fromHexdigest_hexdigest ht] at h1
    exact (Option.some.inj h1).symm

/-- the published definition, from the hash words on: column `i` is the sum of the items' `i`-th
    hash words modulo the `i`-th prime (bytes → SHA3-256 → little-endian words, and vectored items,
    are compared by the harness, not modelled) -/
theorem matches_definition (items : List (Vector Nat 8)) (hw : ∀ w ∈ items, Words w) (i : Nat) (h : i < 8) :
    (ofItems items)[i] = (items.map (fun w => w[i])).sum % primes[i] :=
  Blue.Setsum.matches_definition items hw i h

/-- the defect D-14 as a theorem about `from_digest` *as it was*: a digest the library never
    produced makes subtraction underflow (panic / wrong residue).  Kept so that the known input
    stays a theorem after the repair. -/
theorem from_digest_unrepaired_underflows :
    (fromDigestOld (List.replicate 32 255)).bind (fun b => sub zero b) = none := fromDigestOld_underflow

/-! non-vacuity: concrete non-trivial states meet the hypotheses -/
example : Words #v[4294967295, 1, 2, 3, 4, 5, 6, 7] := by
  intro i h; have : i = 0 ∨ i = 1 ∨ i = 2 ∨ i = 3 ∨ i = 4 ∨ i = 5 ∨ i = 6 ∨ i = 7 := by omega
  rcases this with rfl | rfl | rfl | rfl | rfl | rfl | rfl | rfl <;> simp [U32]
example : ∃ s, fromDigest (List.replicate 32 255) = some s ∧ Canonical s :=
  ⟨_, rfl, fromDigest_canonical (d := List.replicate 32 255) (by unfold Bytes; decide) rfl⟩

/-- two items whose words sit at the boundaries: `2^32-1` (reduced by `hash_to_state`), a prime
    itself (reduced to 0), `p-1`, 0 and 1 -/
def exA : Vector Nat 8 := #v[4294967295, 4294967279, 4294967230, 0, 1, 5, 6, 7]
def exB : Vector Nat 8 := #v[4294967291, 1, 2, 4294967295, 4294967188, 0, 0, 4294967110]
theorem exA_words : Words exA := by
  intro i h; have : i = 0 ∨ i = 1 ∨ i = 2 ∨ i = 3 ∨ i = 4 ∨ i = 5 ∨ i = 6 ∨ i = 7 := by omega
  rcases this with rfl | rfl | rfl | rfl | rfl | rfl | rfl | rfl <;> simp [exA, U32]
theorem exB_words : Words exB := by
  intro i h; have : i = 0 ∨ i = 1 ∨ i = 2 ∨ i = 3 ∨ i = 4 ∨ i = 5 ∨ i = 6 ∨ i = 7 := by omega
  rcases this with rfl | rfl | rfl | rfl | rfl | rfl | rfl | rfl <;> simp [exB, U32]

/-- a program that removes `exB` BEFORE inserting it (and inserts `exA` twice, removes it once)
    meets the hypotheses of `mixed_is_multiset_difference`, and the theorem's conclusion is what
    evaluation gives: the setsum of the one remaining `exA` -/
example : run zero [Op.rem exB, Op.ins exA, Op.ins exB, Op.rem exA, Op.ins exA] = some (ofItems [exA]) :=
  mixed_is_multiset_difference (xs := [exA, exB, exA]) (ys := [exB, exA]) (zs := [exA])
    (by intro w hw; simp only [List.mem_cons, List.not_mem_nil, or_false] at hw
        rcases hw with rfl | rfl | rfl <;> first | exact exA_words | exact exB_words)
    (by decide) (by decide)
example : run zero [Op.rem exB, Op.ins exA, Op.ins exB, Op.rem exA, Op.ins exA]
    = some #v[4, 0, 4294967230, 0, 1, 5, 6, 7] := by decide
/-- the intermediate value after `remove exB` from the empty setsum has columns at `p - x`: the
    removal does not underflow -/
example : run zero [Op.rem exB] = some #v[0, 4294967278, 4294967229, 4294967099, 1, 0, 0, 1] := by decide
/-- `(a - b) + b = a` with zero columns in `b` (where `invert_state b` is not canonical) -/
example : (sub (hashToState exA) zero).map (fun c => add c zero) = some (hashToState exA) := by decide

/-- non-vacuity of `digest_injective`: two different canonical states, hence different digests -/
example : Canonical (hashToState exA) ∧ Canonical zero ∧ digest (hashToState exA) ≠ digest zero :=
  ⟨canonical_hash exA_words, canonical_zero, by decide⟩

end Blue.Props.C14

#print axioms Blue.Props.C14.primes_from_source
#print axioms Blue.Props.C14.api_closed
#print axioms Blue.Props.C14.order_independent
#print axioms Blue.Props.C14.union_is_sum
#print axioms Blue.Props.C14.remove_undoes_insert
#print axioms Blue.Props.C14.sub_undoes_add
#print axioms Blue.Props.C14.insert_undoes_remove
#print axioms Blue.Props.C14.add_undoes_sub
#print axioms Blue.Props.C14.invert_not_canonical
#print axioms Blue.Props.C14.mixed_order_independent
#print axioms Blue.Props.C14.mixed_never_underflows
#print axioms Blue.Props.C14.mixed_is_multiset_difference
#print axioms Blue.Props.C14.group_laws
#print axioms Blue.Props.C14.laws_for_all_digests
#print axioms Blue.Props.C14.digest_roundtrip
#print axioms Blue.Props.C14.digest_injective
#print axioms Blue.Props.C14.matches_definition
#print axioms Blue.Props.C14.from_digest_unrepaired_underflows
#print axioms Blue.Props.C14.exA_words
#print axioms Blue.Props.C14.exB_words
