import Blue.Proofs.Setsum
import Blue.Proofs.SetsumDigest
import Blue.Proofs.ConstsTie
/-! # Property C14 — setsum is an order-independent, invertible, composable multiset checksum

Property theorems only (helper lemmas live in `Blue/Proofs/Setsum*.lean`).  The model
(`Blue/Model/Setsum.lean`) keeps the `u32`/`u64` conversions of `setsum/src/lib.rs` and the
arithmetic underflow of `invert_state` as an explicit `none`.  The SHA3-256 hash is a parameter:
an item enters as the eight little-endian 32-bit words of its hash (`Words`).

Every `Setsum` value the API can produce is `Canonical` (each column below its prime):
`zero`, `insert`, `remove`, `add`, `sub` preserve it and the repaired `from_digest` establishes it
for *every* 32-byte input — so the laws below hold for all values, including those that come
from digests with columns in `p … 2^32-1`. -/
namespace Blue.Props.C14
open Blue.Setsum

/-- the primes the theorems are about are the ones in the Rust source (regenerated every run) -/
theorem primes_from_source : primes.toList = Blue.Generated.setsumPrimes := Blue.ConstsTie.setsum_primes

/-- every value is canonical: closure of the API -/
theorem api_closed :
    Canonical zero
    ∧ (∀ a b, Canonical a → Canonical b → Canonical (add a b))
    ∧ (∀ a b, Canonical a → Canonical b → ∃ c, sub a b = some c ∧ Canonical c)
    ∧ (∀ s w, Canonical s → Words w → Canonical (insert s w))
    ∧ (∀ d s, Bytes d → fromDigest d = some s → Canonical s) :=
  ⟨canonical_zero, fun _ _ ha hb => canonical_add ha hb, fun _ _ ha hb => sub_canonical ha hb,
   fun _ _ hs hw => canonical_insert hs hw, fun _ _ hb h => fromDigest_canonical hb h⟩

/-- insertion order does not matter -/
theorem order_independent {xs ys : List (Vector Nat 8)} (p : xs.Perm ys) (hw : ∀ w ∈ xs, Words w) :
    ofItems xs = ofItems ys := Blue.Setsum.order_independent p hw

/-- the setsum of a union is the sum of the setsums -/
theorem union_is_sum {xs ys : List (Vector Nat 8)} (hx : ∀ w ∈ xs, Words w) (hy : ∀ w ∈ ys, Words w) :
    ofItems (xs ++ ys) = add (ofItems xs) (ofItems ys) := Blue.Setsum.union_is_sum hx hy

/-- removing an item undoes inserting it (and never underflows) -/
theorem remove_undoes_insert {s : State} {w : Vector Nat 8} (hs : Canonical s) (hw : Words w) :
    remove (insert s w) w = some s := remove_insert hs hw

/-- subtraction undoes addition (and never underflows) -/
theorem sub_undoes_add {a b : State} (ha : Canonical a) (hb : Canonical b) : sub (add a b) b = some a :=
  add_sub_cancel ha hb

theorem group_laws {a b c : State} (ha : Canonical a) (hb : Canonical b) (hc : Canonical c) :
    add a b = add b a ∧ add (add a b) c = add a (add b c) ∧ add a zero = a ∧ sub a a = some zero :=
  ⟨add_comm a b, add_assoc ha hb hc, add_zero ha, sub_self ha⟩

/-- the laws for *every* pair of 32-byte digests fed to `from_digest`, whatever their columns -/
theorem laws_for_all_digests {d e : List Nat} {a b : State} (hd : Bytes d) (he : Bytes e)
    (h1 : fromDigest d = some a) (h2 : fromDigest e = some b) :
    sub (add a b) b = some a ∧ add a b = add b a :=
  ⟨add_sub_cancel (fromDigest_canonical hd h1) (fromDigest_canonical he h2), add_comm a b⟩

/-- digests and hex digests round-trip -/
theorem digest_roundtrip {s : State} (hs : Canonical s) :
    fromDigest (digest s) = some s ∧ fromHexdigest (hexdigest s) = some s :=
  ⟨fromDigest_digest hs, fromHexdigest_hexdigest hs⟩

/-- the published definition: column `i` is the sum of the items' `i`-th hash words modulo the
    `i`-th prime -/
theorem matches_definition (items : List (Vector Nat 8)) (hw : ∀ w ∈ items, Words w) (i : Nat) (h : i < 8) :
    (ofItems items)[i] = (items.map (fun w => w[i])).sum % primes[i] :=
  Blue.Setsum.matches_definition items hw i h

/-- the defect D-14 as a theorem about `from_digest` *as it was*: a digest the library never
    produced makes subtraction underflow (panic / wrong residue).  Kept so that the known input
    stays a theorem after the repair. -/
theorem from_digest_unrepaired_underflows :
    (fromDigestOld (List.replicate 32 255)).bind (fun b => sub zero b) = none := fromDigestOld_underflow

/-! non-vacuity: concrete non-trivial states meet the hypotheses -/
example : Words #v[4294967295, 1, 2, 3, 4, 5, 6, 7] := by
  intro i h; have : i = 0 ∨ i = 1 ∨ i = 2 ∨ i = 3 ∨ i = 4 ∨ i = 5 ∨ i = 6 ∨ i = 7 := by omega
  rcases this with rfl | rfl | rfl | rfl | rfl | rfl | rfl | rfl <;> simp [U32]
example : ∃ s, fromDigest (List.replicate 32 255) = some s ∧ Canonical s :=
  ⟨_, rfl, fromDigest_canonical (d := List.replicate 32 255) (by unfold Bytes; decide) rfl⟩

end Blue.Props.C14

#print axioms Blue.Props.C14.primes_from_source
#print axioms Blue.Props.C14.api_closed
#print axioms Blue.Props.C14.order_independent
#print axioms Blue.Props.C14.union_is_sum
#print axioms Blue.Props.C14.remove_undoes_insert
#print axioms Blue.Props.C14.sub_undoes_add
#print axioms Blue.Props.C14.group_laws
#print axioms Blue.Props.C14.laws_for_all_digests
#print axioms Blue.Props.C14.digest_roundtrip
#print axioms Blue.Props.C14.matches_definition
#print axioms Blue.Props.C14.from_digest_unrepaired_underflows
