import Blue.Proofs.BitVec
import Blue.Proofs.BitVecLaws
import Blue.Proofs.Csa
import Blue.Proofs.CsaDoc
import Blue.Proofs.ConstsTieC19
/-! # Property C19 — the compressed text index answers every query as the uncompressed text would;
    bit vectors answer access/rank/select as a plain bit array

Property theorems only (helper lemmas live in `Blue/Proofs/{BitVec,BitVecLaws,Csa,CsaDoc}.lean`).

**The claim is PARTIAL.**  What is proved is the *algorithmic* layer, about executable models that
the correspondence check ties to the real `scrunch` crate:

* bit vectors (`Blue/Model/BitVec.lean`): the `BitVector` trait's reference semantics on
  `List Bool` and its default `select` / `rank0` / `select0` (binary search over `rank`);
* the index (`Blue/Model/Csa.lean`, `Blue/Model/CsaDoc.lean`): suffixes in suffix-array order, ψ,
  `Psi::constrain` (the reference ψ's two binary searches), backward search,
  `Sigma::sa_range_for`, `count`, `search`, `check_record_boundaries`, the record-boundary bit
  vector with `records` / `lookup` / `offset_of`, and `retrieve` (inverse suffix array + ψ walk).
  For these the chain is closed at model level: given only that the suffix arrangement is sorted,
  `count`, `search`, `lookup`, `offset_of` and `retrieve` equal the plain scan of the text.

What is **not** proved and is tied by correspondence only (harness `c19.rs`, every run):

* that SA-IS (`sais.rs`, ~900 lines of induced sorting) returns the sorted permutation of the
  suffixes — the hypothesis `l.Perm (suffixes T)` + `Pairwise lexLt` of the theorems below.  It is
  *checked* on every generated text: the suffix array of the built document is read back out of
  its serialised form and the Lean driver decides sortedness with the model's `lexLt`;
* that the RRR, cf-RRR and sparse encodings, the wavelet-tree ψ, the Huffman wavelet tree and the
  sampled SA / ISA arrays answer like the `List Bool` / `psi` / `str` models (compared on every
  generated bit pattern / text, before and after re-parsing).  -/
namespace Blue.Props.C19
open Blue.BitVec Blue.Csa

/-! ## bit vectors -/

/-- `partition_by` returns the partition point of any predicate that is true on a prefix of the
    searched range -/
theorem partitionBy_spec (pred : Nat → Bool) (fuel l r : Nat) (hlr : l ≤ r) (hf : r - l < fuel)
    (hmono : ∀ i j, l ≤ i → i ≤ j → j < r → pred j = true → pred i = true) :
    l ≤ partitionBy pred fuel l r ∧ partitionBy pred fuel l r ≤ r
      ∧ (∀ i, l ≤ i → i < partitionBy pred fuel l r → pred i = true)
      ∧ (∀ i, partitionBy pred fuel l r ≤ i → i < r → pred i = false) :=
  Blue.BitVec.partitionBy_spec pred fuel l r hlr hf hmono

/-- the trait's default `select` returns the least position whose rank is `x` … -/
theorem select_spec (bits : List Bool) (x p : Nat) (h : select bits x = some p) :
    p ≤ bits.length ∧ (bits.take p).count true = x ∧ ∀ q, q < p → (bits.take q).count true < x :=
  Blue.BitVec.select_spec bits x p h

/-- … and finds it whenever it exists -/
theorem select_complete (bits : List Bool) (x p : Nat) (hp : p ≤ bits.length)
    (hr : (bits.take p).count true = x) (hmin : ∀ q, q < p → (bits.take q).count true < x) :
    select bits x = some p :=
  Blue.BitVec.select_complete bits x p hp hr hmin

/-- `rank0` counts the clear bits -/
theorem rank0_spec (bits : List Bool) (x : Nat) (h : x ≤ bits.length) :
    rank0 bits x = some ((bits.take x).count false) := Blue.BitVec.rank0_spec bits x h

/-- the default `select0` returns the least position whose `rank0` is `x` … -/
theorem select0_spec (bits : List Bool) (x p : Nat) (h : select0 bits x = some p) :
    p ≤ bits.length ∧ (bits.take p).count false = x ∧ ∀ q, q < p → (bits.take q).count false < x :=
  Blue.BitVec.select0_spec bits x p h

/-- … and finds it whenever it exists -/
theorem select0_complete (bits : List Bool) (x p : Nat) (hp : p ≤ bits.length)
    (hr : (bits.take p).count false = x) (hmin : ∀ q, q < p → (bits.take q).count false < x) :
    select0 bits x = some p :=
  Blue.BitVec.select0_complete bits x p hp hr hmin

/-- inverse laws: `rank (select k) = k`; the `k`-th set bit is found one past its position;
    `select` is defined exactly for `k ≤` the number of set bits -/
theorem rank_select (bits : List Bool) (k p : Nat) (h : select bits k = some p) : rank bits p = some k :=
  Blue.BitVec.rank_select bits k p h

theorem select_rank_of_set (bits : List Bool) (p : Nat) (hp : p < bits.length) (hb : bits[p]? = some true) :
    select bits ((bits.take p).count true + 1) = some (p + 1) :=
  Blue.BitVec.select_rank_of_set bits p hp hb

theorem select_defined_iff (bits : List Bool) (k : Nat) :
    (select bits k).isSome = true ↔ k ≤ bits.count true := Blue.BitVec.select_defined_iff bits k

/-- the cf_rrr defect found by this property, as a theorem about `cf_rrr::rank` *as it was*: at a length that is a positive
    multiple of the block size, `rank(len)` had no answer although the bit array has one -/
theorem cf_rrr_rank_unrepaired (bits : List Bool) (h0 : 0 < bits.length)
    (hb : bits.length % cfBlockBits = 0) :
    rankCfOld bits bits.length = none ∧ rank bits bits.length = some (bits.count true) :=
  Blue.BitVec.rankCfOld_defect bits h0 hb

/-- the block size the theorem speaks of is the one in the source (regenerated every run) -/
theorem cf_block_from_source : cfWordsPerBlock = Blue.Generated.scrunchCfRrrWordsPerBlock :=
  Blue.ConstsTie.scrunch_cf_rrr_block

/-! ## the index -/

/-- one `Psi::constrain` step -/
theorem constrain_spec {l : List (List Nat)} (hs : Sorted l) (c : Nat) (w : List Nat)
    (r0 r1 a b : Nat) (hr1 : r1 < l.length)
    (hrange : ∀ i, i < l.length → ((r0 ≤ i ∧ i ≤ r1) ↔ (str l i).head? = some c))
    (hlong : ∀ i, r0 ≤ i → i ≤ r1 → 2 ≤ (str l i).length)
    (hinto : ∀ i, i < l.length → ((a ≤ i ∧ i < b) ↔ w <+: str l i)) :
    ∀ i, i < l.length →
      (((constrain l (r0, r1) (a, b)).1 ≤ i ∧ i < (constrain l (r0, r1) (a, b)).2) ↔ (c :: w) <+: str l i) :=
  Blue.Csa.constrain_spec hs c w r0 r1 a b hr1 hrange hlong hinto

/-- backward search returns exactly the block of suffixes that start with the needle -/
theorem backwardSearch_spec {l : List (List Nat)} (hs : Sorted l) (rangeFor : Nat → Nat × Nat)
    (needle : List Nat) (hne : needle ≠ []) (hr : ∀ c ∈ needle, RangeOk l c (rangeFor c)) :
    ∀ i, i < l.length →
      (((backwardSearch l rangeFor needle).1 ≤ i ∧ i < (backwardSearch l rangeFor needle).2)
        ↔ needle <+: str l i) :=
  Blue.Csa.backwardSearch_spec hs rangeFor needle hne hr

theorem count_spec {l : List (List Nat)} (hs : Sorted l) (rangeFor : Nat → Nat × Nat)
    (needle : List Nat) (hne : needle ≠ []) (hr : ∀ c ∈ needle, RangeOk l c (rangeFor c)) :
    count l rangeFor needle
      = ((List.range l.length).filter (fun i => needle.isPrefixOf (str l i))).length :=
  Blue.Csa.count_spec hs rangeFor needle hne hr

/-- any strictly increasing arrangement of a text's suffixes is a `Sorted` index (what SA-IS must
    deliver; decided per input by the correspondence run) -/
theorem sorted_of_suffixes (T : List Nat) (l : List (List Nat)) (hperm : l.Perm (suffixes T))
    (hsorted : l.Pairwise (fun a b => lexLt a b = true)) : Sorted l :=
  Blue.Csa.sorted_of_suffixes T l hperm hsorted

/-- `count` is the number of text positions at which the needle occurs — a plain scan -/
theorem count_occurrences (T : List Nat) {l : List (List Nat)} (hperm : l.Perm (suffixes T))
    (hsorted : l.Pairwise (fun a b => lexLt a b = true)) (rangeFor : Nat → Nat × Nat)
    (needle : List Nat) (hne : needle ≠ []) (hr : ∀ c ∈ needle, RangeOk l c (rangeFor c)) :
    count l rangeFor needle
      = ((List.range T.length).filter (fun k => needle.isPrefixOf (T.drop k))).length :=
  Blue.Csa.count_occurrences T hperm hsorted rangeFor needle hne hr

/-- `search`: the text positions of the returned ranks are exactly the occurrence positions -/
theorem search_positions (T : List Nat) {l : List (List Nat)} (hperm : l.Perm (suffixes T))
    (hsorted : l.Pairwise (fun a b => lexLt a b = true)) (rangeFor : Nat → Nat × Nat)
    (needle : List Nat) (hne : needle ≠ []) (hr : ∀ c ∈ needle, RangeOk l c (rangeFor c)) (k : Nat) :
    (k < T.length ∧ needle <+: T.drop k)
      ↔ ∃ i, (backwardSearch l rangeFor needle).1 ≤ i ∧ i < (backwardSearch l rangeFor needle).2
          ∧ i < l.length ∧ saOf l T.length i = k :=
  Blue.Csa.search_positions T hperm hsorted rangeFor needle hne hr k

/-- the sampled-suffix-array walk: following ψ advances one text position -/
theorem sa_psi {l : List (List Nat)} (hs : Sorted l) (n i : Nat) (hi : i < l.length)
    (hlong : 2 ≤ (str l i).length) (hn : (str l i).length ≤ n) :
    saOf l n (psi l i) = saOf l n i + 1 := Blue.Csa.sa_psi hs n i hi hlong hn

/-- `Sigma::sa_range_for` (model `sigmaRange`) delivers what backward search needs, for every
    symbol other than the end marker — occurring or not — of a text that ends in its only end
    marker: the `RangeOk` hypothesis of the theorems above is discharged -/
theorem sigmaRange_ok (T : List Nat) {l : List (List Nat)} (hT : Blue.CsaDoc.Marked T)
    (hperm : l.Perm (suffixes T)) (hsorted : l.Pairwise (fun a b => lexLt a b = true))
    (c : Nat) (hc : c ≠ 0) : RangeOk l c (Blue.CsaDoc.sigmaRange l c) :=
  Blue.CsaDoc.sigmaRange_ok T hT hperm hsorted c hc

/-- headline, no side conditions left but the suffix order: for every text (symbols `≥ 1`, then the
    end marker), every sorted arrangement of its suffixes and every non-empty needle of symbols
    `≥ 1` (occurring or absent), the document's `count` is the plain scan's -/
theorem doc_count_is_scan (T : List Nat) {l : List (List Nat)} (hT : Blue.CsaDoc.Marked T)
    (hperm : l.Perm (suffixes T)) (hsorted : l.Pairwise (fun a b => lexLt a b = true))
    (needle : List Nat) (hne : needle ≠ []) (hpos : ∀ c ∈ needle, c ≠ 0) :
    Blue.CsaDoc.count l needle
      = ((List.range T.length).filter (fun k => needle.isPrefixOf (T.drop k))).length :=
  Blue.CsaDoc.count_is_scan T hT hperm hsorted needle hne hpos

/-- the same on the *original* text (`withMarker text` is what the index is built over: symbols
    shifted above the end marker, marker appended; the needle is shifted the same way): `count` is
    the number of positions of the text at which the needle occurs … -/
theorem doc_count_is_scan_text (text : List Nat) {l : List (List Nat)}
    (hperm : l.Perm (suffixes (Blue.CsaDoc.withMarker text)))
    (hsorted : l.Pairwise (fun a b => lexLt a b = true)) (needle : List Nat) (hne : needle ≠ []) :
    Blue.CsaDoc.count l (needle.map (· + 1))
      = ((List.range text.length).filter (fun k => needle.isPrefixOf (text.drop k))).length :=
  Blue.CsaDoc.count_is_scan_text text hperm hsorted needle hne

/-- … `search` reports exactly those positions, in ascending order … -/
theorem doc_search_is_scan_text (text : List Nat) {l : List (List Nat)}
    (hperm : l.Perm (suffixes (Blue.CsaDoc.withMarker text)))
    (hsorted : l.Pairwise (fun a b => lexLt a b = true)) (needle : List Nat) (hne : needle ≠ []) :
    (∀ k, k ∈ Blue.CsaDoc.search l (needle.map (· + 1)) ↔ (k < text.length ∧ needle <+: text.drop k))
      ∧ (Blue.CsaDoc.search l (needle.map (· + 1))).Pairwise (· ≤ ·) :=
  ⟨fun k => Blue.CsaDoc.mem_search_text text hperm hsorted needle hne k, Blue.CsaDoc.search_sorted _ _⟩

/-- … and the empty needle counts every position -/
theorem doc_count_empty (text : List Nat) {l : List (List Nat)}
    (hperm : l.Perm (suffixes (Blue.CsaDoc.withMarker text))) : Blue.CsaDoc.count l [] = text.length :=
  Blue.CsaDoc.count_empty text hperm

/-- offset → record: over the boundary bit vector of an admissible division, `lookup` is "the
    number of record boundaries at or before the offset, minus one", `records` is the number of
    boundaries and `offset_of(r)` is the `r`-th boundary -/
theorem doc_records (n : Nat) (rb : List Nat) (hadm : Blue.CsaDoc.admissible n rb = true) :
    Blue.CsaDoc.records (Blue.CsaDoc.boundaryBits n rb) = rb.length
      ∧ (∀ off, off ≤ n → Blue.CsaDoc.lookup (Blue.CsaDoc.boundaryBits n rb) off
            = some (rb.countP (fun b => decide (b ≤ off)) - 1))
      ∧ (∀ r (hr : r < rb.length), Blue.CsaDoc.offsetOf (Blue.CsaDoc.boundaryBits n rb) r = some rb[r]) :=
  ⟨Blue.CsaDoc.records_spec n rb hadm, fun off h => Blue.CsaDoc.lookup_spec n rb hadm off h,
   fun r hr => Blue.CsaDoc.offsetOf_spec n rb hadm r hr⟩

/-- `retrieve(r)` (two `select`s, the inverse suffix array at the record start, then one ψ step per
    symbol) reproduces record `r` symbol for symbol: the text from the `r`-th boundary to the next
    one, or to the end of the text -/
theorem doc_retrieve_record (T : List Nat) {l : List (List Nat)} (hperm : l.Perm (suffixes T))
    (hsorted : l.Pairwise (fun a b => lexLt a b = true)) (rb : List Nat)
    (hadm : Blue.CsaDoc.admissible (T.length - 1) rb = true) (r : Nat) (hr : r < rb.length) :
    Blue.CsaDoc.retrieve l (Blue.CsaDoc.boundaryBits (T.length - 1) rb) r
      = some ((T.drop rb[r]).take (rb[r + 1]?.getD (T.length - 1) - rb[r])) :=
  Blue.CsaDoc.retrieve_record T hperm hsorted rb hadm r hr

/-! ## non-vacuity -/

/-- the text `a b a b $` (`1 2 1 2 0`): `ab` occurs twice, `ba` once, `bb` never -/
example : exL.Perm (suffixes [1, 2, 1, 2, 0]) ∧ exL.Pairwise (fun a b => lexLt a b = true) := by decide
example : Blue.CsaDoc.Marked [1, 2, 1, 2, 0] := by decide
example : Blue.CsaDoc.count exL [1, 2] = 2 ∧ Blue.CsaDoc.count exL [2, 1] = 1
    ∧ Blue.CsaDoc.count exL [2, 2] = 0 ∧ Blue.CsaDoc.count exL [3] = 0
    ∧ Blue.CsaDoc.search exL [1, 2] = [0, 2] ∧ Blue.CsaDoc.search exL [] = [0, 1, 2, 3] := by decide
example : RangeOk exL 1 (Blue.CsaDoc.sigmaRange exL 1) :=
  Blue.CsaDoc.sigmaRange_ok [1, 2, 1, 2, 0] (by decide) (by decide) (by decide) 1 (by decide)
example : exL.Perm (suffixes (Blue.CsaDoc.withMarker [0, 1, 0, 1])) := by decide
example : Blue.CsaDoc.admissible 4 [0, 2, 3] = true
    ∧ Blue.CsaDoc.retrieve exL (Blue.CsaDoc.boundaryBits 4 [0, 2, 3]) 0 = some [1, 2]
    ∧ Blue.CsaDoc.retrieve exL (Blue.CsaDoc.boundaryBits 4 [0, 2, 3]) 2 = some [2]
    ∧ Blue.CsaDoc.lookup (Blue.CsaDoc.boundaryBits 4 [0, 2, 3]) 2 = some 1 := by decide
example : select [false, true, false, true] 2 = some 4 ∧ select [false, true, false, true] 3 = none
    ∧ select0 [false, true, false, true] 2 = some 3 ∧ rank0 [false, true] 2 = some 1 := by decide
example : partitionBy (fun i => decide (i < 3)) 11 0 10 = 3 := by decide

end Blue.Props.C19

#print axioms Blue.Props.C19.partitionBy_spec
#print axioms Blue.Props.C19.select_spec
#print axioms Blue.Props.C19.select_complete
#print axioms Blue.Props.C19.rank0_spec
#print axioms Blue.Props.C19.select0_spec
#print axioms Blue.Props.C19.select0_complete
#print axioms Blue.Props.C19.rank_select
#print axioms Blue.Props.C19.select_rank_of_set
#print axioms Blue.Props.C19.select_defined_iff
#print axioms Blue.Props.C19.cf_rrr_rank_unrepaired
#print axioms Blue.Props.C19.cf_block_from_source
#print axioms Blue.Props.C19.constrain_spec
#print axioms Blue.Props.C19.backwardSearch_spec
#print axioms Blue.Props.C19.count_spec
#print axioms Blue.Props.C19.sorted_of_suffixes
#print axioms Blue.Props.C19.count_occurrences
#print axioms Blue.Props.C19.search_positions
#print axioms Blue.Props.C19.sa_psi
#print axioms Blue.Props.C19.sigmaRange_ok
#print axioms Blue.Props.C19.doc_count_is_scan
#print axioms Blue.Props.C19.doc_count_is_scan_text
#print axioms Blue.Props.C19.doc_search_is_scan_text
#print axioms Blue.Props.C19.doc_count_empty
#print axioms Blue.Props.C19.doc_records
#print axioms Blue.Props.C19.doc_retrieve_record
