import Blue.Proofs.BitVec
import Blue.Proofs.Csa
/-! Property C19: the theorems the check builds and audits (spike inventory; the build phase
    completes the list from DESIGN Appendix C.0). -/
#print axioms Blue.Csa.constrain_spec
#print axioms Blue.Csa.backwardSearch_spec
#print axioms Blue.Csa.count_spec
#print axioms Blue.Csa.count_occurrences
#print axioms Blue.Csa.sorted_of_suffixes
#print axioms Blue.Csa.search_positions
#print axioms Blue.Csa.sa_psi
