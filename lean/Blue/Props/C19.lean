import Blue.Proofs.BitVec
import Blue.Proofs.BitVecLaws
import Blue.Proofs.Csa
import Blue.Proofs.CsaDoc
import Blue.Proofs.ConstsTieC19
import Blue.Proofs.BitArr
import Blue.Proofs.RrrWord
import Blue.Proofs.Rrr
import Blue.Proofs.RrrCf
import Blue.Proofs.BvSparse
import Blue.Proofs.SparseUses
import Blue.Proofs.SampledDoc
import Blue.Proofs.SigmaRetrieve
import Blue.Proofs.Wavelet
import Blue.Proofs.PsiWt
import Blue.Proofs.PsiWtCsa
import Blue.Proofs.PsiDoc
import Blue.Proofs.CsaExists
import Blue.Proofs.C19Audit
import Blue.Proofs.Huffman
import Blue.Proofs.HuffmanHeap
/-! # Property C19 — the compressed text index answers every query as the uncompressed text would;
    bit vectors answer access/rank/select as a plain bit array

Property theorems only (helper lemmas live in `Blue/Proofs/{BitVec,BitVecLaws,Csa,CsaDoc}.lean` and the
proof modules imported above; `CsaExists` and `C19Audit` hold what an independent audit of these
statements asked for, `docs/AUDIT_REPORT.md`).

**The claim is PARTIAL.**  What is proved is the *algorithmic* layer, about executable models that
the correspondence check ties to the real `scrunch` crate:

* bit vectors (`Blue/Model/BitVec.lean`): the `BitVector` trait's reference semantics on
  `List Bool` and its default `select` / `rank0` / `select0` (binary search over `rank`);
* the index (`Blue/Model/Csa.lean`, `Blue/Model/CsaDoc.lean`): suffixes in suffix-array order, ψ,
  `Psi::constrain` (the reference ψ's two binary searches), backward search,
  `Sigma::sa_range_for`, `count`, `search`, `check_record_boundaries`, the record-boundary bit
  vector with `records` / `lookup` / `offset_of`, and `retrieve` (inverse suffix array + ψ walk).
  For these the chain is closed at model level: given only that the suffix arrangement is sorted,
  `count`, `search`, `lookup`, `offset_of` and `retrieve` equal the plain scan of the text.

Since the second round the *encodings* are proved too, again about executable models that follow
the Rust code and that the correspondence run executes on the inputs the real code gets:

* `Blue/Model/BitArr.lean` (`push_word` / `seal` / `load`), `RrrWord.lean` (63-bit words, `encode` /
  `decode` over the binomial table, `select_word`), `Rrr.lean` and `RrrCf.lean` (the block layouts
  of `rrr` and `cf_rrr` with their `p` / `r` / class / offset arrays and select samples),
  `BvSparse.lean` (the B-tree of `sparse::BitVector`): `access` / `rank` / `select` / `select0`
  computed ON THE ENCODED FORM equal the reference on the decoded `List Bool`, for every bit
  pattern and every argument (out of range: `None` on both sides).  `access_rank` is the one query
  on which the encodings differ from each other, at the single argument `x = len`: `None` for `rrr`
  and the reference, `Some((false, total))` for `cf_rrr` and `sparse`, as the code returns
  (`access_rank_vs_reference`, `access_rank_at_len`);
* `Sampled.lean` (`SampledArray`, `SampledSuffixArray`, `SampledInverseSuffixArray`): the ψ-walk
  returns the exact suffix array for every stride and every text length, the sampled inverse is
  exact at the record boundaries, so `search` / `retrieve` through the samples are the ones over
  the exact arrays;
* `Sigma.lean` (`Sigma::construct` with its count table, `char_to_sigma`, `sigma_to_char`, the
  bucket bit vector, `sa_range_for`, `sa_index_to_t`, `translate_text`): sorted distinct code
  points ↔ dense ranks, order preserving, round trip; `count` / `search` / `retrieve` ON CODE
  POINTS equal the plain scan of the original text (this replaces the earlier shift-by-one);
* `Wavelet.lean` (`wavelet_tree::prefix::WaveletTree` over any prefix-free code book): `access`,
  `rank_q`, `select_q` equal the reference for the symbols that occur.

* `PsiWt.lean` (`WaveletTreePsi`: rows = runs of equal 2-symbol context, cells, `y_key` / `y_value`,
  `lookup`, `lower_bound` / `upper_bound` / `constrain` on closed ranges) and `PsiDoc.lean`
  (`backwards_search` / `count` / `search` / `retrieve` of `CompressedDocument` with the ALGORITHM of
  every component as the code has it): `lookup` is ψ, `constrain` of a symbol's whole column is the
  reference `constrain`, and the document's answers on code points equal the plain scan of the text.
  "Algorithm of every component", not "encoding of every component": inside the `PsiDoc`, `PsiWt`,
  `Sigma` and `Sampled` models the inner bit vectors (`y_key`, `Sigma`'s buckets, the record
  boundaries, the presence vector of a `SampledArray`) are decoded `List Bool`s with the reference
  `rank` / `select`, and every row's wavelet tree is its symbol list with the reference `rank_q` /
  `select_q`.  That the encoded forms answer the same is proved separately (`sparse_in_the_index`,
  four vectors; `wavelet_tree_is_reference` + `psi_asks_occurring_symbols`) and enters the document
  theorems by substitution of equals, not through one executable model that runs the encoded forms
  inside the document (the correspondence run does exercise that composition: the real document).
* `CsaExists.lean`: the hypothesis "`l` is the strictly increasing arrangement of the suffixes" is
  satisfiable for every text by exactly one `l` (`suffix_array_exists_unique`), so the document
  theorems can be — and are, `compressed_document_exists` — stated without it.

What is still **not** proved and is tied by correspondence only (harness `c19.rs`, every run):

* that SA-IS (`sais.rs`) returns the sorted permutation of the suffixes — the hypothesis
  `l.Perm (suffixes T)` + `Pairwise lexLt` of the index theorems, decided per generated text;
* the Huffman code construction (`encoder.rs`) is now MODELLED and proved (block `Huffman` below,
  `Blue/Model/Huffman.lean`): merge loop (with the `BinaryHeap`'s tie-breaking: `huffmanHeap`; with a
  sorted list: `huffman`; nondeterministically: `Outcome`), depths, canonical code, bit reversal, the
  one-symbol case.  For every table of distinct symbols the book has exactly the symbols, is prefix
  free in the form `wavelet_tree_is_reference` asks for (so that hypothesis is discharged:
  `wavelet_tree_over_huffman`; with the encoder built from the text itself, as prefix.rs does, no
  hypothesis is left: `wavelet_tree_of_text`), is complete (Kraft sum one), has no word longer than `n - 1`, and the
  Fibonacci table reaches `n - 1` under every tie-breaking (the heap model is proved to be a min-heap,
  hence one of the outcomes).  What stays tied by correspondence only:
  that the REAL code book equals the model's (today the driver still only decides prefix-freeness of
  the real book per input; no request compares the two books), `f64` weights (exact below `2^53`)
  and the `u32` / `u8` widths (the model agrees with the code up to length 32: a Fibonacci text of
  14 930 351 symbols has a 33-bit word, where `32 - len` underflows in `build_code_book`);
  and the wavelet-tree ψ model keeps each row's tree as its symbol list with the reference
  `rank_q` / `select_q` (it only ever asks about symbols that occur in the row:
  `psi_asks_occurring_symbols`, which is where `wavelet_tree_is_reference` applies);
* bytes: the byte loop inside `BitArray::load` / `Builder::push_word` (the model is a flat list of
  bits, compared with the real `BitArray` by the `bv ba` requests), the v64 / protobuf framing of
  every stub, the bit packing of the sparse tree's slices, 64-bit overflow.  -/
namespace Blue.Props.C19
open Blue.BitVec Blue.Csa

/-! ## bit vectors -/

/-- `partition_by` returns the partition point of any predicate that is true on a prefix of the
    searched range -/
theorem partitionBy_spec (pred : Nat → Bool) (fuel l r : Nat) (hlr : l ≤ r) (hf : r - l < fuel)
    (hmono : ∀ i j, l ≤ i → i ≤ j → j < r → pred j = true → pred i = true) :
    l ≤ partitionBy pred fuel l r ∧ partitionBy pred fuel l r ≤ r
      ∧ (∀ i, l ≤ i → i < partitionBy pred fuel l r → pred i = true)
      ∧ (∀ i, partitionBy pred fuel l r ≤ i → i < r → pred i = false) :=
  Blue.BitVec.partitionBy_spec pred fuel l r hlr hf hmono

/-- the trait's default `select` returns the least position whose rank is `x` … -/
theorem select_spec (bits : List Bool) (x p : Nat) (h : select bits x = some p) :
    p ≤ bits.length ∧ (bits.take p).count true = x ∧ ∀ q, q < p → (bits.take q).count true < x :=
  Blue.BitVec.select_spec bits x p h

/-- … and finds it whenever it exists -/
theorem select_complete (bits : List Bool) (x p : Nat) (hp : p ≤ bits.length)
    (hr : (bits.take p).count true = x) (hmin : ∀ q, q < p → (bits.take q).count true < x) :
    select bits x = some p :=
  Blue.BitVec.select_complete bits x p hp hr hmin

/-- `rank0` counts the clear bits -/
theorem rank0_spec (bits : List Bool) (x : Nat) (h : x ≤ bits.length) :
    rank0 bits x = some ((bits.take x).count false) := Blue.BitVec.rank0_spec bits x h

/-- the default `select0` returns the least position whose `rank0` is `x` … -/
theorem select0_spec (bits : List Bool) (x p : Nat) (h : select0 bits x = some p) :
    p ≤ bits.length ∧ (bits.take p).count false = x ∧ ∀ q, q < p → (bits.take q).count false < x :=
  Blue.BitVec.select0_spec bits x p h

/-- … and finds it whenever it exists -/
theorem select0_complete (bits : List Bool) (x p : Nat) (hp : p ≤ bits.length)
    (hr : (bits.take p).count false = x) (hmin : ∀ q, q < p → (bits.take q).count false < x) :
    select0 bits x = some p :=
  Blue.BitVec.select0_complete bits x p hp hr hmin

/-- inverse laws: `rank (select k) = k`; the `k`-th set bit is found one past its position;
    `select` is defined exactly for `k ≤` the number of set bits -/
theorem rank_select (bits : List Bool) (k p : Nat) (h : select bits k = some p) : rank bits p = some k :=
  Blue.BitVec.rank_select bits k p h

theorem select_rank_of_set (bits : List Bool) (p : Nat) (hp : p < bits.length) (hb : bits[p]? = some true) :
    select bits ((bits.take p).count true + 1) = some (p + 1) :=
  Blue.BitVec.select_rank_of_set bits p hp hb

theorem select_defined_iff (bits : List Bool) (k : Nat) :
    (select bits k).isSome = true ↔ k ≤ bits.count true := Blue.BitVec.select_defined_iff bits k

/-- the cf_rrr defect found by this property, as a theorem about `cf_rrr::rank` *as it was*: at a length that is a positive
    multiple of the block size, `rank(len)` had no answer although the bit array has one -/
theorem cf_rrr_rank_unrepaired (bits : List Bool) (h0 : 0 < bits.length)
    (hb : bits.length % cfBlockBits = 0) :
    rankCfOld bits bits.length = none ∧ rank bits bits.length = some (bits.count true) :=
  Blue.BitVec.rankCfOld_defect bits h0 hb

/-- the block size the theorem speaks of is the one in the source (regenerated every run) -/
theorem cf_block_from_source : cfWordsPerBlock = Blue.Generated.scrunchCfRrrWordsPerBlock :=
  Blue.ConstsTie.scrunch_cf_rrr_block

/-! ## the index -/

/-- one `Psi::constrain` step -/
theorem constrain_spec {l : List (List Nat)} (hs : Sorted l) (c : Nat) (w : List Nat)
    (r0 r1 a b : Nat) (hr1 : r1 < l.length)
    (hrange : ∀ i, i < l.length → ((r0 ≤ i ∧ i ≤ r1) ↔ (str l i).head? = some c))
    (hlong : ∀ i, r0 ≤ i → i ≤ r1 → 2 ≤ (str l i).length)
    (hinto : ∀ i, i < l.length → ((a ≤ i ∧ i < b) ↔ w <+: str l i)) :
    ∀ i, i < l.length →
      (((constrain l (r0, r1) (a, b)).1 ≤ i ∧ i < (constrain l (r0, r1) (a, b)).2) ↔ (c :: w) <+: str l i) :=
  Blue.Csa.constrain_spec hs c w r0 r1 a b hr1 hrange hlong hinto

/-- backward search returns exactly the block of suffixes that start with the needle -/
theorem backwardSearch_spec {l : List (List Nat)} (hs : Sorted l) (rangeFor : Nat → Nat × Nat)
    (needle : List Nat) (hne : needle ≠ []) (hr : ∀ c ∈ needle, RangeOk l c (rangeFor c)) :
    ∀ i, i < l.length →
      (((backwardSearch l rangeFor needle).1 ≤ i ∧ i < (backwardSearch l rangeFor needle).2)
        ↔ needle <+: str l i) :=
  Blue.Csa.backwardSearch_spec hs rangeFor needle hne hr

theorem count_spec {l : List (List Nat)} (hs : Sorted l) (rangeFor : Nat → Nat × Nat)
    (needle : List Nat) (hne : needle ≠ []) (hr : ∀ c ∈ needle, RangeOk l c (rangeFor c)) :
    count l rangeFor needle
      = ((List.range l.length).filter (fun i => needle.isPrefixOf (str l i))).length :=
  Blue.Csa.count_spec hs rangeFor needle hne hr

/-- any strictly increasing arrangement of a text's suffixes is a `Sorted` index (what SA-IS must
    deliver; decided per input by the correspondence run) -/
theorem sorted_of_suffixes (T : List Nat) (l : List (List Nat)) (hperm : l.Perm (suffixes T))
    (hsorted : l.Pairwise (fun a b => lexLt a b = true)) : Sorted l :=
  Blue.Csa.sorted_of_suffixes T l hperm hsorted

/-- the hypothesis pair `hperm` / `hsorted` of the index theorems is satisfiable for EVERY text … -/
theorem sa_exists (T : List Nat) :
    ∃ l : List (List Nat), l.Perm (suffixes T) ∧ l.Pairwise (fun a b => lexLt a b = true) :=
  Blue.Csa.sa_exists T

/-- … by exactly one arrangement, `sortedSuffixes T` (insertion sort of the suffixes by `lexLt`: a
    specification-side function, NOT a model of `sais.rs`).  So the index theorems speak about THE
    suffix array of the text, and what stays a hypothesis about the code is `SA-IS output =
    sortedSuffixes T` (decided per input by the correspondence run) -/
theorem suffix_array_exists_unique (T : List Nat) :
    ((sortedSuffixes T).Perm (suffixes T) ∧ (sortedSuffixes T).Pairwise (fun a b => lexLt a b = true))
    ∧ ∀ l : List (List Nat), l.Perm (suffixes T) → l.Pairwise (fun a b => lexLt a b = true) →
        l = sortedSuffixes T :=
  ⟨Blue.Csa.sortedSuffixes_spec T, fun l h1 h2 => Blue.Csa.sa_unique T l h1 h2⟩

/-- `count` is the number of text positions at which the needle occurs — a plain scan -/
theorem count_occurrences (T : List Nat) {l : List (List Nat)} (hperm : l.Perm (suffixes T))
    (hsorted : l.Pairwise (fun a b => lexLt a b = true)) (rangeFor : Nat → Nat × Nat)
    (needle : List Nat) (hne : needle ≠ []) (hr : ∀ c ∈ needle, RangeOk l c (rangeFor c)) :
    count l rangeFor needle
      = ((List.range T.length).filter (fun k => needle.isPrefixOf (T.drop k))).length :=
  Blue.Csa.count_occurrences T hperm hsorted rangeFor needle hne hr

/-- `search`: the text positions of the returned ranks are exactly the occurrence positions -/
theorem search_positions (T : List Nat) {l : List (List Nat)} (hperm : l.Perm (suffixes T))
    (hsorted : l.Pairwise (fun a b => lexLt a b = true)) (rangeFor : Nat → Nat × Nat)
    (needle : List Nat) (hne : needle ≠ []) (hr : ∀ c ∈ needle, RangeOk l c (rangeFor c)) (k : Nat) :
    (k < T.length ∧ needle <+: T.drop k)
      ↔ ∃ i, (backwardSearch l rangeFor needle).1 ≤ i ∧ i < (backwardSearch l rangeFor needle).2
          ∧ i < l.length ∧ saOf l T.length i = k :=
  Blue.Csa.search_positions T hperm hsorted rangeFor needle hne hr k

/-- the sampled-suffix-array walk: following ψ advances one text position -/
theorem sa_psi {l : List (List Nat)} (hs : Sorted l) (n i : Nat) (hi : i < l.length)
    (hlong : 2 ≤ (str l i).length) (hn : (str l i).length ≤ n) :
    saOf l n (psi l i) = saOf l n i + 1 := Blue.Csa.sa_psi hs n i hi hlong hn

/-- `Sigma::sa_range_for` (model `sigmaRange`) delivers what backward search needs, for every
    symbol other than the end marker — occurring or not — of a text that ends in its only end
    marker: the `RangeOk` hypothesis of the theorems above is discharged -/
theorem sigmaRange_ok (T : List Nat) {l : List (List Nat)} (hT : Blue.CsaDoc.Marked T)
    (hperm : l.Perm (suffixes T)) (hsorted : l.Pairwise (fun a b => lexLt a b = true))
    (c : Nat) (hc : c ≠ 0) : RangeOk l c (Blue.CsaDoc.sigmaRange l c) :=
  Blue.CsaDoc.sigmaRange_ok T hT hperm hsorted c hc

/-- headline, no side conditions left but the suffix order: for every text (symbols `≥ 1`, then the
    end marker), every sorted arrangement of its suffixes and every non-empty needle of symbols
    `≥ 1` (occurring or absent), the document's `count` is the plain scan's -/
theorem doc_count_is_scan (T : List Nat) {l : List (List Nat)} (hT : Blue.CsaDoc.Marked T)
    (hperm : l.Perm (suffixes T)) (hsorted : l.Pairwise (fun a b => lexLt a b = true))
    (needle : List Nat) (hne : needle ≠ []) (hpos : ∀ c ∈ needle, c ≠ 0) :
    Blue.CsaDoc.count l needle
      = ((List.range T.length).filter (fun k => needle.isPrefixOf (T.drop k))).length :=
  Blue.CsaDoc.count_is_scan T hT hperm hsorted needle hne hpos

/-- the same on the *original* text (`withMarker text` is what the index is built over: symbols
    shifted above the end marker, marker appended; the needle is shifted the same way): `count` is
    the number of positions of the text at which the needle occurs … -/
theorem doc_count_is_scan_text (text : List Nat) {l : List (List Nat)}
    (hperm : l.Perm (suffixes (Blue.CsaDoc.withMarker text)))
    (hsorted : l.Pairwise (fun a b => lexLt a b = true)) (needle : List Nat) (hne : needle ≠ []) :
    Blue.CsaDoc.count l (needle.map (· + 1))
      = ((List.range text.length).filter (fun k => needle.isPrefixOf (text.drop k))).length :=
  Blue.CsaDoc.count_is_scan_text text hperm hsorted needle hne

/-- … `search` reports exactly those positions, in ascending order … -/
theorem doc_search_is_scan_text (text : List Nat) {l : List (List Nat)}
    (hperm : l.Perm (suffixes (Blue.CsaDoc.withMarker text)))
    (hsorted : l.Pairwise (fun a b => lexLt a b = true)) (needle : List Nat) (hne : needle ≠ []) :
    (∀ k, k ∈ Blue.CsaDoc.search l (needle.map (· + 1)) ↔ (k < text.length ∧ needle <+: text.drop k))
      ∧ (Blue.CsaDoc.search l (needle.map (· + 1))).Pairwise (· ≤ ·) :=
  ⟨fun k => Blue.CsaDoc.mem_search_text text hperm hsorted needle hne k, Blue.CsaDoc.search_sorted _ _⟩

/-- … and the empty needle counts every position -/
theorem doc_count_empty (text : List Nat) {l : List (List Nat)}
    (hperm : l.Perm (suffixes (Blue.CsaDoc.withMarker text))) : Blue.CsaDoc.count l [] = text.length :=
  Blue.CsaDoc.count_empty text hperm

/-- offset → record: over the boundary bit vector of an admissible division, `lookup` is "the
    number of record boundaries at or before the offset, minus one", `records` is the number of
    boundaries and `offset_of(r)` is the `r`-th boundary -/
theorem doc_records (n : Nat) (rb : List Nat) (hadm : Blue.CsaDoc.admissible n rb = true) :
    Blue.CsaDoc.records (Blue.CsaDoc.boundaryBits n rb) = rb.length
      ∧ (∀ off, off ≤ n → Blue.CsaDoc.lookup (Blue.CsaDoc.boundaryBits n rb) off
            = some (rb.countP (fun b => decide (b ≤ off)) - 1))
      ∧ (∀ r (hr : r < rb.length), Blue.CsaDoc.offsetOf (Blue.CsaDoc.boundaryBits n rb) r = some rb[r]) :=
  ⟨Blue.CsaDoc.records_spec n rb hadm, fun off h => Blue.CsaDoc.lookup_spec n rb hadm off h,
   fun r hr => Blue.CsaDoc.offsetOf_spec n rb hadm r hr⟩

/-- `retrieve(r)` (two `select`s, the inverse suffix array at the record start, then one ψ step per
    symbol) reproduces record `r` symbol for symbol: the text from the `r`-th boundary to the next
    one, or to the end of the text -/
theorem doc_retrieve_record (T : List Nat) {l : List (List Nat)} (hperm : l.Perm (suffixes T))
    (hsorted : l.Pairwise (fun a b => lexLt a b = true)) (rb : List Nat)
    (hadm : Blue.CsaDoc.admissible (T.length - 1) rb = true) (r : Nat) (hr : r < rb.length) :
    Blue.CsaDoc.retrieve l (Blue.CsaDoc.boundaryBits (T.length - 1) rb) r
      = some ((T.drop rb[r]).take (rb[r + 1]?.getD (T.length - 1) - rb[r])) :=
  Blue.CsaDoc.retrieve_record T hperm hsorted rb hadm r hr


/-! ## the encodings: bit array, RRR words, the three bit-vector representations -/

/-- what `push_word` wrote is what `load` reads: the `k`-th of a sequence of fields of varying width,
    through `seal`, whatever follows it -/
theorem bitarray_roundtrip (fs : List (Nat × Nat)) (k v w : Nat) (hk : fs[k]? = some (v, w)) (hv : v < 2 ^ w)
    (post : List Bool) :
    Blue.BitArr.load (Blue.BitArr.sealBits (Blue.BitArr.packFields fs ++ post)) (((fs.take k).map (·.2)).sum) w = some v :=
  Blue.BitArr.load_packFields fs k v w hk hv post

/-- RRR word codec: every 63-bit word decodes back from its (offset, class), and the offset fits
    the `L[class]` bits it is stored in (the combinatorial number system over the table `K`) -/
theorem rrr_word_roundtrip (w : Nat) (hw : w < 2 ^ 63) :
    Blue.Rrr.decode (Blue.Rrr.encode w).1 (Blue.Rrr.encode w).2 = some w
      ∧ (Blue.Rrr.encode w).1 < 2 ^ (Blue.Rrr.lTab.getD (Blue.Rrr.popcount w) 0)
      ∧ (Blue.Rrr.encode w).2 = Blue.Rrr.popcount w :=
  ⟨Blue.Rrr.decode_encode w hw, Blue.Rrr.encode_fits w hw, Blue.Rrr.wordSpec.encode_class w hw⟩

/-- the broadword `select_word` (six halving steps) is the reference `select` of the word's bits;
    `select0` sees the zero padding of a short last word as clear bits -/
theorem rrr_word_select (ch : List Bool) (x : Nat) (h : ch.length ≤ 63) :
    Blue.Rrr.select1 (Blue.BitArr.ofBits ch) x = select ch x
      ∧ Blue.Rrr.select0 (Blue.BitArr.ofBits ch) x = select0 (ch ++ List.replicate (63 - ch.length) false) x :=
  ⟨Blue.Rrr.select1_ofBits ch x h, Blue.Rrr.select0_ofBits ch x h⟩

/-- **rrr**: for every bit pattern, `construct` (8 words per block, select sample 64) succeeds
    (first conjunct: `construct_from_words` does not take its error path; the model's total
    `construct` is that result) and the queries computed on the six encoded arrays answer exactly as
    the plain bit array, at every argument (out of range: `None` on both sides; `access_rank` is
    defined for `x < len` only, like the reference's, see `access_rank_vs_reference`) -/
theorem rrr_is_bit_array (bits : List Bool) (x : Nat) :
    Blue.Rrr.constructFromWords bits.length (Blue.Rrr.wordsOf bits) = some (Blue.Rrr.construct bits)
      ∧ Blue.Rrr.len (Blue.Rrr.construct bits) = bits.length
      ∧ Blue.Rrr.access (Blue.Rrr.construct bits) x = access bits x
      ∧ Blue.Rrr.rank (Blue.Rrr.construct bits) x = rank bits x
      ∧ Blue.Rrr.rank0 (Blue.Rrr.construct bits) x = rank0 bits x
      ∧ Blue.Rrr.select (Blue.Rrr.construct bits) x = select bits x
      ∧ Blue.Rrr.vselect0 (Blue.Rrr.construct bits) x = select0 bits x
      ∧ Blue.Rrr.accessRank (Blue.Rrr.construct bits) x
          = (if x < bits.length then some (bits.getD x false, (bits.take x).count true) else none) :=
  ⟨Blue.Rrr.construct_ok bits, Blue.Rrr.len_eq bits, Blue.Rrr.access_eq Blue.Rrr.wordSpec bits x, Blue.Rrr.rank_eq Blue.Rrr.wordSpec bits x,
   Blue.Rrr.rank0_eq Blue.Rrr.wordSpec bits x, Blue.Rrr.select_eq Blue.Rrr.wordSpec bits x,
   Blue.Rrr.vselect0_eq Blue.Rrr.wordSpec bits x, Blue.Rrr.accessRank_eq Blue.Rrr.wordSpec bits x⟩

/-- **cf_rrr** (23 words per block = its select sample of 1449 bits), likewise (the model's
    `construct` is total because the code's has no error path for a `&[bool]`); `rank0` is the trait
    default `Some(x - self.rank(x)?)`, which `cf_rrr` does not override; `access_rank` is ALSO defined
    at `x = len` (`(false, total)`: the `index == len` branch), where the reference's is not, see
    `access_rank_vs_reference`; `select_helper` never reaches its `assert!(rank <= x)` nor the
    underflow of `select0`'s `load_rank` -/
theorem cf_rrr_is_bit_array (bits : List Bool) (x : Nat) :
    Blue.RrrCf.len (Blue.RrrCf.construct bits) = bits.length
      ∧ Blue.RrrCf.access (Blue.RrrCf.construct bits) x = access bits x
      ∧ Blue.RrrCf.rank (Blue.RrrCf.construct bits) x = rank bits x
      ∧ (Blue.RrrCf.rank (Blue.RrrCf.construct bits) x).map (fun r => x - r) = rank0 bits x
      ∧ Blue.RrrCf.select (Blue.RrrCf.construct bits) x = select bits x
      ∧ Blue.RrrCf.select0 (Blue.RrrCf.construct bits) x = select0 bits x
      ∧ Blue.RrrCf.accessRank (Blue.RrrCf.construct bits) x
          = (if x ≤ bits.length then some (bits.getD x false, (bits.take x).count true) else none)
      ∧ (∀ zero, Blue.RrrCf.selectRes (Blue.RrrCf.construct bits) zero x ≠ Blue.RrrCf.Res.panic) :=
  ⟨Blue.RrrCf.len_construct bits, Blue.RrrCf.access_construct Blue.Rrr.wordSpec bits x,
   Blue.RrrCf.rank_construct Blue.Rrr.wordSpec bits x, Blue.C19Audit.cf_rank0 bits x,
   Blue.RrrCf.select_construct Blue.Rrr.wordSpec bits x,
   Blue.RrrCf.select0_construct Blue.Rrr.wordSpec bits x, Blue.RrrCf.accessRank_construct Blue.Rrr.wordSpec bits x,
   fun zero => by rw [Blue.RrrCf.selectRes_construct Blue.Rrr.wordSpec]; intro h; cases h⟩

/-- **sparse**: for every branch factor the code allows (4..255) and every bit pattern, `from_indices` over the
    set positions succeeds and the B-tree answers exactly as the plain bit array (`access_rank` also
    at `x = len`, `(false, total)`, where the reference's is `None`: `access_rank_vs_reference`) -/
theorem sparse_is_bit_array (branch : Nat) (bits : List Bool) (hb1 : 4 ≤ branch) (hb2 : branch < 256)
    (hlen : bits.length ≤ Blue.BvSparse.u64Max) :
    (Blue.BvSparse.build branch bits.length (Blue.BvSparse.indicesOf bits)).isSome = true
    ∧ ∀ t, Blue.BvSparse.build branch bits.length (Blue.BvSparse.indicesOf bits) = some t →
      Blue.BvSparse.len t = bits.length
      ∧ ∀ x, Blue.BvSparse.accessRank t x = (if x ≤ bits.length then
              some (bits.getD x false, (bits.take x).count true) else none)
        ∧ Blue.BvSparse.access t x = access bits x
        ∧ Blue.BvSparse.rank t x = rank bits x
        ∧ Blue.BvSparse.select t x = select bits x
        ∧ Blue.BvSparse.rank0 t x = rank0 bits x
        ∧ Blue.BvSparse.select0 t x = select0 bits x :=
  Blue.BvSparse.bits_theorems hb1 hb2 hlen

/-- `access_rank` against the REFERENCE `access_rank` (`Some((self.access(x)?, self.rank(x)?))`,
    `refAccessRank`): `rrr` equals it at every argument; `cf_rrr` and `sparse` equal it at every
    argument EXCEPT `x = len`, where they answer `Some((false, number of set bits))` -/
theorem access_rank_vs_reference (bits : List Bool) (x : Nat) :
    Blue.Rrr.accessRank (Blue.Rrr.construct bits) x = refAccessRank bits x
    ∧ Blue.RrrCf.accessRank (Blue.RrrCf.construct bits) x
        = (if x = bits.length then some (false, bits.count true) else refAccessRank bits x)
    ∧ (∀ branch t, 4 ≤ branch → branch < 256 → bits.length ≤ Blue.BvSparse.u64Max →
        Blue.BvSparse.build branch bits.length (Blue.BvSparse.indicesOf bits) = some t →
        Blue.BvSparse.accessRank t x
          = (if x = bits.length then some (false, bits.count true) else refAccessRank bits x)) :=
  Blue.C19Audit.accessRank_vs_reference bits x

/-- … spelled out at `x = len`: `None` for the reference and `rrr`, `Some((false, total))` for `cf_rrr`
    and `sparse` — the encodings agree with the plain bit array on `access`, `rank`, `rank0`, `select`,
    `select0` everywhere and differ from EACH OTHER on `access_rank(len)`, as the code does.
    (`refAccessRank` in closed form: `Blue.BitVec.refAccessRank_eq`.) -/
theorem access_rank_at_len (bits : List Bool) :
    refAccessRank bits bits.length = none
    ∧ Blue.Rrr.accessRank (Blue.Rrr.construct bits) bits.length = none
    ∧ Blue.RrrCf.accessRank (Blue.RrrCf.construct bits) bits.length = some (false, bits.count true)
    ∧ (∀ branch t, 4 ≤ branch → branch < 256 → bits.length ≤ Blue.BvSparse.u64Max →
        Blue.BvSparse.build branch bits.length (Blue.BvSparse.indicesOf bits) = some t →
        Blue.BvSparse.accessRank t bits.length = some (false, bits.count true)) :=
  Blue.C19Audit.accessRank_at_len bits

/-- the FOUR vectors the index stores through `from_indices` directly (presence vector of a
    `SampledArray`, branch 128; `Sigma`'s buckets, branch 16; the record boundaries, branch 16; the
    `y_key` vector of the wavelet-tree ψ, branch 128 in the code, proved for every branch factor 4..255)
    answer on the sparse tree like the plain bit arrays the index models use — each for the queries
    the index asks of it -/
theorem sparse_in_the_index :
    (∀ (offs : List Nat) (last : Nat), offs.Pairwise (· < ·) → (∀ o ∈ offs, o ≤ last) → last + 1 ≤ Blue.BvSparse.u64Max →
      ∃ t, Blue.BvSparse.build Blue.Sampled.presentBranch (last + 1) offs = some t ∧ ∀ x,
        Blue.BvSparse.accessRank t x = Blue.Sampled.accessRank (Blue.Sampled.presentBits (last + 1) offs) x)
    ∧ (∀ (text : List Nat), text.length + 1 ≤ Blue.BvSparse.u64Max →
      ∃ t, Blue.BvSparse.build Blue.Sigma.columnsBranch (text.length + 1) (Blue.Sigma.bucketsOf text) = some t ∧ ∀ x,
        Blue.BvSparse.rank t x = rank (Blue.Sigma.sigOf text).columns x
        ∧ Blue.BvSparse.select t x = select (Blue.Sigma.sigOf text).columns x)
    ∧ (∀ (n : Nat) (rb : List Nat), Blue.CsaDoc.admissible n rb = true → n ≤ Blue.BvSparse.u64Max →
      ∃ t, Blue.BvSparse.build Blue.Sampled.boundaryBranch n (Blue.SparseUses.sparseBoundaries rb) = some t ∧ ∀ x,
        Blue.BvSparse.rank t x = rank (Blue.CsaDoc.boundaryBits n rb) x
        ∧ Blue.BvSparse.select t x = select (Blue.CsaDoc.boundaryBits n rb) x)
    ∧ (∀ (syms psi : List Nat) (w : Blue.PsiWt.WtPsi), Blue.PsiWt.Good syms psi →
        Blue.PsiWt.construct syms psi = some w → psi.length ≤ Blue.BvSparse.u64Max →
        ∀ branch, 4 ≤ branch → branch < 256 →
      ∃ ykeys t, w.ykey = Blue.Sampled.presentBits psi.length ykeys
        ∧ Blue.BvSparse.build branch psi.length ykeys = some t ∧ ∀ x,
          Blue.BvSparse.rank t x = rank w.ykey x ∧ Blue.BvSparse.select t x = select w.ykey x) :=
  ⟨fun offs last h1 h2 h3 => Blue.SparseUses.sampled_present offs last h1 h2 h3,
   fun text h => Blue.SparseUses.sigma_columns text h,
   fun n rb h1 h2 => Blue.SparseUses.record_boundaries n rb h1 h2,
   fun _ _ w hg hw hlen branch hb1 hb2 => Blue.C19Audit.psi_ykey hg w hw hlen branch hb1 hb2⟩

/-- the constants of the encodings are the ones in the source (regenerated every run) -/
theorem encodings_from_source :
    (Blue.Rrr.kTab.flatten = Blue.Generated.scrunchRrrKFlat ∧ Blue.Rrr.kTab.map List.length = Blue.Generated.scrunchRrrKRowLens)
    ∧ Blue.Rrr.lTab = Blue.Generated.scrunchRrrL
    ∧ (∀ bits, (Blue.Rrr.construct bits).word = Blue.Generated.scrunchRrrWord
        ∧ (Blue.Rrr.construct bits).select = Blue.Generated.scrunchRrrSelect)
    ∧ Blue.RrrCf.sampleC = Blue.Generated.scrunchCfRrrSelectSample
    ∧ Blue.Sampled.saSampling = Blue.Generated.scrunchSaSampling
    ∧ (Blue.Sampled.presentBranch = Blue.Generated.scrunchSampledArrayBranch
        ∧ Blue.Sigma.columnsBranch = Blue.Generated.scrunchSigmaBranch
        ∧ Blue.Sampled.boundaryBranch = Blue.Generated.scrunchBoundaryBranch
        ∧ Blue.BvSparse.constructBranch = Blue.Generated.scrunchSparseConstructBranch) :=
  ⟨Blue.ConstsTie.scrunch_rrr_K, Blue.ConstsTie.scrunch_rrr_L, Blue.ConstsTie.scrunch_rrr_params,
   Blue.ConstsTie.scrunch_cf_rrr_sample, Blue.ConstsTie.scrunch_sa_sampling, Blue.ConstsTie.scrunch_branches⟩

/-! ## the sampled suffix array and inverse suffix array -/

/-- a `SampledArray` (presence vector + bit-packed values) reads back exactly the pairs it was built
    from, `None` elsewhere -/
theorem sampled_array_lookup (vals : List (Nat × Nat)) (hne : vals ≠ [])
    (hpw : (vals.map (·.1)).Pairwise (· < ·)) :
    ∃ s, Blue.Sampled.construct vals = some s ∧ ∀ x, Blue.Sampled.lookup s x = List.lookup x vals :=
  Blue.Sampled.lookup_construct vals hne hpw

/-- the sampled suffix array — every entry whose text position is a multiple of the stride, ψ-walk
    from any other rank to the next sample or to rank 0 — returns the exact suffix array at every
    rank: for EVERY stride (the code uses `2^6`) and every text length -/
theorem sampled_sa_is_exact (T : List Nat) {l : List (List Nat)} (hperm : l.Perm (suffixes T))
    (hsorted : l.Pairwise (fun a b => lexLt a b = true)) (hT : T ≠ []) (h0 : (str l 0).length = 1) (st : Nat) :
    ∃ s, Blue.Sampled.ssaConstruct st (Blue.Sampled.saList l) = some s
      ∧ ∀ i, i < l.length → Blue.Sampled.ssaLookup l s i = some (saOf l l.length i) :=
  Blue.Sampled.ssaLookup_exact T hperm hsorted hT h0 st

/-- the hypothesis `h0` holds for every text in the code's form (rank 0 is the end marker's suffix) -/
theorem rank_zero_is_marker (text : List Nat) {l : List (List Nat)}
    (hperm : l.Perm (suffixes (Blue.CsaDoc.withMarker text)))
    (hsorted : l.Pairwise (fun a b => lexLt a b = true)) : (str l 0).length = 1 :=
  Blue.Sampled.rank_zero_is_marker text hperm hsorted

/-- the sampled inverse suffix array is exact at every sampled position and an error elsewhere -/
theorem sampled_isa_is_exact (l : List (List Nat)) (rb : List Nat) (hne : rb ≠ [])
    (hpw : rb.Pairwise (· < ·)) (hb : ∀ b ∈ rb, b < l.length) :
    ∃ s, Blue.Sampled.sisaConstruct l rb = some s
      ∧ ∀ x, Blue.Sampled.sisaLookup s x = if x ∈ rb then some (Blue.CsaDoc.isa l x) else none :=
  Blue.Sampled.sisaLookup_exact l rb hne hpw hb

/-- `search` and `retrieve` through the sampled containers are the ones over the exact arrays (about
    which `doc_search_is_scan_text` and `doc_retrieve_record` speak) -/
theorem doc_sampled (T : List Nat) {l : List (List Nat)} (hperm : l.Perm (suffixes T))
    (hsorted : l.Pairwise (fun a b => lexLt a b = true)) (h0 : (str l 0).length = 1)
    (rb : List Nat) (hadm : Blue.CsaDoc.admissible (T.length - 1) rb = true) (st : Nat) :
    ∃ s si, Blue.Sampled.ssaConstruct st (Blue.Sampled.saList l) = some s ∧ Blue.Sampled.sisaConstruct l rb = some si
      ∧ (∀ i, i < l.length → Blue.Sampled.ssaLookup l s i = some (saOf l l.length i))
      ∧ (∀ needle, (backwardSearch l (Blue.CsaDoc.sigmaRange l) needle).2 ≤ l.length →
            Blue.Sampled.searchS l s needle = some (Blue.CsaDoc.search l needle))
      ∧ (∀ r, Blue.Sampled.retrieveS l si (Blue.CsaDoc.boundaryBits (T.length - 1) rb) r
            = Blue.CsaDoc.retrieve l (Blue.CsaDoc.boundaryBits (T.length - 1) rb) r) :=
  Blue.Sampled.sampled_document T hperm hsorted h0 rb hadm st

/-! ## Sigma: code points ↔ dense symbols, and the document on code points -/

/-- `Sigma::construct` never hits the out-of-bounds panic of its dense count table, and returns
    `sigma_to_char` strictly increasing, listing exactly the code points of the text -/
theorem sigma_construct (text : List Nat) :
    ∃ s, Blue.Sigma.construct text = some s ∧ s.sigmaToChar.Pairwise (· < ·) ∧ ∀ t, t ∈ s.sigmaToChar ↔ t ∈ text :=
  ⟨_, Blue.Sigma.construct_sigOf text,
   (Blue.Sigma.sigmaToChar_sorted text _ (Blue.Sigma.construct_sigOf text)).1,
   (Blue.Sigma.sigmaToChar_sorted text _ (Blue.Sigma.construct_sigOf text)).2⟩

/-- round trip and order: `char_to_sigma(t) = Some(σ)` iff `σ ≥ 1` and `sigma_to_char(σ) = t`; `None`
    exactly off the alphabet; the dense symbols keep the order of the code points -/
theorem sigma_roundtrip (s : Blue.Sigma.Sig) (hs : s.sigmaToChar.Pairwise (· < ·)) :
    (∀ t σ, Blue.Sigma.charToSigma s t = some σ ↔ (1 ≤ σ ∧ Blue.Sigma.sigmaToChar s σ = some t))
    ∧ (∀ t, Blue.Sigma.charToSigma s t = none ↔ t ∉ s.sigmaToChar)
    ∧ (∀ t₁ t₂ σ₁ σ₂, Blue.Sigma.charToSigma s t₁ = some σ₁ → Blue.Sigma.charToSigma s t₂ = some σ₂ →
        (t₁ < t₂ ↔ σ₁ < σ₂)) :=
  ⟨fun t σ => Blue.Sigma.charToSigma_iff s hs t σ, fun t => Blue.Sigma.charToSigma_none_iff s t,
   fun t₁ t₂ σ₁ σ₂ h₁ h₂ => Blue.Sigma.charToSigma_mono s hs t₁ t₂ σ₁ σ₂ h₁ h₂⟩

/-- `translate_text` succeeds on the text the alphabet was built from, and `Sigma::sa_range_for(t)` —
    two `select`s on the bucket bit vector, or `(1, 0)` for a code point that does not occur — is the
    block of suffixes of the translated text's index that start with `t`'s symbol -/
theorem sigma_ranges (text : List Nat) {l : List (List Nat)}
    (hperm : l.Perm (suffixes (Blue.Sigma.translated text))) (t : Nat) :
    Blue.Sigma.translate (Blue.Sigma.sigOf text) text = some (Blue.Sigma.translated text)
    ∧ Blue.Sigma.rangeForT (Blue.Sigma.sigOf text) t
        = Blue.CsaDoc.sigmaRange l (Blue.Sigma.needleSym (Blue.Sigma.sigOf text) t) :=
  ⟨Blue.Sigma.translate_sigOf text, Blue.Sigma.rangeForT_eq text hperm t⟩

/-- headline on CODE POINTS: `count` (the real `Sigma` for the symbol ranges, backward search over ψ)
    is the number of positions of the original text at which the needle occurs — for every text
    over any code points, every needle (occurring symbols or not), given only the suffix order -/
theorem doc_count_codepoints (text : List Nat) {l : List (List Nat)}
    (hperm : l.Perm (suffixes (Blue.Sigma.translated text)))
    (hsorted : l.Pairwise (fun a b => lexLt a b = true)) (needle : List Nat) (hne : needle ≠ []) :
    Blue.Csa.count l (Blue.Sigma.rangeForT (Blue.Sigma.sigOf text)) needle
      = ((List.range text.length).filter (fun k => needle.isPrefixOf (text.drop k))).length :=
  Blue.Sigma.count_codepoints text hperm hsorted needle hne

/-- … `search` through the sampled suffix array (any stride) reports exactly those positions, in
    ascending order … -/
theorem doc_search_codepoints (text : List Nat) {l : List (List Nat)}
    (hperm : l.Perm (suffixes (Blue.Sigma.translated text)))
    (hsorted : l.Pairwise (fun a b => lexLt a b = true)) (st : Nat) (needle : List Nat) (hne : needle ≠ []) :
    ∃ ssa ps, Blue.Sampled.ssaConstruct st (Blue.Sampled.saList l) = some ssa
      ∧ Blue.Sampled.searchRT (Blue.Sigma.rangeForT (Blue.Sigma.sigOf text)) (Blue.Sampled.psiTable l) l ssa needle = some ps
      ∧ ps.Pairwise (· ≤ ·) ∧ ∀ k, k ∈ ps ↔ (k < text.length ∧ needle <+: text.drop k) :=
  Blue.Sigma.search_codepoints text hperm hsorted st needle hne

/-- … and `retrieve(r)` — two `select`s, the sampled inverse suffix array, then `sa_index_to_t` and ψ
    once per symbol — returns record `r` of the original text code point for code point -/
theorem doc_retrieve_codepoints (text : List Nat) {l : List (List Nat)}
    (hperm : l.Perm (suffixes (Blue.Sigma.translated text)))
    (hsorted : l.Pairwise (fun a b => lexLt a b = true)) (rb : List Nat)
    (hadm : Blue.CsaDoc.admissible text.length rb = true) (r : Nat) (hr : r < rb.length) :
    ∃ si, Blue.Sampled.sisaConstruct l rb = some si
      ∧ Blue.Sigma.retrieveT (Blue.Sigma.sigOf text) l si (Blue.CsaDoc.boundaryBits text.length rb) r
          = some ((text.drop rb[r]).take (rb[r + 1]?.getD text.length - rb[r])) :=
  Blue.Sigma.retrieve_codepoints text hperm hsorted rb hadm r hr

/-! ## the prefix-code wavelet tree -/

/-- for every prefix-free code book (the real Huffman book is checked per input) and every text over
    it: `construct` succeeds, `access` is the reference `access`, and `rank_q` / `select_q` of every
    symbol that occurs are the reference ones, at every argument -/
theorem wavelet_tree_is_reference (cb : Blue.Wavelet.CodeBook) (text : List Nat)
    (hpf : Blue.Wavelet.prefixFreeB cb = true) (hin : Blue.Wavelet.inBookB cb text = true) :
    ∃ w, Blue.Wavelet.construct cb text = some w ∧ Blue.Wavelet.len w = text.length
      ∧ (∀ x, Blue.Wavelet.access w x = Blue.WaveletRef.access text x)
      ∧ (∀ q, q ∈ text → ∀ x, Blue.Wavelet.rankQ w q x = Blue.WaveletRef.rankQ text q x
          ∧ Blue.Wavelet.selectQ w q x = Blue.WaveletRef.selectQ text q x) := by
  obtain ⟨w, hw, hl, _⟩ := Blue.Wavelet.construct_ok cb text hpf hin
  exact ⟨w, hw, hl, fun x => Blue.Wavelet.access_eq cb text hpf hin w hw x,
    fun q hq x => ⟨Blue.Wavelet.rankQ_eq cb text hpf hin w hw q hq x, Blue.Wavelet.selectQ_eq cb text hpf hin w hw q hq x⟩⟩


/-! ## the wavelet-tree ψ and the compressed document with the algorithm of every component as the code has it

(inner bit vectors and row trees are decoded lists with the reference `rank` / `select` / `rank_q` /
`select_q`; the encoded forms are the subject of `sparse_in_the_index` and `wavelet_tree_is_reference`) -/

/-- `WaveletTreePsi::construct` succeeds on every `Good` input (ψ a permutation, first symbols
    non-decreasing, ψ increasing inside a column), `lookup(idx)` is `psi[idx]` at every rank, and
    `constrain(column of σ, (a, b))` (closed ranges, `1 ≤ r0`) is `ReferencePsi::constrain` — the two
    binary searches over the ψ slice — for every closed `(a, b)`; no `assert!` fires -/
theorem wavelet_psi_is_reference {syms psi : List Nat} (h : Blue.PsiWt.Good syms psi) :
    ∃ w, Blue.PsiWt.construct syms psi = some w ∧ Blue.PsiWt.len w = psi.length
      ∧ (∀ idx, idx < psi.length → Blue.PsiWt.lookupO syms w idx = .ok (psi.getD idx 0))
      ∧ (∀ σ r0 r1, Blue.PsiWt.IsColumn syms σ r0 r1 → 1 ≤ r0 → ∀ a b, a ≤ b →
          Blue.PsiWt.constrain syms w (r0, r1) (a, b) = .ok (Blue.PsiWt.refConstrain psi (r0, r1) (a, b))) := by
  obtain ⟨w, hw, hl⟩ := Blue.PsiWt.construct_ok h
  exact ⟨w, hw, hl, fun idx hi => (Blue.PsiWt.lookup_spec h w hw idx hi).1,
    fun σ r0 r1 hc h0 a b hab => Blue.PsiWt.constrain_spec h w hw hc h0 a b hab⟩

/-- what a real text delivers is `Good` (given the suffix order) -/
theorem wavelet_psi_input_good (text : List Nat) (l : List (List Nat))
    (hperm : l.Perm (suffixes (Blue.CsaDoc.withMarker text))) (hsorted : l.Pairwise (fun a b => lexLt a b = true)) :
    Blue.PsiWt.Good (Blue.PsiWt.symsOf l) (Blue.PsiWt.psiOf (Blue.CsaDoc.withMarker text) l) :=
  Blue.PsiWt.good_of_suffixes text l hperm hsorted

/-- every `select_q` of `lookup` and every `rank_q` of `lower_bound` / `upper_bound` asks a row's tree
    about a symbol that occurs in that row — where the Huffman-shaped tree equals the reference -/
theorem psi_asks_occurring_symbols {syms psi : List Nat} (h : Blue.PsiWt.Good syms psi) (w : Blue.PsiWt.WtPsi)
    (hw : Blue.PsiWt.construct syms psi = some w) :
    (∀ idx, idx < psi.length → ∃ k j c, rank w.ykey idx = some k ∧ w.yvalue[k]? = some j ∧ w.table[j]? = some c
        ∧ syms.getD idx 0 ∈ c.tree)
    ∧ (∀ σ r0 r1, Blue.PsiWt.IsColumn syms σ r0 r1 → 1 ≤ r0 → ∀ point,
        ∃ c s e, Blue.PsiWt.boundCell syms w point (r0, r1) = .ok (.inr (c, s, e, σ)) ∧ σ ∈ c.tree) :=
  ⟨fun idx hi => Blue.PsiWt.lookup_symbol_occurs h w hw idx hi,
   fun _ _ _ hc h0 point => Blue.PsiWt.bound_symbol_occurs h w hw hc h0 point⟩

/-- outside the property (all callers pass whole columns), kept as a theorem: on a sub-range of a
    column that does not end on cell boundaries `WaveletTreePsi::constrain` answers for whole cells
    where `ReferencePsi::constrain` clamps to the range (text `aaaa`) -/
theorem wavelet_psi_subrange_not_clamped :
    (Blue.PsiWt.construct [0, 1, 1, 1, 1] [4, 0, 1, 2, 3]).map (fun w => Blue.PsiWt.constrain [0, 1, 1, 1, 1] w (1, 3) (0, 3))
        = some (.ok (1, 4))
    ∧ Blue.PsiWt.refConstrain [4, 0, 1, 2, 3] (1, 3) (0, 3) = (1, 3)
    ∧ Blue.PsiWt.goodB [0, 1, 1, 1, 1] [4, 0, 1, 2, 3] = true := Blue.PsiWt.subrange_not_clamped

/-- HEADLINE, the algorithm of every component as in `CompressedDocument` (inner bit vectors / row
    trees as decoded lists, see the section comment): for every text over any code points, given
    only that `l` is the strictly increasing arrangement of the suffixes of the translated text (what
    SA-IS must deliver): the wavelet-tree ψ exists; `count` (Sigma ranges, closed-range backward search
    through `WaveletTreePsi::constrain`) is the number of occurrences of the needle in the text … -/
theorem compressed_count_is_scan (text : List Nat) {l : List (List Nat)}
    (hperm : l.Perm (suffixes (Blue.Sigma.translated text)))
    (hsorted : l.Pairwise (fun a b => lexLt a b = true)) :
    ∃ w, Blue.PsiWt.construct (Blue.PsiWt.symsOf l) (Blue.PsiWt.psiOf (Blue.Sigma.translated text) l) = some w
      ∧ Blue.PsiWt.len w = text.length + 1
      ∧ ∀ needle, needle ≠ [] →
          Blue.PsiDoc.count (Blue.PsiWt.symsOf l) w (Blue.Sigma.rangeForT (Blue.Sigma.sigOf text)) needle
            = .ok (((List.range text.length).filter (fun k => needle.isPrefixOf (text.drop k))).length) := by
  obtain ⟨w, hw, hl⟩ := Blue.PsiDoc.construct_exists text hperm hsorted
  exact ⟨w, hw, hl, fun needle hne => Blue.PsiDoc.count_is_scan text hperm hsorted w hw needle hne⟩

/-- … `search` (the same range, then the ψ-walk of the sampled suffix array over
    `WaveletTreePsi::lookup`, any stride) reports exactly the occurrence positions in ascending order … -/
theorem compressed_search_is_scan (text : List Nat) {l : List (List Nat)}
    (hperm : l.Perm (suffixes (Blue.Sigma.translated text)))
    (hsorted : l.Pairwise (fun a b => lexLt a b = true)) (w : Blue.PsiWt.WtPsi)
    (hw : Blue.PsiWt.construct (Blue.PsiWt.symsOf l) (Blue.PsiWt.psiOf (Blue.Sigma.translated text) l) = some w)
    (st : Nat) (needle : List Nat) (hne : needle ≠ []) :
    ∃ ssa ps, Blue.Sampled.ssaConstruct st (Blue.Sampled.saList l) = some ssa
      ∧ Blue.PsiDoc.search (Blue.PsiWt.symsOf l) w (Blue.Sigma.rangeForT (Blue.Sigma.sigOf text)) ssa needle = .ok ps
      ∧ ps.Pairwise (· ≤ ·) ∧ ∀ k, k ∈ ps ↔ (k < text.length ∧ needle <+: text.drop k) :=
  Blue.PsiDoc.search_is_scan text hperm hsorted w hw st needle hne

/-- … and `retrieve(r)` (two `select`s, the sampled inverse suffix array, then `sa_index_to_t` and
    `WaveletTreePsi::lookup` once per symbol) returns record `r` code point for code point -/
theorem compressed_retrieve_is_record (text : List Nat) {l : List (List Nat)}
    (hperm : l.Perm (suffixes (Blue.Sigma.translated text)))
    (hsorted : l.Pairwise (fun a b => lexLt a b = true)) (w : Blue.PsiWt.WtPsi)
    (hw : Blue.PsiWt.construct (Blue.PsiWt.symsOf l) (Blue.PsiWt.psiOf (Blue.Sigma.translated text) l) = some w)
    (rb : List Nat) (hadm : Blue.CsaDoc.admissible text.length rb = true) (r : Nat) (hr : r < rb.length) :
    ∃ si, Blue.Sampled.sisaConstruct l rb = some si
      ∧ Blue.PsiDoc.retrieve (Blue.Sigma.sigOf text) (Blue.PsiWt.symsOf l) w si (Blue.CsaDoc.boundaryBits text.length rb) r
          = some ((text.drop rb[r]).take (rb[r + 1]?.getD text.length - rb[r])) :=
  Blue.PsiDoc.retrieve_is_record text hperm hsorted w hw rb hadm r hr

/-- `Document::len` (`psi.len() - 1`, the expression the driver renders as `len=`) is the length of
    the original text; `count` of the EMPTY needle is the length of the text, hence `count` is the
    plain scan's for EVERY needle; `search` of the empty needle reports every position, ascending -/
theorem compressed_len_and_empty_needle (text : List Nat) {l : List (List Nat)}
    (hperm : l.Perm (suffixes (Blue.Sigma.translated text)))
    (hsorted : l.Pairwise (fun a b => lexLt a b = true)) (w : Blue.PsiWt.WtPsi)
    (hw : Blue.PsiWt.construct (Blue.PsiWt.symsOf l) (Blue.PsiWt.psiOf (Blue.Sigma.translated text) l) = some w) :
    Blue.PsiDoc.docLen w = text.length
    ∧ Blue.PsiDoc.count (Blue.PsiWt.symsOf l) w (Blue.Sigma.rangeForT (Blue.Sigma.sigOf text)) [] = .ok text.length
    ∧ (∀ needle, Blue.PsiDoc.count (Blue.PsiWt.symsOf l) w (Blue.Sigma.rangeForT (Blue.Sigma.sigOf text)) needle
          = .ok (((List.range text.length).filter (fun k => needle.isPrefixOf (text.drop k))).length))
    ∧ (∀ st, ∃ ssa ps, Blue.Sampled.ssaConstruct st (Blue.Sampled.saList l) = some ssa
          ∧ Blue.PsiDoc.search (Blue.PsiWt.symsOf l) w (Blue.Sigma.rangeForT (Blue.Sigma.sigOf text)) ssa [] = .ok ps
          ∧ ps.Pairwise (· ≤ ·) ∧ ∀ k, k ∈ ps ↔ k < text.length) :=
  ⟨Blue.PsiDoc.docLen_eq text hperm hsorted w hw, Blue.PsiDoc.count_empty text hperm hsorted w hw,
   fun needle => Blue.PsiDoc.count_is_scan_all text hperm hsorted w hw needle,
   fun st => Blue.PsiDoc.search_empty text hperm hsorted w hw st⟩

/-- the four `compressed_*` theorems with NO hypothesis left: for every text over any code points the
    sorted arrangement `l` of the suffixes of the translated text exists (exactly one:
    `sortedSuffixes`), the wavelet-tree ψ `w` built from it exists, the sampled suffix array exists
    for every stride and the sampled inverse for every admissible division into records, and over
    them `Document::len` is the length of the text, `count` is the plain scan's for every needle
    (empty, occurring or absent), `search` reports exactly the occurrence positions in ascending
    order and `retrieve(r)` is record `r`.  What this does NOT say is that `sais.rs` computes this
    `l` (decided per input by the correspondence run) -/
theorem compressed_document_exists (text : List Nat) :
    ∃ l w, l = sortedSuffixes (Blue.Sigma.translated text)
      ∧ (∀ l', l'.Perm (suffixes (Blue.Sigma.translated text)) →
            l'.Pairwise (fun a b => lexLt a b = true) → l' = l)
      ∧ Blue.PsiWt.construct (Blue.PsiWt.symsOf l) (Blue.PsiWt.psiOf (Blue.Sigma.translated text) l) = some w
      ∧ Blue.PsiDoc.docLen w = text.length
      ∧ (∀ needle, Blue.PsiDoc.count (Blue.PsiWt.symsOf l) w (Blue.Sigma.rangeForT (Blue.Sigma.sigOf text)) needle
            = .ok (((List.range text.length).filter (fun k => needle.isPrefixOf (text.drop k))).length))
      ∧ (∀ st needle, ∃ ssa ps, Blue.Sampled.ssaConstruct st (Blue.Sampled.saList l) = some ssa
            ∧ Blue.PsiDoc.search (Blue.PsiWt.symsOf l) w (Blue.Sigma.rangeForT (Blue.Sigma.sigOf text)) ssa needle = .ok ps
            ∧ ps.Pairwise (· ≤ ·) ∧ ∀ k, k ∈ ps ↔ (k < text.length ∧ needle <+: text.drop k))
      ∧ (∀ rb, Blue.CsaDoc.admissible text.length rb = true → ∀ r (hr : r < rb.length),
            ∃ si, Blue.Sampled.sisaConstruct l rb = some si
              ∧ Blue.PsiDoc.retrieve (Blue.Sigma.sigOf text) (Blue.PsiWt.symsOf l) w si
                  (Blue.CsaDoc.boundaryBits text.length rb) r
                = some ((text.drop rb[r]).take (rb[r + 1]?.getD text.length - rb[r]))) :=
  Blue.C19Audit.compressed_document_exists text

/-! ## non-vacuity -/

/-- the text `a b a b $` (`1 2 1 2 0`): `ab` occurs twice, `ba` once, `bb` never -/
example : exL.Perm (suffixes [1, 2, 1, 2, 0]) ∧ exL.Pairwise (fun a b => lexLt a b = true) := by decide
example : Blue.CsaDoc.Marked [1, 2, 1, 2, 0] := by decide
example : Blue.CsaDoc.count exL [1, 2] = 2 ∧ Blue.CsaDoc.count exL [2, 1] = 1
    ∧ Blue.CsaDoc.count exL [2, 2] = 0 ∧ Blue.CsaDoc.count exL [3] = 0
    ∧ Blue.CsaDoc.search exL [1, 2] = [0, 2] ∧ Blue.CsaDoc.search exL [] = [0, 1, 2, 3] := by decide
example : RangeOk exL 1 (Blue.CsaDoc.sigmaRange exL 1) :=
  Blue.CsaDoc.sigmaRange_ok [1, 2, 1, 2, 0] (by decide) (by decide) (by decide) 1 (by decide)
example : exL.Perm (suffixes (Blue.CsaDoc.withMarker [0, 1, 0, 1])) := by decide
example : Blue.CsaDoc.admissible 4 [0, 2, 3] = true
    ∧ Blue.CsaDoc.retrieve exL (Blue.CsaDoc.boundaryBits 4 [0, 2, 3]) 0 = some [1, 2]
    ∧ Blue.CsaDoc.retrieve exL (Blue.CsaDoc.boundaryBits 4 [0, 2, 3]) 2 = some [2]
    ∧ Blue.CsaDoc.lookup (Blue.CsaDoc.boundaryBits 4 [0, 2, 3]) 2 = some 1 := by decide
example : select [false, true, false, true] 2 = some 4 ∧ select [false, true, false, true] 3 = none
    ∧ select0 [false, true, false, true] 2 = some 3 ∧ rank0 [false, true] 2 = some 1 := by decide
example : partitionBy (fun i => decide (i < 3)) 11 0 10 = 3 := by decide

/-- the encodings on concrete inputs -/
example : Blue.Rrr.encode 0b101100 = (26, 3) ∧ Blue.Rrr.decode 26 3 = some 0b101100 := by decide
example : Blue.Sampled.bitsRequired 255 = 9 ∧ Blue.Sampled.bitsRequired 256 = 9 := by decide
example : (Blue.Sampled.ssaConstruct 2 (Blue.Sampled.saList exL)).map
    (fun s => (List.range 5).map (Blue.Sampled.ssaLookup exL s)) = some [some 4, some 2, some 0, some 3, some 1] := by decide
example : (Blue.Sampled.sisaConstruct exL [0, 2, 3]).map (fun s => (List.range 5).map (Blue.Sampled.sisaLookup s))
    = some [some 2, none, some 1, some 3, none] := by decide
example : (str exL 0).length = 1 := by decide
/-- `m i s s i` over code points 105 109 115: the alphabet, the translation and the ranges -/
example : (Blue.Sigma.construct [109, 105, 115, 115, 105]).map (fun s => s.sigmaToChar) = some [105, 109, 115]
    ∧ (Blue.Sigma.construct [109, 105, 115, 115, 105]).bind (fun s => Blue.Sigma.translate s [109, 105, 115, 115, 105])
        = some [2, 1, 3, 3, 1, 0]
    ∧ (Blue.Sigma.construct [109, 105, 115, 115, 105]).bind (fun s => Blue.Sigma.saRangeFor s 105) = some (1, 2)
    ∧ (Blue.Sigma.construct [109, 105, 115, 115, 105]).bind (fun s => Blue.Sigma.saRangeFor s 115) = some (4, 5)
    ∧ (Blue.Sigma.construct [109, 105, 115, 115, 105]).bind (fun s => Blue.Sigma.saRangeFor s 110) = some (1, 0) := by
  decide
example : Blue.Wavelet.prefixFreeB [(7, 0, 1), (8, 1, 2), (9, 3, 2)] = true
    ∧ Blue.Wavelet.inBookB [(7, 0, 1), (8, 1, 2), (9, 3, 2)] [7, 8, 7, 9] = true := by decide
/-- the wavelet-tree ψ of `a b a b $`: it exists, looks ψ up, and constrains `a`'s column -/
example : Blue.PsiWt.goodB (Blue.PsiWt.symsOf exL) (Blue.PsiWt.psiOf [1, 2, 1, 2, 0] exL) = true := by decide
example : (Blue.PsiWt.construct (Blue.PsiWt.symsOf exL) (Blue.PsiWt.psiOf [1, 2, 1, 2, 0] exL)).map
    (fun w => ((List.range 5).map (Blue.PsiWt.lookup (Blue.PsiWt.symsOf exL) w),
               Blue.PsiWt.constrain (Blue.PsiWt.symsOf exL) w (1, 2) (3, 4),
               Blue.PsiDoc.count (Blue.PsiWt.symsOf exL) w (Blue.CsaDoc.sigmaRange exL) [1, 2]))
    = some ([some 2, some 3, some 4, some 0, some 1], .ok (1, 2), .ok 2) := by decide


/-! ### a real text over code points: `m i s s i` = 109 105 115 115 105

    The hypotheses of the code-point and `compressed_*` theorems over `Sigma.translated` of a real
    text, with the suffix arrangement COMPUTED (`sortedSuffixes`), not written down; then the
    theorems instantiated at it, and the compressed document evaluated on it. -/
def missi : List Nat := [109, 105, 115, 115, 105]
abbrev missiL : List (List Nat) := sortedSuffixes (Blue.Sigma.translated missi)
example : Blue.Sigma.translated missi = [2, 1, 3, 3, 1, 0] := by decide
example : missiL = [[0], [1, 0], [1, 3, 3, 1, 0], [2, 1, 3, 3, 1, 0], [3, 1, 0], [3, 3, 1, 0]] := by decide
example : missiL.Perm (suffixes (Blue.Sigma.translated missi))
    ∧ missiL.Pairwise (fun a b => lexLt a b = true) := by decide
example : sortedSuffixes [1, 2, 1, 2, 0] = exL := by decide
/-- `compressed_count_is_scan` at this witness (its hypotheses decided) -/
example : ∃ w, Blue.PsiWt.construct (Blue.PsiWt.symsOf missiL) (Blue.PsiWt.psiOf (Blue.Sigma.translated missi) missiL) = some w
      ∧ Blue.PsiWt.len w = 6
      ∧ ∀ needle, needle ≠ [] →
          Blue.PsiDoc.count (Blue.PsiWt.symsOf missiL) w (Blue.Sigma.rangeForT (Blue.Sigma.sigOf missi)) needle
            = .ok (((List.range 5).filter (fun k => needle.isPrefixOf (missi.drop k))).length) :=
  compressed_count_is_scan missi (by decide) (by decide)
/-- the document on it: `len`, then `count` of `si`, `s`, `is`, an absent code point, `ssi`, the empty needle -/
example : (Blue.PsiWt.construct (Blue.PsiWt.symsOf missiL) (Blue.PsiWt.psiOf (Blue.Sigma.translated missi) missiL)).map
    (fun w => (Blue.PsiDoc.docLen w,
      [[115, 105], [115], [105, 115], [110], [115, 115, 105], []].map
        (Blue.PsiDoc.count (Blue.PsiWt.symsOf missiL) w (Blue.Sigma.rangeForT (Blue.Sigma.sigOf missi)))))
    = some (5, [.ok 1, .ok 2, .ok 1, .ok 0, .ok 1, .ok 5]) := by decide
/-- `search` (stride 2) of `s` and of the empty needle; `retrieve` of the two records `mi | ssi` -/
example : (Blue.PsiWt.construct (Blue.PsiWt.symsOf missiL) (Blue.PsiWt.psiOf (Blue.Sigma.translated missi) missiL)).bind
    (fun w => (Blue.Sampled.ssaConstruct 2 (Blue.Sampled.saList missiL)).bind (fun ssa =>
      (Blue.Sampled.sisaConstruct missiL [0, 2]).map (fun si =>
        (Blue.PsiDoc.search (Blue.PsiWt.symsOf missiL) w (Blue.Sigma.rangeForT (Blue.Sigma.sigOf missi)) ssa [115],
         Blue.PsiDoc.search (Blue.PsiWt.symsOf missiL) w (Blue.Sigma.rangeForT (Blue.Sigma.sigOf missi)) ssa [],
         Blue.PsiDoc.retrieve (Blue.Sigma.sigOf missi) (Blue.PsiWt.symsOf missiL) w si (Blue.CsaDoc.boundaryBits 5 [0, 2]) 0,
         Blue.PsiDoc.retrieve (Blue.Sigma.sigOf missi) (Blue.PsiWt.symsOf missiL) w si (Blue.CsaDoc.boundaryBits 5 [0, 2]) 1))))
    = some (.ok [2, 3], .ok [0, 1, 2, 3, 4], some [109, 105], some [115, 115, 105]) := by decide
/-- `access_rank` at `x = len` on `1 0 1`: the reference and `rrr` have none, `cf_rrr` and `sparse` answer `(false, 2)` -/
example : refAccessRank [true, false, true] 3 = none ∧ refAccessRank [true, false, true] 2 = some (true, 1)
    ∧ (Blue.BvSparse.build 4 3 (Blue.BvSparse.indicesOf [true, false, true])).map (fun t => Blue.BvSparse.accessRank t 3)
        = some (some (false, 2)) := by decide
example : Blue.Rrr.accessRank (Blue.Rrr.construct [true, false, true]) 3 = none
    ∧ Blue.RrrCf.accessRank (Blue.RrrCf.construct [true, false, true]) 3 = some (false, 2) :=
  ⟨(access_rank_at_len [true, false, true]).2.1, (access_rank_at_len [true, false, true]).2.2.1⟩

-- BEGIN Huffman
/-! ## the Huffman code construction (`HuffmanEncoder::construct`, scrunch/src/encoder.rs:216-255)

`Blue.Huffman.huffmanHeap` is the construction with the tie-breaking of `std`'s `BinaryHeap`,
`Blue.Huffman.huffman` the same with a sorted list as the priority queue (a new node goes after the
nodes of equal weight), `Blue.Huffman.Outcome` the construction up to tie-breaking (any two minimal
nodes may be merged).  The three differ in the LENGTHS they give on ties (example below); the
theorems hold for all of them because, but for the Fibonacci family, they hold for the canonical
code of EVERY binary tree over the symbols (`huffman_every_tree`).  Frequencies need not be positive
for any of them.  Kraft's equality is stated without fractions: `Σ 2^(L - len) = 2^L`. -/

/-- the canonical code book of ANY binary tree whose leaves are the distinct symbols `syms`: exactly
    those symbols; prefix free as `wavelet_tree_is_reference` needs it; complete; no word longer than
    `|syms| - 1` (one symbol: the one-bit code) -/
theorem huffman_every_tree (t : Blue.Huffman.HTree) (syms : List Nat)
    (hperm : (Blue.Huffman.leaves t).Perm syms) (hnd : syms.Nodup) :
    ((Blue.Huffman.codeBook t).map (·.1)).Perm syms
    ∧ Blue.Wavelet.prefixFreeB (Blue.Huffman.codeBook t) = true
    ∧ (2 ≤ syms.length → ∀ L, syms.length ≤ L + 1 →
        Blue.Huffman.kraftSum L (Blue.Huffman.codeBook t) = 2 ^ L)
    ∧ (∀ en ∈ Blue.Huffman.codeBook t, 1 ≤ en.2.2 ∧ en.2.2 ≤ max 1 (syms.length - 1)) :=
  Blue.Huffman.tree_code_book t syms hperm hnd

/-- the code book has exactly the input symbols (distinct input symbols: each once) -/
theorem huffman_symbols (freqs : List (Nat × Nat)) :
    ((Blue.Huffman.huffman freqs).map (·.1)).Perm (freqs.map (·.1)) :=
  Blue.Huffman.huffman_symbols freqs

/-- no code word is a (least-significant-bit-first) prefix of another, every length is at least one,
    every code fits its length: the hypothesis `hpf` of `wavelet_tree_is_reference`, for every table
    of distinct symbols (one symbol included) -/
theorem huffman_prefix_free (freqs : List (Nat × Nat)) (hnd : (freqs.map (·.1)).Nodup) :
    Blue.Wavelet.prefixFreeB (Blue.Huffman.huffman freqs) = true :=
  Blue.Huffman.huffman_prefix_free freqs hnd

/-- exactly one symbol: the one-bit code `0`, not the empty code (encoder.rs:247-248) -/
theorem huffman_single (s w : Nat) : Blue.Huffman.huffman [(s, w)] = [(s, 0, 1)] :=
  Blue.Huffman.huffman_single s w

/-- Kraft's equality `Σ 2^(-len) = 1` (scaled by `2^L`, any `L ≥ n - 1`): the code is complete, the
    wavelet tree has no dead branch -/
theorem huffman_kraft (freqs : List (Nat × Nat)) (hnd : (freqs.map (·.1)).Nodup) (h2 : 2 ≤ freqs.length)
    (L : Nat) (hL : freqs.length ≤ L + 1) :
    Blue.Huffman.kraftSum L (Blue.Huffman.huffman freqs) = 2 ^ L :=
  Blue.Huffman.huffman_kraft freqs hnd h2 L hL

/-- every length is between one and `n - 1` -/
theorem huffman_depth_bound (freqs : List (Nat × Nat)) (hnd : (freqs.map (·.1)).Nodup) :
    ∀ en ∈ Blue.Huffman.huffman freqs, 1 ≤ en.2.2 ∧ en.2.2 ≤ max 1 (freqs.length - 1) :=
  Blue.Huffman.huffman_depth_bound freqs hnd

/-- … and the bound is reached: the table with Fibonacci frequencies `1, 1, 2, 3, 5, …` of `n ≥ 2`
    symbols has a code word of length `n - 1` (so lengths do not fit 16 — or 32 — bits in general) -/
theorem huffman_fibonacci_depth (n : Nat) (hn : 2 ≤ n) :
    ∃ en ∈ Blue.Huffman.huffman (Blue.Huffman.fibTable n), en.2.2 = n - 1 :=
  Blue.Huffman.huffman_fibonacci_depth n hn

/-- … under EVERY tie-breaking: whichever two minimal nodes each step merges (the `BinaryHeap`
    included, as a min-heap), the Fibonacci table ends in a tree with a word of length `n - 1` -/
theorem huffman_fibonacci_depth_any_ties (n : Nat) (hn : 2 ≤ n) (t : Blue.Huffman.HTree)
    (h : Blue.Huffman.Outcome (Blue.Huffman.initial (Blue.Huffman.fibTable n)) t) :
    ∃ en ∈ Blue.Huffman.codeBook t, en.2.2 = n - 1 :=
  Blue.Huffman.outcome_fibonacci_depth n hn t h

/-- the sorted-list loop is one of the outcomes of the nondeterministic construction, and every
    outcome has the four properties -/
theorem huffman_outcomes (freqs : List (Nat × Nat)) (hnd : (freqs.map (·.1)).Nodup) :
    (∀ t, Blue.Huffman.buildTree freqs = some t → Blue.Huffman.Outcome (Blue.Huffman.initial freqs) t)
    ∧ ∀ t, Blue.Huffman.Outcome (Blue.Huffman.initial freqs) t →
      ((Blue.Huffman.codeBook t).map (·.1)).Perm (freqs.map (·.1))
      ∧ Blue.Wavelet.prefixFreeB (Blue.Huffman.codeBook t) = true
      ∧ (2 ≤ freqs.length → ∀ L, freqs.length ≤ L + 1 →
          Blue.Huffman.kraftSum L (Blue.Huffman.codeBook t) = 2 ^ L)
      ∧ (∀ en ∈ Blue.Huffman.codeBook t, 1 ≤ en.2.2 ∧ en.2.2 ≤ max 1 (freqs.length - 1)) :=
  ⟨fun t h => Blue.Huffman.buildTree_outcome freqs t h,
   fun t h => Blue.Huffman.outcome_code_book freqs hnd t h⟩

/-- decoding the concatenated code words (bit-serial, least significant bit first, as the wavelet
    tree walks them) of a symbol list returns the list -/
theorem huffman_decode_encode (freqs : List (Nat × Nat)) (hnd : (freqs.map (·.1)).Nodup) (text : List Nat)
    (hin : ∀ q ∈ text, q ∈ freqs.map (·.1)) :
    Blue.Huffman.decodeBits (Blue.Huffman.huffman freqs) 0 0
      (Blue.Huffman.encodeBits (Blue.Huffman.huffman freqs) text) = text :=
  Blue.Huffman.decode_encode freqs hnd text hin

/-- `wavelet_tree_is_reference` with the prefix-code hypothesis DISCHARGED: over the Huffman book of
    any table of distinct symbols and any text over those symbols, the tree exists, `access` is the
    reference, `rank_q` / `select_q` of every occurring symbol are the reference, at every argument -/
theorem wavelet_tree_over_huffman (freqs : List (Nat × Nat)) (hnd : (freqs.map (·.1)).Nodup) (text : List Nat)
    (hin : ∀ q ∈ text, q ∈ freqs.map (·.1)) :
    ∃ w, Blue.Wavelet.construct (Blue.Huffman.huffman freqs) text = some w ∧ Blue.Wavelet.len w = text.length
      ∧ (∀ x, Blue.Wavelet.access w x = Blue.WaveletRef.access text x)
      ∧ (∀ q, q ∈ text → ∀ x, Blue.Wavelet.rankQ w q x = Blue.WaveletRef.rankQ text q x
          ∧ Blue.Wavelet.selectQ w q x = Blue.WaveletRef.selectQ text q x) :=
  Blue.Huffman.wavelet_tree_over_huffman freqs hnd text hin

/-- the same for the construction WITH THE `BinaryHeap`'S TIE-BREAKING (`push` / `pop` /
    `sift_up` / `sift_down_to_bottom` of `std` over `Reverse<Node>`): symbols, prefix freedom,
    Kraft's equality, depth bound … -/
theorem huffman_heap_code_book (freqs : List (Nat × Nat)) (hnd : (freqs.map (·.1)).Nodup) :
    ((Blue.Huffman.huffmanHeap freqs).map (·.1)).Perm (freqs.map (·.1))
    ∧ Blue.Wavelet.prefixFreeB (Blue.Huffman.huffmanHeap freqs) = true
    ∧ (2 ≤ freqs.length → ∀ L, freqs.length ≤ L + 1 →
        Blue.Huffman.kraftSum L (Blue.Huffman.huffmanHeap freqs) = 2 ^ L)
    ∧ (∀ en ∈ Blue.Huffman.huffmanHeap freqs, 1 ≤ en.2.2 ∧ en.2.2 ≤ max 1 (freqs.length - 1)) :=
  Blue.Huffman.huffmanHeap_code_book freqs hnd

/-- … and the wavelet tree over it -/
theorem wavelet_tree_over_huffman_heap (freqs : List (Nat × Nat)) (hnd : (freqs.map (·.1)).Nodup) (text : List Nat)
    (hin : ∀ q ∈ text, q ∈ freqs.map (·.1)) :
    ∃ w, Blue.Wavelet.construct (Blue.Huffman.huffmanHeap freqs) text = some w ∧ Blue.Wavelet.len w = text.length
      ∧ (∀ x, Blue.Wavelet.access w x = Blue.WaveletRef.access text x)
      ∧ (∀ q, q ∈ text → ∀ x, Blue.Wavelet.rankQ w q x = Blue.WaveletRef.rankQ text q x
          ∧ Blue.Wavelet.selectQ w q x = Blue.WaveletRef.selectQ text q x) :=
  Blue.Huffman.wavelet_tree_over_huffmanHeap freqs hnd text hin

/-- NO hypothesis left: `WaveletTree::construct(symbols)` builds its encoder from the symbols
    themselves (`E::construct(symbols)`, prefix.rs:350; `bookOfText` = frequencies in ascending
    symbol order, then the heap construction).  For EVERY text the tree exists and answers `access`
    everywhere and `rank_q` / `select_q` of every occurring symbol like the reference -/
theorem wavelet_tree_of_text (text : List Nat) :
    ∃ w, Blue.Wavelet.construct (Blue.Huffman.bookOfText text) text = some w ∧ Blue.Wavelet.len w = text.length
      ∧ (∀ x, Blue.Wavelet.access w x = Blue.WaveletRef.access text x)
      ∧ (∀ q, q ∈ text → ∀ x, Blue.Wavelet.rankQ w q x = Blue.WaveletRef.rankQ text q x
          ∧ Blue.Wavelet.selectQ w q x = Blue.WaveletRef.selectQ text q x) :=
  Blue.Huffman.wavelet_tree_of_text text

/-- the heap model IS a min-heap construction: `push` / `pop` keep the heap order and `pop` returns a
    minimal node (`Blue/Proofs/HuffmanHeap.lean`), so the tree it builds is an outcome of the
    nondeterministic construction (two minimal nodes merged at every step) … -/
theorem huffman_heap_is_outcome (freqs : List (Nat × Nat)) (t : Blue.Huffman.HTree)
    (h : Blue.Huffman.heapTree freqs = some t) :
    Blue.Huffman.Outcome (Blue.Huffman.initial freqs) t :=
  Blue.Huffman.heapTree_outcome freqs t h

/-- … and the Fibonacci depth holds with the `BinaryHeap`'s own tie-breaking, for every `n ≥ 2` -/
theorem huffman_heap_fibonacci_depth (n : Nat) (hn : 2 ≤ n) :
    ∃ en ∈ Blue.Huffman.huffmanHeap (Blue.Huffman.fibTable n), en.2.2 = n - 1 :=
  Blue.Huffman.huffmanHeap_fibonacci_depth n hn

/-! ### non-vacuity of the `Huffman` block -/

/-- the code book for frequencies `a:5 b:2 c:1 d:1` (symbols 10..13), both models; its bits -/
example : Blue.Huffman.huffman [(10, 5), (11, 2), (12, 1), (13, 1)] = [(10, 0, 1), (11, 1, 2), (12, 3, 3), (13, 7, 3)]
    ∧ Blue.Huffman.huffmanHeap [(10, 5), (11, 2), (12, 1), (13, 1)] = [(10, 0, 1), (11, 1, 2), (12, 3, 3), (13, 7, 3)] := by
  decide
example : Blue.Huffman.encodeBits (Blue.Huffman.huffman [(10, 5), (11, 2), (12, 1), (13, 1)]) [12, 10, 13, 11]
      = [true, true, false, false, true, true, true, true, false]
    ∧ Blue.Huffman.kraftSum 3 (Blue.Huffman.huffman [(10, 5), (11, 2), (12, 1), (13, 1)]) = 8 := by decide
/-- the hypotheses of the theorems at this table, and the theorems instantiated -/
example : (([(10, 5), (11, 2), (12, 1), (13, 1)] : List (Nat × Nat)).map (·.1)).Nodup := by decide
example : Blue.Huffman.decodeBits (Blue.Huffman.huffman [(10, 5), (11, 2), (12, 1), (13, 1)]) 0 0
      (Blue.Huffman.encodeBits (Blue.Huffman.huffman [(10, 5), (11, 2), (12, 1), (13, 1)]) [12, 10, 13, 11])
      = [12, 10, 13, 11] :=
  huffman_decode_encode _ (by decide) _ (by decide)
example : ∃ w, Blue.Wavelet.construct (Blue.Huffman.huffman [(10, 5), (11, 2), (12, 1), (13, 1)]) [12, 10, 13, 11, 10] = some w
      ∧ Blue.Wavelet.len w = 5 := by
  obtain ⟨w, hw, hl, _⟩ := wavelet_tree_over_huffman [(10, 5), (11, 2), (12, 1), (13, 1)] (by decide) [12, 10, 13, 11, 10] (by decide)
  exact ⟨w, hw, hl⟩
example : Blue.Huffman.kraftSum 3 (Blue.Huffman.huffman [(10, 5), (11, 2), (12, 1), (13, 1)]) = 2 ^ 3 :=
  huffman_kraft _ (by decide) (by decide) 3 (by decide)
/-- the Fibonacci table of 6 symbols and its depth-5 code words; the theorem at `n = 6` -/
example : Blue.Huffman.fibTable 6 = [(0, 1), (1, 1), (2, 2), (3, 3), (4, 5), (5, 8)]
    ∧ Blue.Huffman.huffman (Blue.Huffman.fibTable 6) = [(0, 15, 5), (1, 31, 5), (2, 7, 4), (3, 3, 3), (4, 1, 2), (5, 0, 1)]
    ∧ Blue.Huffman.huffmanHeap (Blue.Huffman.fibTable 6) = Blue.Huffman.huffman (Blue.Huffman.fibTable 6) := by decide
example : ∃ en ∈ Blue.Huffman.huffman (Blue.Huffman.fibTable 6), en.2.2 = 5 := huffman_fibonacci_depth 6 (by decide)
example : ∃ en ∈ Blue.Huffman.huffmanHeap (Blue.Huffman.fibTable 6), en.2.2 = 5 := huffman_heap_fibonacci_depth 6 (by decide)
example : (Blue.Huffman.heapTree (Blue.Huffman.fibTable 6)).isSome = true
    ∧ ∀ t, Blue.Huffman.heapTree (Blue.Huffman.fibTable 6) = some t →
        Blue.Huffman.Outcome (Blue.Huffman.initial (Blue.Huffman.fibTable 6)) t :=
  ⟨by decide, fun t h => huffman_heap_is_outcome _ t h⟩
example : ∀ t, Blue.Huffman.buildTree (Blue.Huffman.fibTable 6) = some t →
    Blue.Huffman.Outcome (Blue.Huffman.initial (Blue.Huffman.fibTable 6)) t :=
  (huffman_outcomes (Blue.Huffman.fibTable 6) (by decide)).1
/-- beyond 32 bits: a text of 14 930 351 symbols with Fibonacci frequencies over 34 symbols has a 33-bit
    code word (model with the heap's tie-breaking), where `build_code_book`'s `32 - len` (u8) underflows -/
example : ((Blue.Huffman.fibTable 34).map (·.2)).sum = 14930351
    ∧ Blue.Huffman.maxLen (Blue.Huffman.huffmanHeap (Blue.Huffman.fibTable 34)) = 33 := by decide
/-- the tie-breaking matters for the code book: seven symbols, five of weight 1 and two of weight 2 -/
example : Blue.Huffman.huffmanHeap [(1, 1), (2, 1), (3, 1), (4, 1), (5, 1), (6, 2), (7, 2)]
      = [(1, 2, 3), (2, 6, 3), (3, 1, 3), (4, 5, 3), (5, 3, 3), (6, 7, 3), (7, 0, 2)]
    ∧ Blue.Huffman.huffman [(1, 1), (2, 1), (3, 1), (4, 1), (5, 1), (6, 2), (7, 2)]
      = [(1, 2, 3), (2, 6, 3), (3, 1, 3), (4, 5, 3), (5, 3, 3), (6, 0, 2), (7, 7, 3)] := by decide
/-- the crate's own unit test `huffman_chars` (encoder.rs:382-391, text `BananaMississippi`): the
    values it asserts for `i s a n p B M` are the model's -/
example : Blue.Huffman.huffmanHeap [(66, 1), (77, 1), (97, 3), (105, 4), (110, 2), (112, 2), (115, 4)]
    = [(66, 7, 4), (77, 15, 4), (97, 1, 3), (105, 0, 2), (110, 5, 3), (112, 3, 3), (115, 2, 2)] := by decide
/-- … from the text itself (`B a n a n a M i s s i s s i p p i`), through `freqsOf` -/
example : Blue.Huffman.freqsOf [66, 97, 110, 97, 110, 97, 77, 105, 115, 115, 105, 115, 115, 105, 112, 112, 105]
      = [(66, 1), (77, 1), (97, 3), (105, 4), (110, 2), (112, 2), (115, 4)]
    ∧ Blue.Huffman.bookOfText [66, 97, 110, 97, 110, 97, 77, 105, 115, 115, 105, 115, 115, 105, 112, 112, 105]
      = [(66, 7, 4), (77, 15, 4), (97, 1, 3), (105, 0, 2), (110, 5, 3), (112, 3, 3), (115, 2, 2)] := by decide
example : Blue.Huffman.huffman [(7, 3)] = [(7, 0, 1)] ∧ Blue.Huffman.huffmanHeap [(7, 3)] = [(7, 0, 1)]
    ∧ Blue.Huffman.huffman [] = [] := by decide
-- END Huffman

end Blue.Props.C19

#print axioms Blue.Props.C19.partitionBy_spec
#print axioms Blue.Props.C19.select_spec
#print axioms Blue.Props.C19.select_complete
#print axioms Blue.Props.C19.rank0_spec
#print axioms Blue.Props.C19.select0_spec
#print axioms Blue.Props.C19.select0_complete
#print axioms Blue.Props.C19.rank_select
#print axioms Blue.Props.C19.select_rank_of_set
#print axioms Blue.Props.C19.select_defined_iff
#print axioms Blue.Props.C19.cf_rrr_rank_unrepaired
#print axioms Blue.Props.C19.cf_block_from_source
#print axioms Blue.Props.C19.constrain_spec
#print axioms Blue.Props.C19.backwardSearch_spec
#print axioms Blue.Props.C19.count_spec
#print axioms Blue.Props.C19.sorted_of_suffixes
#print axioms Blue.Props.C19.sa_exists
#print axioms Blue.Props.C19.suffix_array_exists_unique
#print axioms Blue.Props.C19.count_occurrences
#print axioms Blue.Props.C19.search_positions
#print axioms Blue.Props.C19.sa_psi
#print axioms Blue.Props.C19.sigmaRange_ok
#print axioms Blue.Props.C19.doc_count_is_scan
#print axioms Blue.Props.C19.doc_count_is_scan_text
#print axioms Blue.Props.C19.doc_search_is_scan_text
#print axioms Blue.Props.C19.doc_count_empty
#print axioms Blue.Props.C19.doc_records
#print axioms Blue.Props.C19.doc_retrieve_record
#print axioms Blue.Props.C19.bitarray_roundtrip
#print axioms Blue.Props.C19.rrr_word_roundtrip
#print axioms Blue.Props.C19.rrr_word_select
#print axioms Blue.Props.C19.rrr_is_bit_array
#print axioms Blue.Props.C19.cf_rrr_is_bit_array
#print axioms Blue.Props.C19.sparse_is_bit_array
#print axioms Blue.Props.C19.access_rank_vs_reference
#print axioms Blue.Props.C19.access_rank_at_len
#print axioms Blue.Props.C19.sparse_in_the_index
#print axioms Blue.Props.C19.encodings_from_source
#print axioms Blue.Props.C19.sampled_array_lookup
#print axioms Blue.Props.C19.sampled_sa_is_exact
#print axioms Blue.Props.C19.rank_zero_is_marker
#print axioms Blue.Props.C19.sampled_isa_is_exact
#print axioms Blue.Props.C19.doc_sampled
#print axioms Blue.Props.C19.sigma_construct
#print axioms Blue.Props.C19.sigma_roundtrip
#print axioms Blue.Props.C19.sigma_ranges
#print axioms Blue.Props.C19.doc_count_codepoints
#print axioms Blue.Props.C19.doc_search_codepoints
#print axioms Blue.Props.C19.doc_retrieve_codepoints
#print axioms Blue.Props.C19.wavelet_tree_is_reference
#print axioms Blue.Props.C19.wavelet_psi_is_reference
#print axioms Blue.Props.C19.wavelet_psi_input_good
#print axioms Blue.Props.C19.psi_asks_occurring_symbols
#print axioms Blue.Props.C19.wavelet_psi_subrange_not_clamped
#print axioms Blue.Props.C19.compressed_count_is_scan
#print axioms Blue.Props.C19.compressed_search_is_scan
#print axioms Blue.Props.C19.compressed_retrieve_is_record
#print axioms Blue.Props.C19.compressed_len_and_empty_needle
#print axioms Blue.Props.C19.compressed_document_exists
#print axioms Blue.Props.C19.huffman_every_tree
#print axioms Blue.Props.C19.huffman_symbols
#print axioms Blue.Props.C19.huffman_prefix_free
#print axioms Blue.Props.C19.huffman_single
#print axioms Blue.Props.C19.huffman_kraft
#print axioms Blue.Props.C19.huffman_depth_bound
#print axioms Blue.Props.C19.huffman_fibonacci_depth
#print axioms Blue.Props.C19.huffman_fibonacci_depth_any_ties
#print axioms Blue.Props.C19.huffman_outcomes
#print axioms Blue.Props.C19.huffman_decode_encode
#print axioms Blue.Props.C19.wavelet_tree_over_huffman
#print axioms Blue.Props.C19.huffman_heap_code_book
#print axioms Blue.Props.C19.wavelet_tree_over_huffman_heap
#print axioms Blue.Props.C19.huffman_heap_is_outcome
#print axioms Blue.Props.C19.huffman_heap_fibonacci_depth
#print axioms Blue.Props.C19.wavelet_tree_of_text
