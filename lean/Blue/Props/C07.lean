import Blue.Proofs.FileRefs
import Blue.Proofs.SnapRefs
import Blue.Proofs.Snap
import Blue.Proofs.SkipLife
import Blue.Proofs.SkipOwn
import Blue.Proofs.ScanSpecDups
import Blue.Proofs.TreeScan
import Blue.Proofs.LevelOver
import Blue.Proofs.ScanSpec
import Blue.Proofs.ScanCongr
import Blue.Proofs.Stack
import Blue.Driver.C08
import Blue.Proofs.CursorWorld
import Blue.Proofs.CursorWorldW
/-! # Property C07 — a scan cursor is a stable, memory-safe snapshot while the store moves under it

Property theorems only.  A cursor returned by `KeyValueStore::range_scan` captures, under the state
lock, the memtable, the immutable memtable, a reference to the current version and the read
timestamp.  Three things keep it a snapshot:

* **files** (`Blue.FileRefs`, shared with C08): a version that has a holder keeps its files in
  `sst/`; `cursor_files_present` follows the counts along any run of installs (flush, compaction,
  trivial move, garbage collection), snapshots and releases: while a cursor has not released its
  reference, every file of its version is in `sst/` — so the lazy cursors, which open their files
  by path on first use, find them.  This needs the cursor to OWN its reference
  (/repo fix 7dd8413); the code as it was released the reference
  before returning the cursor: `reference_released_at_open_loses_files` (finding D-5).
* **memory** (`Blue.SkipOwn`, shared with C17): the skiplist nodes of a memtable are owned jointly by
  the list handle and every iterator.  A transition system with a reference count, a set of
  released nodes and a ghost use-after-free flag; `no_use_after_free` is an invariant over every
  run of handle events (iterator opened / cloned / dropped, list dropped, inserts, dereferences);
  `use_after_free_as_found` is finding D-4 on the ownership as it was.  (`Blue.SkipLife`, whose
  `live` the correspondence check compares with the allocation registry, *defines* the number of
  live nodes; `life_refines` ties it to the transition system.  Its two theorems
  `iterator_keeps_nodes_alive` / `nodes_released_with_last_holder` unfold that definition and are
  kept as model facts.)
* **contents** (`Blue.Snap`): the cursor stack is taken by its specification (`scan_spec_dups`, C03:
  children may hold the same version twice, as inside the flush window): at each call it shows the
  reference cursor over the versions of the captured components that are live at the captured
  timestamp and in range.  The captured memtable keeps receiving writes until it is rotated
  (`Tok.write`), and the captured IMMUTABLE memtable keeps receiving the remaining inserts of
  writers that had picked it before the rotation, until the flush thread has passed the wait list
  (`Tok.writeImm`); `later_writes_are_screened` / `cursor_sees_snapshot_partial`: as long as those
  carry sequence numbers above the read timestamp, every call shows what the reference cursor
  over the list of open time shows.  Every OTHER store event (write into a newer memtable,
  rollover, flush, version install by compaction / trivial move / garbage collection, trash
  clean-up) is the no-op token `Tok.other` of this model: that they leave the captured components
  alone is by construction here; what they do to the files is the `files` part, to the nodes the
  `memory` part; the three parts are linked in one state machine by the next item.
* **one state machine** (`Blue.CursorWorld`, block `CursorWorld`): the PRODUCT of a `Blue.FileRefs`
  state, one `Blue.SkipOwn` state per memtable ever made, one `Blue.Snap.Held` per cursor, and the set
  of cursors (handles = (memtable, iterator) pairs, captured version, read timestamp, position,
  live flag).  Events `write`, `rollover`, `flush` (drops the store's handle on the immutable
  memtable and installs the version with the new file), `compactInstall`, `verifierPass`,
  `openCursor`, `stepCursor`, `dropCursor`, each DEFINED BY the component models' steps.  By
  induction over every event list from the freshly opened store: `world_inv` (the three component
  invariants + the coupling: `Arc` count of a version = live cursors on it (+1 if current), a live
  cursor's files are in `sst/`, its handles are held iterators of memtables that have released
  nothing), `cursor_step_safe` / `cursor_step_enabled` (every call on a live cursor is enabled and
  touches only unreleased nodes and files present in `sst/`), `cursor_shows_open_time_contents` /
  `cursor_unmoved_by_store` (the calls return what the reference cursor over the list captured at open
  time returns = what they return in the run with nothing but those calls after the open, whatever
  was interleaved — hypothesis (i) below is discharged inside this machine, where a write is one
  atomic event), `drop_releases` (a non-current version without live cursor is un-held and
  un-counted; a memtable without store handle and without live cursor handle has released every
  node).  Simplifications of that machine: writes are atomic (writers in flight are C06), `flush`
  = install + `imm := None` in one event (the window between them is an event of the next item), the store's
  handle stands for every `Arc<MemTable>` that is not a cursor's, compaction outputs are arbitrary
  file lists (their correctness is C01/C05).
* **the flush window** (`Blue.CursorWorldW`, block `CursorWorldW`): the same machine with `flush` split
  into `flushInstall f` (`_ingest`, kvs/mod.rs:310: `FileRefs` install of `cur ++ [f]`, `imm` still held)
  and `flushClear` (`state.imm = None`, mod.rs:321-322: `SkipOwn` `dropList`); every other event is
  `Blue.CursorWorld.step` on the base state.  `world_inv_w` (the invariants + coupling of `world_inv`
  + the window clause: in a window the immutable memtable's entries are exactly file `f`'s),
  `cursor_step_safe_w` / `cursor_step_enabled_w`, `drop_releases_w` over every event list;
  `window_collapses_to_flush` (the halves back to back are `flush`), `flushInstall_opens_window`;
  `cursor_opened_in_window_shows_each_entry_once` (a cursor opened inside the window captured the
  flushed entries in two children and returns, under every program and interleaving, the reference
  cursor over the open-time contents with each entry once) + `cursor_shows_open_time_contents_w` / `cursor_unmoved_by_store_w` (every cursor);
  `window_cursor_memory` / `flushClear_drops_handle` (the cursor's iterator keeps the immutable
  memtable's nodes alive after the store dropped its handle; released when no holder is left).
  Restrictions: `flushInstall f` asks for a name `f` not yet in the ghost `fileData`; (3) in the
  window asks that `f` is still in the current version at open time (true right after
  `flushInstall`; a compaction that replaced `f` INSIDE the window before the open is not covered
  by that theorem — `cursor_shows_open_time_contents_w`, the equality with the reference cursor over
  `capture`, holds for every cursor; the reading "= the store's contents, each once" then does not
  apply); one flush at a time.

**Partial**, and why: (1) hypothesis (i) — no entry with sequence number ≤ the read timestamp is
added to a captured memtable (mutable or immutable) after the open — is a hypothesis here.  It was
FALSE for the store as found (read timestamp = last ASSIGNED number, so a writer in flight at
open time arrived later: finding D-6; `late_writer_leaks` shows the leak in this model).  Since the
repair of D-6 (read timestamp = number of the last COMPLETED write) it is the step fact
`Blue.Props.C06.late_inserts_above_snapshot_ts` of the C06 model (every insert enabled while a
snapshot exists is numbered above its timestamp), for every interleaving of writers, rollover and
flush; the check also opens cursors while a writer thread runs and walks each twice; (2) the
cursor stack is represented by its specification at every call; that the real merging cursor
stays coherent when a memtable child grows between two calls is covered by the correspondence
check only (every held cursor of every history is compared with this model); (3) no memory model:
"never touches freed memory" is the ownership transition system plus the allocation registry and
valgrind runs of the check, and atomics are taken as sequentially consistent; (4) "never panics"
has no theorem: it is the oracle's observation on every call (`guarded`), nothing else. -/
namespace Blue.Props.C07

/-! ## files -/
section files
open Blue.FileRefs
variable {F : Type} [DecidableEq F]

/-- every file of every version that still has a holder is in `sst/` -/
theorem held_files_present {s : St F} (h : Inv s) (v : Ver F) (hv : v ∈ s.versions) (hh : v.holders ≥ 1)
    (f : F) (hf : f ∈ v.files) : f ∈ s.sst := Blue.FileRefs.held_files_present h v hv hh f hf

/-- the reference-counting invariant is preserved by every event -/
theorem refcount_invariant_preserved {s : St F} (h : Inv s) :
    (∀ files, Inv (step s (.install files))) ∧ (CurOk s → Inv (step s .snapshot)) ∧ (∀ i, Inv (step s (.release i))) :=
  ⟨fun files => inv_install h files, fun hc => inv_snapshot h hc, fun i => inv_release h i⟩

/-- **a cursor's files stay**: from a freshly opened store, after ANY run of installs, snapshots
    taken by cursors and releases by cursors, every file of a version to which a cursor still
    holds a reference (`out i ≥ 1`) is in `sst/` -/
theorem cursor_files_present (files : List F) (evs : List (Ev F)) (i : Nat)
    (hi : (grun (init files, fun _ => 0) evs).2 i ≥ 1) (v : Ver F)
    (hv : (grun (init files, fun _ => 0) evs).1.versions[i]? = some v) (f : F) (hf : f ∈ v.files) :
    f ∈ (grun (init files, fun _ => 0) evs).1.sst :=
  Blue.FileRefs.cursor_files_present (inv_init files) (ghost_init files) evs i hi v hv f hf

/-- the invariant and the ghost count hold in every state of every run -/
theorem refcount_run (files : List F) (evs : List (Ev F)) :
    Inv (grun (init files, fun _ => 0) evs).1 ∧ Ghost (grun (init files, fun _ => 0) evs).1 (grun (init files, fun _ => 0) evs).2 :=
  ghost_run (inv_init files) (ghost_init files) evs

/-- the state the replay (`refs run`) starts from is the state the theorems start from -/
example (files : List String) : Blue.Driver.C08.init files = init files := rfl

/-- non-vacuity: a cursor takes a snapshot of version 0, a compaction installs another version,
    the cursor still holds (`out 0 = 1`) and both files are in `sst/`; after its release they are
    in `trash/` -/
example :
    let g1 := grun (init [1, 2], fun _ => 0) [.snapshot, .install [3]]
    let g2 := gstep g1 (.release 0)
    g1.2 0 = 1 ∧ g1.1.sst = [1, 2, 3] ∧ g1.1.trash = [] ∧ g2.2 0 = 0 ∧ g2.1.sst = [3] ∧ g2.1.trash = [2, 1] := by decide

/-- a larger witness: two cursors on different versions that share file 2; each release moves to
    `trash/` exactly the files no remaining holder needs -/
example :
    let g1 := grun (init [1, 2], fun _ => 0) [.snapshot, .install [2, 3], .snapshot, .install [3, 4]]
    let g2 := gstep g1 (.release 0)
    let g3 := gstep g2 (.release 1)
    (g1.2 0, g1.2 1, g1.1.sst, g1.1.trash) = (1, 1, [1, 2, 3, 4], []) ∧
    (g2.1.sst, g2.1.trash) = ([2, 3, 4], [1]) ∧ (g3.1.sst, g3.1.trash) = ([3, 4], [2, 1]) := by decide

/-- **finding D-5 as a theorem about the code as it was**: `range_scan` released its reference
    before it returned the cursor (`S` at once followed by `R`); the next compaction moves the
    files of the cursor's version to `trash/` although the cursor has yet to open them -/
theorem reference_released_at_open_loses_files :
    let s := [Ev.snapshot, .release 0, .install [3]].foldl step (init [1, 2])
    s.sst = [3] ∧ s.trash = [2, 1] := by decide

end files

/-! ## memory -/
section memory

/-- **no use after free**: along every run of handle events from a fresh list — iterators opened
    (a cursor's `MemTable::cursor`), cloned, dropped, the list dropped (flush: `imm := None`),
    inserts, dereferences through iterators, in any order — no event dereferences nodes after a
    node has been released.  `uaf` is set by the step function when a dereference happens while the
    released set is non-empty; the released set is filled when a decrement of the reference count
    reaches zero; the theorem is an invariant over `step` (`Blue.SkipOwn.inv_step`). -/
theorem no_use_after_free (ops : List Blue.SkipLife.Op) {s : Blue.SkipOwn.St}
    (hr : Blue.SkipOwn.run false {} ops = some s) : s.uaf = false :=
  Blue.SkipOwn.no_use_after_free ops hr

/-- … at the event: whenever a dereference through an iterator (or the search of an insert) is
    enabled in a reachable state, no node has been released -/
theorem deref_finds_all_nodes (ops : List Blue.SkipLife.Op) {s s' : Blue.SkipOwn.St}
    (hr : Blue.SkipOwn.run false {} ops = some s) (op : Blue.SkipLife.Op)
    (hop : (∃ j, op = .use j) ∨ op = .insert) (hs : Blue.SkipOwn.step false s op = some s') : s.freed = [] :=
  Blue.SkipOwn.deref_finds_all_nodes ops hr op hop hs

/-- in every reachable state nothing is released while a handle (list or iterator) exists, and
    every node is once none does … -/
theorem freed_iff_no_holder (ops : List Blue.SkipLife.Op) {s : Blue.SkipOwn.St}
    (hr : Blue.SkipOwn.run false {} ops = some s) :
    (Blue.SkipLife.holders (Blue.SkipOwn.abs s) ≠ 0 → s.freed = []) ∧
    (Blue.SkipLife.holders (Blue.SkipOwn.abs s) = 0 → s.freed = List.range s.nodes) :=
  Blue.SkipOwn.freed_iff_no_holder ops hr

/-- … and the only event that releases nodes is the drop of the last holder -/
theorem release_only_at_last_drop (ops : List Blue.SkipLife.Op) {s s' : Blue.SkipOwn.St}
    (hr : Blue.SkipOwn.run false {} ops = some s) (op : Blue.SkipLife.Op)
    (hs : Blue.SkipOwn.step false s op = some s') (hbefore : s.freed = []) (hafter : s'.freed ≠ []) :
    (op = .dropList ∨ ∃ j, op = .dropIter j) ∧ Blue.SkipLife.holders (Blue.SkipOwn.abs s) = 1
      ∧ Blue.SkipLife.holders (Blue.SkipOwn.abs s') = 0 :=
  Blue.SkipOwn.release_only_at_last_drop ops hr op hs hbefore hafter

/-- **bridge to the model the check replays**: every run of `Blue.SkipLife` (the model whose `live`
    is compared with the allocation registry of the real crate after every op) is the handle part of
    a run of the transition system, and the number `live` defines is the number of nodes that
    system has not released -/
theorem life_refines (ops : List Blue.SkipLife.Op) {t : Blue.SkipLife.St}
    (hr : Blue.SkipOwn.lifeRun {} ops = some t) :
    ∃ s, Blue.SkipOwn.run false {} ops = some s ∧ Blue.SkipOwn.abs s = t
      ∧ Blue.SkipLife.live t = Blue.SkipOwn.liveNodes s ∧ s.uaf = false :=
  Blue.SkipOwn.life_refines ops hr

/-- **finding D-4 as a theorem about the ownership as it was**: the flush drops the memtable, its
    `SkipList::drop` releases every node while a cursor's iterator still shares the head pointer; the
    iterator's next dereference is a use after free.  Same schedule under the repaired ownership:
    all nodes stay until the iterator goes. -/
theorem use_after_free_as_found :
    (Blue.SkipOwn.run true {} [.insert, .insert, .iter, .dropList, .use 0]).map (fun s => (s.uaf, s.freed))
      = some (true, [0, 1, 2])
    ∧ (Blue.SkipOwn.run false {} [.insert, .insert, .iter, .dropList, .use 0]).map (fun s => (s.uaf, s.freed, s.rc))
      = some (false, [], 1)
    ∧ (Blue.SkipOwn.run false {} [.insert, .insert, .iter, .dropList, .use 0, .dropIter 0]).map
        (fun s => (s.uaf, s.freed, s.rc)) = some (false, [0, 1, 2], 0) :=
  Blue.SkipOwn.use_after_free_as_found

/-- non-vacuity of the run hypotheses: two cursors' iterators (one a clone) outlive the list; an
    insert through the dropped list handle is refused; a dereference is enabled with nothing
    released; the last drop releases all three nodes (head + 2) -/
example :
    Blue.SkipOwn.run false {} [.insert, .iter, .insert, .cloneIter 0, .dropList, .use 1, .dropIter 0, .insert, .use 1] = none
    ∧ (Blue.SkipOwn.run false {} [.insert, .iter, .insert, .cloneIter 0, .dropList, .use 1, .dropIter 0, .use 1]).map
        (fun s => (s.rc, s.freed, s.uaf)) = some (1, [], false)
    ∧ (Blue.SkipOwn.run false {} [.insert, .iter, .insert, .cloneIter 0, .dropList, .use 1, .dropIter 0, .use 1,
        .dropIter 1]).map (fun s => (s.rc, s.freed, s.uaf)) = some (0, [0, 1, 2], false) := by
  decide

open Blue.SkipLife

/-- MODEL FACT (definitional): `Blue.SkipLife.live s` is *defined* as `if holders s = 0 then 0 else
    s.nodes`; this unfolds the definition for an arbitrary state (no transition system, no
    reachability).  The property content is `no_use_after_free` / `freed_iff_no_holder` above. -/
theorem iterator_keeps_nodes_alive (s : St) (j : Nat) (h : held s j = true) : live s = s.nodes :=
  held_live s j h

/-- MODEL FACT (definitional), as above -/
theorem nodes_released_with_last_holder (s : St) : live s = 0 ↔ (holders s = 0 ∨ s.nodes = 0) :=
  released_iff s

/-- the run the driver replays: the store drops the memtable (flush) while a cursor's iterator is
    held; the iterator is used; the nodes go with the iterator -/
example : ([Op.insert, .insert, .iter, .dropList, .use 0, .dropIter 0].foldl
      (fun (acc : Option St × List Nat) op => match acc.1.bind (step · op) with
        | some s => (some s, acc.2 ++ [live s]) | none => (none, acc.2)) (some {}, [])).2
    = [2, 3, 3, 3, 3, 0] := by decide

end memory

/-! ## contents -/
section contents
open Blue.Spec Blue.Cursor Blue.Snap

/-- **the specification the held-cursor model stands for** (C03, children with duplicates): the
    scan stack over children that may hold the same `(key, timestamp)` several times — the window
    between version install and `imm = None` of a flush, which the check exercises (cursors opened
    inside a flush), is such a family — shows exactly the live versions in range, each once, at
    any read timestamp, under every finite program of calls in both directions -/
theorem scan_spec_dups {K : Type} [DecidableEq K] {klt : K → K → Bool} (st : StrictTotal klt)
    (M : List (Ver K × Nat)) (k : Nat) (fam : FamilyW (vlt klt) M k)
    (t : Nat) (tomb : Ver K → Bool) (sb eb : Bound K) (n : Nat) (hn : (M.map (·.1)).length + 2 ≤ n)
    (C : Cur (Ver K)) (cs : List C.σ) (rs : List (Ref (Ver K)))
    (hkids : (rs.map (·.xs)).Perm ((List.range k).map (childList M)))
    (hbeh : cs.map (behA (SeekAdm klt) C) = rs.map (behA (SeekAdm klt) (RefCur (Ver K)))) :
    BehEq (SeekAdm klt)
      (BoundsC.cur (PruningC.cur (MergingC.cur C (vlt klt)) (pcfg t tomb) n) (bcfg klt sb eb) n)
      (BoundsC.new (PruningC.cur (MergingC.cur C (vlt klt)) (pcfg t tomb) n) (bcfg klt sb eb)
        (PruningC.new (MergingC.cur C (vlt klt)) (MergingC.new C (vlt klt) cs)))
      (RefCur (Ver K))
      ⟨((dedupAdj (M.map (·.1))).filter (isLive (dedupAdj (M.map (·.1))) t tomb)).filter (inRange klt sb eb), 0⟩ :=
  Blue.Spec.scan_spec_dups st M k fam t tomb sb eb n hn C cs rs hkids hbeh

/-- … and the list it names is the list the held-cursor model shows (`Blue.Snap.view`), for any
    weakly sorted merge `L` of exactly the versions of the captured components -/
theorem held_view_is_scan_spec_dups_list {K : Type} [DecidableEq K] {klt : K → K → Bool} (st : StrictTotal klt)
    (tomb : Ver K → Bool) (sb eb : Bound K) (h : Held K) (L : List (Ver K)) (hw : SortedW klt L)
    (hmem : ∀ e, e ∈ L ↔ e ∈ h.mem ++ h.rest) :
    ((dedupAdj L).filter (isLive (dedupAdj L) h.ts tomb)).filter (inRange klt sb eb) = view klt tomb sb eb h :=
  view_eq st tomb sb eb h (dedupAdj L) (sorted_dedupAdj st hw)
    (fun e => by rw [mem_dedupAdj]; exact hmem e)

/-- the duplicate-free special case (`Family`: pairwise distinct `(key, timestamp)` across the
    children — FALSE inside the flush window; kept because C03 states it) -/
theorem scan_spec {K : Type} [DecidableEq K] {klt : K → K → Bool} (st : StrictTotal klt)
    (M : List (Ver K × Nat)) (k : Nat) (fam : Family (vlt klt) M k)
    (t : Nat) (tomb : Ver K → Bool) (sb eb : Bound K) (n : Nat) (hn : (M.map (·.1)).length + 2 ≤ n)
    (C : Cur (Ver K)) (cs : List C.σ) (rs : List (Ref (Ver K)))
    (hkids : (rs.map (·.xs)).Perm ((List.range k).map (childList M)))
    (hbeh : cs.map (behA (SeekAdm klt) C) = rs.map (behA (SeekAdm klt) (RefCur (Ver K)))) :
    BehEq (SeekAdm klt)
      (BoundsC.cur (PruningC.cur (MergingC.cur C (vlt klt)) (pcfg t tomb) n) (bcfg klt sb eb) n)
      (BoundsC.new (PruningC.cur (MergingC.cur C (vlt klt)) (pcfg t tomb) n) (bcfg klt sb eb)
        (PruningC.new (MergingC.cur C (vlt klt)) (MergingC.new C (vlt klt) cs)))
      (RefCur (Ver K))
      ⟨((M.map (·.1)).filter (isLive (M.map (·.1)) t tomb)).filter (inRange klt sb eb), 0⟩ :=
  Blue.Spec.scan_spec st M k fam t tomb sb eb n hn C cs rs hkids hbeh

/-- the list a scan shows depends only on the set of versions — flush, trivial move and non-GC
    compaction of the STORE change no scan, so a cursor opened later at the same timestamp would
    show the same -/
theorem scan_depends_only_on_versions {K : Type} [DecidableEq K] {klt : K → K → Bool} (st : StrictTotal klt)
    (M M' : List (Ver K)) (hs : Sorted klt M) (hs' : Sorted klt M') (hsame : ∀ e, e ∈ M ↔ e ∈ M')
    (t : Nat) (tomb : Ver K → Bool) (sb eb : Bound K) :
    (M.filter (isLive M t tomb)).filter (inRange klt sb eb)
      = (M'.filter (isLive M' t tomb)).filter (inRange klt sb eb) :=
  scan_list_congr st M M' hs hs' hsame t tomb sb eb

/-- the list the held-cursor model shows is the list `scan_spec` assigns to any table made of
    exactly the versions of the captured components -/
theorem held_view_is_scan_spec_list {K : Type} [DecidableEq K] {klt : K → K → Bool} (st : StrictTotal klt)
    (tomb : Ver K → Bool) (sb eb : Bound K) (h : Held K) (M : List (Ver K)) (hs : Sorted klt M)
    (hmem : ∀ e, e ∈ M ↔ e ∈ h.mem ++ h.rest) :
    (M.filter (isLive M h.ts tomb)).filter (inRange klt sb eb) = view klt tomb sb eb h :=
  view_eq st tomb sb eb h M hs hmem

/-- **timestamp screening**: versions newer than the read timestamp, added to a table, change
    nothing of what a read at that timestamp sees -/
theorem later_writes_are_screened {K : Type} [DecidableEq K] {klt : K → K → Bool} (st : StrictTotal klt)
    (M M' late : List (Ver K)) (hs : Sorted klt M) (hs' : Sorted klt M') (hmem : ∀ e, e ∈ M' ↔ e ∈ M ∨ e ∈ late)
    (t : Nat) (hlate : ∀ e ∈ late, t < e.2) (tomb : Ver K → Bool) :
    M'.filter (isLive M' t tomb) = M.filter (isLive M t tomb) :=
  live_filter_stable st M M' late hs hs' hmem t hlate tomb

/-- **the held cursor shows the open-time snapshot** (model level): for every script of calls
    interleaved with later writes into the captured memtable (`Tok.write`) and into the captured
    immutable memtable (`Tok.writeImm`: writers that picked it before the rotation), if the writes
    carry sequence numbers above the read timestamp, the calls return what the reference cursor
    over the list of OPEN TIME returns.  Every other store event (rollover, flush, version
    installs, clean-up) is the token `Tok.other`, a no-op of this model: for those the statement
    holds by construction.  Partial: see the module comment (hypothesis (i) is the C06 step fact
    `late_inserts_above_snapshot_ts` on the repaired store and was false as found — D-6; the cursor
    stack is represented by `scan_spec_dups`; no memory model). -/
theorem cursor_sees_snapshot_partial {K : Type} [DecidableEq K] {klt : K → K → Bool} (st : StrictTotal klt)
    (tomb : Ver K → Bool) (sb eb : Bound K) (ts : Nat) (mem rest : List (Ver K)) (toks : List (Tok K))
    (hi : LateWritesAbove ts toks) :
    run klt tomb sb eb ⟨ts, mem, rest, 0⟩ toks
      = Ref.run ⟨view klt tomb sb eb ⟨ts, mem, rest, 0⟩, 0⟩ (opsOf toks) :=
  run_eq_ref st tomb sb eb toks ⟨ts, mem, rest, 0⟩ hi

/-- non-vacuity: key 1 is overwritten and key 2 is created (sequence numbers 6, 7) in the captured
    memtable between two walks of a cursor opened at 5: both walks show the same -/
example :
    run Nat.blt (fun _ => false) .unbounded .unbounded ⟨5, [(1, 4)], [(3, 2)], 0⟩
      [.op .first, .op .next, .op .next, .write [(1, 6)], .other, .write [(2, 7)], .op .first, .op .next, .op .next, .op .next]
    = [none, some (1, 4), some (3, 2), none, some (1, 4), some (3, 2), none] := by decide

/-- non-vacuity with a late insert into the captured IMMUTABLE memtable: the scan is opened at 5
    after the rotation, while write 6 (which had picked the old memtable) is still inserting; its
    entry lands in the captured imm between the two walks, write 7 goes to the new memtable: both
    walks show the same.  And where a late entry lands makes no difference to the list. -/
example :
    run Nat.blt (fun _ => false) .unbounded .unbounded ⟨5, [], [(1, 4), (3, 2)], 0⟩
      [.op .first, .op .next, .op .next, .writeImm [(1, 6)], .write [(2, 7)], .other, .op .first, .op .next, .op .next]
    = [none, some (1, 4), some (3, 2), none, some (1, 4), some (3, 2)] := by decide

theorem late_entry_lands_anywhere {K : Type} [DecidableEq K] {klt : K → K → Bool} (st : StrictTotal klt)
    (tomb : Ver K → Bool) (sb eb : Bound K) (h : Held K) (es : List (Ver K)) :
    view klt tomb sb eb { h with rest := h.rest ++ es } = view klt tomb sb eb { h with mem := h.mem ++ es } :=
  view_writeImm_eq_write st tomb sb eb h es

/-- **finding D-6 at model level** (the store as found): hypothesis (i) is needed.  A writer that
    was assigned sequence number 5 before the scan was opened (read timestamp 5 = last assigned)
    and inserts afterwards appears in the held cursor: the second walk shows (1, 5) where the first
    showed (1, 4) -/
theorem late_writer_leaks :
    run Nat.blt (fun _ => false) .unbounded .unbounded ⟨5, [(1, 4)], [], 0⟩
      [.op .first, .op .next, .write [(1, 5)], .op .first, .op .next]
    = [none, some (1, 4), none, some (1, 5)] := by decide

/-- **a scan never shows a write that completed after it was opened** (model level, scans opened
    while writes are in flight): the scan takes as its timestamp the number just below the oldest
    write that has not left the wait list (`readTs`).  Whatever reaches the captured memtable or the
    captured immutable memtable afterwards — the remaining entries of the writes in flight, later
    writes — every call shows what the reference cursor over the list of OPEN TIME shows.  The
    hypothesis on the later entries is what the store guarantees by construction (an entry carries
    the number of its write; numbers are handed out in increasing order).  The store's
    `visible_seq_no` is NOT this number (a rotation consumes a sequence number that no write
    carries: `Blue.Props.C06.numbers_differ_after_rotation`); the two select the same entries in
    every reachable state of the C06 model (`Blue.Props.C06.view_visible_eq_view_readTs`: no entry
    is numbered in between).  That bridge is a theorem about `Blue.KvsConc`, not about this model
    (the two models share no state); here the timestamps are compared on every directed schedule
    (`snap open`: the model computes the timestamp from the numbers in flight as the hooks saw
    them under the store's mutex). -/
theorem cursor_never_shows_later_completion {K : Type} [DecidableEq K] {klt : K → K → Bool} (st : StrictTotal klt)
    (tomb : Ver K → Bool) (sb eb : Bound K) (assigned : Nat) (inflight : List Nat)
    (hpos : ∀ s ∈ inflight, 0 < s) (mem rest : List (Ver K)) (toks : List (Tok K))
    (hlate : ∀ es, Tok.write es ∈ toks ∨ Tok.writeImm es ∈ toks → ∀ e ∈ es, e.2 ∈ inflight ∨ assigned < e.2) :
    run klt tomb sb eb (openAt assigned inflight mem rest) toks
      = Ref.run ⟨view klt tomb sb eb (openAt assigned inflight mem rest), 0⟩ (opsOf toks) :=
  run_openAt st tomb sb eb assigned inflight hpos mem rest toks hlate

/-- the list of open time holds nothing of a write in flight — not even the entries it had
    already inserted when the scan was opened (no part of a batch) -/
theorem snapshot_excludes_writes_in_flight {K : Type} [DecidableEq K] {klt : K → K → Bool}
    (tomb : Ver K → Bool) (sb eb : Bound K) (assigned : Nat) (inflight : List Nat)
    (hpos : ∀ s ∈ inflight, 0 < s) (mem rest : List (Ver K))
    (e : Ver K) (he : e ∈ view klt tomb sb eb (openAt assigned inflight mem rest)) : e.2 ∉ inflight :=
  view_excludes_inflight tomb sb eb assigned inflight hpos mem rest e he

/-- non-vacuity: batch 8 over keys 1, 2 has inserted key 1 only, write 9 (key 3) has inserted and
    queues behind it; a scan opened now reads at 7 and shows round 5 of both keys and the old key
    3, before and after the rest of the batch arrives -/
example :
    run Nat.blt (fun _ => false) .unbounded .unbounded
      (openAt 9 [8, 9] [(1, 8), (3, 9)] [(1, 5), (2, 5), (3, 6)])
      [.op .first, .op .next, .op .next, .op .next, .write [(2, 8)], .op .first, .op .next, .op .next, .op .next]
    = [none, some (1, 5), some (2, 5), some (3, 6), none, some (1, 5), some (2, 5), some (3, 6)] := by decide

/-- **the reordering that publishes a write's number before the hand-off** (seeded change
    `C07-visible-seq-before-handoff`), at model level: the same scan reading at 9 — the number the
    later write published while batch 8 was still inserting — shows half of batch 8 on its first
    walk and all of it on its second -/
theorem timestamp_published_early_shows_part_of_a_batch :
    run Nat.blt (fun _ => false) .unbounded .unbounded ⟨9, [(1, 8), (3, 9)], [(1, 5), (2, 5), (3, 6)], 0⟩
      [.op .first, .op .next, .op .next, .op .next, .write [(2, 8)], .op .first, .op .next, .op .next, .op .next]
    = [none, some (1, 8), some (2, 5), some (3, 9), none, some (1, 8), some (2, 8), some (3, 9)] := by decide

end contents

-- BEGIN CursorWorld
/-! ## one state machine: files × memory × contents × open cursors (`Blue.CursorWorld`) -/
section CursorWorld
open Blue.Spec Blue.Cursor
variable {F K : Type} [DecidableEq F] [DecidableEq K]

/-- **(1) the invariant of the product**: in every state reached from a freshly opened store by ANY
    list of the events `write`, `rollover`, `flush` (drops the store's handle on the immutable
    memtable AND installs the version with the new file), `compactInstall` (installs a version,
    releases the old one: files whose count drops to zero go to `trash/`), `verifierPass` (unlinks
    `trash/`), `openCursor`, `stepCursor`, `dropCursor` — each defined by the steps of `Blue.FileRefs`,
    `Blue.SkipOwn`, `Blue.Snap` on its component —: the three component invariants; the `Arc` count of
    every version is EXACTLY the number of live cursors that captured it (+ 1 for the current one);
    and for every live cursor: its version is referenced, every file of it is in `sst/`, every
    memtable handle it captured is a held iterator of a memtable that has released no node -/
theorem world_inv {klt : K → K → Bool} {tomb : Ver K → Bool} (files : List F) (data : List (F × List (Ver K)))
    (evs : List (Blue.CursorWorld.Ev F K)) {s : Blue.CursorWorld.St F K}
    (hr : Blue.CursorWorld.run klt tomb (Blue.CursorWorld.init files data) evs = some s) :
    (Blue.FileRefs.Inv s.files ∧ (∀ tb ∈ s.tables, Blue.SkipOwn.Inv tb) ∧ Blue.CursorWorld.SnapInv klt tomb s) ∧
    (∀ i, i < s.files.versions.length →
      Blue.FileRefs.holdersAt s.files i
        = Blue.CursorWorld.outOf s i + (if i + 1 = s.files.versions.length then 1 else 0)) ∧
    ∀ (i : Nat) (c : Blue.CursorWorld.Cur K), s.cursors[i]? = some c → c.live = true →
      Blue.FileRefs.holdersAt s.files c.ver ≥ 1 ∧
      (∀ f ∈ Blue.CursorWorld.filesOf s.files c.ver, f ∈ s.files.sst) ∧
      ∀ x ∈ c.hs, ∃ tb, s.tables[x.1]? = some tb ∧ Blue.SkipOwn.held tb x.2 = true ∧ tb.freed = [] :=
  Blue.CursorWorld.world_inv files data evs hr

/-- **(2) memory-safe AND files present, on ONE state machine**: a `stepCursor` taken in any reached
    state goes through a live cursor; every memtable it dereferences has released no node and no
    use after free has happened before or happens by it; every file of its version is in `sst/`.
    ("In `sst/`" is the statement: the model's `trash` is the list of names renamed away, and a
    name can be linked again by a later install, so "not in `trash`" is not an invariant of
    `Blue.FileRefs`; the lazy cursors open `sst/<name>`.) -/
theorem cursor_step_safe {klt : K → K → Bool} {tomb : Ver K → Bool} (files : List F) (data : List (F × List (Ver K)))
    (evs : List (Blue.CursorWorld.Ev F K)) {s s' : Blue.CursorWorld.St F K}
    (hr : Blue.CursorWorld.run klt tomb (Blue.CursorWorld.init files data) evs = some s) (i : Nat) (o : Op (Ver K))
    (hs : Blue.CursorWorld.step klt tomb s (.stepCursor i o) = some s') :
    ∃ c, s.cursors[i]? = some c ∧ c.live = true ∧
      (∀ x ∈ c.hs, ∃ tb, s.tables[x.1]? = some tb ∧ Blue.SkipOwn.held tb x.2 = true ∧ tb.freed = [] ∧ tb.uaf = false) ∧
      (∀ f ∈ Blue.CursorWorld.filesOf s.files c.ver, f ∈ s.files.sst) ∧
      (∀ tb ∈ s'.tables, tb.uaf = false) :=
  Blue.CursorWorld.cursor_step_safe files data evs hr i o hs

/-- … and the step is ENABLED for every live cursor of every reached state: (2) is about every call
    a client can make, whatever flushes, compactions and clean-ups came in between -/
theorem cursor_step_enabled {klt : K → K → Bool} {tomb : Ver K → Bool} (files : List F) (data : List (F × List (Ver K)))
    (evs : List (Blue.CursorWorld.Ev F K)) {s : Blue.CursorWorld.St F K}
    (hr : Blue.CursorWorld.run klt tomb (Blue.CursorWorld.init files data) evs = some s) (i : Nat)
    (c : Blue.CursorWorld.Cur K) (hc : s.cursors[i]? = some c) (hl : c.live = true) (o : Op (Ver K)) :
    ∃ s', Blue.CursorWorld.step klt tomb s (.stepCursor i o) = some s' :=
  Blue.CursorWorld.cursor_step_enabled files data evs hr i c hc hl o

/-- **(3) the cursor shows the contents of open time**: a cursor opened after any run `evs1` and then
    subjected to ANY interleaving `evs2` of store events and steps of this and other cursors returns,
    call by call, what the reference cursor over the list captured at OPEN time returns — i.e. what
    it would have returned had nothing happened since (`Blue.Snap.run_eq_ref` composed with the run;
    hypothesis (i) of `cursor_sees_snapshot_partial` is discharged INSIDE this machine: a write is
    numbered above every read timestamp taken before it; writes are atomic events here, writers in
    flight are C06) -/
theorem cursor_shows_open_time_contents {klt : K → K → Bool} (st : StrictTotal klt) (tomb : Ver K → Bool)
    (files : List F) (data : List (F × List (Ver K))) (evs1 evs2 : List (Blue.CursorWorld.Ev F K)) (sb eb : Bound K)
    {s1 s2 s3 : Blue.CursorWorld.St F K}
    (h1 : Blue.CursorWorld.run klt tomb (Blue.CursorWorld.init files data) evs1 = some s1)
    (h2 : Blue.CursorWorld.step klt tomb s1 (.openCursor sb eb) = some s2)
    (h3 : Blue.CursorWorld.run klt tomb s2 evs2 = some s3) :
    ∃ c, s3.cursors[s1.cursors.length]? = some c ∧
      c.outs = Ref.run ⟨Blue.Snap.view klt tomb sb eb (Blue.CursorWorld.capture s1), 0⟩
        (Blue.CursorWorld.callsOf s1.cursors.length evs2) :=
  Blue.CursorWorld.cursor_shows_open_time_contents st tomb files data evs1 evs2 sb eb h1 h2 h3

/-- **(3) in the words of the property**: what a cursor returned during ANY interleaving `evs2` of
    store events and cursor steps is what it returns in the QUIET run — the run in which nothing
    happens after its open but its own calls — and that quiet run exists (every call is enabled) -/
theorem cursor_unmoved_by_store {klt : K → K → Bool} (st : StrictTotal klt) (tomb : Ver K → Bool)
    (files : List F) (data : List (F × List (Ver K))) (evs1 evs2 : List (Blue.CursorWorld.Ev F K)) (sb eb : Bound K)
    {s1 s2 s3 : Blue.CursorWorld.St F K}
    (h1 : Blue.CursorWorld.run klt tomb (Blue.CursorWorld.init files data) evs1 = some s1)
    (h2 : Blue.CursorWorld.step klt tomb s1 (.openCursor sb eb) = some s2)
    (h3 : Blue.CursorWorld.run klt tomb s2 evs2 = some s3) :
    ∃ (q : Blue.CursorWorld.St F K) (c cq : Blue.CursorWorld.Cur K),
      Blue.CursorWorld.run klt tomb s2 ((Blue.CursorWorld.callsOf s1.cursors.length evs2).map
        (fun o => (Blue.CursorWorld.Ev.stepCursor s1.cursors.length o : Blue.CursorWorld.Ev F K))) = some q ∧
      s3.cursors[s1.cursors.length]? = some c ∧ q.cursors[s1.cursors.length]? = some cq ∧ c.outs = cq.outs :=
  Blue.CursorWorld.cursor_unmoved_by_store st tomb files data evs1 evs2 sb eb h1 h2 h3

/-- **(4) nothing leaks** (`freed_iff_no_holder` lifted to the product): in every reached state a
    version that is not the current one and that no live cursor captured has no holder and is no
    longer counted (its `explicit_unref` has run: each of its files was decremented, those that
    reached zero moved to `trash/`); a memtable the store no longer holds (flushed) and on which no
    live cursor has a handle has released EVERY node; while the store or a live cursor holds it, none -/
theorem drop_releases {klt : K → K → Bool} {tomb : Ver K → Bool} (files : List F) (data : List (F × List (Ver K)))
    (evs : List (Blue.CursorWorld.Ev F K)) {s : Blue.CursorWorld.St F K}
    (hr : Blue.CursorWorld.run klt tomb (Blue.CursorWorld.init files data) evs = some s) :
    (∀ (i : Nat) (v : Blue.FileRefs.Ver F), s.files.versions[i]? = some v → i + 1 < s.files.versions.length →
      Blue.CursorWorld.outOf s i = 0 → v.holders = 0 ∧ v.counted = false) ∧
    (∀ (t : Nat) (tb : Blue.SkipOwn.St), s.tables[t]? = some tb →
      ((tb.listHeld = true ∨ ∃ (i : Nat) (c : Blue.CursorWorld.Cur K) (j : Nat),
          s.cursors[i]? = some c ∧ c.live = true ∧ (t, j) ∈ c.hs) → tb.freed = []) ∧
      (tb.listHeld = false →
        (∀ (i : Nat) (c : Blue.CursorWorld.Cur K) (j : Nat), s.cursors[i]? = some c → c.live = true → (t, j) ∉ c.hs) →
        tb.freed = List.range tb.nodes)) :=
  Blue.CursorWorld.drop_releases files data evs hr

/-- the run of the non-vacuity examples: a write, a cursor is opened (captures memtable 0 and
    version 0 = files 1, 2), a write, the rollover, the flush of memtable 0 into file 7 (the store
    drops its handle; version 1 = 1, 2, 7), a compaction installs version 2 = file 8 (version 1 is
    released: file 7 goes to `trash/`; 1 and 2 stay, the cursor holds version 0), a verifier pass
    unlinks 7, the cursor steps three times -/
def worldRun : List (Blue.CursorWorld.Ev Nat Nat) :=
  [.write 3, .openCursor .unbounded .unbounded, .write 4, .rollover, .flush 7,
   .compactInstall [8] [(8, [(1, 0), (3, 1), (4, 2), (5, 0)])], .verifierPass,
   .stepCursor 0 .first, .stepCursor 0 .next, .stepCursor 0 .next]

/-- what the examples look at, store side: (`sst/`, `trash/`, unlinked names); per memtable (the store
    holds it, count, released nodes, use-after-free flag) -/
def worldObs (s : Blue.CursorWorld.St Nat Nat) : (List Nat × List Nat × List Nat) × List (Bool × Nat × List Nat × Bool) :=
  ((s.files.sst, s.files.trash, s.unlinked), s.tables.map (fun t => (t.listHeld, t.rc, t.freed, t.uaf)))

/-- … cursor side: per cursor (live, handles, version, results); per version (files, holders, counted) -/
def worldObsC (s : Blue.CursorWorld.St Nat Nat) :
    List (Bool × List (Nat × Nat) × Nat × List (Option (Nat × Nat))) × List (List Nat × Nat × Bool) :=
  (s.cursors.map (fun c => (c.live, c.hs, c.ver, c.outs)), s.files.versions.map (fun v => (v.files, v.holders, v.counted)))

set_option synthInstance.maxSize 2048 in
/-- non-vacuity of (1)–(3): after flush, compaction install and verifier pass the cursor's files 1, 2
    are still in `sst/`, memtable 0 (dropped by the store, count 1 = the cursor's iterator) has
    released nothing, and the three calls return the open-time contents — key 4, written after the
    open, is not shown, and neither is anything of the compaction's output -/
example :
    (Blue.CursorWorld.run Nat.blt (fun _ => false) (Blue.CursorWorld.init [1, 2] [(1, [(1, 0)]), (2, [(5, 0)])])
      worldRun).map worldObs
    = some (([1, 2, 8], [], [7]), [(false, 1, [], false), (true, 1, [], false)])
    ∧ (Blue.CursorWorld.run Nat.blt (fun _ => false) (Blue.CursorWorld.init [1, 2] [(1, [(1, 0)]), (2, [(5, 0)])])
      worldRun).map worldObsC
    = some ([(true, [(0, 0)], 0, [none, some (1, 0), some (3, 1)])],
        [([1, 2], 1, true), ([1, 2, 7], 0, false), ([8], 1, true)]) := by decide

set_option synthInstance.maxSize 2048 in
/-- non-vacuity of (4): the drop of the cursor releases the three nodes of memtable 0 and moves files
    1, 2 to `trash/`; the next verifier pass unlinks them; a step through the dropped cursor is not
    an event -/
example :
    (Blue.CursorWorld.run Nat.blt (fun _ => false) (Blue.CursorWorld.init [1, 2] [(1, [(1, 0)]), (2, [(5, 0)])])
      (worldRun ++ [.dropCursor 0])).map worldObs
    = some (([8], [2, 1], [7]), [(false, 0, [0, 1, 2], false), (true, 1, [], false)])
    ∧ (Blue.CursorWorld.run Nat.blt (fun _ => false) (Blue.CursorWorld.init [1, 2] [(1, [(1, 0)]), (2, [(5, 0)])])
      (worldRun ++ [.dropCursor 0])).map worldObsC
    = some ([(false, [(0, 0)], 0, [none, some (1, 0), some (3, 1)])],
        [([1, 2], 0, false), ([1, 2, 7], 0, false), ([8], 1, true)])
    ∧ (Blue.CursorWorld.run Nat.blt (fun _ => false) (Blue.CursorWorld.init [1, 2] [(1, [(1, 0)]), (2, [(5, 0)])])
      (worldRun ++ [.dropCursor 0, .verifierPass])).map (fun s => (s.files.sst, s.files.trash, s.unlinked))
    = some ([8], [], [7, 2, 1])
    ∧ (Blue.CursorWorld.run Nat.blt (fun _ => false) (Blue.CursorWorld.init [1, 2] [(1, [(1, 0)]), (2, [(5, 0)])])
      (worldRun ++ [.dropCursor 0, .stepCursor 0 .next])).isNone = true := by decide

/-- the hypotheses of (3) on that run: the cursor is opened after `[write 3]`, the other eight
    events follow -/
example :
    ∃ s1 s2 s3,
      Blue.CursorWorld.run Nat.blt (fun _ => false) (Blue.CursorWorld.init [1, 2] [(1, [(1, 0)]), (2, [(5, 0)])]) [.write 3] = some s1 ∧
      Blue.CursorWorld.step Nat.blt (fun _ => false) s1 (.openCursor .unbounded .unbounded) = some s2 ∧
      Blue.CursorWorld.run Nat.blt (fun _ => false) s2 (worldRun.drop 2) = some s3 ∧
      Blue.CursorWorld.callsOf 0 (worldRun.drop 2) = [Op.first, .next, .next] ∧
      Blue.Snap.view Nat.blt (fun _ => false) .unbounded .unbounded (Blue.CursorWorld.capture s1) = [(1, 0), (3, 1), (5, 0)] := by
  refine ⟨_, _, _, rfl, rfl, rfl, ?_, ?_⟩
  · rfl
  · decide

end CursorWorld
-- END CursorWorld

-- BEGIN CursorWorldW
/-! ## the same machine with the flush SPLIT in its two critical sections (`Blue.CursorWorldW`)

`flushInstall f` = `_ingest` (lsmtk/src/kvs/mod.rs:310: the `FileRefs` install of `cur ++ [f]`, the store
still holds `imm`), `flushClear` = `state.imm = None` (mod.rs:321-322: `SkipOwn` `dropList` on the
immutable memtable).  Every other event is `Blue.CursorWorld.step` on the base state.  A cursor opened
between the two (`range_scan`, mod.rs:589-600, clones `state.mem`, `state.imm` and takes the tree
snapshot under the state lock) has the flushed entries in TWO children. -/
section CursorWorldW
open Blue.Spec Blue.Cursor
variable {F K : Type} [DecidableEq F] [DecidableEq K]

/-- **(1) with the window clause**: in every state reached by ANY list of events of the split machine:
    the three component invariants, the exact `Arc` counts, the coupling of every live cursor; and IN
    A WINDOW (`win = some f`) the store still holds the immutable memtable `t`, which is not the
    mutable one, and the entries of `t` are exactly the entries of file `f` -/
theorem world_inv_w {klt : K → K → Bool} {tomb : Ver K → Bool} (files : List F) (data : List (F × List (Ver K)))
    (evs : List (Blue.CursorWorldW.Ev F K)) {s : Blue.CursorWorldW.St F K}
    (hr : Blue.CursorWorldW.run klt tomb (Blue.CursorWorldW.init files data) evs = some s) :
    (Blue.FileRefs.Inv s.base.files ∧ (∀ tb ∈ s.base.tables, Blue.SkipOwn.Inv tb) ∧
      Blue.CursorWorld.SnapInv klt tomb s.base) ∧
    (∀ i, i < s.base.files.versions.length →
      Blue.FileRefs.holdersAt s.base.files i
        = Blue.CursorWorld.outOf s.base i + (if i + 1 = s.base.files.versions.length then 1 else 0)) ∧
    (∀ (i : Nat) (c : Blue.CursorWorld.Cur K), s.base.cursors[i]? = some c → c.live = true →
      Blue.FileRefs.holdersAt s.base.files c.ver ≥ 1 ∧
      (∀ f ∈ Blue.CursorWorld.filesOf s.base.files c.ver, f ∈ s.base.files.sst) ∧
      ∀ x ∈ c.hs, ∃ tb, s.base.tables[x.1]? = some tb ∧ Blue.SkipOwn.held tb x.2 = true ∧ tb.freed = []) ∧
    (∀ f, s.win = some f → ∃ t, s.base.imm = some t ∧ t + 1 < s.base.tables.length ∧
      Blue.CursorWorld.dataOf s.base.fileData f = s.base.tabData.getD t []) :=
  Blue.CursorWorldW.world_inv_w files data evs hr

/-- **(2)** a `stepCursor` in any reached state of the split machine (inside a window, right after
    `flushClear`, …) goes through a live cursor, dereferences only memtables that have released
    nothing, finds every file of its version in `sst/`; no use after free before or by it -/
theorem cursor_step_safe_w {klt : K → K → Bool} {tomb : Ver K → Bool} (files : List F) (data : List (F × List (Ver K)))
    (evs : List (Blue.CursorWorldW.Ev F K)) {s s' : Blue.CursorWorldW.St F K}
    (hr : Blue.CursorWorldW.run klt tomb (Blue.CursorWorldW.init files data) evs = some s) (i : Nat) (o : Op (Ver K))
    (hs : Blue.CursorWorldW.step klt tomb s (.stepCursor i o) = some s') :
    ∃ c, s.base.cursors[i]? = some c ∧ c.live = true ∧
      (∀ x ∈ c.hs, ∃ tb, s.base.tables[x.1]? = some tb ∧ Blue.SkipOwn.held tb x.2 = true ∧ tb.freed = [] ∧ tb.uaf = false) ∧
      (∀ f ∈ Blue.CursorWorld.filesOf s.base.files c.ver, f ∈ s.base.files.sst) ∧
      (∀ tb ∈ s'.base.tables, tb.uaf = false) :=
  Blue.CursorWorldW.cursor_step_safe_w files data evs hr i o hs

/-- … and the step is enabled for every live cursor of every reached state -/
theorem cursor_step_enabled_w {klt : K → K → Bool} {tomb : Ver K → Bool} (files : List F) (data : List (F × List (Ver K)))
    (evs : List (Blue.CursorWorldW.Ev F K)) {s : Blue.CursorWorldW.St F K}
    (hr : Blue.CursorWorldW.run klt tomb (Blue.CursorWorldW.init files data) evs = some s) (i : Nat)
    (c : Blue.CursorWorld.Cur K) (hc : s.base.cursors[i]? = some c) (hl : c.live = true) (o : Op (Ver K)) :
    ∃ s', Blue.CursorWorldW.step klt tomb s (.stepCursor i o) = some s' :=
  Blue.CursorWorldW.cursor_step_enabled_w files data evs hr i c hc hl o

/-- **(4)** nothing leaks, in every reached state of the split machine -/
theorem drop_releases_w {klt : K → K → Bool} {tomb : Ver K → Bool} (files : List F) (data : List (F × List (Ver K)))
    (evs : List (Blue.CursorWorldW.Ev F K)) {s : Blue.CursorWorldW.St F K}
    (hr : Blue.CursorWorldW.run klt tomb (Blue.CursorWorldW.init files data) evs = some s) :
    (∀ (i : Nat) (v : Blue.FileRefs.Ver F), s.base.files.versions[i]? = some v → i + 1 < s.base.files.versions.length →
      Blue.CursorWorld.outOf s.base i = 0 → v.holders = 0 ∧ v.counted = false) ∧
    (∀ (t : Nat) (tb : Blue.SkipOwn.St), s.base.tables[t]? = some tb →
      ((tb.listHeld = true ∨ ∃ (i : Nat) (c : Blue.CursorWorld.Cur K) (j : Nat),
          s.base.cursors[i]? = some c ∧ c.live = true ∧ (t, j) ∈ c.hs) → tb.freed = []) ∧
      (tb.listHeld = false →
        (∀ (i : Nat) (c : Blue.CursorWorld.Cur K) (j : Nat), s.base.cursors[i]? = some c → c.live = true → (t, j) ∉ c.hs) →
        tb.freed = List.range tb.nodes)) :=
  Blue.CursorWorldW.drop_releases_w files data evs hr

/-- the two halves taken back to back ARE the `flush` event of `Blue.CursorWorld` (for a file name
    not yet used in the ghost `fileData`) -/
theorem window_collapses_to_flush {klt : K → K → Bool} {tomb : Ver K → Bool} {s s1 s2 : Blue.CursorWorldW.St F K} {f : F}
    (ha : Blue.CursorWorldW.step klt tomb s (.flushInstall f) = some s1)
    (hb : Blue.CursorWorldW.step klt tomb s1 .flushClear = some s2) :
    Blue.CursorWorld.step klt tomb s.base (.flush f) = some s2.base ∧ s.win = none ∧ s2.win = none :=
  Blue.CursorWorldW.window_collapses_to_flush ha hb

/-- `flushInstall f` in any reached state opens the window: the current version becomes `cur ++ [f]`,
    `imm` and the memtables are untouched — the hypotheses `win = some f`, `f ∈ curFiles` of the next
    theorems hold right after it -/
theorem flushInstall_opens_window {klt : K → K → Bool} {tomb : Ver K → Bool} (files : List F) (data : List (F × List (Ver K)))
    (evs : List (Blue.CursorWorldW.Ev F K)) {s s' : Blue.CursorWorldW.St F K}
    (hr : Blue.CursorWorldW.run klt tomb (Blue.CursorWorldW.init files data) evs = some s) (f : F)
    (hs : Blue.CursorWorldW.step klt tomb s (.flushInstall f) = some s') :
    s'.win = some f ∧ Blue.CursorWorld.curFiles s'.base.files = Blue.CursorWorld.curFiles s.base.files ++ [f] ∧
      f ∈ Blue.CursorWorld.curFiles s'.base.files ∧ s'.base.imm = s.base.imm ∧ s'.base.tables = s.base.tables :=
  Blue.CursorWorldW.flushInstall_opens_window files data evs hr f hs

/-- **(3) for every cursor of the split machine** (opened inside a window or not): under any
    interleaving `evs2` it returns, call by call, what the reference cursor over the list captured at
    open time returns -/
theorem cursor_shows_open_time_contents_w {klt : K → K → Bool} (st : StrictTotal klt) (tomb : Ver K → Bool)
    (files : List F) (data : List (F × List (Ver K))) (evs1 evs2 : List (Blue.CursorWorldW.Ev F K)) (sb eb : Bound K)
    {s1 s2 s3 : Blue.CursorWorldW.St F K}
    (h1 : Blue.CursorWorldW.run klt tomb (Blue.CursorWorldW.init files data) evs1 = some s1)
    (h2 : Blue.CursorWorldW.step klt tomb s1 (.openCursor sb eb) = some s2)
    (h3 : Blue.CursorWorldW.run klt tomb s2 evs2 = some s3) :
    ∃ c, s3.base.cursors[s1.base.cursors.length]? = some c ∧ c.snap0 = Blue.CursorWorld.capture s1.base ∧
      c.outs = Ref.run ⟨Blue.Snap.view klt tomb sb eb (Blue.CursorWorld.capture s1.base), 0⟩
        (Blue.CursorWorldW.callsOf s1.base.cursors.length evs2) :=
  Blue.CursorWorldW.cursor_shows_open_time_contents_w st tomb files data evs1 evs2 sb eb h1 h2 h3

/-- **(3) in the window**: a cursor opened INSIDE the flush window (file `f` installed and in the
    current version, `state.imm` not yet cleared) captured the flushed entries TWICE — the list of
    its children `rest` is `imm's entries ++ (… ++ imm's entries ++ …)`: immutable-memtable child and
    version child — and, under EVERY program and EVERY interleaving `evs2` of store events
    (`flushClear`, later rollovers / flushes, compactions, verifier passes, writes, other cursors), it
    returns call by call what the reference cursor over the open-time contents with each entry ONCE
    (`captureOnce`: memtable + files of the current version) returns; that list has no (key,
    timestamp) twice.  `Blue.Snap.view` already drops identical copies (`sortV` inserts with `insertV`
    — the `scan_spec_dups` shape, `held_view_is_scan_spec_dups_list`); the duplicate is in what is
    captured (`c.snap0 = capture s1`), not in what is shown. -/
theorem cursor_opened_in_window_shows_each_entry_once {klt : K → K → Bool} (st : StrictTotal klt) (tomb : Ver K → Bool)
    (files : List F) (data : List (F × List (Ver K))) (evs1 evs2 : List (Blue.CursorWorldW.Ev F K)) (sb eb : Bound K) (f : F)
    {s1 s2 s3 : Blue.CursorWorldW.St F K}
    (h1 : Blue.CursorWorldW.run klt tomb (Blue.CursorWorldW.init files data) evs1 = some s1)
    (hw : s1.win = some f) (hf : f ∈ Blue.CursorWorld.curFiles s1.base.files)
    (h2 : Blue.CursorWorldW.step klt tomb s1 (.openCursor sb eb) = some s2)
    (h3 : Blue.CursorWorldW.run klt tomb s2 evs2 = some s3) :
    ∃ (t : Nat) (pre post : List F) (c : Blue.CursorWorld.Cur K),
      s1.base.imm = some t ∧ Blue.CursorWorld.curFiles s1.base.files = pre ++ f :: post ∧
      (Blue.CursorWorld.capture s1.base).rest = s1.base.tabData.getD t [] ++
        (pre.flatMap (Blue.CursorWorld.dataOf s1.base.fileData) ++
          (s1.base.tabData.getD t [] ++ post.flatMap (Blue.CursorWorld.dataOf s1.base.fileData))) ∧
      s3.base.cursors[s1.base.cursors.length]? = some c ∧ c.snap0 = Blue.CursorWorld.capture s1.base ∧
      (Blue.Snap.view klt tomb sb eb (Blue.CursorWorldW.captureOnce s1.base)).Nodup ∧
      c.outs = Ref.run ⟨Blue.Snap.view klt tomb sb eb (Blue.CursorWorldW.captureOnce s1.base), 0⟩
        (Blue.CursorWorldW.callsOf s1.base.cursors.length evs2) :=
  Blue.CursorWorldW.cursor_opened_in_window_shows_each_entry_once st tomb files data evs1 evs2 sb eb f h1 hw hf h2 h3

/-- **(3) in the words of the property, for every cursor of the split machine — in particular one
    opened inside the window**: what it returned
    during ANY interleaving `evs2` (the `flushClear` that ends the window, later flushes,
    compactions, verifier passes, …) is what it returns in the QUIET run in which nothing follows
    its open but its own calls — and that run exists -/
theorem cursor_unmoved_by_store_w {klt : K → K → Bool} (st : StrictTotal klt) (tomb : Ver K → Bool)
    (files : List F) (data : List (F × List (Ver K))) (evs1 evs2 : List (Blue.CursorWorldW.Ev F K)) (sb eb : Bound K)
    {s1 s2 s3 : Blue.CursorWorldW.St F K}
    (h1 : Blue.CursorWorldW.run klt tomb (Blue.CursorWorldW.init files data) evs1 = some s1)
    (h2 : Blue.CursorWorldW.step klt tomb s1 (.openCursor sb eb) = some s2)
    (h3 : Blue.CursorWorldW.run klt tomb s2 evs2 = some s3) :
    ∃ (q : Blue.CursorWorldW.St F K) (c cq : Blue.CursorWorld.Cur K),
      Blue.CursorWorldW.run klt tomb s2 ((Blue.CursorWorldW.callsOf s1.base.cursors.length evs2).map
        (fun o => (Blue.CursorWorldW.Ev.stepCursor s1.base.cursors.length o : Blue.CursorWorldW.Ev F K))) = some q ∧
      s3.base.cursors[s1.base.cursors.length]? = some c ∧ q.base.cursors[s1.base.cursors.length]? = some cq ∧
      c.outs = cq.outs :=
  Blue.CursorWorldW.cursor_unmoved_by_store_w st tomb files data evs1 evs2 sb eb h1 h2 h3

/-- **(4) the D-4 scenario inside the window**: a cursor opened while `imm = some t` holds an iterator
    `(t, j)` on the immutable memtable; after ANY events `evs2` — among them the `flushClear` by which
    the store drops its handle on `t` — as long as the cursor is live that iterator is held, `t` has
    released NO node and no use after free has happened; once the store's handle is gone and no live
    cursor has a handle on `t`, every node of `t` is released -/
theorem window_cursor_memory {klt : K → K → Bool} {tomb : Ver K → Bool} (files : List F) (data : List (F × List (Ver K)))
    (evs1 evs2 : List (Blue.CursorWorldW.Ev F K)) (sb eb : Bound K) (t : Nat)
    {s1 s2 s3 : Blue.CursorWorldW.St F K}
    (h1 : Blue.CursorWorldW.run klt tomb (Blue.CursorWorldW.init files data) evs1 = some s1)
    (hi : s1.base.imm = some t)
    (h2 : Blue.CursorWorldW.step klt tomb s1 (.openCursor sb eb) = some s2)
    (h3 : Blue.CursorWorldW.run klt tomb s2 evs2 = some s3) :
    ∃ (c : Blue.CursorWorld.Cur K) (j : Nat) (tb : Blue.SkipOwn.St),
      s3.base.cursors[s1.base.cursors.length]? = some c ∧ (t, j) ∈ c.hs ∧ s3.base.tables[t]? = some tb ∧
      (c.live = true → Blue.SkipOwn.held tb j = true ∧ tb.freed = [] ∧ tb.uaf = false) ∧
      (tb.listHeld = false →
        (∀ (i : Nat) (c' : Blue.CursorWorld.Cur K) (j' : Nat), s3.base.cursors[i]? = some c' → c'.live = true → (t, j') ∉ c'.hs) →
        tb.freed = List.range tb.nodes) :=
  Blue.CursorWorldW.window_cursor_memory files data evs1 evs2 sb eb t h1 hi h2 h3

/-- … and `flushClear` does drop the store's handle on the immutable memtable -/
theorem flushClear_drops_handle {klt : K → K → Bool} {tomb : Ver K → Bool} {s s' : Blue.CursorWorldW.St F K}
    (hs : Blue.CursorWorldW.step klt tomb s .flushClear = some s') :
    ∃ t tb', s.base.imm = some t ∧ s'.base.imm = none ∧ s'.base.tables[t]? = some tb' ∧ tb'.listHeld = false :=
  Blue.CursorWorldW.flushClear_drops_handle hs

/-- the run of the non-vacuity examples: two writes (keys 3, 4 into memtable 0), the rollover,
    `flushInstall 7` (version 1 = files 1, 7; file 7 = the two entries; `imm` still memtable 0), a cursor
    is opened INSIDE the window (handles on memtables 1 and 0, version 1), a write (key 6), `flushClear`
    (the store drops memtable 0), a compaction installs version 2 = file 8, a verifier pass, three
    calls on the cursor -/
def windowRun : List (Blue.CursorWorldW.Ev Nat Nat) :=
  [.write 3, .write 4, .rollover, .flushInstall 7, .openCursor .unbounded .unbounded, .write 6, .flushClear,
   .compactInstall [8] [(8, [(3, 1), (4, 2), (5, 0), (6, 3)])], .verifierPass,
   .stepCursor 0 .first, .stepCursor 0 .next, .stepCursor 0 .next]

def windowInit : Blue.CursorWorldW.St Nat Nat := Blue.CursorWorldW.init [1] [(1, [(5, 0)])]

set_option synthInstance.maxSize 2048 in
/-- the state in which the cursor is opened (after `flushInstall 7`): the window is open, the current
    version lists 7, `imm` is memtable 0; the children the cursor captures hold (3,1), (4,2) TWICE
    (immutable memtable, then file 1, then file 7); the contents with each entry once and what the
    cursor shows -/
example :
    (Blue.CursorWorldW.run Nat.blt (fun _ => false) windowInit (windowRun.take 4)).map
      (fun s => (s.win, Blue.CursorWorld.curFiles s.base.files, s.base.imm,
        (Blue.CursorWorld.capture s.base).mem, (Blue.CursorWorld.capture s.base).rest,
        (Blue.CursorWorldW.captureOnce s.base).rest,
        Blue.Snap.view Nat.blt (fun _ => false) .unbounded .unbounded (Blue.CursorWorld.capture s.base),
        Blue.Snap.view Nat.blt (fun _ => false) .unbounded .unbounded (Blue.CursorWorldW.captureOnce s.base)))
    = some (some 7, [1, 7], some 0, [], [(3, 1), (4, 2), (5, 0), (3, 1), (4, 2)], [(5, 0), (3, 1), (4, 2)],
        [(3, 1), (4, 2), (5, 0)], [(3, 1), (4, 2), (5, 0)]) := by decide

set_option synthInstance.maxSize 2048 in
/-- non-vacuity of (1)–(3) and of `window_cursor_memory`: right after `flushClear` the store no longer
    holds memtable 0 (count 1 = the cursor's iterator, nothing released); at the end — after the
    compaction install and the verifier pass — files 1, 7 of the cursor's version 1 are still in `sst/`,
    memtable 0 has released nothing, and the three calls return each entry ONCE: (3,1) then (4,2),
    not (3,1) twice; key 6, written after the open, is not shown -/
example :
    (Blue.CursorWorldW.run Nat.blt (fun _ => false) windowInit (windowRun.take 7)).map (fun s => (worldObs s.base, s.win))
    = some ((([1, 7], [], []), [(false, 1, [], false), (true, 2, [], false)]), none)
    ∧ (Blue.CursorWorldW.run Nat.blt (fun _ => false) windowInit (windowRun.take 7)).map (fun s => worldObsC s.base)
    = some ([(true, [(1, 0), (0, 0)], 1, [])], [([1], 0, false), ([1, 7], 2, true)])
    ∧ (Blue.CursorWorldW.run Nat.blt (fun _ => false) windowInit windowRun).map (fun s => (worldObs s.base, s.win))
    = some ((([1, 7, 8], [], []), [(false, 1, [], false), (true, 2, [], false)]), none)
    ∧ (Blue.CursorWorldW.run Nat.blt (fun _ => false) windowInit windowRun).map (fun s => worldObsC s.base)
    = some ([(true, [(1, 0), (0, 0)], 1, [none, some (3, 1), some (4, 2)])],
         [([1], 0, false), ([1, 7], 1, true), ([8], 1, true)]) := by decide

set_option synthInstance.maxSize 2048 in
/-- non-vacuity of (4): the nodes of memtable 0 are released only by the DROP of the cursor (3 nodes),
    which also moves files 7, 1 to `trash/`; a step through the dropped cursor is not an event; a
    second `flushInstall` inside the window, a `flushClear` outside one and a rollover inside one are
    not events -/
example :
    (Blue.CursorWorldW.run Nat.blt (fun _ => false) windowInit (windowRun ++ [.dropCursor 0])).map (fun s => (worldObs s.base, s.win))
    = some ((([8], [7, 1], []), [(false, 0, [0, 1, 2], false), (true, 1, [], false)]), none)
    ∧ (Blue.CursorWorldW.run Nat.blt (fun _ => false) windowInit (windowRun ++ [.dropCursor 0])).map (fun s => worldObsC s.base)
    = some ([(false, [(1, 0), (0, 0)], 1, [none, some (3, 1), some (4, 2)])],
         [([1], 0, false), ([1, 7], 0, false), ([8], 1, true)])
    ∧ (Blue.CursorWorldW.run Nat.blt (fun _ => false) windowInit (windowRun ++ [.dropCursor 0, .stepCursor 0 .next])).isNone = true
    ∧ (Blue.CursorWorldW.run Nat.blt (fun _ => false) windowInit (windowRun.take 4 ++ [.flushInstall 9])).isNone = true
    ∧ (Blue.CursorWorldW.run Nat.blt (fun _ => false) windowInit (windowRun.take 4 ++ [.rollover])).isNone = true
    ∧ (Blue.CursorWorldW.run Nat.blt (fun _ => false) windowInit (windowRun.take 3 ++ [.flushClear])).isNone = true := by decide

/-- the hypotheses of (3) / (4) / `window_collapses_to_flush` on that run: the cursor is opened after the
    first four events, inside the window of file 7, with `imm = some 0`; the other seven follow -/
example :
    ∃ s1 s2 s3,
      Blue.CursorWorldW.run Nat.blt (fun _ => false) windowInit (windowRun.take 4) = some s1 ∧
      s1.win = some 7 ∧ 7 ∈ Blue.CursorWorld.curFiles s1.base.files ∧ s1.base.imm = some 0 ∧
      Blue.CursorWorldW.step Nat.blt (fun _ => false) s1 (.openCursor .unbounded .unbounded) = some s2 ∧
      Blue.CursorWorldW.run Nat.blt (fun _ => false) s2 (windowRun.drop 5) = some s3 ∧
      Blue.CursorWorldW.callsOf 0 (windowRun.drop 5) = [Op.first, .next, .next] := by
  refine ⟨_, _, _, rfl, rfl, ?_, rfl, rfl, rfl, ?_⟩
  · decide
  · rfl

example :
    ∃ s s1 s2,
      Blue.CursorWorldW.run Nat.blt (fun _ => false) windowInit (windowRun.take 3) = some s ∧
      Blue.CursorWorldW.step Nat.blt (fun _ => false) s (.flushInstall 7) = some s1 ∧
      Blue.CursorWorldW.step Nat.blt (fun _ => false) s1 .flushClear = some s2 :=
  ⟨_, _, _, rfl, rfl, rfl⟩

end CursorWorldW
-- END CursorWorldW

end Blue.Props.C07

#print axioms Blue.Props.C07.held_files_present
#print axioms Blue.Props.C07.refcount_invariant_preserved
#print axioms Blue.Props.C07.cursor_files_present
#print axioms Blue.Props.C07.refcount_run
#print axioms Blue.Props.C07.reference_released_at_open_loses_files
#print axioms Blue.Props.C07.no_use_after_free
#print axioms Blue.Props.C07.deref_finds_all_nodes
#print axioms Blue.Props.C07.freed_iff_no_holder
#print axioms Blue.Props.C07.release_only_at_last_drop
#print axioms Blue.Props.C07.life_refines
#print axioms Blue.Props.C07.use_after_free_as_found
#print axioms Blue.Props.C07.iterator_keeps_nodes_alive
#print axioms Blue.Props.C07.nodes_released_with_last_holder
#print axioms Blue.Props.C07.scan_spec_dups
#print axioms Blue.Props.C07.held_view_is_scan_spec_dups_list
#print axioms Blue.Props.C07.scan_spec
#print axioms Blue.Props.C07.late_entry_lands_anywhere
#print axioms Blue.Props.C07.scan_depends_only_on_versions
#print axioms Blue.Props.C07.held_view_is_scan_spec_list
#print axioms Blue.Props.C07.later_writes_are_screened
#print axioms Blue.Props.C07.cursor_sees_snapshot_partial
#print axioms Blue.Props.C07.late_writer_leaks
#print axioms Blue.Props.C07.cursor_never_shows_later_completion
#print axioms Blue.Props.C07.snapshot_excludes_writes_in_flight
#print axioms Blue.Props.C07.timestamp_published_early_shows_part_of_a_batch
#print axioms Blue.Props.C07.world_inv
#print axioms Blue.Props.C07.cursor_step_safe
#print axioms Blue.Props.C07.cursor_step_enabled
#print axioms Blue.Props.C07.cursor_shows_open_time_contents
#print axioms Blue.Props.C07.cursor_unmoved_by_store
#print axioms Blue.Props.C07.drop_releases
#print axioms Blue.Props.C07.world_inv_w
#print axioms Blue.Props.C07.cursor_step_safe_w
#print axioms Blue.Props.C07.cursor_step_enabled_w
#print axioms Blue.Props.C07.drop_releases_w
#print axioms Blue.Props.C07.window_collapses_to_flush
#print axioms Blue.Props.C07.flushInstall_opens_window
#print axioms Blue.Props.C07.cursor_shows_open_time_contents_w
#print axioms Blue.Props.C07.cursor_opened_in_window_shows_each_entry_once
#print axioms Blue.Props.C07.cursor_unmoved_by_store_w
#print axioms Blue.Props.C07.window_cursor_memory
#print axioms Blue.Props.C07.flushClear_drops_handle
