import Blue.Proofs.FileRefs
/-! Property C07: the theorems the check builds and audits (spike inventory; the build phase
    completes the list from DESIGN Appendix C.0). -/
