import Blue.Proofs.TreeScan
import Blue.Proofs.LevelOver
import Blue.Proofs.ScanSpec
import Blue.Proofs.AsIsScan
import Blue.Proofs.ScanCongr
import Blue.Proofs.Stack
/-! Property C03: the theorems the check builds and audits (spike inventory; the build phase
    completes the list from DESIGN Appendix C.0). -/
#print axioms Blue.Spec.scan_spec
#print axioms Blue.Cursor.scan_stack
#print axioms Blue.Spec.scan_list_congr
#print axioms Blue.Spec.sorted_ext
#print axioms Blue.Cursor.level_over
#print axioms Blue.Cursor.lazy_over
#print axioms Blue.Spec.tree_scan_spec
