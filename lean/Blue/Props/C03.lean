import Blue.Proofs.TreeScan
import Blue.Proofs.LevelOver
import Blue.Proofs.ScanSpec
import Blue.Proofs.ScanSpecDups
import Blue.Proofs.AsIsScan
import Blue.Proofs.ScanCongr
import Blue.Proofs.Stack
import Blue.Proofs.Kvs
import Blue.Proofs.ScanLive
import Blue.Proofs.StoreHistScan
/-! # Property C03 — range scans return exactly the live keys in range, in order, matching reads

Property theorems only.  The scan a store performs is the cursor stack
`Bounds(Pruning(Merging[memtable, immutable memtable, Merging[level-0 files…, Concat(level files)…]]))`
(`KeyValueStore::range_scan`, lsmtk/src/kvs/mod.rs: the tree's own merging cursor is ONE child of the
store's merging cursor; the memtable children are themselves `BoundsCursor`s over the skiplist, and
`Tree::range_scan` leaves out the files of levels ≥ 1 whose key range misses the bounds).
`scan_spec` / `scan_spec_dups` are the flat stack over any table-like children;
`tree_scan_spec_dups` is the shape of `Tree::range_scan` under the outer wrappers;
`store_scan_spec_dups` is the nesting the store builds; `scan_unchanged_by_out_of_range_children`
says that children restricted to the range (however the restriction is computed) change no scan.
The combinators are modelled once, generically over a record of cursor operations (`Cur`), and
each is proved *natural* in its children; `scan_spec` composes the per-combinator refinement
theorems of C11 into the statement the property makes.  The correspondence check runs the
right-hand side of `scan_spec` — a reference cursor over the live versions in range, computed from
the *dumped* store state — against `KeyValueStore::range_scan` for seeded bounds and programs
after every operation of every history.

The right-hand side is a *specification*: `isLive` is characterised by the visibility predicate of
point reads (`live_iff_visible`, `scan_matches_point_read`), and `inRange` is defined by explicit
comparisons on the key, not through the bounds-cursor model (`in_range_is_the_interval`; the
bridge to the cursor's key tests is `in_range_is_bounds_cursor_tests`).

Hypotheses that remain visible: the children behave as sorted tables (from C10/C11 for files and
from the tree's invariants).  `scan_spec` asks for pairwise distinct `(key, timestamp)` across the
children (`Family`); `scan_spec_dups` / `tree_scan_spec_dups` drop that: the same version may be in
several children (`FamilyW`) — the window between version install and `imm = None` of a flush, where
the immutable memtable and its file are both children, and identical files — and the scan still
shows every live version in range exactly once.  What no theorem covers is the malformed case of
one `(key, timestamp)` with different payloads in different children (stream `stackmal` of C11
records what the code does there).  The composition as it was written before the repair
(per-component pruning) violates the property: `scan_resurrects_deleted_key` (D-1). -/
namespace Blue.Props.C03
open Blue.Spec Blue.Cursor

/-- **the scan shows exactly the live keys in range**, under every finite program of
    `seek_to_first / seek_to_last / seek k / next / prev` -/
theorem scan_spec {K : Type} [DecidableEq K] {klt : K → K → Bool} (st : StrictTotal klt)
    (M : List (Ver K × Nat)) (k : Nat) (fam : Family (vlt klt) M k)
    (t : Nat) (tomb : Ver K → Bool) (sb eb : Bound K) (n : Nat) (hn : (M.map (·.1)).length + 2 ≤ n)
    (C : Cur (Ver K)) (cs : List C.σ) (rs : List (Ref (Ver K)))
    (hkids : (rs.map (·.xs)).Perm ((List.range k).map (childList M)))
    (hbeh : cs.map (behA (SeekAdm klt) C) = rs.map (behA (SeekAdm klt) (RefCur (Ver K)))) :
    BehEq (SeekAdm klt)
      (BoundsC.cur (PruningC.cur (MergingC.cur C (vlt klt)) (pcfg t tomb) n) (bcfg klt sb eb) n)
      (BoundsC.new (PruningC.cur (MergingC.cur C (vlt klt)) (pcfg t tomb) n) (bcfg klt sb eb)
        (PruningC.new (MergingC.cur C (vlt klt)) (MergingC.new C (vlt klt) cs)))
      (RefCur (Ver K))
      ⟨((M.map (·.1)).filter (isLive (M.map (·.1)) t tomb)).filter (inRange klt sb eb), 0⟩ :=
  Blue.Spec.scan_spec st M k fam t tomb sb eb n hn C cs rs hkids hbeh

/-- **the scan shows exactly the live keys in range, each once, also when several children hold the
    same version.**  `M` is the weakly sorted merge *with multiplicity* of the `k` strictly sorted
    children (`FamilyW`; in `Ver K = K × Nat` an entry is its `(key, timestamp)` and the payload is
    a function of it, so a duplicate is an identical entry); `dedupAdj` removes the adjacent
    repetitions, i.e. `dedupAdj (M.map (·.1))` is the strictly sorted list of the *set* of versions
    (`dedup_is_the_set_of_versions`).  Same shape and strength as `scan_spec`: any children `C`
    behaving as tables, every finite program in both directions. -/
theorem scan_spec_dups {K : Type} [DecidableEq K] {klt : K → K → Bool} (st : StrictTotal klt)
    (M : List (Ver K × Nat)) (k : Nat) (fam : FamilyW (vlt klt) M k)
    (t : Nat) (tomb : Ver K → Bool) (sb eb : Bound K) (n : Nat) (hn : (M.map (·.1)).length + 2 ≤ n)
    (C : Cur (Ver K)) (cs : List C.σ) (rs : List (Ref (Ver K)))
    (hkids : (rs.map (·.xs)).Perm ((List.range k).map (childList M)))
    (hbeh : cs.map (behA (SeekAdm klt) C) = rs.map (behA (SeekAdm klt) (RefCur (Ver K)))) :
    BehEq (SeekAdm klt)
      (BoundsC.cur (PruningC.cur (MergingC.cur C (vlt klt)) (pcfg t tomb) n) (bcfg klt sb eb) n)
      (BoundsC.new (PruningC.cur (MergingC.cur C (vlt klt)) (pcfg t tomb) n) (bcfg klt sb eb)
        (PruningC.new (MergingC.cur C (vlt klt)) (MergingC.new C (vlt klt) cs)))
      (RefCur (Ver K))
      ⟨((dedupAdj (M.map (·.1))).filter (isLive (dedupAdj (M.map (·.1))) t tomb)).filter (inRange klt sb eb), 0⟩ :=
  Blue.Spec.scan_spec_dups st M k fam t tomb sb eb n hn C cs rs hkids hbeh

/-- `dedupAdj` of the weakly sorted merge is strictly sorted and has the same members: it is THE
    sorted list of the set of versions (`sorted_ext`: there is only one) -/
theorem dedup_is_the_set_of_versions {K : Type} [DecidableEq K] {klt : K → K → Bool} (st : StrictTotal klt)
    (L : List (Ver K)) (hw : SortedW klt L) :
    Sorted klt (dedupAdj L) ∧ ∀ e, e ∈ dedupAdj L ↔ e ∈ L :=
  ⟨sorted_dedupAdj st hw, mem_dedupAdj L⟩

/-- the list `scan_spec_dups` names is the list `scan_spec` names for the duplicate-free table of the
    same versions: a version held by several children changes no scan, at any timestamp, for all
    bounds (so a scan opened inside the flush window shows what one opened before or after it shows) -/
theorem scan_dups_list_eq {K : Type} [DecidableEq K] {klt : K → K → Bool} (st : StrictTotal klt)
    (L M0 : List (Ver K)) (hw : SortedW klt L) (hs0 : Sorted klt M0) (hsame : ∀ e, e ∈ L ↔ e ∈ M0)
    (t : Nat) (tomb : Ver K → Bool) (sb eb : Bound K) :
    ((dedupAdj L).filter (isLive (dedupAdj L) t tomb)).filter (inRange klt sb eb)
      = (M0.filter (isLive M0 t tomb)).filter (inRange klt sb eb) :=
  Blue.Spec.scan_dups_list_eq st L M0 hw hs0 hsame t tomb sb eb

/-- the pruning-cursor half: of adjacent equal entries the pruning cursor shows only the first —
    its list over a table with adjacent repetitions is its list over the table without them (any
    configuration, any table) -/
theorem pruning_shows_duplicates_once {E K : Type} [DecidableEq K] [DecidableEq E] (cfg : PruneCfg E K)
    (xs : List E) : pruned cfg (dedupAdj xs) = pruned cfg xs :=
  Blue.Spec.pruned_dedupAdj cfg xs

/-- the store's stack (every child a level: concatenation of lazily opened files) with duplicates
    across levels -/
theorem tree_scan_spec_dups {K : Type} [DecidableEq K] {klt : K → K → Bool} (st : StrictTotal klt)
    (M : List (Ver K × Nat)) (k : Nat) (fam : FamilyW (vlt klt) M k)
    (t : Nat) (tomb : Ver K → Bool) (sb eb : Bound K) (n : Nat) (hn : (M.map (·.1)).length + 2 ≤ n)
    {S : Cur (Ver K)} (levels : List (List (S.σ × List (Ver K))))
    (hfiles : ∀ lvl ∈ levels, ∀ f ∈ lvl, BehEq (SeekAdm klt) S f.1 (RefCur (Ver K)) ⟨f.2, 0⟩)
    (hne : ∀ lvl ∈ levels, 0 < lvl.length)
    (hsorted : ∀ lvl ∈ levels, Sorted klt (lvl.map (·.2)).flatten)
    (hkids : ((levels.map levelTable).map (·.xs)).Perm ((List.range k).map (childList M))) :
    BehEq (SeekAdm klt)
      (BoundsC.cur (PruningC.cur (MergingC.cur (ConcatC.cur (LazyC.cur S)) (vlt klt)) (pcfg t tomb) n)
        (bcfg klt sb eb) n)
      (BoundsC.new (PruningC.cur (MergingC.cur (ConcatC.cur (LazyC.cur S)) (vlt klt)) (pcfg t tomb) n)
        (bcfg klt sb eb)
        (PruningC.new (MergingC.cur (ConcatC.cur (LazyC.cur S)) (vlt klt))
          (MergingC.new (ConcatC.cur (LazyC.cur S)) (vlt klt) (levels.map levelCursor))))
      (RefCur (Ver K))
      ⟨((dedupAdj (M.map (·.1))).filter (isLive (dedupAdj (M.map (·.1))) t tomb)).filter (inRange klt sb eb), 0⟩ :=
  Blue.Spec.tree_scan_spec_dups st M k fam t tomb sb eb n hn levels hfiles hne hsorted hkids

/-! ### non-vacuity of `scan_spec_dups`: the flush window -/

def natLt (a b : Nat) : Bool := decide (a < b)

theorem natLt_strictTotal : StrictTotal natLt where
  irrefl := by intro a; simp [natLt]
  trans := by intro a b c; simp only [natLt, decide_eq_true_eq]; omega
  total := by intro a b h; simp only [natLt, decide_eq_true_eq]; omega

/-- child 0 = the immutable memtable `[1@5, 2@3]`, child 1 = its file (the SAME content), child 2 = an
    older file `[1@2, 3@1]`; versions are `(key, ts)`, `2@3` is a tombstone -/
def flushWindow : List (Ver Nat × Nat) :=
  [((1, 5), 0), ((1, 5), 1), ((1, 2), 2), ((2, 3), 0), ((2, 3), 1), ((3, 1), 2)]

theorem flushWindow_family : FamilyW (vlt natLt) flushWindow 3 where
  sorted := by decide
  owner := by decide
  child := by
    intro j hj
    rcases j with _ | _ | _ | j
    · decide
    · decide
    · decide
    · omega

/-- the hypotheses of `scan_spec_dups` are met by the flush-window shape (one child's whole content
    repeated as another child, a duplicated tombstone, a duplicate at the first key), and the
    theorem says something: the scan at `t = 9`, unbounded, behaves as the cursor over `[1@5, 3@1]` -/
example :
    BehEq (SeekAdm natLt)
      (BoundsC.cur (PruningC.cur (MergingC.cur (RefCur (Ver Nat)) (vlt natLt))
        (pcfg 9 (fun e => e == (2, 3))) 8) (bcfg natLt .unbounded .unbounded) 8)
      (BoundsC.new (PruningC.cur (MergingC.cur (RefCur (Ver Nat)) (vlt natLt)) (pcfg 9 (fun e => e == (2, 3))) 8)
        (bcfg natLt .unbounded .unbounded)
        (PruningC.new (MergingC.cur (RefCur (Ver Nat)) (vlt natLt))
          (MergingC.new (RefCur (Ver Nat)) (vlt natLt)
            [⟨[(1, 5), (2, 3)], 0⟩, ⟨[(1, 5), (2, 3)], 0⟩, ⟨[(1, 2), (3, 1)], 0⟩])))
      (RefCur (Ver Nat)) ⟨[(1, 5), (3, 1)], 0⟩ := by
  have h := scan_spec_dups natLt_strictTotal flushWindow 3 flushWindow_family 9 (fun e => e == (2, 3))
    .unbounded .unbounded 8 (by decide) (RefCur (Ver Nat))
    [⟨[(1, 5), (2, 3)], 0⟩, ⟨[(1, 5), (2, 3)], 0⟩, ⟨[(1, 2), (3, 1)], 0⟩]
    [⟨[(1, 5), (2, 3)], 0⟩, ⟨[(1, 5), (2, 3)], 0⟩, ⟨[(1, 2), (3, 1)], 0⟩] (by decide) rfl
  have e : ((dedupAdj (flushWindow.map (·.1))).filter (isLive (dedupAdj (flushWindow.map (·.1))) 9 (fun e => e == (2, 3)))).filter
      (inRange natLt .unbounded .unbounded) = [(1, 5), (3, 1)] := by decide
  rw [e] at h
  exact h

/-- MODEL FACT (a restatement of `sorted_ext`, not a step theorem): the list `scan_spec` names is a
    function of the *set* of versions — two strictly sorted lists with the same members are the same
    list (the hypotheses force `M = M'`, and the proof rewrites).  That flush, trivial moves and
    non-GC compaction *preserve* the set of versions is not shown here: it is C05
    (`pipeline_conserves*`) and C06 (`snapshot_complete`), and per run the correspondence check. -/
theorem scan_depends_only_on_versions {K : Type} [DecidableEq K] {klt : K → K → Bool} (st : StrictTotal klt)
    (M M' : List (Ver K)) (hs : Sorted klt M) (hs' : Sorted klt M') (hsame : ∀ e, e ∈ M ↔ e ∈ M')
    (t : Nat) (tomb : Ver K → Bool) (sb eb : Bound K) :
    (M.filter (isLive M t tomb)).filter (inRange klt sb eb)
      = (M'.filter (isLive M' t tomb)).filter (inRange klt sb eb) :=
  scan_list_congr st M M' hs hs' hsame t tomb sb eb

/-- what `isLive` means, one direction (kept under its old name): every entry a scan shows is the
    entry a point read (`read_returns_latest`, C01) returns for its key; both directions are
    `live_iff_visible`, and the statement in terms of `load` is `scan_matches_point_read` -/
theorem live_is_visible {K : Type} [DecidableEq K] (M : List (Ver K)) (t : Nat) (tomb : Ver K → Bool) (e : Ver K)
    (he : e ∈ M) (h : isLive M t tomb e = true) : IsVisible M e.1 t e ∧ tomb e = false :=
  (isLive_iff_visible M t tomb e he).mp h

/-- `isLive` is EXACTLY "the visible version of its key (C01's `IsVisible`) and not a tombstone" -/
theorem live_iff_visible {K : Type} [DecidableEq K] (M : List (Ver K)) (t : Nat) (tomb : Ver K → Bool) (e : Ver K)
    (he : e ∈ M) : isLive M t tomb e = true ↔ (IsVisible M e.1 t e ∧ tomb e = false) :=
  isLive_iff_visible M t tomb e he

/-- membership in the list a scan shows: visible ∧ not a tombstone ∧ key in the interval -/
theorem scan_shows_iff {K : Type} [DecidableEq K] {klt : K → K → Bool} (M : List (Ver K)) (t : Nat)
    (tomb : Ver K → Bool) (sb eb : Bound K) (e : Ver K) :
    e ∈ (M.filter (isLive M t tomb)).filter (inRange klt sb eb)
      ↔ (IsVisible M e.1 t e ∧ tomb e = false ∧ inRange klt sb eb e = true) :=
  mem_scan_iff M t tomb sb eb e

/-- **a scan and a point read taken on the same state agree, both ways**: `cs` the components in
    search order, "newer above" (I2 of C01), `M` any list with the members of their union.  The scan
    at read timestamp `t` shows `e` iff `load` (the point read of C01, `load_visible`) of `e`'s key
    at `t` returns `e`, `e` is not a tombstone and its key is in range. -/
theorem scan_matches_point_read {K : Type} [DecidableEq K] {klt : K → K → Bool} (cs : List (List (Ver K)))
    (hna : NewerAbove cs) (M : List (Ver K)) (hM : ∀ e, e ∈ M ↔ e ∈ cs.flatten)
    (t : Nat) (tomb : Ver K → Bool) (sb eb : Bound K) (e : Ver K) :
    e ∈ (M.filter (isLive M t tomb)).filter (inRange klt sb eb)
      ↔ (load cs e.1 t = some e ∧ tomb e = false ∧ inRange klt sb eb e = true) :=
  Blue.Spec.scan_matches_point_read cs hna M hM t tomb sb eb e

/-- the range predicate of the specification, read as a proposition: `start ≤ key ≤ end` with each
    bound's own strictness (`a ≤ b` is `klt b a = false`) — explicit comparisons, no cursor model -/
theorem in_range_is_the_interval {K : Type} (klt : K → K → Bool) (sb eb : Bound K) (e : Ver K) :
    inRange klt sb eb e = true ↔
      (match sb with | .unbounded => True | .included k => klt e.1 k = false | .excluded k => klt k e.1 = true) ∧
      (match eb with | .unbounded => True | .included k => klt k e.1 = false | .excluded k => klt e.1 k = true) :=
  inRange_iff klt sb eb e

/-- bridge lemma: the specification's `inRange` is "neither `belowStart` nor `aboveEnd`" of the key
    tests the bounds-cursor model performs (`bcfg`) -/
theorem in_range_is_bounds_cursor_tests {K : Type} [DecidableEq K] (klt : K → K → Bool) (sb eb : Bound K)
    (e : Ver K) :
    inRange klt sb eb e = (!(bcfg klt sb eb).belowStart e && !(bcfg klt sb eb).aboveEnd e) :=
  inRange_eq_cfg klt sb eb e

/-- **children restricted to the range change no scan**: `M` all versions of the store, `M'` what
    the children hold when each leaves out versions whose key is out of range (memtable children
    are `BoundsCursor`s; `Tree::range_scan` skips files of levels ≥ 1 that miss the bounds — that its
    test `compare_bounds_le` leaves out only such files is checked, not proved) -/
theorem scan_unchanged_by_out_of_range_children {K : Type} [DecidableEq K] {klt : K → K → Bool}
    (st : StrictTotal klt) (M M' : List (Ver K)) (sb eb : Bound K) (hs : Sorted klt M) (hs' : Sorted klt M')
    (hsub : ∀ e ∈ M', e ∈ M) (hin : ∀ e ∈ M, inRange klt sb eb e = true → e ∈ M')
    (t : Nat) (tomb : Ver K → Bool) :
    (M'.filter (isLive M' t tomb)).filter (inRange klt sb eb)
      = (M.filter (isLive M t tomb)).filter (inRange klt sb eb) :=
  scan_list_restrict st M M' sb eb hs hs' hsub hin t tomb

/-- `tree_scan_spec_dups` without its hypothesis `hsorted` (each level's table is one of the family's
    children, hence sorted: `levels_sorted_of_family`) -/
theorem tree_scan_spec_dups_of_family {K : Type} [DecidableEq K] {klt : K → K → Bool} (st : StrictTotal klt)
    (M : List (Ver K × Nat)) (k : Nat) (fam : FamilyW (vlt klt) M k)
    (t : Nat) (tomb : Ver K → Bool) (sb eb : Bound K) (n : Nat) (hn : (M.map (·.1)).length + 2 ≤ n)
    {S : Cur (Ver K)} (levels : List (List (S.σ × List (Ver K))))
    (hfiles : ∀ lvl ∈ levels, ∀ f ∈ lvl, BehEq (SeekAdm klt) S f.1 (RefCur (Ver K)) ⟨f.2, 0⟩)
    (hne : ∀ lvl ∈ levels, 0 < lvl.length)
    (hkids : ((levels.map levelTable).map (·.xs)).Perm ((List.range k).map (childList M))) :
    BehEq (SeekAdm klt)
      (BoundsC.cur (PruningC.cur (MergingC.cur (ConcatC.cur (LazyC.cur S)) (vlt klt)) (pcfg t tomb) n)
        (bcfg klt sb eb) n)
      (BoundsC.new (PruningC.cur (MergingC.cur (ConcatC.cur (LazyC.cur S)) (vlt klt)) (pcfg t tomb) n)
        (bcfg klt sb eb)
        (PruningC.new (MergingC.cur (ConcatC.cur (LazyC.cur S)) (vlt klt))
          (MergingC.new (ConcatC.cur (LazyC.cur S)) (vlt klt) (levels.map levelCursor))))
      (RefCur (Ver K))
      ⟨((dedupAdj (M.map (·.1))).filter (isLive (dedupAdj (M.map (·.1))) t tomb)).filter (inRange klt sb eb), 0⟩ :=
  tree_scan_spec_dups' st M k fam t tomb sb eb n hn levels hfiles hne hkids

/-- **the store's own nesting** `Bounds(Pruning(Merging[mem, imm, Merging[levels]]))`: the tree's
    merging cursor is one child (`.inr`) of the store's merging cursor next to the memtable cursors
    (`.inl`; `Vec<Box<dyn Cursor>>` in the code, the tagged union `Cur.sum` here).  The tree's levels
    are pairwise distinct (`Family`, merged list `Mt` — the outer merge needs each of its children
    strictly sorted); the outer family may repeat versions (`FamilyW`: the immutable memtable and
    its level-0 file in the flush window).  Same right-hand side as `scan_spec_dups`. -/
theorem store_scan_spec_dups {K : Type} [DecidableEq K] {klt : K → K → Bool} (st : StrictTotal klt)
    (Mt : List (Ver K × Nat)) (kt : Nat) (famT : Family (vlt klt) Mt kt)
    (M : List (Ver K × Nat)) (k : Nat) (fam : FamilyW (vlt klt) M k)
    (t : Nat) (tomb : Ver K → Bool) (sb eb : Bound K) (n : Nat) (hn : (M.map (·.1)).length + 2 ≤ n)
    {Cm S : Cur (Ver K)} (mems : List (Cm.σ × List (Ver K)))
    (hmems : ∀ m ∈ mems, BehEq (SeekAdm klt) Cm m.1 (RefCur (Ver K)) ⟨m.2, 0⟩)
    (levels : List (List (S.σ × List (Ver K))))
    (hfiles : ∀ lvl ∈ levels, ∀ f ∈ lvl, BehEq (SeekAdm klt) S f.1 (RefCur (Ver K)) ⟨f.2, 0⟩)
    (hne : ∀ lvl ∈ levels, 0 < lvl.length)
    (hkidsT : ((levels.map levelTable).map (·.xs)).Perm ((List.range kt).map (childList Mt)))
    (hkids : (mems.map (·.2) ++ [Mt.map (·.1)]).Perm ((List.range k).map (childList M))) :
    BehEq (SeekAdm klt)
      (BoundsC.cur (PruningC.cur (MergingC.cur (Cur.sum Cm (TreeCur klt S)) (vlt klt)) (pcfg t tomb) n)
        (bcfg klt sb eb) n)
      (BoundsC.new (PruningC.cur (MergingC.cur (Cur.sum Cm (TreeCur klt S)) (vlt klt)) (pcfg t tomb) n)
        (bcfg klt sb eb)
        (PruningC.new (MergingC.cur (Cur.sum Cm (TreeCur klt S)) (vlt klt))
          (MergingC.new (Cur.sum Cm (TreeCur klt S)) (vlt klt) (storeKids mems levels))))
      (RefCur (Ver K))
      ⟨((dedupAdj (M.map (·.1))).filter (isLive (dedupAdj (M.map (·.1))) t tomb)).filter (inRange klt sb eb), 0⟩ :=
  Blue.Spec.store_scan_spec_dups st Mt kt famT M k fam t tomb sb eb n hn mems hmems levels hfiles hne hkidsT hkids

/-! ### non-vacuity of `tree_scan_spec_dups` and `store_scan_spec_dups` -/

/-- a "file": a reference cursor with its table -/
def fileOf (xs : List (Ver Nat)) : (RefCur (Ver Nat)).σ × List (Ver Nat) := (⟨xs, 0⟩, xs)

theorem fileOf_beh (xs : List (Ver Nat)) :
    BehEq (SeekAdm natLt) (RefCur (Ver Nat)) (fileOf xs).1 (RefCur (Ver Nat)) ⟨(fileOf xs).2, 0⟩ :=
  fun _ _ => rfl

/-- three levels: a one-file level `[1@5, 2@3]`, the SAME content again (the flush window), and a
    two-file level `[1@2] [3@1]` -/
def lvls : List (List ((RefCur (Ver Nat)).σ × List (Ver Nat))) :=
  [[fileOf [(1, 5), (2, 3)]], [fileOf [(1, 5), (2, 3)]], [fileOf [(1, 2)], fileOf [(3, 1)]]]

theorem lvls_files : ∀ lvl ∈ lvls, ∀ x ∈ lvl,
    BehEq (SeekAdm natLt) (RefCur (Ver Nat)) x.1 (RefCur (Ver Nat)) ⟨x.2, 0⟩ := by
  intro lvl hl x hx
  simp only [lvls, List.mem_cons, List.not_mem_nil, or_false] at hl
  rcases hl with rfl | rfl | rfl <;> simp only [List.mem_cons, List.not_mem_nil, or_false] at hx
  · subst hx; exact fileOf_beh _
  · subst hx; exact fileOf_beh _
  · rcases hx with rfl | rfl <;> exact fileOf_beh _

/-- all hypotheses of `tree_scan_spec_dups` (here in the form without `hsorted`) hold on the
    flush-window family over concatenating cursors over lazy cursors, and the theorem says
    something -/
example : BehEq (SeekAdm natLt)
      (BoundsC.cur (PruningC.cur (MergingC.cur (ConcatC.cur (LazyC.cur (RefCur (Ver Nat)))) (vlt natLt))
        (pcfg 9 (fun e => e == (2, 3))) 8) (bcfg natLt .unbounded .unbounded) 8)
      (BoundsC.new (PruningC.cur (MergingC.cur (ConcatC.cur (LazyC.cur (RefCur (Ver Nat)))) (vlt natLt))
          (pcfg 9 (fun e => e == (2, 3))) 8) (bcfg natLt .unbounded .unbounded)
        (PruningC.new (MergingC.cur (ConcatC.cur (LazyC.cur (RefCur (Ver Nat)))) (vlt natLt))
          (MergingC.new (ConcatC.cur (LazyC.cur (RefCur (Ver Nat)))) (vlt natLt) (lvls.map levelCursor))))
      (RefCur (Ver Nat)) ⟨[(1, 5), (3, 1)], 0⟩ := by
  have h := tree_scan_spec_dups_of_family natLt_strictTotal flushWindow 3 flushWindow_family 9
    (fun e => e == (2, 3)) .unbounded .unbounded 8 (by decide) lvls lvls_files (by decide) (by decide)
  have e : ((dedupAdj (flushWindow.map (·.1))).filter (isLive (dedupAdj (flushWindow.map (·.1))) 9 (fun e => e == (2, 3)))).filter
      (inRange natLt .unbounded .unbounded) = [(1, 5), (3, 1)] := by decide
  rw [e] at h
  exact h

/-- the store in the flush window: memtable `[4@7]`, immutable memtable `[1@5, 2@3]`, and a tree whose
    level 0 holds the file of that immutable memtable and whose level 1 holds `[1@2] [3@1]` -/
def treeM : List (Ver Nat × Nat) := [((1, 5), 0), ((1, 2), 1), ((2, 3), 0), ((3, 1), 1)]
theorem treeM_family : Family (vlt natLt) treeM 2 := ⟨by decide, by decide⟩
def treeLvls : List (List ((RefCur (Ver Nat)).σ × List (Ver Nat))) :=
  [[fileOf [(1, 5), (2, 3)]], [fileOf [(1, 2)], fileOf [(3, 1)]]]
def memKids : List ((RefCur (Ver Nat)).σ × List (Ver Nat)) := [fileOf [(4, 7)], fileOf [(1, 5), (2, 3)]]
/-- outer family: child 0 = memtable, child 1 = immutable memtable, child 2 = the tree's merged table -/
def storeM : List (Ver Nat × Nat) :=
  [((1, 5), 1), ((1, 5), 2), ((1, 2), 2), ((2, 3), 1), ((2, 3), 2), ((3, 1), 2), ((4, 7), 0)]
theorem storeM_family : FamilyW (vlt natLt) storeM 3 where
  sorted := by decide
  owner := by decide
  child := by
    intro j hj
    rcases j with _ | _ | _ | j
    · decide
    · decide
    · decide
    · omega

/-- `store_scan_spec_dups` on it, bounds `[1, 4)`, `t = 9`, `2@3` a tombstone: the nested stack
    behaves as the cursor over `[1@5, 3@1]` (key 2 deleted, key 4 out of range, `1@5` shown once) -/
example : BehEq (SeekAdm natLt)
      (BoundsC.cur (PruningC.cur (MergingC.cur (Cur.sum (RefCur (Ver Nat)) (TreeCur natLt (RefCur (Ver Nat)))) (vlt natLt))
        (pcfg 9 (fun e => e == (2, 3))) 9) (bcfg natLt (.included 1) (.excluded 4)) 9)
      (BoundsC.new (PruningC.cur (MergingC.cur (Cur.sum (RefCur (Ver Nat)) (TreeCur natLt (RefCur (Ver Nat)))) (vlt natLt))
          (pcfg 9 (fun e => e == (2, 3))) 9) (bcfg natLt (.included 1) (.excluded 4))
        (PruningC.new (MergingC.cur (Cur.sum (RefCur (Ver Nat)) (TreeCur natLt (RefCur (Ver Nat)))) (vlt natLt))
          (MergingC.new (Cur.sum (RefCur (Ver Nat)) (TreeCur natLt (RefCur (Ver Nat)))) (vlt natLt)
            (storeKids memKids treeLvls))))
      (RefCur (Ver Nat)) ⟨[(1, 5), (3, 1)], 0⟩ := by
  have h := store_scan_spec_dups natLt_strictTotal treeM 2 treeM_family storeM 3 storeM_family 9
    (fun e => e == (2, 3)) (.included 1) (.excluded 4) 9 (by decide) memKids
    (by intro m hm; simp only [memKids, List.mem_cons, List.not_mem_nil, or_false] at hm
        rcases hm with rfl | rfl <;> exact fileOf_beh _)
    treeLvls
    (by intro lvl hl x hx
        simp only [treeLvls, List.mem_cons, List.not_mem_nil, or_false] at hl
        rcases hl with rfl | rfl <;> simp only [List.mem_cons, List.not_mem_nil, or_false] at hx
        · subst hx; exact fileOf_beh _
        · rcases hx with rfl | rfl <;> exact fileOf_beh _)
    (by decide) (by decide) (by decide)
  have e : ((dedupAdj (storeM.map (·.1))).filter (isLive (dedupAdj (storeM.map (·.1))) 9 (fun e => e == (2, 3)))).filter
      (inRange natLt (.included 1) (.excluded 4)) = [(1, 5), (3, 1)] := by decide
  rw [e] at h
  exact h

/-- `scan_matches_point_read` has content: components `[[1@5, 2@3], [1@2, 3@1]]` are "newer above";
    the scan at `t = 9` shows `1@5` because `load` returns it, and not `1@2` -/
example : load [[((1 : Nat), 5), (2, 3)], [(1, 2), (3, 1)]] 1 9 = some (1, 5)
    ∧ NewerAbove [[((1 : Nat), 5), (2, 3)], [(1, 2), (3, 1)]] := by decide

/-- D-1 as a theorem about the composition as it was written: pruning each component before the
    merge lets a deleted key reappear; the repaired composition shows nothing -/
theorem per_component_pruning_resurrects_deleted_key :
    scanAsIs 5 [[(7, 2, true)], [(7, 1, false)]] = some (7, 1, false)
      ∧ scanFixed 5 [[(7, 2, true)], [(7, 1, false)]] = none := scan_resurrects_deleted_key


/-! ## history level (model `Blue.StoreHist`, see Props/C01 section `History`)

The right-hand side of `scan_spec*` / `store_scan_spec_dups` is the list
`(M.filter (isLive M t tomb)).filter (inRange …)`.  After ANY history of writes (put/del/batch),
rollovers, flushes and compactions meeting `CompactionOk` (the hypotheses of the compaction step are
listed in Props/C01), with `tomb` read off the history's payload map, that list holds exactly the
versions of the last accepted writes of the keys in range whose last write was a put, one per key,
in the order of `M`.  NOT composed here: that the cursor stack of the reached store behaves as that
list is `store_scan_spec_dups`, whose hypotheses (children behave as tables, `Family`) are not
derived from the history model. -/
section History
open Blue.StoreHist Blue.Kvs

/-- **history_scan_refines** -/
theorem history_scan_refines {klt : Nat → Nat → Bool} (ops : List Op) (hv : Valid init ops)
    (M : List (Ver Nat)) (hM : ∀ e, e ∈ M ↔ e ∈ (allComps (run init ops).st).flatten)
    (t : Nat) (ht : (run init ops).vis ≤ t) (sb eb : Bound Nat) (e : Ver Nat) :
    e ∈ (M.filter (isLive M t (tombOf (run init ops)))).filter (inRange klt sb eb)
      ↔ ((∃ v, spec ops e.1 = some (e.2, some v)) ∧ inRange klt sb eb e = true) :=
  Blue.StoreHist.history_scan_refines ops hv M hM t ht sb eb e

/-- the list is in the order of `M` (sorted when `M` is) … -/
theorem history_scan_sorted {klt : Nat → Nat → Bool} (h : HState) (M : List (Ver Nat)) (hs : Sorted klt M)
    (t : Nat) (sb eb : Bound Nat) :
    Sorted klt ((M.filter (isLive M t (tombOf h))).filter (inRange klt sb eb)) :=
  Blue.StoreHist.history_scan_sorted h M hs t sb eb

/-- … and shows a key at most once -/
theorem history_scan_one_per_key {klt : Nat → Nat → Bool} (ops : List Op) (hv : Valid init ops)
    (M : List (Ver Nat)) (hM : ∀ e, e ∈ M ↔ e ∈ (allComps (run init ops).st).flatten)
    (t : Nat) (ht : (run init ops).vis ≤ t) (sb eb : Bound Nat) (e e' : Ver Nat)
    (he : e ∈ (M.filter (isLive M t (tombOf (run init ops)))).filter (inRange klt sb eb))
    (he' : e' ∈ (M.filter (isLive M t (tombOf (run init ops)))).filter (inRange klt sb eb))
    (hk : e.1 = e'.1) : e = e' :=
  Blue.StoreHist.history_scan_one_per_key ops hv M hM t ht sb eb e e' he he' hk

/-! non-vacuity: batch, delete of key 2, rollover, put, flush, overwrite of key 1.  The store ends
    with a memtable and one level-0 file; the scan of `[1, 3)` shows key 1 at its overwrite and not
    the deleted key 2 (nor key 3, out of range). -/
namespace Hist

def ops : List Op :=
  [.write [(1, some 10), (2, some 20)], .write [(2, none)], .rollover, .write [(3, some 30)], .flush,
   .write [(1, some 11)]]

theorem ops_valid : Valid init ops := ⟨trivial, trivial, trivial, trivial, trivial, trivial, trivial⟩

def M : List (Ver Nat) := [(1, 5), (1, 1), (2, 2), (2, 1), (3, 4)]

theorem final : (run init ops).st = ⟨[(1, 5), (3, 4)], none, [⟨1, 2, 2, [(2, 2), (1, 1), (2, 1)]⟩], []⟩
    ∧ (run init ops).vis = 5 := ⟨by rfl, by rfl⟩

theorem M_holds : ∀ e, e ∈ M ↔ e ∈ (allComps (run init ops).st).flatten := by
  rw [final.1]
  have : allComps ⟨[(1, 5), (3, 4)], none, [⟨1, 2, 2, [(2, 2), (1, 1), (2, 1)]⟩], []⟩
      = [[(1, 5), (3, 4)], [(2, 2), (1, 1), (2, 1)]] := by
    unfold allComps l0Comps
    rw [l0Order_cons_top _ _ (by decide), l0Order_nil]
    rfl
  rw [this]
  exact mem_iff_of_subsets (by decide) (by decide)

/-- the list itself, by evaluation … -/
example : (M.filter (isLive M 5 (tombOf (run init ops)))).filter (inRange natLt (.included 1) (.excluded 3))
    = [(1, 5)] := by decide

/-- … and the theorem instantiated, both directions: `1@5` is shown because the specification says
    key 1 was last put at 5; `2@2` is not shown because the specification says it is a delete -/
example : spec ops 1 = some (5, some 11) ∧ spec ops 2 = some (2, none) := by decide

example : (1, 5) ∈ (M.filter (isLive M 5 (tombOf (run init ops)))).filter (inRange natLt (.included 1) (.excluded 3)) :=
  (Blue.Props.C03.history_scan_refines ops ops_valid M M_holds 5 (by rw [final.2]; exact Nat.le_refl _)
    (.included 1) (.excluded 3) (1, 5)).mpr ⟨⟨11, by decide⟩, by decide⟩

example : (2, 2) ∉ (M.filter (isLive M 5 (tombOf (run init ops)))).filter (inRange natLt (.included 1) (.excluded 3)) :=
  fun h => by
    have := ((Blue.Props.C03.history_scan_refines ops ops_valid M M_holds 5 (by rw [final.2]; exact Nat.le_refl _)
      (.included 1) (.excluded 3) (2, 2)).mp h).1
    obtain ⟨v, hv⟩ := this
    have h2 : spec ops 2 = some (2, none) := by decide
    rw [h2] at hv
    cases hv

end Hist
end History

end Blue.Props.C03

#print axioms Blue.Props.C03.scan_spec
#print axioms Blue.Props.C03.scan_spec_dups
#print axioms Blue.Props.C03.dedup_is_the_set_of_versions
#print axioms Blue.Props.C03.scan_dups_list_eq
#print axioms Blue.Props.C03.pruning_shows_duplicates_once
#print axioms Blue.Props.C03.tree_scan_spec_dups
#print axioms Blue.Props.C03.scan_depends_only_on_versions
#print axioms Blue.Props.C03.live_is_visible
#print axioms Blue.Props.C03.live_iff_visible
#print axioms Blue.Props.C03.scan_shows_iff
#print axioms Blue.Props.C03.scan_matches_point_read
#print axioms Blue.Props.C03.in_range_is_the_interval
#print axioms Blue.Props.C03.in_range_is_bounds_cursor_tests
#print axioms Blue.Props.C03.scan_unchanged_by_out_of_range_children
#print axioms Blue.Props.C03.tree_scan_spec_dups_of_family
#print axioms Blue.Props.C03.store_scan_spec_dups
#print axioms Blue.Props.C03.per_component_pruning_resurrects_deleted_key
#print axioms Blue.Props.C03.history_scan_refines
#print axioms Blue.Props.C03.history_scan_sorted
#print axioms Blue.Props.C03.history_scan_one_per_key
#print axioms Blue.Cursor.scan_stack
#print axioms Blue.Spec.sorted_ext
#print axioms Blue.Cursor.level_over
#print axioms Blue.Cursor.lazy_over
#print axioms Blue.Spec.tree_scan_spec
