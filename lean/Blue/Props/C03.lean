import Blue.Proofs.TreeScan
import Blue.Proofs.LevelOver
import Blue.Proofs.ScanSpec
import Blue.Proofs.ScanSpecDups
import Blue.Proofs.AsIsScan
import Blue.Proofs.ScanCongr
import Blue.Proofs.Stack
import Blue.Proofs.Kvs
/-! # Property C03 — range scans return exactly the live keys in range, in order, matching reads

Property theorems only.  The scan a store performs is the cursor stack
`Bounds(Pruning(Merging[memtable, immutable memtable, level-0 files…, Concat(level files)…]))`.
The combinators are modelled once, generically over a record of cursor operations (`Cur`), and
each is proved *natural* in its children; `scan_spec` composes the per-combinator refinement
theorems of C11 into the statement the property makes.  The correspondence check runs the
right-hand side of `scan_spec` — a reference cursor over the live versions in range, computed from
the *dumped* store state — against `KeyValueStore::range_scan` for seeded bounds and programs
after every operation of every history.

Hypotheses that remain visible: the children behave as sorted tables (from C10/C11 for files and
from the tree's invariants).  `scan_spec` asks for pairwise distinct `(key, timestamp)` across the
children (`Family`); `scan_spec_dups` / `tree_scan_spec_dups` drop that: the same version may be in
several children (`FamilyW`) — the window between version install and `imm = None` of a flush, where
the immutable memtable and its file are both children, and identical files — and the scan still
shows every live version in range exactly once.  What no theorem covers is the malformed case of
one `(key, timestamp)` with different payloads in different children (stream `stackmal` of C11
records what the code does there).  The composition as it was written before the repair
(per-component pruning) violates the property: `scan_resurrects_deleted_key` (D-1). -/
namespace Blue.Props.C03
open Blue.Spec Blue.Cursor

/-- **the scan shows exactly the live keys in range**, under every finite program of
    `seek_to_first / seek_to_last / seek k / next / prev` -/
theorem scan_spec {K : Type} [DecidableEq K] {klt : K → K → Bool} (st : StrictTotal klt)
    (M : List (Ver K × Nat)) (k : Nat) (fam : Family (vlt klt) M k)
    (t : Nat) (tomb : Ver K → Bool) (sb eb : Bound K) (n : Nat) (hn : (M.map (·.1)).length + 2 ≤ n)
    (C : Cur (Ver K)) (cs : List C.σ) (rs : List (Ref (Ver K)))
    (hkids : (rs.map (·.xs)).Perm ((List.range k).map (childList M)))
    (hbeh : cs.map (behA (SeekAdm klt) C) = rs.map (behA (SeekAdm klt) (RefCur (Ver K)))) :
    BehEq (SeekAdm klt)
      (BoundsC.cur (PruningC.cur (MergingC.cur C (vlt klt)) (pcfg t tomb) n) (bcfg klt sb eb) n)
      (BoundsC.new (PruningC.cur (MergingC.cur C (vlt klt)) (pcfg t tomb) n) (bcfg klt sb eb)
        (PruningC.new (MergingC.cur C (vlt klt)) (MergingC.new C (vlt klt) cs)))
      (RefCur (Ver K))
      ⟨((M.map (·.1)).filter (isLive (M.map (·.1)) t tomb)).filter (inRange klt sb eb), 0⟩ :=
  Blue.Spec.scan_spec st M k fam t tomb sb eb n hn C cs rs hkids hbeh

/-- **the scan shows exactly the live keys in range, each once, also when several children hold the
    same version.**  `M` is the weakly sorted merge *with multiplicity* of the `k` strictly sorted
    children (`FamilyW`; in `Ver K = K × Nat` an entry is its `(key, timestamp)` and the payload is
    a function of it, so a duplicate is an identical entry); `dedupAdj` removes the adjacent
    repetitions, i.e. `dedupAdj (M.map (·.1))` is the strictly sorted list of the *set* of versions
    (`dedup_is_the_set_of_versions`).  Same shape and strength as `scan_spec`: any children `C`
    behaving as tables, every finite program in both directions. -/
theorem scan_spec_dups {K : Type} [DecidableEq K] {klt : K → K → Bool} (st : StrictTotal klt)
    (M : List (Ver K × Nat)) (k : Nat) (fam : FamilyW (vlt klt) M k)
    (t : Nat) (tomb : Ver K → Bool) (sb eb : Bound K) (n : Nat) (hn : (M.map (·.1)).length + 2 ≤ n)
    (C : Cur (Ver K)) (cs : List C.σ) (rs : List (Ref (Ver K)))
    (hkids : (rs.map (·.xs)).Perm ((List.range k).map (childList M)))
    (hbeh : cs.map (behA (SeekAdm klt) C) = rs.map (behA (SeekAdm klt) (RefCur (Ver K)))) :
    BehEq (SeekAdm klt)
      (BoundsC.cur (PruningC.cur (MergingC.cur C (vlt klt)) (pcfg t tomb) n) (bcfg klt sb eb) n)
      (BoundsC.new (PruningC.cur (MergingC.cur C (vlt klt)) (pcfg t tomb) n) (bcfg klt sb eb)
        (PruningC.new (MergingC.cur C (vlt klt)) (MergingC.new C (vlt klt) cs)))
      (RefCur (Ver K))
      ⟨((dedupAdj (M.map (·.1))).filter (isLive (dedupAdj (M.map (·.1))) t tomb)).filter (inRange klt sb eb), 0⟩ :=
  Blue.Spec.scan_spec_dups st M k fam t tomb sb eb n hn C cs rs hkids hbeh

/-- `dedupAdj` of the weakly sorted merge is strictly sorted and has the same members: it is THE
    sorted list of the set of versions (`sorted_ext`: there is only one) -/
theorem dedup_is_the_set_of_versions {K : Type} [DecidableEq K] {klt : K → K → Bool} (st : StrictTotal klt)
    (L : List (Ver K)) (hw : SortedW klt L) :
    Sorted klt (dedupAdj L) ∧ ∀ e, e ∈ dedupAdj L ↔ e ∈ L :=
  ⟨sorted_dedupAdj st hw, mem_dedupAdj L⟩

/-- the list `scan_spec_dups` names is the list `scan_spec` names for the duplicate-free table of the
    same versions: a version held by several children changes no scan, at any timestamp, for all
    bounds (so a scan opened inside the flush window shows what one opened before or after it shows) -/
theorem scan_dups_list_eq {K : Type} [DecidableEq K] {klt : K → K → Bool} (st : StrictTotal klt)
    (L M0 : List (Ver K)) (hw : SortedW klt L) (hs0 : Sorted klt M0) (hsame : ∀ e, e ∈ L ↔ e ∈ M0)
    (t : Nat) (tomb : Ver K → Bool) (sb eb : Bound K) :
    ((dedupAdj L).filter (isLive (dedupAdj L) t tomb)).filter (inRange klt sb eb)
      = (M0.filter (isLive M0 t tomb)).filter (inRange klt sb eb) :=
  Blue.Spec.scan_dups_list_eq st L M0 hw hs0 hsame t tomb sb eb

/-- the pruning-cursor half: of adjacent equal entries the pruning cursor shows only the first —
    its list over a table with adjacent repetitions is its list over the table without them (any
    configuration, any table) -/
theorem pruning_shows_duplicates_once {E K : Type} [DecidableEq K] [DecidableEq E] (cfg : PruneCfg E K)
    (xs : List E) : pruned cfg (dedupAdj xs) = pruned cfg xs :=
  Blue.Spec.pruned_dedupAdj cfg xs

/-- the store's stack (every child a level: concatenation of lazily opened files) with duplicates
    across levels -/
theorem tree_scan_spec_dups {K : Type} [DecidableEq K] {klt : K → K → Bool} (st : StrictTotal klt)
    (M : List (Ver K × Nat)) (k : Nat) (fam : FamilyW (vlt klt) M k)
    (t : Nat) (tomb : Ver K → Bool) (sb eb : Bound K) (n : Nat) (hn : (M.map (·.1)).length + 2 ≤ n)
    {S : Cur (Ver K)} (levels : List (List (S.σ × List (Ver K))))
    (hfiles : ∀ lvl ∈ levels, ∀ f ∈ lvl, BehEq (SeekAdm klt) S f.1 (RefCur (Ver K)) ⟨f.2, 0⟩)
    (hne : ∀ lvl ∈ levels, 0 < lvl.length)
    (hsorted : ∀ lvl ∈ levels, Sorted klt (lvl.map (·.2)).flatten)
    (hkids : ((levels.map levelTable).map (·.xs)).Perm ((List.range k).map (childList M))) :
    BehEq (SeekAdm klt)
      (BoundsC.cur (PruningC.cur (MergingC.cur (ConcatC.cur (LazyC.cur S)) (vlt klt)) (pcfg t tomb) n)
        (bcfg klt sb eb) n)
      (BoundsC.new (PruningC.cur (MergingC.cur (ConcatC.cur (LazyC.cur S)) (vlt klt)) (pcfg t tomb) n)
        (bcfg klt sb eb)
        (PruningC.new (MergingC.cur (ConcatC.cur (LazyC.cur S)) (vlt klt))
          (MergingC.new (ConcatC.cur (LazyC.cur S)) (vlt klt) (levels.map levelCursor))))
      (RefCur (Ver K))
      ⟨((dedupAdj (M.map (·.1))).filter (isLive (dedupAdj (M.map (·.1))) t tomb)).filter (inRange klt sb eb), 0⟩ :=
  Blue.Spec.tree_scan_spec_dups st M k fam t tomb sb eb n hn levels hfiles hne hsorted hkids

/-! ### non-vacuity of `scan_spec_dups`: the flush window -/

def natLt (a b : Nat) : Bool := decide (a < b)

theorem natLt_strictTotal : StrictTotal natLt where
  irrefl := by intro a; simp [natLt]
  trans := by intro a b c; simp only [natLt, decide_eq_true_eq]; omega
  total := by intro a b h; simp only [natLt, decide_eq_true_eq]; omega

/-- child 0 = the immutable memtable `[1@5, 2@3]`, child 1 = its file (the SAME content), child 2 = an
    older file `[1@2, 3@1]`; versions are `(key, ts)`, `2@3` is a tombstone -/
def flushWindow : List (Ver Nat × Nat) :=
  [((1, 5), 0), ((1, 5), 1), ((1, 2), 2), ((2, 3), 0), ((2, 3), 1), ((3, 1), 2)]

theorem flushWindow_family : FamilyW (vlt natLt) flushWindow 3 where
  sorted := by decide
  owner := by decide
  child := by
    intro j hj
    rcases j with _ | _ | _ | j
    · decide
    · decide
    · decide
    · omega

/-- the hypotheses of `scan_spec_dups` are met by the flush-window shape (one child's whole content
    repeated as another child, a duplicated tombstone, a duplicate at the first key), and the
    theorem says something: the scan at `t = 9`, unbounded, behaves as the cursor over `[1@5, 3@1]` -/
example :
    BehEq (SeekAdm natLt)
      (BoundsC.cur (PruningC.cur (MergingC.cur (RefCur (Ver Nat)) (vlt natLt))
        (pcfg 9 (fun e => e == (2, 3))) 8) (bcfg natLt .unbounded .unbounded) 8)
      (BoundsC.new (PruningC.cur (MergingC.cur (RefCur (Ver Nat)) (vlt natLt)) (pcfg 9 (fun e => e == (2, 3))) 8)
        (bcfg natLt .unbounded .unbounded)
        (PruningC.new (MergingC.cur (RefCur (Ver Nat)) (vlt natLt))
          (MergingC.new (RefCur (Ver Nat)) (vlt natLt)
            [⟨[(1, 5), (2, 3)], 0⟩, ⟨[(1, 5), (2, 3)], 0⟩, ⟨[(1, 2), (3, 1)], 0⟩])))
      (RefCur (Ver Nat)) ⟨[(1, 5), (3, 1)], 0⟩ := by
  have h := scan_spec_dups natLt_strictTotal flushWindow 3 flushWindow_family 9 (fun e => e == (2, 3))
    .unbounded .unbounded 8 (by decide) (RefCur (Ver Nat))
    [⟨[(1, 5), (2, 3)], 0⟩, ⟨[(1, 5), (2, 3)], 0⟩, ⟨[(1, 2), (3, 1)], 0⟩]
    [⟨[(1, 5), (2, 3)], 0⟩, ⟨[(1, 5), (2, 3)], 0⟩, ⟨[(1, 2), (3, 1)], 0⟩] (by decide) rfl
  have e : ((dedupAdj (flushWindow.map (·.1))).filter (isLive (dedupAdj (flushWindow.map (·.1))) 9 (fun e => e == (2, 3)))).filter
      (inRange natLt .unbounded .unbounded) = [(1, 5), (3, 1)] := by decide
  rw [e] at h
  exact h

/-- the list a scan shows depends only on the store's *set* of versions — so flush, trivial move
    and non-GC compaction change no scan, at any timestamp and for all bounds -/
theorem scan_depends_only_on_versions {K : Type} [DecidableEq K] {klt : K → K → Bool} (st : StrictTotal klt)
    (M M' : List (Ver K)) (hs : Sorted klt M) (hs' : Sorted klt M') (hsame : ∀ e, e ∈ M ↔ e ∈ M')
    (t : Nat) (tomb : Ver K → Bool) (sb eb : Bound K) :
    (M.filter (isLive M t tomb)).filter (inRange klt sb eb)
      = (M'.filter (isLive M' t tomb)).filter (inRange klt sb eb) :=
  scan_list_congr st M M' hs hs' hsame t tomb sb eb

/-- what `isLive` means: the entry a point read (`read_returns_latest`, C01) returns for its key;
    a scan and a point read taken on the same state agree -/
theorem live_is_visible {K : Type} [DecidableEq K] (M : List (Ver K)) (t : Nat) (tomb : Ver K → Bool) (e : Ver K)
    (he : e ∈ M) (h : isLive M t tomb e = true) : IsVisible M e.1 t e ∧ tomb e = false := by
  unfold isLive at h
  simp only [Bool.and_eq_true, decide_eq_true_eq, List.all_eq_true, Bool.or_eq_true, Bool.not_eq_true',
    Bool.and_eq_false_iff, decide_eq_false_iff_not, Bool.not_eq_true'] at h
  obtain ⟨⟨h1, h2⟩, h3⟩ := h
  refine ⟨⟨he, rfl, h1, ?_⟩, h3⟩
  intro e' he' hk ht
  rcases h2 e' he' with h | h
  · rcases h with h | h
    · exact absurd hk h
    · exact absurd ht h
  · exact h

/-- D-1 as a theorem about the composition as it was written: pruning each component before the
    merge lets a deleted key reappear; the repaired composition shows nothing -/
theorem per_component_pruning_resurrects_deleted_key :
    scanAsIs 5 [[(7, 2, true)], [(7, 1, false)]] = some (7, 1, false)
      ∧ scanFixed 5 [[(7, 2, true)], [(7, 1, false)]] = none := scan_resurrects_deleted_key

end Blue.Props.C03

#print axioms Blue.Props.C03.scan_spec
#print axioms Blue.Props.C03.scan_spec_dups
#print axioms Blue.Props.C03.dedup_is_the_set_of_versions
#print axioms Blue.Props.C03.scan_dups_list_eq
#print axioms Blue.Props.C03.pruning_shows_duplicates_once
#print axioms Blue.Props.C03.tree_scan_spec_dups
#print axioms Blue.Props.C03.scan_depends_only_on_versions
#print axioms Blue.Props.C03.live_is_visible
#print axioms Blue.Props.C03.per_component_pruning_resurrects_deleted_key
#print axioms Blue.Cursor.scan_stack
#print axioms Blue.Spec.sorted_ext
#print axioms Blue.Cursor.level_over
#print axioms Blue.Cursor.lazy_over
#print axioms Blue.Spec.tree_scan_spec
