import Blue.Proofs.TreeScan
import Blue.Proofs.LevelOver
import Blue.Proofs.ScanSpec
import Blue.Proofs.ScanSpecDups
import Blue.Proofs.AsIsScan
import Blue.Proofs.ScanCongr
import Blue.Proofs.Stack
import Blue.Proofs.Kvs
import Blue.Proofs.ScanLive
import Blue.Proofs.StoreHistScan
import Blue.Proofs.StoreHistCursor
import Blue.Proofs.StoreHistWindow
/-! # Property C03 — range scans return exactly the live keys in range, in order, matching reads

Property theorems only.  The scan a store performs is the cursor stack
`Bounds(Pruning(Merging[memtable, immutable memtable, Merging[level-0 files…, Concat(level files)…]]))`
(`KeyValueStore::range_scan`, lsmtk/src/kvs/mod.rs: the tree's own merging cursor is ONE child of the
store's merging cursor; the memtable children are themselves `BoundsCursor`s over the skiplist, and
`Tree::range_scan` leaves out the files of levels ≥ 1 whose key range misses the bounds).
`scan_spec` / `scan_spec_dups` are the flat stack over any table-like children;
`tree_scan_spec_dups` is the shape of `Tree::range_scan` under the outer wrappers;
`store_scan_spec_dups` is the nesting the store builds; `scan_unchanged_by_out_of_range_children`
says that children restricted to the range (however the restriction is computed) change no scan.
The combinators are modelled once, generically over a record of cursor operations (`Cur`), and
each is proved *natural* in its children; `scan_spec` composes the per-combinator refinement
theorems of C11 into the statement the property makes.  The correspondence check runs the
right-hand side of `scan_spec` — a reference cursor over the live versions in range, computed from
the *dumped* store state — against `KeyValueStore::range_scan` for seeded bounds and programs
after every operation of every history.

The right-hand side is a *specification*: `isLive` is characterised by the visibility predicate of
point reads (`live_iff_visible`, `scan_matches_point_read`), and `inRange` is defined by explicit
comparisons on the key, not through the bounds-cursor model (`in_range_is_the_interval`; the
bridge to the cursor's key tests is `in_range_is_bounds_cursor_tests`).

Hypotheses that remain visible: the children behave as sorted tables (from C10/C11 for files and
from the tree's invariants).  `scan_spec` asks for pairwise distinct `(key, timestamp)` across the
children (`Family`); `scan_spec_dups` / `tree_scan_spec_dups` drop that: the same version may be in
several children (`FamilyW`) — the window between version install and `imm = None` of a flush, where
the immutable memtable and its file are both children, and identical files — and the scan still
shows every live version in range exactly once.  What no theorem covers is the malformed case of
one `(key, timestamp)` with different payloads in different children (stream `stackmal` of C11
records what the code does there).  The composition as it was written before the repair
(per-component pruning) violates the property: `scan_resurrects_deleted_key` (D-1).

History level (last section, `Blue.StoreHist`): `history_scan_cursor` composes the above with the
history model — after ANY valid history the stack over the reached state's components shows, under
every finite program, the reference cursor over `specScan ops sb eb` (the keys whose last accepted
write is a put, in range, in key order; a function of the operation list and the bounds).  There the
SHAPE hypotheses (`Family`, `FamilyW`, sortedness of a level's concatenation, non-empty levels, the
merged lists) are no longer hypotheses: `history_children_are_tables` derives them from the history
invariant (I1, I2).  What is STILL a hypothesis there: every component's cursor behaves as the
reference cursor over that component's sorted version list (C10 table cursors, C11 `bounds_over`,
C17 skiplist cursor, and the correspondence check that the dumped components are what the cursors
read); and sequentiality — scans are opened between completed operations (a scan concurrent with
a write is not a history of `Blue.StoreHist`).  The FLUSH WINDOW is covered at history level by the
block `StoreHistWindow` at the end (`Blue.StoreHistWindow`: `flush` split into `flushInstall` /
`flushClear`, writes and compactions in between): `window_children_are_tables_with_dups` derives the
`Family` / `FamilyW` hypotheses for window states (where `no_dups` is false), `window_scan_spec` says
the specification list is `specScan` of the collapsed history, `history_scan_cursor_window` is
`history_scan_cursor` for histories that may end inside the window. -/
namespace Blue.Props.C03
open Blue.Spec Blue.Cursor

/-- **the scan shows exactly the live keys in range**, under every finite program of
    `seek_to_first / seek_to_last / seek k / next / prev` -/
theorem scan_spec {K : Type} [DecidableEq K] {klt : K → K → Bool} (st : StrictTotal klt)
    (M : List (Ver K × Nat)) (k : Nat) (fam : Family (vlt klt) M k)
    (t : Nat) (tomb : Ver K → Bool) (sb eb : Bound K) (n : Nat) (hn : (M.map (·.1)).length + 2 ≤ n)
    (C : Cur (Ver K)) (cs : List C.σ) (rs : List (Ref (Ver K)))
    (hkids : (rs.map (·.xs)).Perm ((List.range k).map (childList M)))
    (hbeh : cs.map (behA (SeekAdm klt) C) = rs.map (behA (SeekAdm klt) (RefCur (Ver K)))) :
    BehEq (SeekAdm klt)
      (BoundsC.cur (PruningC.cur (MergingC.cur C (vlt klt)) (pcfg t tomb) n) (bcfg klt sb eb) n)
      (BoundsC.new (PruningC.cur (MergingC.cur C (vlt klt)) (pcfg t tomb) n) (bcfg klt sb eb)
        (PruningC.new (MergingC.cur C (vlt klt)) (MergingC.new C (vlt klt) cs)))
      (RefCur (Ver K))
      ⟨((M.map (·.1)).filter (isLive (M.map (·.1)) t tomb)).filter (inRange klt sb eb), 0⟩ :=
  Blue.Spec.scan_spec st M k fam t tomb sb eb n hn C cs rs hkids hbeh

/-- **the scan shows exactly the live keys in range, each once, also when several children hold the
    same version.**  `M` is the weakly sorted merge *with multiplicity* of the `k` strictly sorted
    children (`FamilyW`; in `Ver K = K × Nat` an entry is its `(key, timestamp)` and the payload is
    a function of it, so a duplicate is an identical entry); `dedupAdj` removes the adjacent
    repetitions, i.e. `dedupAdj (M.map (·.1))` is the strictly sorted list of the *set* of versions
    (`dedup_is_the_set_of_versions`).  Same shape and strength as `scan_spec`: any children `C`
    behaving as tables, every finite program in both directions. -/
theorem scan_spec_dups {K : Type} [DecidableEq K] {klt : K → K → Bool} (st : StrictTotal klt)
    (M : List (Ver K × Nat)) (k : Nat) (fam : FamilyW (vlt klt) M k)
    (t : Nat) (tomb : Ver K → Bool) (sb eb : Bound K) (n : Nat) (hn : (M.map (·.1)).length + 2 ≤ n)
    (C : Cur (Ver K)) (cs : List C.σ) (rs : List (Ref (Ver K)))
    (hkids : (rs.map (·.xs)).Perm ((List.range k).map (childList M)))
    (hbeh : cs.map (behA (SeekAdm klt) C) = rs.map (behA (SeekAdm klt) (RefCur (Ver K)))) :
    BehEq (SeekAdm klt)
      (BoundsC.cur (PruningC.cur (MergingC.cur C (vlt klt)) (pcfg t tomb) n) (bcfg klt sb eb) n)
      (BoundsC.new (PruningC.cur (MergingC.cur C (vlt klt)) (pcfg t tomb) n) (bcfg klt sb eb)
        (PruningC.new (MergingC.cur C (vlt klt)) (MergingC.new C (vlt klt) cs)))
      (RefCur (Ver K))
      ⟨((dedupAdj (M.map (·.1))).filter (isLive (dedupAdj (M.map (·.1))) t tomb)).filter (inRange klt sb eb), 0⟩ :=
  Blue.Spec.scan_spec_dups st M k fam t tomb sb eb n hn C cs rs hkids hbeh

/-- `dedupAdj` of the weakly sorted merge is strictly sorted and has the same members: it is THE
    sorted list of the set of versions (`sorted_ext`: there is only one) -/
theorem dedup_is_the_set_of_versions {K : Type} [DecidableEq K] {klt : K → K → Bool} (st : StrictTotal klt)
    (L : List (Ver K)) (hw : SortedW klt L) :
    Sorted klt (dedupAdj L) ∧ ∀ e, e ∈ dedupAdj L ↔ e ∈ L :=
  ⟨sorted_dedupAdj st hw, mem_dedupAdj L⟩

/-- the list `scan_spec_dups` names is the list `scan_spec` names for the duplicate-free table of the
    same versions: a version held by several children changes no scan, at any timestamp, for all
    bounds (so a scan opened inside the flush window shows what one opened before or after it shows) -/
theorem scan_dups_list_eq {K : Type} [DecidableEq K] {klt : K → K → Bool} (st : StrictTotal klt)
    (L M0 : List (Ver K)) (hw : SortedW klt L) (hs0 : Sorted klt M0) (hsame : ∀ e, e ∈ L ↔ e ∈ M0)
    (t : Nat) (tomb : Ver K → Bool) (sb eb : Bound K) :
    ((dedupAdj L).filter (isLive (dedupAdj L) t tomb)).filter (inRange klt sb eb)
      = (M0.filter (isLive M0 t tomb)).filter (inRange klt sb eb) :=
  Blue.Spec.scan_dups_list_eq st L M0 hw hs0 hsame t tomb sb eb

/-- the pruning-cursor half: of adjacent equal entries the pruning cursor shows only the first —
    its list over a table with adjacent repetitions is its list over the table without them (any
    configuration, any table) -/
theorem pruning_shows_duplicates_once {E K : Type} [DecidableEq K] [DecidableEq E] (cfg : PruneCfg E K)
    (xs : List E) : pruned cfg (dedupAdj xs) = pruned cfg xs :=
  Blue.Spec.pruned_dedupAdj cfg xs

/-- the store's stack (every child a level: concatenation of lazily opened files) with duplicates
    across levels -/
theorem tree_scan_spec_dups {K : Type} [DecidableEq K] {klt : K → K → Bool} (st : StrictTotal klt)
    (M : List (Ver K × Nat)) (k : Nat) (fam : FamilyW (vlt klt) M k)
    (t : Nat) (tomb : Ver K → Bool) (sb eb : Bound K) (n : Nat) (hn : (M.map (·.1)).length + 2 ≤ n)
    {S : Cur (Ver K)} (levels : List (List (S.σ × List (Ver K))))
    (hfiles : ∀ lvl ∈ levels, ∀ f ∈ lvl, BehEq (SeekAdm klt) S f.1 (RefCur (Ver K)) ⟨f.2, 0⟩)
    (hne : ∀ lvl ∈ levels, 0 < lvl.length)
    (hsorted : ∀ lvl ∈ levels, Sorted klt (lvl.map (·.2)).flatten)
    (hkids : ((levels.map levelTable).map (·.xs)).Perm ((List.range k).map (childList M))) :
    BehEq (SeekAdm klt)
      (BoundsC.cur (PruningC.cur (MergingC.cur (ConcatC.cur (LazyC.cur S)) (vlt klt)) (pcfg t tomb) n)
        (bcfg klt sb eb) n)
      (BoundsC.new (PruningC.cur (MergingC.cur (ConcatC.cur (LazyC.cur S)) (vlt klt)) (pcfg t tomb) n)
        (bcfg klt sb eb)
        (PruningC.new (MergingC.cur (ConcatC.cur (LazyC.cur S)) (vlt klt))
          (MergingC.new (ConcatC.cur (LazyC.cur S)) (vlt klt) (levels.map levelCursor))))
      (RefCur (Ver K))
      ⟨((dedupAdj (M.map (·.1))).filter (isLive (dedupAdj (M.map (·.1))) t tomb)).filter (inRange klt sb eb), 0⟩ :=
  Blue.Spec.tree_scan_spec_dups st M k fam t tomb sb eb n hn levels hfiles hne hsorted hkids

/-! ### non-vacuity of `scan_spec_dups`: the flush window -/

def natLt (a b : Nat) : Bool := decide (a < b)

theorem natLt_strictTotal : StrictTotal natLt where
  irrefl := by intro a; simp [natLt]
  trans := by intro a b c; simp only [natLt, decide_eq_true_eq]; omega
  total := by intro a b h; simp only [natLt, decide_eq_true_eq]; omega

/-- child 0 = the immutable memtable `[1@5, 2@3]`, child 1 = its file (the SAME content), child 2 = an
    older file `[1@2, 3@1]`; versions are `(key, ts)`, `2@3` is a tombstone -/
def flushWindow : List (Ver Nat × Nat) :=
  [((1, 5), 0), ((1, 5), 1), ((1, 2), 2), ((2, 3), 0), ((2, 3), 1), ((3, 1), 2)]

theorem flushWindow_family : FamilyW (vlt natLt) flushWindow 3 where
  sorted := by decide
  owner := by decide
  child := by
    intro j hj
    rcases j with _ | _ | _ | j
    · decide
    · decide
    · decide
    · omega

/-- the hypotheses of `scan_spec_dups` are met by the flush-window shape (one child's whole content
    repeated as another child, a duplicated tombstone, a duplicate at the first key), and the
    theorem says something: the scan at `t = 9`, unbounded, behaves as the cursor over `[1@5, 3@1]` -/
example :
    BehEq (SeekAdm natLt)
      (BoundsC.cur (PruningC.cur (MergingC.cur (RefCur (Ver Nat)) (vlt natLt))
        (pcfg 9 (fun e => e == (2, 3))) 8) (bcfg natLt .unbounded .unbounded) 8)
      (BoundsC.new (PruningC.cur (MergingC.cur (RefCur (Ver Nat)) (vlt natLt)) (pcfg 9 (fun e => e == (2, 3))) 8)
        (bcfg natLt .unbounded .unbounded)
        (PruningC.new (MergingC.cur (RefCur (Ver Nat)) (vlt natLt))
          (MergingC.new (RefCur (Ver Nat)) (vlt natLt)
            [⟨[(1, 5), (2, 3)], 0⟩, ⟨[(1, 5), (2, 3)], 0⟩, ⟨[(1, 2), (3, 1)], 0⟩])))
      (RefCur (Ver Nat)) ⟨[(1, 5), (3, 1)], 0⟩ := by
  have h := scan_spec_dups natLt_strictTotal flushWindow 3 flushWindow_family 9 (fun e => e == (2, 3))
    .unbounded .unbounded 8 (by decide) (RefCur (Ver Nat))
    [⟨[(1, 5), (2, 3)], 0⟩, ⟨[(1, 5), (2, 3)], 0⟩, ⟨[(1, 2), (3, 1)], 0⟩]
    [⟨[(1, 5), (2, 3)], 0⟩, ⟨[(1, 5), (2, 3)], 0⟩, ⟨[(1, 2), (3, 1)], 0⟩] (by decide) rfl
  have e : ((dedupAdj (flushWindow.map (·.1))).filter (isLive (dedupAdj (flushWindow.map (·.1))) 9 (fun e => e == (2, 3)))).filter
      (inRange natLt .unbounded .unbounded) = [(1, 5), (3, 1)] := by decide
  rw [e] at h
  exact h

/-- MODEL FACT (a restatement of `sorted_ext`, not a step theorem): the list `scan_spec` names is a
    function of the *set* of versions — two strictly sorted lists with the same members are the same
    list (the hypotheses force `M = M'`, and the proof rewrites).  That flush, trivial moves and
    non-GC compaction *preserve* the set of versions is not shown here: it is C05
    (`pipeline_conserves*`) and C06 (`snapshot_complete`), and per run the correspondence check. -/
theorem scan_depends_only_on_versions {K : Type} [DecidableEq K] {klt : K → K → Bool} (st : StrictTotal klt)
    (M M' : List (Ver K)) (hs : Sorted klt M) (hs' : Sorted klt M') (hsame : ∀ e, e ∈ M ↔ e ∈ M')
    (t : Nat) (tomb : Ver K → Bool) (sb eb : Bound K) :
    (M.filter (isLive M t tomb)).filter (inRange klt sb eb)
      = (M'.filter (isLive M' t tomb)).filter (inRange klt sb eb) :=
  scan_list_congr st M M' hs hs' hsame t tomb sb eb

/-- what `isLive` means, one direction (kept under its old name): every entry a scan shows is the
    entry a point read (`read_returns_latest`, C01) returns for its key; both directions are
    `live_iff_visible`, and the statement in terms of `load` is `scan_matches_point_read` -/
theorem live_is_visible {K : Type} [DecidableEq K] (M : List (Ver K)) (t : Nat) (tomb : Ver K → Bool) (e : Ver K)
    (he : e ∈ M) (h : isLive M t tomb e = true) : IsVisible M e.1 t e ∧ tomb e = false :=
  (isLive_iff_visible M t tomb e he).mp h

/-- `isLive` is EXACTLY "the visible version of its key (C01's `IsVisible`) and not a tombstone" -/
theorem live_iff_visible {K : Type} [DecidableEq K] (M : List (Ver K)) (t : Nat) (tomb : Ver K → Bool) (e : Ver K)
    (he : e ∈ M) : isLive M t tomb e = true ↔ (IsVisible M e.1 t e ∧ tomb e = false) :=
  isLive_iff_visible M t tomb e he

/-- membership in the list a scan shows: visible ∧ not a tombstone ∧ key in the interval -/
theorem scan_shows_iff {K : Type} [DecidableEq K] {klt : K → K → Bool} (M : List (Ver K)) (t : Nat)
    (tomb : Ver K → Bool) (sb eb : Bound K) (e : Ver K) :
    e ∈ (M.filter (isLive M t tomb)).filter (inRange klt sb eb)
      ↔ (IsVisible M e.1 t e ∧ tomb e = false ∧ inRange klt sb eb e = true) :=
  mem_scan_iff M t tomb sb eb e

/-- **a scan and a point read taken on the same state agree, both ways**: `cs` the components in
    search order, "newer above" (I2 of C01), `M` any list with the members of their union.  The scan
    at read timestamp `t` shows `e` iff `load` (the point read of C01, `load_visible`) of `e`'s key
    at `t` returns `e`, `e` is not a tombstone and its key is in range. -/
theorem scan_matches_point_read {K : Type} [DecidableEq K] {klt : K → K → Bool} (cs : List (List (Ver K)))
    (hna : NewerAbove cs) (M : List (Ver K)) (hM : ∀ e, e ∈ M ↔ e ∈ cs.flatten)
    (t : Nat) (tomb : Ver K → Bool) (sb eb : Bound K) (e : Ver K) :
    e ∈ (M.filter (isLive M t tomb)).filter (inRange klt sb eb)
      ↔ (load cs e.1 t = some e ∧ tomb e = false ∧ inRange klt sb eb e = true) :=
  Blue.Spec.scan_matches_point_read cs hna M hM t tomb sb eb e

/-- the range predicate of the specification, read as a proposition: `start ≤ key ≤ end` with each
    bound's own strictness (`a ≤ b` is `klt b a = false`) — explicit comparisons, no cursor model -/
theorem in_range_is_the_interval {K : Type} (klt : K → K → Bool) (sb eb : Bound K) (e : Ver K) :
    inRange klt sb eb e = true ↔
      (match sb with | .unbounded => True | .included k => klt e.1 k = false | .excluded k => klt k e.1 = true) ∧
      (match eb with | .unbounded => True | .included k => klt k e.1 = false | .excluded k => klt e.1 k = true) :=
  inRange_iff klt sb eb e

/-- bridge lemma: the specification's `inRange` is "neither `belowStart` nor `aboveEnd`" of the key
    tests the bounds-cursor model performs (`bcfg`) -/
theorem in_range_is_bounds_cursor_tests {K : Type} [DecidableEq K] (klt : K → K → Bool) (sb eb : Bound K)
    (e : Ver K) :
    inRange klt sb eb e = (!(bcfg klt sb eb).belowStart e && !(bcfg klt sb eb).aboveEnd e) :=
  inRange_eq_cfg klt sb eb e

/-- **children restricted to the range change no scan**: `M` all versions of the store, `M'` what
    the children hold when each leaves out versions whose key is out of range (memtable children
    are `BoundsCursor`s; `Tree::range_scan` skips files of levels ≥ 1 that miss the bounds — that its
    test `compare_bounds_le` leaves out only such files is checked, not proved) -/
theorem scan_unchanged_by_out_of_range_children {K : Type} [DecidableEq K] {klt : K → K → Bool}
    (st : StrictTotal klt) (M M' : List (Ver K)) (sb eb : Bound K) (hs : Sorted klt M) (hs' : Sorted klt M')
    (hsub : ∀ e ∈ M', e ∈ M) (hin : ∀ e ∈ M, inRange klt sb eb e = true → e ∈ M')
    (t : Nat) (tomb : Ver K → Bool) :
    (M'.filter (isLive M' t tomb)).filter (inRange klt sb eb)
      = (M.filter (isLive M t tomb)).filter (inRange klt sb eb) :=
  scan_list_restrict st M M' sb eb hs hs' hsub hin t tomb

/-- `tree_scan_spec_dups` without its hypothesis `hsorted` (each level's table is one of the family's
    children, hence sorted: `levels_sorted_of_family`) -/
theorem tree_scan_spec_dups_of_family {K : Type} [DecidableEq K] {klt : K → K → Bool} (st : StrictTotal klt)
    (M : List (Ver K × Nat)) (k : Nat) (fam : FamilyW (vlt klt) M k)
    (t : Nat) (tomb : Ver K → Bool) (sb eb : Bound K) (n : Nat) (hn : (M.map (·.1)).length + 2 ≤ n)
    {S : Cur (Ver K)} (levels : List (List (S.σ × List (Ver K))))
    (hfiles : ∀ lvl ∈ levels, ∀ f ∈ lvl, BehEq (SeekAdm klt) S f.1 (RefCur (Ver K)) ⟨f.2, 0⟩)
    (hne : ∀ lvl ∈ levels, 0 < lvl.length)
    (hkids : ((levels.map levelTable).map (·.xs)).Perm ((List.range k).map (childList M))) :
    BehEq (SeekAdm klt)
      (BoundsC.cur (PruningC.cur (MergingC.cur (ConcatC.cur (LazyC.cur S)) (vlt klt)) (pcfg t tomb) n)
        (bcfg klt sb eb) n)
      (BoundsC.new (PruningC.cur (MergingC.cur (ConcatC.cur (LazyC.cur S)) (vlt klt)) (pcfg t tomb) n)
        (bcfg klt sb eb)
        (PruningC.new (MergingC.cur (ConcatC.cur (LazyC.cur S)) (vlt klt))
          (MergingC.new (ConcatC.cur (LazyC.cur S)) (vlt klt) (levels.map levelCursor))))
      (RefCur (Ver K))
      ⟨((dedupAdj (M.map (·.1))).filter (isLive (dedupAdj (M.map (·.1))) t tomb)).filter (inRange klt sb eb), 0⟩ :=
  tree_scan_spec_dups' st M k fam t tomb sb eb n hn levels hfiles hne hkids

/-- **the store's own nesting** `Bounds(Pruning(Merging[mem, imm, Merging[levels]]))`: the tree's
    merging cursor is one child (`.inr`) of the store's merging cursor next to the memtable cursors
    (`.inl`; `Vec<Box<dyn Cursor>>` in the code, the tagged union `Cur.sum` here).  The tree's levels
    are pairwise distinct (`Family`, merged list `Mt` — the outer merge needs each of its children
    strictly sorted); the outer family may repeat versions (`FamilyW`: the immutable memtable and
    its level-0 file in the flush window).  Same right-hand side as `scan_spec_dups`. -/
theorem store_scan_spec_dups {K : Type} [DecidableEq K] {klt : K → K → Bool} (st : StrictTotal klt)
    (Mt : List (Ver K × Nat)) (kt : Nat) (famT : Family (vlt klt) Mt kt)
    (M : List (Ver K × Nat)) (k : Nat) (fam : FamilyW (vlt klt) M k)
    (t : Nat) (tomb : Ver K → Bool) (sb eb : Bound K) (n : Nat) (hn : (M.map (·.1)).length + 2 ≤ n)
    {Cm S : Cur (Ver K)} (mems : List (Cm.σ × List (Ver K)))
    (hmems : ∀ m ∈ mems, BehEq (SeekAdm klt) Cm m.1 (RefCur (Ver K)) ⟨m.2, 0⟩)
    (levels : List (List (S.σ × List (Ver K))))
    (hfiles : ∀ lvl ∈ levels, ∀ f ∈ lvl, BehEq (SeekAdm klt) S f.1 (RefCur (Ver K)) ⟨f.2, 0⟩)
    (hne : ∀ lvl ∈ levels, 0 < lvl.length)
    (hkidsT : ((levels.map levelTable).map (·.xs)).Perm ((List.range kt).map (childList Mt)))
    (hkids : (mems.map (·.2) ++ [Mt.map (·.1)]).Perm ((List.range k).map (childList M))) :
    BehEq (SeekAdm klt)
      (BoundsC.cur (PruningC.cur (MergingC.cur (Cur.sum Cm (TreeCur klt S)) (vlt klt)) (pcfg t tomb) n)
        (bcfg klt sb eb) n)
      (BoundsC.new (PruningC.cur (MergingC.cur (Cur.sum Cm (TreeCur klt S)) (vlt klt)) (pcfg t tomb) n)
        (bcfg klt sb eb)
        (PruningC.new (MergingC.cur (Cur.sum Cm (TreeCur klt S)) (vlt klt))
          (MergingC.new (Cur.sum Cm (TreeCur klt S)) (vlt klt) (storeKids mems levels))))
      (RefCur (Ver K))
      ⟨((dedupAdj (M.map (·.1))).filter (isLive (dedupAdj (M.map (·.1))) t tomb)).filter (inRange klt sb eb), 0⟩ :=
  Blue.Spec.store_scan_spec_dups st Mt kt famT M k fam t tomb sb eb n hn mems hmems levels hfiles hne hkidsT hkids

/-! ### non-vacuity of `tree_scan_spec_dups` and `store_scan_spec_dups` -/

/-- a "file": a reference cursor with its table -/
def fileOf (xs : List (Ver Nat)) : (RefCur (Ver Nat)).σ × List (Ver Nat) := (⟨xs, 0⟩, xs)

theorem fileOf_beh (xs : List (Ver Nat)) :
    BehEq (SeekAdm natLt) (RefCur (Ver Nat)) (fileOf xs).1 (RefCur (Ver Nat)) ⟨(fileOf xs).2, 0⟩ :=
  fun _ _ => rfl

/-- three levels: a one-file level `[1@5, 2@3]`, the SAME content again (the flush window), and a
    two-file level `[1@2] [3@1]` -/
def lvls : List (List ((RefCur (Ver Nat)).σ × List (Ver Nat))) :=
  [[fileOf [(1, 5), (2, 3)]], [fileOf [(1, 5), (2, 3)]], [fileOf [(1, 2)], fileOf [(3, 1)]]]

theorem lvls_files : ∀ lvl ∈ lvls, ∀ x ∈ lvl,
    BehEq (SeekAdm natLt) (RefCur (Ver Nat)) x.1 (RefCur (Ver Nat)) ⟨x.2, 0⟩ := by
  intro lvl hl x hx
  simp only [lvls, List.mem_cons, List.not_mem_nil, or_false] at hl
  rcases hl with rfl | rfl | rfl <;> simp only [List.mem_cons, List.not_mem_nil, or_false] at hx
  · subst hx; exact fileOf_beh _
  · subst hx; exact fileOf_beh _
  · rcases hx with rfl | rfl <;> exact fileOf_beh _

/-- all hypotheses of `tree_scan_spec_dups` (here in the form without `hsorted`) hold on the
    flush-window family over concatenating cursors over lazy cursors, and the theorem says
    something -/
example : BehEq (SeekAdm natLt)
      (BoundsC.cur (PruningC.cur (MergingC.cur (ConcatC.cur (LazyC.cur (RefCur (Ver Nat)))) (vlt natLt))
        (pcfg 9 (fun e => e == (2, 3))) 8) (bcfg natLt .unbounded .unbounded) 8)
      (BoundsC.new (PruningC.cur (MergingC.cur (ConcatC.cur (LazyC.cur (RefCur (Ver Nat)))) (vlt natLt))
          (pcfg 9 (fun e => e == (2, 3))) 8) (bcfg natLt .unbounded .unbounded)
        (PruningC.new (MergingC.cur (ConcatC.cur (LazyC.cur (RefCur (Ver Nat)))) (vlt natLt))
          (MergingC.new (ConcatC.cur (LazyC.cur (RefCur (Ver Nat)))) (vlt natLt) (lvls.map levelCursor))))
      (RefCur (Ver Nat)) ⟨[(1, 5), (3, 1)], 0⟩ := by
  have h := tree_scan_spec_dups_of_family natLt_strictTotal flushWindow 3 flushWindow_family 9
    (fun e => e == (2, 3)) .unbounded .unbounded 8 (by decide) lvls lvls_files (by decide) (by decide)
  have e : ((dedupAdj (flushWindow.map (·.1))).filter (isLive (dedupAdj (flushWindow.map (·.1))) 9 (fun e => e == (2, 3)))).filter
      (inRange natLt .unbounded .unbounded) = [(1, 5), (3, 1)] := by decide
  rw [e] at h
  exact h

/-- the store in the flush window: memtable `[4@7]`, immutable memtable `[1@5, 2@3]`, and a tree whose
    level 0 holds the file of that immutable memtable and whose level 1 holds `[1@2] [3@1]` -/
def treeM : List (Ver Nat × Nat) := [((1, 5), 0), ((1, 2), 1), ((2, 3), 0), ((3, 1), 1)]
theorem treeM_family : Family (vlt natLt) treeM 2 := ⟨by decide, by decide⟩
def treeLvls : List (List ((RefCur (Ver Nat)).σ × List (Ver Nat))) :=
  [[fileOf [(1, 5), (2, 3)]], [fileOf [(1, 2)], fileOf [(3, 1)]]]
def memKids : List ((RefCur (Ver Nat)).σ × List (Ver Nat)) := [fileOf [(4, 7)], fileOf [(1, 5), (2, 3)]]
/-- outer family: child 0 = memtable, child 1 = immutable memtable, child 2 = the tree's merged table -/
def storeM : List (Ver Nat × Nat) :=
  [((1, 5), 1), ((1, 5), 2), ((1, 2), 2), ((2, 3), 1), ((2, 3), 2), ((3, 1), 2), ((4, 7), 0)]
theorem storeM_family : FamilyW (vlt natLt) storeM 3 where
  sorted := by decide
  owner := by decide
  child := by
    intro j hj
    rcases j with _ | _ | _ | j
    · decide
    · decide
    · decide
    · omega

/-- `store_scan_spec_dups` on it, bounds `[1, 4)`, `t = 9`, `2@3` a tombstone: the nested stack
    behaves as the cursor over `[1@5, 3@1]` (key 2 deleted, key 4 out of range, `1@5` shown once) -/
example : BehEq (SeekAdm natLt)
      (BoundsC.cur (PruningC.cur (MergingC.cur (Cur.sum (RefCur (Ver Nat)) (TreeCur natLt (RefCur (Ver Nat)))) (vlt natLt))
        (pcfg 9 (fun e => e == (2, 3))) 9) (bcfg natLt (.included 1) (.excluded 4)) 9)
      (BoundsC.new (PruningC.cur (MergingC.cur (Cur.sum (RefCur (Ver Nat)) (TreeCur natLt (RefCur (Ver Nat)))) (vlt natLt))
          (pcfg 9 (fun e => e == (2, 3))) 9) (bcfg natLt (.included 1) (.excluded 4))
        (PruningC.new (MergingC.cur (Cur.sum (RefCur (Ver Nat)) (TreeCur natLt (RefCur (Ver Nat)))) (vlt natLt))
          (MergingC.new (Cur.sum (RefCur (Ver Nat)) (TreeCur natLt (RefCur (Ver Nat)))) (vlt natLt)
            (storeKids memKids treeLvls))))
      (RefCur (Ver Nat)) ⟨[(1, 5), (3, 1)], 0⟩ := by
  have h := store_scan_spec_dups natLt_strictTotal treeM 2 treeM_family storeM 3 storeM_family 9
    (fun e => e == (2, 3)) (.included 1) (.excluded 4) 9 (by decide) memKids
    (by intro m hm; simp only [memKids, List.mem_cons, List.not_mem_nil, or_false] at hm
        rcases hm with rfl | rfl <;> exact fileOf_beh _)
    treeLvls
    (by intro lvl hl x hx
        simp only [treeLvls, List.mem_cons, List.not_mem_nil, or_false] at hl
        rcases hl with rfl | rfl <;> simp only [List.mem_cons, List.not_mem_nil, or_false] at hx
        · subst hx; exact fileOf_beh _
        · rcases hx with rfl | rfl <;> exact fileOf_beh _)
    (by decide) (by decide) (by decide)
  have e : ((dedupAdj (storeM.map (·.1))).filter (isLive (dedupAdj (storeM.map (·.1))) 9 (fun e => e == (2, 3)))).filter
      (inRange natLt (.included 1) (.excluded 4)) = [(1, 5), (3, 1)] := by decide
  rw [e] at h
  exact h

/-- `scan_matches_point_read` has content: components `[[1@5, 2@3], [1@2, 3@1]]` are "newer above";
    the scan at `t = 9` shows `1@5` because `load` returns it, and not `1@2` -/
example : load [[((1 : Nat), 5), (2, 3)], [(1, 2), (3, 1)]] 1 9 = some (1, 5)
    ∧ NewerAbove [[((1 : Nat), 5), (2, 3)], [(1, 2), (3, 1)]] := by decide

/-- D-1 as a theorem about the composition as it was written: pruning each component before the
    merge lets a deleted key reappear; the repaired composition shows nothing -/
theorem per_component_pruning_resurrects_deleted_key :
    scanAsIs 5 [[(7, 2, true)], [(7, 1, false)]] = some (7, 1, false)
      ∧ scanFixed 5 [[(7, 2, true)], [(7, 1, false)]] = none := scan_resurrects_deleted_key


/-! ## history level (model `Blue.StoreHist`, see Props/C01 section `History`)

The right-hand side of `scan_spec*` / `store_scan_spec_dups` is the list
`(M.filter (isLive M t tomb)).filter (inRange …)`.  After ANY history of writes (put/del/batch),
rollovers, flushes and compactions meeting `CompactionOk` (the hypotheses of the compaction step are
listed in Props/C01), with `tomb` read off the history's payload map, that list holds exactly the
versions of the last accepted writes of the keys in range whose last write was a put, one per key,
in the order of `M`.  The composition with `store_scan_spec_dups` (the cursor stack of the reached
store behaves as that list) is the NEXT section (`history_scan_cursor`), where the `Family` /
`FamilyW` hypotheses are derived from the history invariant. -/
section History
open Blue.StoreHist Blue.Kvs

/-- **history_scan_refines** -/
theorem history_scan_refines {klt : Nat → Nat → Bool} (ops : List Op) (hv : Valid init ops)
    (M : List (Ver Nat)) (hM : ∀ e, e ∈ M ↔ e ∈ (allComps (run init ops).st).flatten)
    (t : Nat) (ht : (run init ops).vis ≤ t) (sb eb : Bound Nat) (e : Ver Nat) :
    e ∈ (M.filter (isLive M t (tombOf (run init ops)))).filter (inRange klt sb eb)
      ↔ ((∃ v, spec ops e.1 = some (e.2, some v)) ∧ inRange klt sb eb e = true) :=
  Blue.StoreHist.history_scan_refines ops hv M hM t ht sb eb e

/-- the list is in the order of `M` (sorted when `M` is) … -/
theorem history_scan_sorted {klt : Nat → Nat → Bool} (h : HState) (M : List (Ver Nat)) (hs : Sorted klt M)
    (t : Nat) (sb eb : Bound Nat) :
    Sorted klt ((M.filter (isLive M t (tombOf h))).filter (inRange klt sb eb)) :=
  Blue.StoreHist.history_scan_sorted h M hs t sb eb

/-- … and shows a key at most once -/
theorem history_scan_one_per_key {klt : Nat → Nat → Bool} (ops : List Op) (hv : Valid init ops)
    (M : List (Ver Nat)) (hM : ∀ e, e ∈ M ↔ e ∈ (allComps (run init ops).st).flatten)
    (t : Nat) (ht : (run init ops).vis ≤ t) (sb eb : Bound Nat) (e e' : Ver Nat)
    (he : e ∈ (M.filter (isLive M t (tombOf (run init ops)))).filter (inRange klt sb eb))
    (he' : e' ∈ (M.filter (isLive M t (tombOf (run init ops)))).filter (inRange klt sb eb))
    (hk : e.1 = e'.1) : e = e' :=
  Blue.StoreHist.history_scan_one_per_key ops hv M hM t ht sb eb e e' he he' hk

/-! non-vacuity: batch, delete of key 2, rollover, put, flush, overwrite of key 1.  The store ends
    with a memtable and one level-0 file; the scan of `[1, 3)` shows key 1 at its overwrite and not
    the deleted key 2 (nor key 3, out of range). -/
namespace Hist

def ops : List Op :=
  [.write [(1, some 10), (2, some 20)], .write [(2, none)], .rollover, .write [(3, some 30)], .flush,
   .write [(1, some 11)]]

theorem ops_valid : Valid init ops := ⟨trivial, trivial, trivial, trivial, trivial, trivial, trivial⟩

def M : List (Ver Nat) := [(1, 5), (1, 1), (2, 2), (2, 1), (3, 4)]

theorem final : (run init ops).st = ⟨[(1, 5), (3, 4)], none, [⟨1, 2, 2, [(2, 2), (1, 1), (2, 1)]⟩], []⟩
    ∧ (run init ops).vis = 5 := ⟨by rfl, by rfl⟩

theorem M_holds : ∀ e, e ∈ M ↔ e ∈ (allComps (run init ops).st).flatten := by
  rw [final.1]
  have : allComps ⟨[(1, 5), (3, 4)], none, [⟨1, 2, 2, [(2, 2), (1, 1), (2, 1)]⟩], []⟩
      = [[(1, 5), (3, 4)], [(2, 2), (1, 1), (2, 1)]] := by
    unfold allComps l0Comps
    rw [l0Order_cons_top _ _ (by decide), l0Order_nil]
    rfl
  rw [this]
  exact mem_iff_of_subsets (by decide) (by decide)

/-- the list itself, by evaluation … -/
example : (M.filter (isLive M 5 (tombOf (run init ops)))).filter (inRange natLt (.included 1) (.excluded 3))
    = [(1, 5)] := by decide

/-- … and the theorem instantiated, both directions: `1@5` is shown because the specification says
    key 1 was last put at 5; `2@2` is not shown because the specification says it is a delete -/
example : spec ops 1 = some (5, some 11) ∧ spec ops 2 = some (2, none) := by decide

example : (1, 5) ∈ (M.filter (isLive M 5 (tombOf (run init ops)))).filter (inRange natLt (.included 1) (.excluded 3)) :=
  (Blue.Props.C03.history_scan_refines ops ops_valid M M_holds 5 (by rw [final.2]; exact Nat.le_refl _)
    (.included 1) (.excluded 3) (1, 5)).mpr ⟨⟨11, by decide⟩, by decide⟩

example : (2, 2) ∉ (M.filter (isLive M 5 (tombOf (run init ops)))).filter (inRange natLt (.included 1) (.excluded 3)) :=
  fun h => by
    have := ((Blue.Props.C03.history_scan_refines ops ops_valid M M_holds 5 (by rw [final.2]; exact Nat.le_refl _)
      (.included 1) (.excluded 3) (2, 2)).mp h).1
    obtain ⟨v, hv⟩ := this
    have h2 : spec ops 2 = some (2, none) := by decide
    rw [h2] at hv
    cases hv

end Hist
end History

-- BEGIN StoreHistCursor
/-! ## from a HISTORY to what the scan CURSOR shows (Proofs/StoreHistCursor.lean)

`history_scan_refines` says what the specification LIST holds after any history;
`store_scan_spec_dups` says the cursor stack behaves as the reference cursor over that list when its
children are tables forming `Family` / `FamilyW`.  Here the second theorem's hypotheses about the
SHAPE of the children are derived from the history invariant (`history_children_are_tables`) and the
two are composed (`history_scan_cursor`).  Spec side: `specScan ops sb eb`, computed from the
operation list and the bounds alone.  Model side: the stack over one cursor per component of the
reached state — in two shapes: `history_scan_cursor` over the WHOLE components (`memTables` /
`treeTables`: memtable, immutable memtable if any, every level-0 file, every non-empty level ≥ 1 as
the concatenation of all its files), and `history_scan_cursor_in_range` over the children
`range_scan` really builds (`memTablesR` / `treeTablesR`: memtable windows, levels ≥ 1 without the
files the pre-filter `compare_bounds_le` leaves out — `range_prefilter_keeps_in_range_files` proves
that the pre-filter, modelled as `cmpBoundsLe`, drops only files without an in-range key; composed
through `scan_unchanged_by_out_of_range_children`).  STILL HYPOTHESES: each component's cursor behaves as the
reference cursor over the component's sorted version list (`hmems`, `hfiles`) — for the real store
C10 (table cursors), C11 (`bounds_over`, the memtable children), C17 (skiplist cursor) and the
correspondence check; and sequentiality (a scan opened between completed operations; the flush
window is `store_scan_spec_dups` with `FamilyW`, not reached by this model). -/
section HistoryCursor
open Blue.StoreHist Blue.Kvs

/-- **history_children_are_tables**: in every state reached by a valid history, the children
    `range_scan` builds are strictly sorted tables (a level ≥ 1: the concatenation of its files'
    tables, sorted by I1 + I2), no level is an empty concatenation, NO version is visible through
    two children (`no_dups`: the sequential model removes `imm` in the step that adds its file), and
    the owner-tagged merged lists `treeM` / `storeM` meet `Family` / `FamilyW` with exactly these
    children and hold exactly the versions of `allComps` -/
theorem history_children_are_tables (ops : List Op) (hv : Valid init ops) :
    ChildrenAreTables (run init ops).st :=
  Blue.StoreHist.history_children_are_tables ops hv

/-- the members of `specScan`: the keys whose last accepted write is a put, at that write's
    timestamp, in range … -/
theorem spec_scan_members (ops : List Op) (sb eb : Bound Nat) (e : Ver Nat) :
    e ∈ specScan ops sb eb
      ↔ ((∃ v, spec ops e.1 = some (e.2, some v)) ∧ inRange Blue.StoreHist.natLt sb eb e = true) :=
  mem_specScan ops sb eb e

/-- … in key order (strictly: one entry per key) -/
theorem spec_scan_sorted (ops : List Op) (sb eb : Bound Nat) :
    Sorted Blue.StoreHist.natLt (specScan ops sb eb) :=
  specScan_sorted ops sb eb

/-- **history_scan_cursor**: after ANY valid history, for every read timestamp from the published
    sequence number on, all bounds and every finite program of
    `seek_to_first / seek_to_last / seek k / next / prev`, the store's scan stack over the reached
    state's components shows call by call what the reference cursor over `specScan ops sb eb` shows.
    `n`: the loop bound of the model's pruning / bounds cursors, any number above the state's size. -/
theorem history_scan_cursor (ops : List Op) (hv : Valid init ops) (t : Nat) (ht : (run init ops).vis ≤ t)
    (sb eb : Bound Nat) (n : Nat) (hn : stateSize (run init ops).st + 2 ≤ n)
    {Cm S : Cur (Ver Nat)} (mems : List (Cm.σ × List (Ver Nat)))
    (levels : List (List (S.σ × List (Ver Nat))))
    (hmemT : mems.map (·.2) = memTables (run init ops).st)
    (hlevT : levels.map (·.map (·.2)) = treeTables (run init ops).st)
    (hmems : ∀ m ∈ mems, BehEq (SeekAdm Blue.StoreHist.natLt) Cm m.1 (RefCur (Ver Nat)) ⟨m.2, 0⟩)
    (hfiles : ∀ lvl ∈ levels, ∀ f ∈ lvl,
      BehEq (SeekAdm Blue.StoreHist.natLt) S f.1 (RefCur (Ver Nat)) ⟨f.2, 0⟩) :
    BehEq (SeekAdm Blue.StoreHist.natLt)
      (BoundsC.cur (PruningC.cur (MergingC.cur (Cur.sum Cm (TreeCur Blue.StoreHist.natLt S))
        (vlt Blue.StoreHist.natLt)) (pcfg t (tombOf (run init ops))) n) (bcfg Blue.StoreHist.natLt sb eb) n)
      (BoundsC.new (PruningC.cur (MergingC.cur (Cur.sum Cm (TreeCur Blue.StoreHist.natLt S))
          (vlt Blue.StoreHist.natLt)) (pcfg t (tombOf (run init ops))) n) (bcfg Blue.StoreHist.natLt sb eb)
        (PruningC.new (MergingC.cur (Cur.sum Cm (TreeCur Blue.StoreHist.natLt S)) (vlt Blue.StoreHist.natLt))
          (MergingC.new (Cur.sum Cm (TreeCur Blue.StoreHist.natLt S)) (vlt Blue.StoreHist.natLt)
            (storeKids mems levels))))
      (RefCur (Ver Nat)) ⟨specScan ops sb eb, 0⟩ :=
  Blue.StoreHist.history_scan_cursor ops hv t ht sb eb n hn mems levels hmemT hlevT hmems hfiles

/-- **the level pre-filter of `Version::range_scan` leaves out only files without an in-range key**:
    `fileInBounds` is `compare_bounds_le(start, Included(last_key)) && compare_bounds_le(Included(
    first_key), end)` as the code evaluates it (`cmpBoundsLe`, keys as ranks); a well-formed file
    holding a version whose key is in range passes it -/
theorem range_prefilter_keeps_in_range_files (sb eb : Bound Nat) (f : KFile) (hw : (toT f).Wf) (v : Ver Nat)
    (hv : v ∈ f.vers) (hin : inRange Blue.StoreHist.natLt sb eb v = true) : fileInBounds sb eb f = true :=
  fileInBounds_of_inRange sb eb f hw v hv hin

/-- **history_scan_cursor_in_range**: the same for the children `range_scan` REALLY builds
    (`memTablesR` / `treeTablesR`): each memtable child restricted to the bounds (a `BoundsCursor`
    over the memtable: its table is the window, C11 `bounds_over`), every level-0 file in full, every
    level ≥ 1 as the concatenation of the files passing the pre-filter, a level left without files not
    pushed.  Same specification list `specScan ops sb eb`. -/
theorem history_scan_cursor_in_range (ops : List Op) (hv : Valid init ops) (t : Nat)
    (ht : (run init ops).vis ≤ t) (sb eb : Bound Nat) (n : Nat) (hn : stateSize (run init ops).st + 2 ≤ n)
    {Cm S : Cur (Ver Nat)} (mems : List (Cm.σ × List (Ver Nat)))
    (levels : List (List (S.σ × List (Ver Nat))))
    (hmemT : mems.map (·.2) = memTablesR sb eb (run init ops).st)
    (hlevT : levels.map (·.map (·.2)) = treeTablesR sb eb (run init ops).st)
    (hmems : ∀ m ∈ mems, BehEq (SeekAdm Blue.StoreHist.natLt) Cm m.1 (RefCur (Ver Nat)) ⟨m.2, 0⟩)
    (hfiles : ∀ lvl ∈ levels, ∀ f ∈ lvl,
      BehEq (SeekAdm Blue.StoreHist.natLt) S f.1 (RefCur (Ver Nat)) ⟨f.2, 0⟩) :
    BehEq (SeekAdm Blue.StoreHist.natLt)
      (BoundsC.cur (PruningC.cur (MergingC.cur (Cur.sum Cm (TreeCur Blue.StoreHist.natLt S))
        (vlt Blue.StoreHist.natLt)) (pcfg t (tombOf (run init ops))) n) (bcfg Blue.StoreHist.natLt sb eb) n)
      (BoundsC.new (PruningC.cur (MergingC.cur (Cur.sum Cm (TreeCur Blue.StoreHist.natLt S))
          (vlt Blue.StoreHist.natLt)) (pcfg t (tombOf (run init ops))) n) (bcfg Blue.StoreHist.natLt sb eb)
        (PruningC.new (MergingC.cur (Cur.sum Cm (TreeCur Blue.StoreHist.natLt S)) (vlt Blue.StoreHist.natLt))
          (MergingC.new (Cur.sum Cm (TreeCur Blue.StoreHist.natLt S)) (vlt Blue.StoreHist.natLt)
            (storeKids mems levels))))
      (RefCur (Ver Nat)) ⟨specScan ops sb eb, 0⟩ :=
  Blue.StoreHist.history_scan_cursor_in_range ops hv t ht sb eb n hn mems levels hmemT hlevT hmems hfiles

/-- **history_scan_matches_point_reads**: (1) every version the scan shows: the point read of its
    key answers a value — the last write's, C01 `history_reads_last_write` — and that value is the
    payload of the shown version; (2) every key in range whose point read answers a value is shown
    with that value.  A key reading `none` (never written) or `some none` (deleted) is not shown
    (`spec_scan_members`). -/
theorem history_scan_matches_point_reads (ops : List Op) (hv : Valid init ops) (sb eb : Bound Nat) :
    (∀ e ∈ specScan ops sb eb, ∃ v, Blue.StoreHist.read (run init ops) e.1 = some (some v)
        ∧ lastWrite ops e.1 = some (some v) ∧ (run init ops).pay e.1 e.2 = some (some v))
    ∧ (∀ k v, Blue.StoreHist.read (run init ops) k = some (some v) →
        (∀ ts, inRange Blue.StoreHist.natLt sb eb (k, ts) = true) →
        ∃ ts, (k, ts) ∈ specScan ops sb eb ∧ (run init ops).pay k ts = some (some v)) :=
  Blue.StoreHist.history_scan_matches_point_reads ops hv sb eb

/-! non-vacuity: ten operations — a batch, rollover + flush, a delete of key 2, a put, rollover +
    flush (two level-0 files), a compaction of the older file into level 1 as TWO files (the newer
    file stays in level 0), an overwrite of key 1, a put of key 4.  The reached store has a
    memtable, one level-0 file and a two-file level 1.  Bounds `[1, 4)`. -/
namespace HistCur

def ops : List Op :=
  [.write [(1, some 10), (2, some 20)], .rollover, .flush, .write [(2, none)], .write [(3, some 30)],
   .rollover, .flush,
   .compact [⟨2, 3, 4, [(3, 4), (2, 3)]⟩] [[⟨1, 1, 1, [(1, 1)]⟩, ⟨2, 2, 1, [(2, 1)]⟩]],
   .write [(1, some 11)], .write [(4, some 40)]]

theorem before_compaction : (run init (ops.take 7)).st
    = ⟨[], none, [⟨2, 3, 4, [(3, 4), (2, 3)]⟩, ⟨1, 2, 1, [(1, 1), (2, 1)]⟩], []⟩ := by rfl

theorem ops_valid : Valid init ops := by
  refine ⟨trivial, trivial, trivial, trivial, trivial, trivial, trivial, ?_, trivial, trivial, trivial⟩
  show CompactionOk (run init (ops.take 7)).st _
  rw [before_compaction]
  refine .mk [(false, [(3, 4), (2, 3)]), (true, [(1, 1), (2, 1)])] [] [[(1, 1)], [(2, 1)]]
    [[(3, 4), (2, 3)]] [] rfl rfl ?_
    (closedB_sound _ (by decide)) (mem_iff_of_subsets (by decide) (by decide)) (by decide) rfl
    (fun c hc => by cases hc) ?_ (fun g hg => by
      have : g = ⟨2, 3, 4, [(3, 4), (2, 3)]⟩ := List.mem_singleton.mp hg
      subst this; exact List.mem_cons_self) (i1_of_check _ (by decide))
  · unfold treeComps l0Comps
    rw [l0Order_cons_top _ _ (by decide), l0Order_cons_top _ _ (by decide), l0Order_nil]
    rfl
  · unfold treeComps l0Comps
    rw [l0Order_cons_top _ _ (by decide), l0Order_nil]
    rfl

theorem final : (run init ops).st
      = ⟨[(4, 7), (1, 6)], none, [⟨2, 3, 4, [(3, 4), (2, 3)]⟩], [[⟨1, 1, 1, [(1, 1)]⟩, ⟨2, 2, 1, [(2, 1)]⟩]]⟩
    ∧ (run init ops).vis = 7 := ⟨by rfl, by rfl⟩

/-- the specification side by evaluation: key 2 deleted, key 4 out of range -/
theorem spec_list : specScan ops (.included 1) (.excluded 4) = [(1, 6), (3, 4)]
    ∧ specScan ops .unbounded .unbounded = [(1, 6), (3, 4), (4, 7)] := ⟨by decide, by decide⟩

/-- the children, as reference cursors over the tables of the reached state's components -/
def mems : List ((RefCur (Ver Nat)).σ × List (Ver Nat)) := [fileOf [(1, 6), (4, 7)]]
def levels : List (List ((RefCur (Ver Nat)).σ × List (Ver Nat))) :=
  [[fileOf [(2, 3), (3, 4)]], [fileOf [(1, 1)], fileOf [(2, 1)]]]

theorem kids_are_the_state's : mems.map (·.2) = memTables (run init ops).st
    ∧ levels.map (·.map (·.2)) = treeTables (run init ops).st := by
  rw [final.1]; exact ⟨by decide, by decide⟩

theorem ref_beh (xs : List (Ver Nat)) :
    BehEq (SeekAdm Blue.StoreHist.natLt) (RefCur (Ver Nat)) (fileOf xs).1 (RefCur (Ver Nat)) ⟨(fileOf xs).2, 0⟩ :=
  fun _ _ => rfl

/-- the program `seek_to_first, next, next, prev, seek 2, next` -/
def prog : List (Op (Ver Nat)) := [.first, .next, .next, .prev, .seek (geKey Blue.StoreHist.natLt 2), .next]

theorem prog_adm : ∀ k, Adm (SeekAdm Blue.StoreHist.natLt) (prog.take k) := by
  intro k op hop
  have hop := List.mem_of_mem_take hop
  simp only [prog, List.mem_cons, List.not_mem_nil, or_false] at hop
  rcases hop with rfl | rfl | rfl | rfl | rfl | rfl
  all_goals first | trivial | exact Or.inl ⟨2, rfl⟩

/-- all hypotheses of `history_scan_cursor` hold on this history, and the theorem says something:
    the stack over the reached state's children shows, before the first call and after each call
    (`seek_to_first` positions BEFORE the first entry, as `sst::Cursor` does),
    `-, -, 1@6, 3@4, 1@6 (prev), 3@4 (seek 2: key 2 is deleted), end (key 4 is out of range)` -/
example :
    (List.range 7).map (fun k =>
      ((BoundsC.cur (PruningC.cur (MergingC.cur (Cur.sum (RefCur (Ver Nat)) (TreeCur Blue.StoreHist.natLt (RefCur (Ver Nat))))
          (vlt Blue.StoreHist.natLt)) (pcfg 7 (tombOf (run init ops))) 9) (bcfg Blue.StoreHist.natLt (.included 1) (.excluded 4)) 9).beh
        (BoundsC.new (PruningC.cur (MergingC.cur (Cur.sum (RefCur (Ver Nat)) (TreeCur Blue.StoreHist.natLt (RefCur (Ver Nat))))
            (vlt Blue.StoreHist.natLt)) (pcfg 7 (tombOf (run init ops))) 9) (bcfg Blue.StoreHist.natLt (.included 1) (.excluded 4))
          (PruningC.new (MergingC.cur (Cur.sum (RefCur (Ver Nat)) (TreeCur Blue.StoreHist.natLt (RefCur (Ver Nat)))) (vlt Blue.StoreHist.natLt))
            (MergingC.new (Cur.sum (RefCur (Ver Nat)) (TreeCur Blue.StoreHist.natLt (RefCur (Ver Nat)))) (vlt Blue.StoreHist.natLt)
              (storeKids mems levels))))
        (prog.take k)).1)
      = [none, none, some (1, 6), some (3, 4), some (1, 6), some (3, 4), none] := by
  have h := Blue.Props.C03.history_scan_cursor ops ops_valid 7 (by rw [final.2]; exact Nat.le_refl _)
    (.included 1) (.excluded 4) 9 (by rw [final.1]; decide) mems levels kids_are_the_state's.1
    kids_are_the_state's.2
    (by intro m hm; simp only [mems, List.mem_cons, List.not_mem_nil, or_false] at hm
        subst hm; exact ref_beh _)
    (by intro lvl hl x hx
        simp only [levels, List.mem_cons, List.not_mem_nil, or_false] at hl
        rcases hl with rfl | rfl <;> simp only [List.mem_cons, List.not_mem_nil, or_false] at hx
        · subst hx; exact ref_beh _
        · rcases hx with rfl | rfl <;> exact ref_beh _)
  rw [spec_list.1] at h
  have e : ∀ k, _ = _ := fun k => h (prog.take k) (prog_adm k)
  simp only [List.range, List.range.loop, List.map_cons, List.map_nil, e]
  decide

/-- the restricted children for the bounds `[2, ∞)`: the memtable's window `[4@7]` (key 1 is below
    the start), the level-0 file in full, and level 1 WITHOUT its first file `[1@1]` (`last_key = 1`
    fails `compare_bounds_le(Included 2, Included 1)`) -/
def memsR : List ((RefCur (Ver Nat)).σ × List (Ver Nat)) := [fileOf [(4, 7)]]
def levelsR : List (List ((RefCur (Ver Nat)).σ × List (Ver Nat))) :=
  [[fileOf [(2, 3), (3, 4)]], [fileOf [(2, 1)]]]

theorem kidsR_are_the_state's : memsR.map (·.2) = memTablesR (.included 2) .unbounded (run init ops).st
    ∧ levelsR.map (·.map (·.2)) = treeTablesR (.included 2) .unbounded (run init ops).st := by
  rw [final.1]; exact ⟨by decide, by decide⟩

/-- `history_scan_cursor_in_range` instantiated: the tombstone `2@3` of the level-0 file hides `2@1`
    of level 1; the scan shows `3@4, 4@7` -/
example : specScan ops (.included 2) .unbounded = [(3, 4), (4, 7)] ∧
    BehEq (SeekAdm Blue.StoreHist.natLt)
      (BoundsC.cur (PruningC.cur (MergingC.cur (Cur.sum (RefCur (Ver Nat)) (TreeCur Blue.StoreHist.natLt (RefCur (Ver Nat))))
        (vlt Blue.StoreHist.natLt)) (pcfg 7 (tombOf (run init ops))) 9) (bcfg Blue.StoreHist.natLt (.included 2) .unbounded) 9)
      (BoundsC.new (PruningC.cur (MergingC.cur (Cur.sum (RefCur (Ver Nat)) (TreeCur Blue.StoreHist.natLt (RefCur (Ver Nat))))
          (vlt Blue.StoreHist.natLt)) (pcfg 7 (tombOf (run init ops))) 9) (bcfg Blue.StoreHist.natLt (.included 2) .unbounded)
        (PruningC.new (MergingC.cur (Cur.sum (RefCur (Ver Nat)) (TreeCur Blue.StoreHist.natLt (RefCur (Ver Nat)))) (vlt Blue.StoreHist.natLt))
          (MergingC.new (Cur.sum (RefCur (Ver Nat)) (TreeCur Blue.StoreHist.natLt (RefCur (Ver Nat)))) (vlt Blue.StoreHist.natLt)
            (storeKids memsR levelsR))))
      (RefCur (Ver Nat)) ⟨[(3, 4), (4, 7)], 0⟩ := by
  have e : specScan ops (.included 2) .unbounded = [(3, 4), (4, 7)] := by decide
  refine ⟨e, ?_⟩
  have h := Blue.Props.C03.history_scan_cursor_in_range ops ops_valid 7 (by rw [final.2]; exact Nat.le_refl _)
    (.included 2) .unbounded 9 (by rw [final.1]; decide) memsR levelsR kidsR_are_the_state's.1
    kidsR_are_the_state's.2
    (by intro m hm; simp only [memsR, List.mem_cons, List.not_mem_nil, or_false] at hm
        subst hm; exact ref_beh _)
    (by intro lvl hl x hx
        simp only [levelsR, List.mem_cons, List.not_mem_nil, or_false] at hl
        rcases hl with rfl | rfl <;> simp only [List.mem_cons, List.not_mem_nil, or_false] at hx
        · subst hx; exact ref_beh _
        · subst hx; exact ref_beh _)
  rw [e] at h
  exact h

/-- the pre-filter on this state: the file `[1@1]` fails it for `[2, ∞)`, the file `[2@1]` passes -/
example : fileInBounds (.included 2) .unbounded ⟨1, 1, 1, [(1, 1)]⟩ = false
    ∧ fileInBounds (.included 2) .unbounded ⟨2, 2, 1, [(2, 1)]⟩ = true := by decide

/-- matching point reads on this history: keys 1 and 3 read the values shown; key 2 reads a
    tombstone and is not shown -/
example : Blue.StoreHist.read (run init ops) 1 = some (some 11) ∧ Blue.StoreHist.read (run init ops) 3 = some (some 30)
    ∧ Blue.StoreHist.read (run init ops) 2 = some none := by
  simp only [Blue.StoreHist.history_reads_last_write ops ops_valid]
  decide

end HistCur
end HistoryCursor
-- END StoreHistCursor

-- BEGIN StoreHistWindow
/-! ## the FLUSH WINDOW at history level (Model/StoreHistWindow.lean, Proofs/StoreHistWindow.lean)

`Blue.StoreHist.flush` is one step; `_memtable_thread` installs the table (`_ingest`, kvs/mod.rs
line 310) and clears `imm` later (line 322), and a `range_scan` in between has `imm` AND the tree's
copy of its versions among its children.  `Blue.StoreHistWindow` splits the step (`flushInstall`,
`flushClear`; writes and compactions may fall between, a rollover cannot).  Here: in EVERY reachable
state of the split alphabet the `Family` / `FamilyW` hypotheses of `store_scan_spec_dups` hold
(`window_children_are_tables_with_dups` — `ChildrenAreTables` without its clause `no_dups`, which
is false in a window state), the specification list (identical copies once) is `specScan` of the
collapsed history (`window_scan_spec`), and the cursor theorem composes (`history_scan_cursor_window`).
`collapse` maps `flushInstall ↦ flush`, `flushClear ↦ ∅`, keeps every write and compaction.
STILL HYPOTHESES: as in `history_scan_cursor` (component cursors behave as their tables), and a scan
concurrent with a WRITE (between `seq_no += 1` and the publication) is not a history of this model
either. -/
section HistoryWindow
open Blue.StoreHist Blue.Kvs Blue.StoreHistWindow

/-- **window_children_are_tables_with_dups**: derived from the window invariant (reached states:
    `window_invariant`) -/
theorem window_children_are_tables_with_dups (ops : List WOp) (hv : ValidW initW ops) :
    ChildrenAreTablesDups (runW initW ops).h.st :=
  Blue.StoreHistWindow.window_children_are_tables_with_dups (Blue.StoreHistWindow.window_invariant ops hv)

/-- **window_scan_spec** -/
theorem window_scan_spec (ops : List WOp) (hv : ValidW initW ops) (t : Nat) (ht : (runW initW ops).h.vis ≤ t)
    (sb eb : Bound Nat) :
    ((dedupAdj ((Blue.StoreHist.storeM (runW initW ops).h.st).map (·.1))).filter
        (isLive (dedupAdj ((Blue.StoreHist.storeM (runW initW ops).h.st).map (·.1))) t (tombOf (runW initW ops).h))).filter
        (inRange Blue.StoreHist.natLt sb eb)
      = specScan (collapse initW ops) sb eb :=
  Blue.StoreHistWindow.window_scan_spec ops hv t ht sb eb

/-- the collapsed history: same reached state up to the duplicate child, valid, same specification -/
theorem window_collapse (ops : List WOp) (hv : ValidW initW ops) :
    shadow (runW initW ops) = run init (collapse initW ops) ∧ Valid init (collapse initW ops)
      ∧ specW ops = spec (collapse initW ops) :=
  Blue.StoreHistWindow.window_collapse ops hv

/-- **history_scan_cursor_window** -/
theorem history_scan_cursor_window (ops : List WOp) (hv : ValidW initW ops) (t : Nat)
    (ht : (runW initW ops).h.vis ≤ t)
    (sb eb : Bound Nat) (n : Nat) (hn : stateSize (runW initW ops).h.st + 2 ≤ n)
    {Cm S : Cur (Ver Nat)} (mems : List (Cm.σ × List (Ver Nat)))
    (levels : List (List (S.σ × List (Ver Nat))))
    (hmemT : mems.map (·.2) = memTables (runW initW ops).h.st)
    (hlevT : levels.map (·.map (·.2)) = treeTables (runW initW ops).h.st)
    (hmems : ∀ m ∈ mems, BehEq (SeekAdm Blue.StoreHist.natLt) Cm m.1 (RefCur (Ver Nat)) ⟨m.2, 0⟩)
    (hfiles : ∀ lvl ∈ levels, ∀ f ∈ lvl, BehEq (SeekAdm Blue.StoreHist.natLt) S f.1 (RefCur (Ver Nat)) ⟨f.2, 0⟩) :
    BehEq (SeekAdm Blue.StoreHist.natLt)
      (BoundsC.cur (PruningC.cur (MergingC.cur (Cur.sum Cm (TreeCur Blue.StoreHist.natLt S)) (vlt Blue.StoreHist.natLt))
        (pcfg t (tombOf (runW initW ops).h)) n) (bcfg Blue.StoreHist.natLt sb eb) n)
      (BoundsC.new (PruningC.cur (MergingC.cur (Cur.sum Cm (TreeCur Blue.StoreHist.natLt S)) (vlt Blue.StoreHist.natLt))
          (pcfg t (tombOf (runW initW ops).h)) n) (bcfg Blue.StoreHist.natLt sb eb)
        (PruningC.new (MergingC.cur (Cur.sum Cm (TreeCur Blue.StoreHist.natLt S)) (vlt Blue.StoreHist.natLt))
          (MergingC.new (Cur.sum Cm (TreeCur Blue.StoreHist.natLt S)) (vlt Blue.StoreHist.natLt) (storeKids mems levels))))
      (RefCur (Ver Nat)) ⟨specScan (collapse initW ops) sb eb, 0⟩ :=
  Blue.StoreHistWindow.history_scan_cursor_window ops hv t ht sb eb n hn mems levels hmemT hlevT hmems hfiles

/-! non-vacuity: a batch, a delete of key 5, rollover, `flushInstall`; then INSIDE the window an
    overwrite of key 7 and a compaction that moves the just-installed file to level 1; the scan is
    made there (`opsW` ends inside the window: `imm` and the level-1 file hold the same four
    versions); `flushClear` last (`opsAll`). -/
namespace WinHist

def file : KFile := ⟨5, 7, 2, [(5, 2), (5, 1), (7, 1), (6, 1)]⟩

def opsW : List WOp :=
  [.write [(5, some 50), (7, some 70), (6, some 60)], .write [(5, none)], .rollover, .flushInstall,
   .write [(7, some 71)], .compact [] [[file]]]

def opsAll : List WOp := opsW ++ [.flushClear]

theorem before_compaction : (runW initW (opsW.take 5)).h.st
    = ⟨[(7, 4)], some [(5, 2), (5, 1), (7, 1), (6, 1)], [file], []⟩ := by rfl

theorem compaction_ok : CompactionOk (runW initW (opsW.take 5)).h.st
    { (runW initW (opsW.take 5)).h.st with l0 := [], levels := [[file]] } := by
  rw [before_compaction]
  refine .mk [(true, [(5, 2), (5, 1), (7, 1), (6, 1)])] [] [[(5, 2), (5, 1), (7, 1), (6, 1)]] [] [] rfl rfl ?_
    (closedB_sound _ (by decide)) (fun e => Iff.rfl) (by decide) rfl
    (fun c hc => by cases hc) ?_ (fun g hg => by cases hg) (i1_of_check _ (by decide))
  · unfold treeComps l0Comps
    rw [l0Order_cons_top _ _ (by decide), l0Order_nil]
    rfl
  · unfold treeComps l0Comps
    show (l0Order []).map _ ++ _ = _
    rw [l0Order_nil]
    rfl

theorem opsW_valid : ValidW initW opsW :=
  ⟨trivial, trivial, trivial, trivial, trivial, compaction_ok, trivial⟩

theorem opsAll_valid : ValidW initW opsAll :=
  ⟨trivial, trivial, trivial, trivial, trivial, compaction_ok, trivial, trivial⟩

/-- the reached WINDOW state: `imm` is still there and level 1 holds the same versions -/
theorem in_window : (runW initW opsW).h.st
      = ⟨[(7, 4)], some [(5, 2), (5, 1), (7, 1), (6, 1)], [], [[file]]⟩
    ∧ (runW initW opsW).win = true ∧ (runW initW opsW).h.vis = 4 := ⟨by rfl, by rfl, by rfl⟩

/-- … and after the clear -/
theorem after_clear : (runW initW opsAll).h.st = ⟨[(7, 4)], none, [], [[file]]⟩
    ∧ (runW initW opsAll).win = false := ⟨by rfl, by rfl⟩

/-- `no_dups` of `ChildrenAreTables` FAILS in the window state: `5@2` is in two children -/
example : ¬ (memTables (runW initW opsW).h.st ++ treeTabs (runW initW opsW).h.st).flatten.Nodup := by
  rw [in_window.1]; decide

/-- the collapsed history and the specification list, by evaluation: key 5 deleted, key 7 at its
    overwrite made INSIDE the window -/
theorem collapsed : collapse initW opsW
    = [.write [(5, some 50), (7, some 70), (6, some 60)], .write [(5, none)], .rollover, .flush,
       .write [(7, some 71)], .compact [] [[file]]] := by rfl

theorem spec_list : specScan (collapse initW opsW) .unbounded .unbounded = [(6, 1), (7, 4)]
    ∧ specScan (collapse initW opsW) (.included 5) (.excluded 7) = [(6, 1)] := by
  rw [collapsed]; exact ⟨by decide, by decide⟩

/-- the window state's children: memtable, IMMUTABLE MEMTABLE, and the level-1 file with the same
    table -/
def mems : List ((RefCur (Ver Nat)).σ × List (Ver Nat)) :=
  [fileOf [(7, 4)], fileOf [(5, 2), (5, 1), (6, 1), (7, 1)]]
def levels : List (List ((RefCur (Ver Nat)).σ × List (Ver Nat))) :=
  [[fileOf [(5, 2), (5, 1), (6, 1), (7, 1)]]]

theorem kids_are_the_state's : mems.map (·.2) = memTables (runW initW opsW).h.st
    ∧ levels.map (·.map (·.2)) = treeTables (runW initW opsW).h.st := by
  rw [in_window.1]; exact ⟨by decide, by decide⟩

/-- `history_scan_cursor_window` instantiated on the window state -/
example :
    BehEq (SeekAdm Blue.StoreHist.natLt)
      (BoundsC.cur (PruningC.cur (MergingC.cur (Cur.sum (RefCur (Ver Nat)) (TreeCur Blue.StoreHist.natLt (RefCur (Ver Nat))))
        (vlt Blue.StoreHist.natLt)) (pcfg 4 (tombOf (runW initW opsW).h)) 11) (bcfg Blue.StoreHist.natLt .unbounded .unbounded) 11)
      (BoundsC.new (PruningC.cur (MergingC.cur (Cur.sum (RefCur (Ver Nat)) (TreeCur Blue.StoreHist.natLt (RefCur (Ver Nat))))
          (vlt Blue.StoreHist.natLt)) (pcfg 4 (tombOf (runW initW opsW).h)) 11) (bcfg Blue.StoreHist.natLt .unbounded .unbounded)
        (PruningC.new (MergingC.cur (Cur.sum (RefCur (Ver Nat)) (TreeCur Blue.StoreHist.natLt (RefCur (Ver Nat)))) (vlt Blue.StoreHist.natLt))
          (MergingC.new (Cur.sum (RefCur (Ver Nat)) (TreeCur Blue.StoreHist.natLt (RefCur (Ver Nat)))) (vlt Blue.StoreHist.natLt)
            (storeKids mems levels))))
      (RefCur (Ver Nat)) ⟨[(6, 1), (7, 4)], 0⟩ := by
  have h := Blue.Props.C03.history_scan_cursor_window opsW opsW_valid 4 (by rw [in_window.2.2]; exact Nat.le_refl _)
    .unbounded .unbounded 11 (by rw [in_window.1]; decide) mems levels kids_are_the_state's.1
    kids_are_the_state's.2
    (by intro m hm; simp only [mems, List.mem_cons, List.not_mem_nil, or_false] at hm
        rcases hm with rfl | rfl <;> exact fun _ _ => rfl)
    (by intro lvl hl x hx
        simp only [levels, List.mem_cons, List.not_mem_nil, or_false] at hl
        subst hl
        simp only [List.mem_cons, List.not_mem_nil, or_false] at hx
        subst hx; exact fun _ _ => rfl)
  rw [spec_list.1] at h
  exact h

/-- the list-level statement on the window state, both sides by evaluation -/
example : ((dedupAdj ((Blue.StoreHist.storeM (runW initW opsW).h.st).map (·.1))).filter
        (isLive (dedupAdj ((Blue.StoreHist.storeM (runW initW opsW).h.st).map (·.1))) 4 (tombOf (runW initW opsW).h))).filter
        (inRange Blue.StoreHist.natLt .unbounded .unbounded) = [(6, 1), (7, 4)] := by
  rw [Blue.Props.C03.window_scan_spec opsW opsW_valid 4 (by rw [in_window.2.2]; exact Nat.le_refl _), spec_list.1]

/-- the point read inside the window (C01 `history_refines_window`), by evaluation of `kvsLoad` on
    the window state: key 5 is answered by `imm` (its tombstone `5@2`), key 7 by the memtable, key 6
    by `imm` — and the same after the clear, where the level-1 file answers -/
example : kvsLoad (runW initW opsW).h.st 5 4 = some (5, 2) ∧ kvsLoad (runW initW opsW).h.st 7 4 = some (7, 4)
    ∧ kvsLoad (runW initW opsW).h.st 6 4 = some (6, 1)
    ∧ kvsLoad (runW initW opsAll).h.st 5 4 = some (5, 2) ∧ kvsLoad (runW initW opsAll).h.st 6 4 = some (6, 1) := by
  rw [in_window.1, after_clear.1]
  refine ⟨by decide +kernel, by decide +kernel, by decide +kernel, by decide +kernel, by decide +kernel⟩

/-- the remaining two theorems on this history -/
example : ChildrenAreTablesDups (runW initW opsW).h.st :=
  Blue.Props.C03.window_children_are_tables_with_dups opsW opsW_valid

example : shadow (runW initW opsW) = run init (collapse initW opsW) ∧ Valid init (collapse initW opsW) :=
  ⟨(Blue.Props.C03.window_collapse opsW opsW_valid).1, (Blue.Props.C03.window_collapse opsW opsW_valid).2.1⟩

end WinHist
end HistoryWindow
-- END StoreHistWindow

end Blue.Props.C03

#print axioms Blue.Props.C03.scan_spec
#print axioms Blue.Props.C03.scan_spec_dups
#print axioms Blue.Props.C03.dedup_is_the_set_of_versions
#print axioms Blue.Props.C03.scan_dups_list_eq
#print axioms Blue.Props.C03.pruning_shows_duplicates_once
#print axioms Blue.Props.C03.tree_scan_spec_dups
#print axioms Blue.Props.C03.scan_depends_only_on_versions
#print axioms Blue.Props.C03.live_is_visible
#print axioms Blue.Props.C03.live_iff_visible
#print axioms Blue.Props.C03.scan_shows_iff
#print axioms Blue.Props.C03.scan_matches_point_read
#print axioms Blue.Props.C03.in_range_is_the_interval
#print axioms Blue.Props.C03.in_range_is_bounds_cursor_tests
#print axioms Blue.Props.C03.scan_unchanged_by_out_of_range_children
#print axioms Blue.Props.C03.tree_scan_spec_dups_of_family
#print axioms Blue.Props.C03.store_scan_spec_dups
#print axioms Blue.Props.C03.per_component_pruning_resurrects_deleted_key
#print axioms Blue.Props.C03.history_scan_refines
#print axioms Blue.Props.C03.history_scan_sorted
#print axioms Blue.Props.C03.history_scan_one_per_key
#print axioms Blue.Props.C03.history_children_are_tables
#print axioms Blue.Props.C03.spec_scan_members
#print axioms Blue.Props.C03.spec_scan_sorted
#print axioms Blue.Props.C03.history_scan_cursor
#print axioms Blue.Props.C03.range_prefilter_keeps_in_range_files
#print axioms Blue.Props.C03.history_scan_cursor_in_range
#print axioms Blue.Props.C03.history_scan_matches_point_reads
#print axioms Blue.Props.C03.window_children_are_tables_with_dups
#print axioms Blue.Props.C03.window_scan_spec
#print axioms Blue.Props.C03.window_collapse
#print axioms Blue.Props.C03.history_scan_cursor_window
#print axioms Blue.Props.C03.WinHist.opsW_valid
#print axioms Blue.Cursor.scan_stack
#print axioms Blue.Spec.sorted_ext
#print axioms Blue.Cursor.level_over
#print axioms Blue.Cursor.lazy_over
#print axioms Blue.Spec.tree_scan_spec
