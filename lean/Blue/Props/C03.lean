import Blue.Proofs.TreeScan
import Blue.Proofs.LevelOver
import Blue.Proofs.ScanSpec
import Blue.Proofs.AsIsScan
import Blue.Proofs.ScanCongr
import Blue.Proofs.Stack
import Blue.Proofs.Kvs
/-! # Property C03 — range scans return exactly the live keys in range, in order, matching reads

Property theorems only.  The scan a store performs is the cursor stack
`Bounds(Pruning(Merging[memtable, immutable memtable, level-0 files…, Concat(level files)…]))`.
The combinators are modelled once, generically over a record of cursor operations (`Cur`), and
each is proved *natural* in its children; `scan_spec` composes the per-combinator refinement
theorems of C11 into the statement the property makes.  The correspondence check runs the
right-hand side of `scan_spec` — a reference cursor over the live versions in range, computed from
the *dumped* store state — against `KeyValueStore::range_scan` for seeded bounds and programs
after every operation of every history.

Hypotheses that remain visible: the children behave as sorted tables with pairwise distinct
`(key, timestamp)` (`Family`; from C10/C11 for files and from the tree's invariants), and the
scan is not opened in the window between version install and `imm = None` of a flush, where the
immutable memtable and its file are both children (covered by the check only).  The composition
as it was written before the repair (per-component pruning) violates the property:
`scan_resurrects_deleted_key` (D-1). -/
namespace Blue.Props.C03
open Blue.Spec Blue.Cursor

/-- **the scan shows exactly the live keys in range**, under every finite program of
    `seek_to_first / seek_to_last / seek k / next / prev` -/
theorem scan_spec {K : Type} [DecidableEq K] {klt : K → K → Bool} (st : StrictTotal klt)
    (M : List (Ver K × Nat)) (k : Nat) (fam : Family (vlt klt) M k)
    (t : Nat) (tomb : Ver K → Bool) (sb eb : Bound K) (n : Nat) (hn : (M.map (·.1)).length + 2 ≤ n)
    (C : Cur (Ver K)) (cs : List C.σ) (rs : List (Ref (Ver K)))
    (hkids : (rs.map (·.xs)).Perm ((List.range k).map (childList M)))
    (hbeh : cs.map (behA (SeekAdm klt) C) = rs.map (behA (SeekAdm klt) (RefCur (Ver K)))) :
    BehEq (SeekAdm klt)
      (BoundsC.cur (PruningC.cur (MergingC.cur C (vlt klt)) (pcfg t tomb) n) (bcfg klt sb eb) n)
      (BoundsC.new (PruningC.cur (MergingC.cur C (vlt klt)) (pcfg t tomb) n) (bcfg klt sb eb)
        (PruningC.new (MergingC.cur C (vlt klt)) (MergingC.new C (vlt klt) cs)))
      (RefCur (Ver K))
      ⟨((M.map (·.1)).filter (isLive (M.map (·.1)) t tomb)).filter (inRange klt sb eb), 0⟩ :=
  Blue.Spec.scan_spec st M k fam t tomb sb eb n hn C cs rs hkids hbeh

/-- the list a scan shows depends only on the store's *set* of versions — so flush, trivial move
    and non-GC compaction change no scan, at any timestamp and for all bounds -/
theorem scan_depends_only_on_versions {K : Type} [DecidableEq K] {klt : K → K → Bool} (st : StrictTotal klt)
    (M M' : List (Ver K)) (hs : Sorted klt M) (hs' : Sorted klt M') (hsame : ∀ e, e ∈ M ↔ e ∈ M')
    (t : Nat) (tomb : Ver K → Bool) (sb eb : Bound K) :
    (M.filter (isLive M t tomb)).filter (inRange klt sb eb)
      = (M'.filter (isLive M' t tomb)).filter (inRange klt sb eb) :=
  scan_list_congr st M M' hs hs' hsame t tomb sb eb

/-- what `isLive` means: the entry a point read (`read_returns_latest`, C01) returns for its key;
    a scan and a point read taken on the same state agree -/
theorem live_is_visible {K : Type} [DecidableEq K] (M : List (Ver K)) (t : Nat) (tomb : Ver K → Bool) (e : Ver K)
    (he : e ∈ M) (h : isLive M t tomb e = true) : IsVisible M e.1 t e ∧ tomb e = false := by
  unfold isLive at h
  simp only [Bool.and_eq_true, decide_eq_true_eq, List.all_eq_true, Bool.or_eq_true, Bool.not_eq_true',
    Bool.and_eq_false_iff, decide_eq_false_iff_not, Bool.not_eq_true'] at h
  obtain ⟨⟨h1, h2⟩, h3⟩ := h
  refine ⟨⟨he, rfl, h1, ?_⟩, h3⟩
  intro e' he' hk ht
  rcases h2 e' he' with h | h
  · rcases h with h | h
    · exact absurd hk h
    · exact absurd ht h
  · exact h

/-- D-1 as a theorem about the composition as it was written: pruning each component before the
    merge lets a deleted key reappear; the repaired composition shows nothing -/
theorem per_component_pruning_resurrects_deleted_key :
    scanAsIs 5 [[(7, 2, true)], [(7, 1, false)]] = some (7, 1, false)
      ∧ scanFixed 5 [[(7, 2, true)], [(7, 1, false)]] = none := scan_resurrects_deleted_key

end Blue.Props.C03

#print axioms Blue.Props.C03.scan_spec
#print axioms Blue.Props.C03.scan_depends_only_on_versions
#print axioms Blue.Props.C03.live_is_visible
#print axioms Blue.Props.C03.per_component_pruning_resurrects_deleted_key
#print axioms Blue.Cursor.scan_stack
#print axioms Blue.Spec.sorted_ext
#print axioms Blue.Cursor.level_over
#print axioms Blue.Cursor.lazy_over
#print axioms Blue.Spec.tree_scan_spec
