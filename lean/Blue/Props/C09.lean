import Blue.Proofs.LogDamage
import Blue.Proofs.LogTrunc
/-! Property C09: the theorems the check builds and audits (spike inventory; the build phase
    completes the list from DESIGN Appendix C.0). -/
