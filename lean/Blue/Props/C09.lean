import Blue.Proofs.SstOpen
import Blue.Proofs.Damage
import Blue.Proofs.DamageExamples
import Blue.Proofs.LogTrunc
import Blue.Proofs.LogAny
import Blue.Proofs.LogDamage
import Blue.Proofs.LogZeroed
import Blue.Proofs.ManiTorn
import Blue.Proofs.ManiDamage
import Blue.Proofs.LogFrameDamage
import Blue.Proofs.LogZeroFrame
import Blue.Proofs.LogFragment
import Blue.Proofs.LogDamageMulti
import Blue.Proofs.LogDamageTrunc
import Blue.Proofs.SstDamage
import Blue.Proofs.SstDamageImage
import Blue.Proofs.SstDamageExamples
import Blue.Proofs.BlockBytes
import Blue.Proofs.Crc32c
import Blue.Proofs.ConstsTieC09
import Blue.Proofs.ConstsTieC10
import Blue.Proofs.ConstsTieC12
import Blue.Proofs.ConstsTieC13
/-! # Property C09 — damage to persistent files is detected or harmless, never silent, never a
    panic, never an unbounded allocation

Property theorems only.  Models: `Blue/Model/SstOpen.lean` (an SST opened and read from *arbitrary
bytes*: trailer, `FinalBlock` / `BlockMetadata` / `SstEntry` unpacked by the derive-macro interpreter
of C15, sanity and ordering checks, CRC check on every block load, `Block::new`, the cursor with
lazily loaded blocks), `Blue/Model/Log.lean` + `Blue/Model/Damage.lean` (the log reader and
`log_to_builder` / `log_to_setsum` on top of it), `Blue/Model/Mani.lean` + `Blue/Model/Damage.lean`
(`ManifestIterator` item by item, `Manifest::open`).  The driver executes exactly these definitions
with CRC-32C computed in Lean, on the very bytes the real code is given (`bin/check C09`: every
single-bit flip, every truncation, overwrites, suffixes, short sequences).

**What is theorem and what is assumption.**

* *By construction*: every reader of the model is a total function into an error-or-value type.
  "Never panics, never allocates without bound" is a property of the code that only the
  correspondence run transfers (each damaged file is read by the real code in a child process under
  an address-space limit, the largest allocation request of each read is recorded); the model adds
  `open_buffers_bounded` (the final block offset and the index / filter extents are checked against
  the file size before the buffers are sized) and `data_block_buffers_bounded` (the extents
  `load_block` allocates for the builder's index entries lie inside the file).
* *Theorems, no assumption*: every entry any SST read returns comes from a block whose payload
  matched the CRC recorded for it (`sst_reads_are_guarded`, `open_guarded`); log reads before a damage
  point are unchanged, a frame failing its CRC is an error, a zero where a header length is expected
  is padding only if every byte up to the block boundary is zero, so a frame whose header-length
  byte was zeroed is an error wherever it lies (`zeroed_header_length_detected`; D-11, repaired in
  the reader), a truncated log / manifest reads as a prefix or an error; the classification of damage to the unchecksummed tail (`final_block_cases`);
  damage confined to the data blocks leaves the open as it was (`data_block_damage_opens`).
* *Relative to one explicit, decidable hypothesis about the checksum per damaged region*, at
  full generality of the damage (ANY bytes inside the region, same length):
  `sst_damage_detected_or_harmless` — the image the builder wrote (C10's `sst_file_roundtrip`),
  damaged inside one data block's frame, the index block's frame, the filter block's frame
  (`NoCollisionAt`: if the damaged file still shows a frame of the same kind there whose payload has
  the original payload's CRC, it is the original payload) or the unchecksummed final block and
  trailer (`NoRedirect`): `Sst::new` fails, or every cursor program, `load`, `metadata` and walk
  returns an error or exactly the reference answer, calls before the first touch of the damaged
  block returning the reference answer; truncation and extension (`sst_truncated_rejected_or_same`,
  `sst_extended_rejected_or_same`).  `log_damage_detected_or_prefix` — one append of a log damaged
  in the payload of a frame (`crc payload' ≠ crc payload`), in a frame's header (a header naming
  other bytes or another checksum fails its CRC check; the discriminant, which no checksum covers,
  is not swapped between `WHOLE` and `FIRST`) or in a padding run: the batches appended before it,
  then an error, the replay fails — or nothing changed; `crc_field_damage_detected` needs no
  hypothesis.  `manifest_damage_detected_or_prefix` — one line replaced by any bytes
  (`LineCrcDetects`: the line does not carry the CRC of its own text): the edits before the damaged
  transaction, then an error; `separator_damage_detected`, `final_newline_damage_detected` need no
  hypothesis.  No theorem discharges the hypotheses for CRC-32C.  (For a single flipped bit it is a
  fact about the polynomial, observed at every bit of every file by the run; not formalised.)
* *Log, damage to any bytes* (block `LogDamageMulti`, `Blue/Proofs/LogDamageMulti.lean`): the damaged
  image has the length of the log and is otherwise arbitrary — a region spanning a header and its
  payload, several frames, several appends, padding; several regions.  `log_damage_any_region`,
  `log_damage_several_regions` (both from `log_damage_anywhere`): the file reads as the pristine log
  or the reader delivers exactly the batches before an append the damage overlaps and reports an
  error there, the replay fails — never a batch that was not appended, never one skipped.
  Hypotheses per frame of the log WHOSE BYTES CHANGED (theorems for intact frames,
  `frame_hyps_of_untouched`): `FrameNoCollision` (if the damaged file still shows a header there
  whose payload has the CRC it records, it is the original payload at the original extent),
  `DiscKept` (first frame of an append: the discriminant reads as written or as neither `WHOLE` nor
  `FIRST`), `NoFrameAt` (leading padding whose first byte changed spells no frame that passes its
  CRC).  Excluded: exactly `ZeroedFrameInPadWindow` at a frame offset = finding D-29;
  `log_damage_outside_d29_never_silent` is the contrapositive (a silent loss implies that class).
  One discriminant flipped, anywhere in the log, is a table: `log_disc_flip_table`,
  `log_whole_not_whole_detected`, `log_whole_to_first_detected` (a `WHOLE` read as `FIRST` with
  further appends behind it is an error: behind the end of an append the log never shows a `SECOND`
  frame).
* *Log, damage combined with a cut and with bytes behind the log* (block `LogDamageTrunc`,
  `Blue/Proofs/LogDamageTrunc.lean`): the image read is `e.take m`, `e` at least as long as the log
  (the log with any bytes changed, then anything), `m` any cut.  `log_damage_then_cut`,
  `log_never_silent_under_damage_and_cut` (both from `cut_core`): a prefix of the appended batches,
  then an error or a clean end; the full list only if every append lies before the cut and still
  decodes; otherwise the reader stops at the first append the cut falls in or whose bytes changed,
  with a clean end only for a cut at that append's boundary or in zero bytes up to the next block
  boundary at most `H + 1` behind it (`clean_end_only_at_boundary`, `clean_end_iff`).  Hypotheses:
  those of `log_damage_anywhere` on `e`, and the exclusion of the D-29 class ALSO on the image that
  is read (`cut_makes_d29`: a cut can complete an instance).  Bytes behind the log:
  `log_extended_with_garbage` (all batches, the reader goes on at the end of the log),
  `garbage_is_error` (`NoFrameAt` there), `zero_tail_reads` (a zero tail is a clean end iff it does
  not reach beyond a block boundary at most `H + 1` bytes behind the end of the log; an error
  otherwise).  Bytes behind the log that ARE a frame passing its CRC are read as a batch (no
  format without authentication refuses them): hypothesis `htail`.
* *Not detected, by design of the formats* (findings, see the run's KNOWN-FINDING lines):
  `final_block_metadata_not_detected` (D-10).  (D-11 — the log reader took a zeroed header-length
  byte close to a block boundary for padding and dropped the frame — is repaired:
  `zero_length_is_padding_as_found` keeps the reader as it was found on record.) -/
namespace Blue.Props.C09
open Blue.SstOpen Blue.Block Blue.Sst

/-! ## constants: the models read hostile bytes with the source's schemas, codes and limits -/

theorem constants_from_source :
    Err.all.map Err.code = Blue.Generated.sstReadErrorCodes
    ∧ finalFields.map (fun f => (f.num, Blue.ConstsTie.tyName f.ty))
        = Blue.Generated.finalBlockFields.zip Blue.Generated.finalBlockTypes
    ∧ blockMetaFields.map (fun f => (f.num, Blue.ConstsTie.tyName f.ty))
        = Blue.Generated.blockMetadataFields.zip Blue.Generated.blockMetadataTypes
    ∧ Blue.Generated.sstTrailerBytes = 8
    ∧ Blue.Damage.replayPropagatesErrors = decide (Blue.Generated.logReplayUnwraps = 0)
    ∧ Blue.Generated.maniNonAsciiPoisons = 1 :=
  ⟨Blue.ConstsTie.c09_error_codes, Blue.ConstsTie.c09_schemas.1, Blue.ConstsTie.c09_schemas.2.1,
   Blue.ConstsTie.c09_schemas.2.2.2, Blue.ConstsTie.c09_replay_propagates,
   Blue.ConstsTie.c09_mani_non_ascii_poisons⟩

/-! ## SST -/

/-- **every read is guarded** (any checksum function, any bytes): each entry of a forward or
    backward walk — up to its end or its error — each value or tombstone `load` returns and the
    first and last key of `metadata` lie in a data block that an index entry names and whose payload
    matched the CRC recorded in that entry.  `setsum`, `smallest_timestamp`, `biggest_timestamp` are
    the final block's own fields, which no CRC covers. -/
theorem sst_reads_are_guarded (crc : List Nat → Nat) (t : Opened) :
    (∀ e ∈ (t.forward crc).1, GuardedEntry crc t e)
    ∧ (∀ e ∈ (t.backward crc).1, GuardedEntry crc t e)
    ∧ (∀ k ts r, t.load crc k ts = .ok r →
        r = .absent ∨ ∃ e, GuardedEntry crc t e ∧ e.key = k
          ∧ ((∃ v, e.val = some v ∧ r = .value v) ∨ (e.val = none ∧ r = .tombstone)))
    ∧ (∀ m, t.metadata crc = .ok m →
        (m.firstKey = [] ∨ ∃ e, GuardedEntry crc t e ∧ m.firstKey = e.key)
        ∧ (m.lastKey = MAX_KEY ∨ ∃ e, GuardedEntry crc t e ∧ m.lastKey = e.key)
        ∧ m.setsum = t.fin.setsum ∧ m.smallest = t.fin.smallest ∧ m.biggest = t.fin.biggest
        ∧ m.fileSize = t.fileSize) :=
  Blue.SstOpen.sst_reads_are_guarded crc t

/-- … and the index entries themselves: a successful open read the trailer and the final block
    inside the file, found the two triples ordered below the final block offset, **the index block's
    payload matched the CRC recorded in the final block**, and so did the filter block's -/
theorem open_guarded (crc : List Nat → Nat) (file : List Nat) (t : Opened) (h : openSst crc file = .ok t) :
    t.file = file ∧ t.fileSize = file.length ∧ 8 ≤ file.length
    ∧ unle64 (file.drop (file.length - 8)) ≤ file.length
    ∧ decFinal (file.drop (unle64 (file.drop (file.length - 8)))) = some t.fin
    ∧ finChecks t.fin (unle64 (file.drop (file.length - 8))) = none
    ∧ (∃ ies, loadBlock crc file t.fin.index = .ok ies ∧ indexEntries ies = .ok t.entries)
    ∧ loadFilter crc file t.fin.filter = .ok () :=
  Blue.SstOpen.open_guarded crc file t h

/-- a block that loads is the `PlainBlock` frame at `[start, limit)` with a payload whose CRC is the
    recorded one -/
theorem block_load_is_checked (crc : List Nat → Nat) (file : List Nat) (m : BlockMeta) (es : List KV)
    (h : loadBlock crc file m = .ok es) :
    ∃ body, frameAt file m = .ok (0, body) ∧ crc body = m.crc ∧ decodePlain body = .ok es :=
  Blue.SstOpen.loadBlock_ok crc h

/-- allocation: what `from_file_handle` allocates before any checksum can be looked at.  The final
    block buffer has `file_size − final_block_offset` bytes — meaningful because the offset was checked
    against the file size first (first conjunct); the index and the filter block buffers have
    `limit − start` bytes, which the ordering checks bound by the file size.  (`load_block` allocates
    `limit − start` of an INDEX ENTRY before it reads: `data_block_buffers_bounded` bounds it for the
    builder's index entries, which are the index entries of every damaged image the region theorems
    accept; a forged, CRC-consistent index block is bounded by nothing — see `partial`.) -/
theorem open_buffers_bounded (crc : List Nat → Nat) (file : List Nat) (t : Opened) (h : openSst crc file = .ok t) :
    unle64 (file.drop (file.length - 8)) ≤ file.length
    ∧ t.fin.index.limit - t.fin.index.start ≤ file.length
    ∧ t.fin.filter.limit - t.fin.filter.start ≤ file.length :=
  Blue.SstOpen.open_buffers_bounded crc file t h

/-- the extents `load_block` allocates for the data blocks of a builder-written image: non-empty,
    below the index block, no longer than the file -/
theorem data_block_buffers_bounded (blocks : List (List Nat)) (index filter : List Nat) (fin : Final) (D : List KV)
    (hfi : fin.index = ⟨(blocks.flatMap (frame SE_PLAIN)).length,
      (blocks.flatMap (frame SE_PLAIN)).length + (frame SE_PLAIN index).length, crc32c index⟩) :
    ∀ km ∈ (imgT blocks index filter fin D).entries,
      km.2.start < km.2.limit ∧ km.2.limit ≤ (blocks.flatMap (frame SE_PLAIN)).length
      ∧ km.2.limit - km.2.start ≤ (imageOf blocks index filter fin).length :=
  Blue.SstOpen.image_block_extents blocks index filter fin D hfi

/-- a block that loads lies inside the file -/
theorem loaded_block_in_file (crc : List Nat → Nat) (file : List Nat) (m : BlockMeta) (es : List KV)
    (h : loadBlock crc file m = .ok es) : m.start < m.limit ∧ m.limit ≤ file.length :=
  Blue.SstOpen.loadBlock_in_file crc h

/-- **detection relative to the checksum, one block**: the same index entry read from the pristine
    and from the damaged file.  If the damaged read succeeds at all, and the CRC tells the two
    payloads apart unless they are equal, it returns the pristine entries. -/
theorem block_damage_detected (crc : List Nat → Nat) (f f' : List Nat) (m : BlockMeta) (es es' : List KV)
    (h : loadBlock crc f m = .ok es) (h' : loadBlock crc f' m = .ok es')
    (hnc : ∀ b b', frameAt f m = .ok (0, b) → frameAt f' m = .ok (0, b') → crc b = crc b' → b = b') : es' = es :=
  Blue.SstOpen.loadBlock_detects crc h h' hnc

/-- the assumption in the form the table theorem uses it: same index entries, a pristine table whose
    blocks all load, and a CRC that tells each damaged payload from the original ⇒ the damaged
    table's loader agrees with the pristine one wherever it succeeds -/
theorem refines_of_no_collision (crc : List Nat → Nat) (t t' : Opened) (hent : t'.entries = t.entries)
    (hp : ∀ (i : Nat) k m, t.entries[i]? = some (k, m) → ∃ es, loadBlock crc t.file m = .ok es)
    (hnc : ∀ (i : Nat) k m b b', t.entries[i]? = some (k, m) → frameAt t.file m = .ok (0, b) →
      frameAt t'.file m = .ok (0, b') → crc b = crc b' → b = b') :
    Refines (t'.loadIdx crc) (t.loadIdx crc) :=
  Blue.SstOpen.refines_of_no_collision crc t t' hent hp hnc

/-- **sst_single_burst** (relative to the CRC assumption, which enters as `hr`): damage of any shape
    behind the checksums — same index entries, same length.  On the damaged table a walk that ends
    without error *is* the pristine walk, a walk that ends in an error delivered a prefix of it,
    every `load` that succeeds is the pristine answer, a `metadata` that succeeds has the pristine
    first and last key. -/
theorem sst_single_burst (crc : List Nat → Nat) (t t' : Opened) (hent : t'.entries = t.entries)
    (hlen : t'.file.length = t.file.length) (hr : Refines (t'.loadIdx crc) (t.loadIdx crc)) :
    ((t'.forward crc).2 = none → t'.forward crc = t.forward crc)
    ∧ (∃ more, (t.forward crc).1 = (t'.forward crc).1 ++ more)
    ∧ ((t'.backward crc).2 = none → t'.backward crc = t.backward crc)
    ∧ (∃ more, (t.backward crc).1 = (t'.backward crc).1 ++ more)
    ∧ (∀ k ts r, t'.load crc k ts = .ok r → t.load crc k ts = .ok r)
    ∧ (∀ m', t'.metadata crc = .ok m' → ∃ m, t.metadata crc = .ok m ∧ m'.firstKey = m.firstKey ∧ m'.lastKey = m.lastKey) :=
  Blue.SstOpen.sst_single_burst crc t t' hent hlen hr

/-- the first premise of `sst_single_burst` is a theorem for damage inside the data blocks: any
    number of bit flips and byte overwrites below the index block leave the open as it was -/
theorem data_block_damage_opens (crc : List Nat → Nat) (f : List Nat) (t : Opened)
    (h : openSst crc f = .ok t) (a : Nat) (ha : a ≤ t.fin.index.start) (ha8 : a + 8 ≤ f.length)
    (ds : List Blue.Damage.Dmg) (hds : ∀ d ∈ ds, d.Below a) :
    openSst crc (Blue.Damage.applyAll f ds) = .ok { t with file := Blue.Damage.applyAll f ds } :=
  Blue.Damage.data_block_damage_opens crc f t h a ha ha8 ds hds

/-- **final_block_cases** (kept; `sst_tail_cases` below refines it): the classification
    (`classifyFinal`: run the open, compare the INDEX triple — so the `detected` branch holds by
    definition, the content is in the other two) of *any* replacement of the file's tail while the
    first `a` bytes (index block and data blocks) stay: rejected; or the same index entries and the
    same data blocks (`metaOnly`: the FILTER triple may still differ here — `sst_tail_cases` splits
    that case off; with the same filter triple only `setsum` / `smallest_timestamp` /
    `biggest_timestamp` / the file size can differ); or a different index triple whose payload matches
    the CRC that very triple records.  No theorem excludes the redirected cases: the triple and its
    CRC are both read from the unchecksummed tail, so this is not a statement about CRC collisions;
    it is the hypothesis `NoRedirect` of the tail theorems. -/
theorem final_block_cases (crc : List Nat → Nat) (f f' : List Nat) (t : Opened) (h : openSst crc f = .ok t)
    (a : Nat) (ha : a ≤ f.length) (ha' : a ≤ f'.length) (hhead : ∀ i, i < a → f'[i]? = f[i]?)
    (hidx : t.fin.index.limit ≤ a) (hdata : ∀ km ∈ t.entries, km.2.limit ≤ a) :
    match classifyFinal crc t f' with
    | .detected e => openSst crc f' = .error e
    | .metaOnly => ∃ t', openSst crc f' = .ok t' ∧ t'.fin.index = t.fin.index ∧ t'.entries = t.entries
        ∧ ∀ i, t'.loadIdx crc i = t.loadIdx crc i
    | .redirected => ∃ t', openSst crc f' = .ok t' ∧ t'.fin.index ≠ t.fin.index
        ∧ ∃ body, frameAt f' t'.fin.index = .ok (0, body) ∧ crc body = t'.fin.index.crc :=
  Blue.SstOpen.final_block_cases crc f f' t h a ha ha' hhead hidx hdata

/-- in the `metaOnly` case (same length) every walk and point read is the pristine one and
    `metadata` is the pristine one with the damaged final block's three fields put in.  (The model
    does not interpret the bloom filter; that the filter consulted is the original one is the
    conjunct `frameAt d t'.fin.filter = frameAt f t.fin.filter` of `sst_tail_damage` /
    `sst_damage_detected_or_harmless`.) -/
theorem meta_only_reads (crc : List Nat → Nat) (t t' : Opened) (hent : t'.entries = t.entries)
    (hlen : t'.file.length = t.file.length) (hload : ∀ i, t'.loadIdx crc i = t.loadIdx crc i) :
    t'.forward crc = t.forward crc ∧ t'.backward crc = t.backward crc
    ∧ (∀ k ts, t'.load crc k ts = t.load crc k ts)
    ∧ t'.metadata crc = (match t.metadata crc with
        | .error e => .error e
        | .ok m => .ok { m with setsum := t'.fin.setsum, smallest := t'.fin.smallest, biggest := t'.fin.biggest,
                                fileSize := t'.fileSize }) :=
  Blue.SstOpen.meta_only_reads crc t t' hent hlen hload

/-- **D-10, on the bytes of a real SST** (kernel evaluation): one flipped bit of the final block's
    setsum — the file opens, is classified `metaOnly`, all 20 entries walk as before, and `metadata`
    returns the changed setsum with every other field unchanged -/
theorem final_block_metadata_not_detected : Blue.DamageExamples.d10Check = true :=
  Blue.DamageExamples.d10_witness

/-- non-vacuity of `sst_single_burst` / `data_block_damage_opens` on the same file: one flipped bit
    in a data block — same index entries, the forward walk fails at once with `crc32c-failure`, the
    backward walk delivers a proper prefix of the pristine one and then fails -/
theorem data_block_flip_is_detected : Blue.DamageExamples.burstCheck = true :=
  Blue.DamageExamples.burst_witness

/-- a block a builder sealed decodes to its entries (C10) — the eager decode the model uses for a
    payload that matched its CRC is exact on every such block -/
theorem sealed_bytes_decode (o : Opts) (es : List KV) (hwf : ∀ e ∈ es, e.Wf) (hfit : Fits (build o es)) :
    ∃ blk, Blk.new (build o es).seal = .ok blk ∧ blk.toDBlock = some ⟨es, (buildG o es).ridx⟩ :=
  toDBlock_seal o es hwf hfit

/-- totality of the SST reader: a fact about the MODEL (a case split on the reader's result type;
    every reader of the model is a total function) — for the code, "never panics" is an observation -/
theorem sst_open_total (crc : List Nat → Nat) (file : List Nat) :
    (∃ e, openSst crc file = .error e) ∨ ∃ t, openSst crc file = .ok t :=
  Blue.SstOpen.openSst_total crc file

/-! ## log -/
open Blue.Log in
/-- two files that agree on their first `m` bytes deliver identical batches for every read ending
    within those bytes: damage, truncation or garbage at offset `m` or later cannot change, reorder
    or invent an earlier batch -/
theorem reads_agree_before_damage {P : Params} (hB : 0 < P.B) (f f' : List Nat) (m : Nat)
    (hsame : f.take m = f'.take m) (fuel off : Nat) (r : List Nat × Nat)
    (h : nextBatch P f fuel off = .ok r) (hm : r.2 ≤ m) : nextBatch P f' fuel off = .ok r :=
  Blue.Log.reads_agree_before_damage hB f f' m hsame fuel off r h hm

open Blue.Log in
/-- lemma (one branch of `nextFrame`'s definition; used by the damage theorems below): a frame whose
    payload does not match its header's CRC is an error, never a batch -/
theorem crc_mismatch_is_error {P : Params} (file : List Nat) (fuel off : Nat) (hd : Hdr) (off' : Nat)
    (hh : nextHeader P file fuel off = .ok (hd, off'))
    (hbad : P.crc (slice file off' hd.size) ≠ hd.crc) : nextFrame P file fuel off = .err :=
  Blue.Log.crc_mismatch_is_error file fuel off hd off' hh hbad

open Blue.Log in
/-- a log cut at any byte delivers a prefix of the appended batches and nothing else -/
theorem truncated_log_prefix {P : Params} (g : Good P) (bufs : List (List Nat)) (n : Nat)
    (hsz : ∀ b ∈ bufs, b.length ≤ P.tableFull) :
    ∃ rest, bufs = (readSome P ((writeAll P bufs 0).take n) (bufs.length + 1) 0).1 ++ rest :=
  Blue.Log.truncated_log_prefix_any g bufs n hsz

open Blue.Log in
/-- … and for arbitrary bytes: what the cut file delivers, the whole file delivers first -/
theorem readSome_take_prefix {P : Params} (file : List Nat) (n fuel off : Nat) :
    ∃ rest, (readSome P file fuel off).1 = (readSome P (file.take n) fuel off).1 ++ rest :=
  Blue.Log.readSome_take_prefix file n fuel off

open Blue.Log in
/-- lemma (one branch of `nextHeader`'s definition): **a zero where a header length is expected is
    padding only if everything up to the block boundary is zero**: within `HEADER_MAX_SIZE` of the boundary the reader reads the bytes it is
    about to skip and goes on at the boundary when those the file has are all zero; farther from
    the boundary the zero is an error -/
theorem zero_length_is_checked_padding (P : Params) (file : List Nat) (fuel off : Nat) (h0 : file[off]? = some 0) :
    nextHeader P file (fuel + 1) off =
      if trueUp P (off + 1) - (off + 1) > P.H then .err
      else if !padZero file (off + 1) (trueUp P (off + 1)) then .err
      else nextHeader P file fuel (trueUp P (off + 1)) :=
  Blue.Damage.zero_length_is_checked_padding P file fuel off h0

open Blue.Log in
/-- … so a zero length byte followed by any non-zero byte before the boundary is an error -/
theorem zero_length_then_nonzero_is_error (P : Params) (file : List Nat) (fuel off i x : Nat)
    (h0 : file[off]? = some 0) (hi1 : off + 1 ≤ i) (hi2 : i < trueUp P (off + 1))
    (hx : file[i]? = some x) (hx0 : x ≠ 0) :
    nextHeader P file (fuel + 1) off = .err :=
  Blue.Damage.zero_length_then_nonzero_is_error P file fuel off i x h0 hi1 hi2 hx hx0

open Blue.Log in
/-- **zeroed_header_length_detected** (D-11 repaired): in the log of any appended batches, overwrite
    with zero the header-length byte of the frame (the first frame, if it was split) of any one
    append — wherever it lies relative to the block boundaries, after padding or not: the reader
    delivers exactly the batches appended before it and then reports an error.  `BigTag`: the packed
    header starts with a byte larger than `HEADER_MAX_SIZE` (the tag of its first field). -/
theorem zeroed_header_length_detected {P : Params} (g : Good P) (hbig : BigTag P)
    (bufs1 : List (List Nat)) (b : List Nat) (bufs2 : List (List Nat))
    (hsz : ∀ x ∈ bufs1, x.length ≤ P.tableFull) (k : Nat) :
    readSome P ((writeAll P (bufs1 ++ b :: bufs2) 0).set (headOff P (writeAll P bufs1 0).length b) 0)
      (bufs1.length + 1 + k) 0 = (bufs1, true) :=
  Blue.Log.zeroed_header_length_detected g hbig bufs1 b bufs2 hsz k

open Blue.Log Blue.Damage in
/-- … and with the real log's parameters, through the replay: `LogIterator` drained delivers the
    entries of the earlier batches and an error, `log_to_builder` and `log_to_setsum` fail -/
theorem zeroed_header_length_replay_fails (crc : List Nat → Nat) (hcrc : ∀ l, crc l < 4294967296)
    (bufs1 : List (List Nat)) (b : List Nat) (bufs2 : List (List Nat))
    (hsz : ∀ x ∈ bufs1, x.length ≤ (realParams crc).tableFull) :
    drain (realParams crc) ((writeAll (realParams crc) (bufs1 ++ b :: bufs2) 0).set
        (headOff (realParams crc) (writeAll (realParams crc) bufs1 0).length b) 0) = deliver bufs1 true
    ∧ logToBuilder (realParams crc) ((writeAll (realParams crc) (bufs1 ++ b :: bufs2) 0).set
        (headOff (realParams crc) (writeAll (realParams crc) bufs1 0).length b) 0) = .readerError
    ∧ logToSetsumOk (realParams crc) ((writeAll (realParams crc) (bufs1 ++ b :: bufs2) 0).set
        (headOff (realParams crc) (writeAll (realParams crc) bufs1 0).length b) 0) = false :=
  Blue.Damage.zeroed_header_length_replay_fails (realParams crc) (good_real crc hcrc) (bigTag_real crc)
    bufs1 b bufs2 hsz

open Blue.Log in
/-- **D-11 as found** (`nextHeaderAsFound`: the reader before the repair): a zero where a header
    length is expected was padding whenever the next block boundary was at most `HEADER_MAX_SIZE`
    bytes away — the reader went on at the boundary whatever lay in between, e.g. a whole small
    frame whose length byte was overwritten with zero -/
theorem zero_length_is_padding_as_found (P : Params) (file : List Nat) (fuel off : Nat) (h0 : file[off]? = some 0) :
    Blue.Damage.nextHeaderAsFound P file (fuel + 1) off =
      if trueUp P (off + 1) - (off + 1) > P.H then .err
      else Blue.Damage.nextHeaderAsFound P file fuel (trueUp P (off + 1)) :=
  Blue.Damage.zero_length_is_padding_as_found P file fuel off h0

/-- … and on concrete bytes (blocks of 64 bytes, a frame of 20 bytes starting 20 bytes before the
    boundary with its header-length byte zeroed, a frame on the boundary): as found the reader hands
    out the header of the frame on the boundary as if nothing had been there, repaired it reports
    an error -/
theorem d11_as_found_vs_repaired :
    Blue.Damage.nextHeaderAsFound Blue.Damage.toyParams Blue.Damage.toyZeroed 2 44 = .ok (⟨0, 1, 0⟩, 66)
    ∧ Blue.Log.nextHeader Blue.Damage.toyParams Blue.Damage.toyZeroed 2 44 = .err :=
  Blue.Damage.d11_as_found_vs_repaired

/-! ## manifest -/
open Blue.Mani in
/-- a MANIFEST cut at any byte reads as a corruption error or as a prefix of whole edits
    (`NoCollision`: no proper prefix of a written line carries that line's CRC) -/
theorem torn_manifest (crc : List Nat → Nat) (hcrc : CrcOk crc) (es : List Edit) (hok : ∀ e ∈ es, e.Ok)
    (hnc : ∀ l ∈ linesOf es, l.NoCollision crc) (m f : Nat) :
    (readEdits crc (f + 2 + (linesOf es).length) ((es.flatMap (encodeEdit crc)).take m) Edit.empty).2 = true
    ∨ ∃ c, readEdits crc (f + 2 + (linesOf es).length) ((es.flatMap (encodeEdit crc)).take m) Edit.empty
        = (es.take c, false) :=
  Blue.Mani.torn_manifest crc hcrc es hok hnc m f

open Blue.Mani in
/-- **mani_line_guarded**: an item line that is accepted carried the CRC of its own text (the
    separator line carries none) -/
theorem mani_line_guarded (crc : List Nat → Nat) (line : List Nat) (h : parseLine crc line ≠ .corrupt)
    (hs : parseLine crc line ≠ .sep) :
    ∃ expected, parseHex8 (line.take 8) = some expected ∧ crc (line.drop 8) = expected :=
  Blue.Damage.item_line_guarded crc line h hs

/-! ## SST: damage of any shape inside one region -/

/-- a block read through a damaged frame is an error or the original entries — the one place the
    hypothesis about the checksum (`NoCollisionAt`) is used -/
theorem block_frame_damage (crc : List Nat → Nat) (f d : List Nat) (m : BlockMeta) (es : List KV)
    (hp : loadBlock crc f m = .ok es) (hnc : NoCollisionAt crc f d m) :
    (∃ e, loadBlock crc d m = .error e) ∨ loadBlock crc d m = .ok es :=
  Blue.SstOpen.loadBlock_damaged crc hp hnc

/-- **a data block's frame** (tag, length, payload), any opened file: the open is unchanged (blocks
    are loaded lazily), every other block loads as before, block `i` loads as before or fails, every
    read is an error or the pristine answer -/
theorem sst_data_frame_damage (crc : List Nat → Nat) (f d : List Nat) (t : Opened) (h : openSst crc f = .ok t)
    (i : Nat) (k : List Nat) (m : BlockMeta) (hi : t.entries[i]? = some (k, m))
    (hbelow : m.limit ≤ t.fin.index.start) (h8 : m.limit + 8 ≤ f.length)
    (hdisj : ∀ (j : Nat) k' m', j ≠ i → t.entries[j]? = some (k', m') → m'.limit ≤ m.start ∨ m.limit ≤ m'.start)
    (hagree : AgreeOutside f d m.start m.limit)
    (hpristine : ∃ es, loadBlock crc f m = .ok es)
    (hnc : NoCollisionAt crc f d m) :
    openSst crc d = .ok { t with file := d }
    ∧ (∀ j, j ≠ i → Opened.loadIdx crc { t with file := d } j = t.loadIdx crc j)
    ∧ ((∃ e, Opened.loadIdx crc { t with file := d } i = .error e)
        ∨ Opened.loadIdx crc { t with file := d } i = t.loadIdx crc i)
    ∧ ReadsErrOrSame crc t { t with file := d } :=
  Blue.SstOpen.sst_data_frame_damage crc f d t h i k m hi hbelow h8 hdisj hagree hpristine hnc

/-- **any damage below the index block** — several data blocks at once, frames and all (the
    composition of `data_block_damage_opens`, `refines_of_no_collision` and `sst_single_burst`, for
    arbitrary bytes and arbitrary cursor programs), `NoCollisionAt` for every index entry: the file
    opens as before and every read is an error or the pristine answer -/
theorem sst_data_region_damage (crc : List Nat → Nat) (f d : List Nat) (t : Opened) (h : openSst crc f = .ok t)
    (a : Nat) (ha : a ≤ t.fin.index.start) (ha8 : a + 8 ≤ f.length)
    (hagree : AgreeOutside f d 0 a)
    (hpristine : ∀ (i : Nat) k m, t.entries[i]? = some (k, m) → ∃ es, loadBlock crc f m = .ok es)
    (hnc : ∀ (i : Nat) k m, t.entries[i]? = some (k, m) → NoCollisionAt crc f d m) :
    openSst crc d = .ok { t with file := d } ∧ ReadsErrOrSame crc t { t with file := d } :=
  Blue.SstOpen.sst_data_region_damage crc f d t h a ha ha8 hagree hpristine hnc

/-- **the index block's frame**: the open fails, or everything is as it was -/
theorem sst_index_frame_damage (crc : List Nat → Nat) (f d : List Nat) (t : Opened) (h : openSst crc f = .ok t)
    (h8 : t.fin.index.limit + 8 ≤ f.length)
    (hdata : ∀ km ∈ t.entries, km.2.limit ≤ t.fin.index.start ∨ t.fin.index.limit ≤ km.2.start)
    (hagree : AgreeOutside f d t.fin.index.start t.fin.index.limit)
    (hnc : NoCollisionAt crc f d t.fin.index) :
    (∃ e, openSst crc d = .error e)
    ∨ (openSst crc d = .ok { t with file := d }
        ∧ (∀ j, Opened.loadIdx crc { t with file := d } j = t.loadIdx crc j)
        ∧ ReadsErrOrSame crc t { t with file := d }) :=
  Blue.SstOpen.sst_index_frame_damage crc f d t h h8 hdata hagree hnc

/-- **the filter block's frame**: the open fails, or the filter bytes are the original ones and
    everything is as it was -/
theorem sst_filter_frame_damage (crc : List Nat → Nat) (f d : List Nat) (t : Opened) (h : openSst crc f = .ok t)
    (h8 : t.fin.filter.limit + 8 ≤ f.length)
    (hdata : ∀ km ∈ t.entries, km.2.limit ≤ t.fin.filter.start ∨ t.fin.filter.limit ≤ km.2.start)
    (hagree : AgreeOutside f d t.fin.filter.start t.fin.filter.limit)
    (hnc : NoCollisionAt crc f d t.fin.filter) :
    (∃ e, openSst crc d = .error e)
    ∨ (openSst crc d = .ok { t with file := d }
        ∧ (∃ b, frameAt f t.fin.filter = .ok (1, b) ∧ frameAt d t.fin.filter = .ok (1, b))
        ∧ (∀ j, Opened.loadIdx crc { t with file := d } j = t.loadIdx crc j)
        ∧ ReadsErrOrSame crc t { t with file := d }) :=
  Blue.SstOpen.sst_filter_frame_damage crc f d t h h8 hdata hagree hnc

/-- **the unchecksummed tail, any length** (refines `final_block_cases`: the filter triple is looked
    at too): rejected; metadata-only (D-10); or redirected to a filter or index frame matching the
    CRC the damaged tail itself records for it -/
theorem sst_tail_cases (crc : List Nat → Nat) (f f' : List Nat) (t : Opened) (h : openSst crc f = .ok t)
    (a : Nat) (ha : a ≤ f.length) (ha' : a ≤ f'.length) (hhead : ∀ i, i < a → f'[i]? = f[i]?)
    (hidx : t.fin.index.limit ≤ a) (hdata : ∀ km ∈ t.entries, km.2.limit ≤ a) :
    match classifyTail crc t f' with
    | .detected e => openSst crc f' = .error e
    | .metaOnly => ∃ t', openSst crc f' = .ok t' ∧ t'.fin.index = t.fin.index ∧ t'.fin.filter = t.fin.filter
        ∧ t'.entries = t.entries ∧ ∀ i, t'.loadIdx crc i = t.loadIdx crc i
    | .filterRedirected => ∃ t', openSst crc f' = .ok t' ∧ t'.fin.index = t.fin.index
        ∧ t'.entries = t.entries ∧ (∀ i, t'.loadIdx crc i = t.loadIdx crc i)
        ∧ t'.fin.filter ≠ t.fin.filter
        ∧ ∃ body, frameAt f' t'.fin.filter = .ok (1, body) ∧ crc body = t'.fin.filter.crc
    | .indexRedirected => ∃ t', openSst crc f' = .ok t' ∧ t'.fin.index ≠ t.fin.index
        ∧ ∃ body, frameAt f' t'.fin.index = .ok (0, body) ∧ crc body = t'.fin.index.crc :=
  Blue.SstOpen.sst_tail_cases crc f f' t h a ha ha' hhead hidx hdata

/-- a file cut below the end of its filter block is rejected or redirected -/
theorem sst_truncated_below_filter (crc : List Nat → Nat) (f : List Nat) (t : Opened) (h : openSst crc f = .ok t)
    (n : Nat) (hn : n < t.fin.filter.limit) :
    (∃ e, openSst crc (f.take n) = .error e)
    ∨ ∃ t', openSst crc (f.take n) = .ok t' ∧ t'.fin.filter ≠ t.fin.filter
        ∧ ∃ body, frameAt (f.take n) t'.fin.filter = .ok (1, body) ∧ crc body = t'.fin.filter.crc :=
  Blue.SstOpen.sst_truncated_below_filter crc f t h n hn

section builder
variable (crc : List Nat → Nat) (o : SstOpts) (atts : List KV) (filter setsum : List Nat) (f : SstFile) (s1 : SB)
  (hs1 : sealedState o (SB.putAll o SB.init atts).2 = .ok s1)
  (hseal : (SB.putAll o SB.init atts).2.seal o filter setsum = .ok f)
  (hts : ∀ e ∈ atts, e.ts ≤ Blue.Block.U64MAX)
  (hwfE : ∀ e ∈ (SB.putAll o SB.init atts).2.accepted, e.Wf) (hwfD : ∀ d ∈ s1.divE, d.Wf)
  (hfitE : ∀ es ∈ s1.cutE, Fits (build o.blk es)) (hfitD : Fits (build o.blk s1.divE))
  (hsetsum : setsum.length = 32)
  (hfilter : filter.length = filterLen (SB.putAll o SB.init atts).2.count o.bloomBits)
  (hsize : f.bytes.length < Blue.Wire.U64)
  (hcrc : ∀ b, b ∈ f.index :: f.filter :: f.blocks → crc b = crc32c b ∧ crc32c b < 4294967296)
include hs1 hseal hts hwfE hwfD hfitE hfitD hsetsum hfilter hsize hcrc

/-- **sst_damage_detected_or_harmless**: the image the builder wrote, damaged in ANY way inside one
    tile `r` (`SstRegion`: a data block's frame, the index block's frame, the filter block's frame,
    or the final block with the trailer), same length, under that tile's hypothesis about the
    checksum (`SstRegion.Hyp`: `NoCollisionAt` for the frame, `NoRedirect` for the tail).
    `Sst::new` fails, or every cursor program, `load`, `metadata` and walk on the table it returns
    is an error or exactly the reference answer over the accepted entries (`ErrOrReference`; for the
    tail `metadata`'s setsum and two timestamps are the damaged final block's: D-10); the filter block
    that table consults is the one the builder wrote, byte for byte. -/
theorem sst_damage_detected_or_harmless (d : List Nat) (r : SstRegion) (hv : r.Valid f)
    (hagree : AgreeOutside f.bytes d (r.extent f).1 (r.extent f).2) (hyp : r.Hyp crc f d) :
    (∃ e, openSst crc d = .error e)
    ∨ ∃ t', openSst crc d = .ok t'
        ∧ frameAt d t'.fin.filter = frameAt f.bytes f.fin.filter
        ∧ ErrOrReference crc (SB.putAll o SB.init atts).2.accepted
            ⟨setsum,
             (match (SB.putAll o SB.init atts).2.accepted.head? with | some e => e.key | none => []),
             (match (SB.putAll o SB.init atts).2.accepted.getLast? with | some e => e.key | none => MAX_KEY),
             f.fin.smallest, f.fin.biggest, f.bytes.length⟩
            (decide (r = .tail)) t' :=
  Blue.SstOpen.sst_damage_detected_or_harmless crc o atts filter setsum f s1 hs1 hseal hts hwfE hwfD hfitE hfitD
    hsetsum hfilter hsize hcrc d r hv hagree hyp

/-- **the tail replaced by bytes of any length** (damage, a cut inside the final block, bytes
    appended after the trailer): rejected, or the same table resized -/
theorem sst_tail_replaced (d : List Nat) (hd : f.fin.filter.limit ≤ d.length)
    (hhead : ∀ i, i < f.fin.filter.limit → d[i]? = f.bytes[i]?) (hnr : SstRegion.Hyp crc f d .tail) :
    (∃ e, openSst crc d = .error e)
    ∨ ∃ t', openSst crc d = .ok t' ∧ t'.fileSize = d.length ∧ t'.fin.index = f.fin.index ∧ t'.fin.filter = f.fin.filter
        ∧ frameAt d t'.fin.filter = frameAt f.bytes f.fin.filter
        ∧ SameTableResized crc (SB.putAll o SB.init atts).2.accepted t' :=
  Blue.SstOpen.sst_tail_replaced crc o atts filter setsum f s1 hs1 hseal hts hwfE hwfD hfitE hfitD
    hsetsum hfilter hsize hcrc d hd hhead hnr

/-- **sst_truncated_rejected_or_same**: the image cut at any length -/
theorem sst_truncated_rejected_or_same (n : Nat) (hnr : SstRegion.Hyp crc f (f.bytes.take n) .tail) :
    (∃ e, openSst crc (f.bytes.take n) = .error e)
    ∨ (f.fin.filter.limit ≤ n ∧ ∃ t', openSst crc (f.bytes.take n) = .ok t' ∧ t'.fileSize = (f.bytes.take n).length
        ∧ SameTableResized crc (SB.putAll o SB.init atts).2.accepted t') :=
  Blue.SstOpen.sst_truncated_rejected_or_same crc o atts filter setsum f s1 hs1 hseal hts hwfE hwfD hfitE hfitD
    hsetsum hfilter hsize hcrc n hnr

/-- **sst_extended_rejected_or_same**: bytes appended after the trailer (which the code reads from
    the END of the file): rejected, or accepted as the same table resized — with whatever setsum and
    timestamps the appended bytes carry if they parse as a final block naming the original index and
    filter triples (D-10) -/
theorem sst_extended_rejected_or_same (sfx : List Nat) (hnr : SstRegion.Hyp crc f (f.bytes ++ sfx) .tail) :
    (∃ e, openSst crc (f.bytes ++ sfx) = .error e)
    ∨ ∃ t', openSst crc (f.bytes ++ sfx) = .ok t' ∧ t'.fileSize = f.bytes.length + sfx.length
        ∧ SameTableResized crc (SB.putAll o SB.init atts).2.accepted t' :=
  Blue.SstOpen.sst_extended_rejected_or_same crc o atts filter setsum f s1 hs1 hseal hts hwfE hwfD hfitE hfitD
    hsetsum hfilter hsize hcrc sfx hnr

end builder

/-- non-vacuity on the bytes of a real SST (kernel evaluation): for one flipped bit in a data block,
    in the index block's payload and frame header, in the filter block, in the setsum and in the
    trailer the hypotheses of the region theorems hold together and the outcome is the one they allow;
    cuts are rejected; the final block appended once more is the same table resized -/
theorem sst_region_witnesses :
    Blue.DamageExamples.dataCheck = true ∧ Blue.DamageExamples.indexFilterCheck = true
    ∧ Blue.DamageExamples.tailCheck = true ∧ Blue.DamageExamples.resizeCheck = true :=
  ⟨Blue.DamageExamples.data_witness, Blue.DamageExamples.index_filter_witness,
   Blue.DamageExamples.tail_witness, Blue.DamageExamples.resize_witness⟩

/-- the four checks the detection theorems lean on are in the source as the models state them -/
theorem detection_checks_in_source :
    Blue.Generated.sstBlockCrcMismatchIsError = 1 ∧ Blue.Generated.sstFilterCrcMismatchIsError = 1
    ∧ Blue.Generated.logShortPayloadIsError = 1
    ∧ Blue.Generated.logTrueUpBound = "HEADER_MAX_SIZE" ∧ Blue.Generated.logTrueUpChecksZero = 1
    ∧ Blue.Generated.maniSeparatorExact = 1 :=
  Blue.ConstsTie.c09_detection_checks_in_source

/-! ## log: damage of any shape inside one region of one append -/
section logdamage
open Blue.Log Blue.Damage
variable {P : Params}

/-- **payload of a frame** (`WHOLE`, `FIRST` or `SECOND`, with or without leading padding): the
    batches appended before, then an error.  The only hypothesis about the checksum: the damaged
    payload bytes do not have the original payload's CRC. -/
theorem log_payload_damage_detected (g : Good P) (bufs1 : List (List Nat)) (b : List Nat) (bufs2 : List (List Nat))
    (hsz : ∀ x ∈ bufs1, x.length ≤ P.tableFull) (hb : b.length ≤ P.tableFull) (d : List Nat)
    (s disc : Nat) (p : List Nat) (hmem : (s, disc, p) ∈ framesOf P 2 (writeAll P bufs1 0).length b)
    (hag : ∀ i, i < payOff P s disc p → d[i]? = (writeAll P (bufs1 ++ b :: bufs2) 0)[i]?)
    (hcrc : P.crc (slice d (payOff P s disc p) p.length) ≠ P.crc p) (k : Nat) :
    readSome P d (bufs1.length + 1 + k) 0 = (bufs1, true) :=
  Blue.Log.log_payload_damage_detected g bufs1 b bufs2 hsz hb d s disc p hmem hag hcrc k

/-- **header-length byte and header of a frame**: `hnc` — a header that names other payload bytes or
    another checksum fails its CRC check; `hne` — the frame was not turned into padding that runs to
    the end of the file; `hdisc` — the discriminant, which no checksum covers, was not turned from
    `WHOLE` into `FIRST` or back (`disc_outside_checksum`: it cannot be dropped).  The batches before
    and an error — or the bytes still decode to the header that was written and the file reads as
    the pristine one. -/
theorem log_header_damage_detected (g : Good P) (bufs1 : List (List Nat)) (b : List Nat) (bufs2 : List (List Nat))
    (hsz : ∀ x ∈ bufs1, x.length ≤ P.tableFull) (hb : b.length ≤ P.tableFull)
    (d : List Nat) (hlen : d.length = (writeAll P (bufs1 ++ b :: bufs2) 0).length)
    (s disc : Nat) (p : List Nat) (hmem : (s, disc, p) ∈ framesOf P 2 (writeAll P bufs1 0).length b)
    (hag : ∀ i, i < s ∨ payOff P s disc p ≤ i → d[i]? = (writeAll P (bufs1 ++ b :: bufs2) 0)[i]?)
    (hnc : ∀ h' o', nextHeader P d 2 s = .ok (h', o') → o' + h'.size ≤ d.length →
      (o' = payOff P s disc p ∧ h'.size = p.length ∧ h'.crc = P.crc p) ∨ P.crc (slice d o' h'.size) ≠ h'.crc)
    (hne : disc ≠ SECOND → nextHeader P d 2 s ≠ .eof)
    (hdisc : disc ≠ SECOND → ∀ h' o', nextHeader P d 2 s = .ok (h', o') →
      h'.disc = disc ∨ (h'.disc ≠ WHOLE ∧ h'.disc ≠ FIRST)) :
    (∀ k, readSome P d (bufs1.length + 1 + k) 0 = (bufs1, true))
    ∨ (nextHeader P d 2 s = .ok (⟨p.length, disc, P.crc p⟩, payOff P s disc p)
        ∧ ∀ n, readSome P d n 0 = readSome P (writeAll P (bufs1 ++ b :: bufs2) 0) n 0) :=
  Blue.Log.log_header_damage_detected g bufs1 b bufs2 hsz hb d hlen s disc p hmem hag hnc hne hdisc

/-- **a padding run** with a non-zero byte in it (`hhdr`: leading padding whose first byte became a
    header length is read as a header, which must fail its CRC: `padding_injection`) -/
theorem log_padding_damage_detected (g : Good P) (bufs1 : List (List Nat)) (b : List Nat) (bufs2 : List (List Nat))
    (hsz : ∀ x ∈ bufs1, x.length ≤ P.tableFull) (hb : b.length ≤ P.tableFull) (d : List Nat) (lo hi : Nat)
    (hmem : (lo, hi) ∈ padRunsOf P (writeAll P bufs1 0).length (framesOf P 2 (writeAll P bufs1 0).length b))
    (hag : ∀ i, i < lo → d[i]? = (writeAll P (bufs1 ++ b :: bufs2) 0)[i]?)
    (hnz : ∃ i x, lo ≤ i ∧ i < hi ∧ d[i]? = some x ∧ x ≠ 0)
    (hhdr : lo = (writeAll P bufs1 0).length → ∀ y, d[lo]? = some y → y ≠ 0 → ∀ h' o',
      nextHeader P d 2 lo = .ok (h', o') → o' + h'.size ≤ d.length → P.crc (slice d o' h'.size) ≠ h'.crc)
    (k : Nat) : readSome P d (bufs1.length + 1 + k) 0 = (bufs1, true) :=
  Blue.Log.log_padding_damage_detected g bufs1 b bufs2 hsz hb d lo hi hmem hag hnz hhdr k

/-- **log_damage_detected_or_prefix**: whichever region of one append was damaged (`LogRegion`:
    payload, header or padding, each with its hypotheses) — the reader delivers exactly the batches
    appended before it and reports an error, `LogIterator` drained / `log_to_builder` /
    `log_to_setsum` fail; or (a header still decoding to what was written) the file is read and
    replayed exactly as the pristine log.  Never a different batch. -/
theorem log_damage_detected_or_prefix (g : Good P) (bufs1 : List (List Nat)) (b : List Nat) (bufs2 : List (List Nat))
    (hsz : ∀ x ∈ bufs1, x.length ≤ P.tableFull) (hb : b.length ≤ P.tableFull)
    (d : List Nat) (hlen : d.length = (writeAll P (bufs1 ++ b :: bufs2) 0).length)
    (hr : LogRegion P bufs1 b bufs2 d) :
    ((∀ k, readSome P d (bufs1.length + 1 + k) 0 = (bufs1, true))
      ∧ drain P d = deliver bufs1 true ∧ logToBuilder P d = .readerError ∧ logToSetsumOk P d = false)
    ∨ ((∀ n, readSome P d n 0 = readSome P (writeAll P (bufs1 ++ b :: bufs2) 0) n 0)
      ∧ drain P d = drain P (writeAll P (bufs1 ++ b :: bufs2) 0)
      ∧ logToBuilder P d = logToBuilder P (writeAll P (bufs1 ++ b :: bufs2) 0)
      ∧ logToSetsumOk P d = logToSetsumOk P (writeAll P (bufs1 ++ b :: bufs2) 0)) :=
  Blue.Log.log_damage_detected_or_prefix g bufs1 b bufs2 hsz hb d hlen hr

/-- the frames `framesOf` names are where the writer put them -/
theorem append_layout_is_framesOf (g : Good P) (pos : Nat) (buf : List Nat) :
    appendAt P 2 pos buf = layFrames P pos (framesOf P 2 pos buf) :=
  Blue.Log.appendAt_eq_layFrames g pos buf

/-- **the real header's checksum field needs no hypothesis**: any four other bytes in it decode to
    the same size and discriminant and another checksum value, which the payload does not have -/
theorem crc_field_damage_detected (crc : List Nat → Nat) (hcrc32 : ∀ l, crc l < 4294967296)
    (bufs1 : List (List Nat)) (b : List Nat) (bufs2 : List (List Nat))
    (hsz : ∀ x ∈ bufs1, x.length ≤ (realParams crc).tableFull) (hb : b.length ≤ (realParams crc).tableFull)
    (d : List Nat) (hlen : d.length = (writeAll (realParams crc) (bufs1 ++ b :: bufs2) 0).length)
    (s disc : Nat) (p : List Nat)
    (hmem : (s, disc, p) ∈ framesOf (realParams crc) 2 (writeAll (realParams crc) bufs1 0).length b)
    (hag : ∀ i, i < payOff (realParams crc) s disc p - 4 ∨ payOff (realParams crc) s disc p ≤ i →
      d[i]? = (writeAll (realParams crc) (bufs1 ++ b :: bufs2) 0)[i]?)
    (hdiff : ∃ i, payOff (realParams crc) s disc p - 4 ≤ i ∧ i < payOff (realParams crc) s disc p
      ∧ d[i]? ≠ (writeAll (realParams crc) (bufs1 ++ b :: bufs2) 0)[i]?)
    (hbyte : ∀ i x, payOff (realParams crc) s disc p - 4 ≤ i → i < payOff (realParams crc) s disc p →
      d[i]? = some x → x < 256) (k : Nat) :
    readSome (realParams crc) d (bufs1.length + 1 + k) 0 = (bufs1, true) :=
  Blue.Log.crc_field_damage_detected crc hcrc32 bufs1 b bufs2 hsz hb d hlen s disc p hmem hag hdiff hbyte k

/-- **the discriminant is outside the checksum** (toy parameters; non-vacuity of the hypotheses of
    `log_header_damage_detected` except `hdisc`, and the reason `hdisc` is there): a `FIRST`
    discriminant overwritten with `WHOLE` makes the reader deliver the first part of the batch as a
    batch before it reports the error at the orphaned `SECOND` frame -/
theorem disc_outside_checksum :
    framesOf toyFrameParams 2 0 toyBatch = [(0, FIRST, toyBatch.take 12), (16, SECOND, toyBatch.drop 12)]
    ∧ payOff toyFrameParams 0 FIRST (toyBatch.take 12) = 4
    ∧ toyLogDisc.length = toyLog.length
    ∧ (∀ i, i < 0 ∨ 4 ≤ i → toyLogDisc[i]? = toyLog[i]?)
    ∧ nextHeader toyFrameParams toyLogDisc 2 0
        = .ok (⟨12, WHOLE, toyFrameParams.crc (toyBatch.take 12)⟩, 4)
    ∧ readSome toyFrameParams toyLog 3 0 = ([toyBatch], false)
    ∧ readSome toyFrameParams toyLogDisc 3 0 = ([toyBatch.take 12], true) :=
  Blue.Log.disc_outside_checksum_example

/-- **padding turned into a frame** (toy parameters): two padding bytes overwritten so that the run
    spells an empty `WHOLE` frame with a matching checksum — the reader delivers an invented empty
    batch and goes on; `hhdr` of `log_padding_damage_detected` cannot be dropped -/
theorem padding_injection :
    padRunsOf toyFrameParams 12 (framesOf toyFrameParams 2 12 [9, 10, 11]) = [(12, 16)]
    ∧ (writeAll toyFrameParams [[1, 2, 3, 4, 5, 6, 7, 8]] 0).length = 12
    ∧ nextHeader toyFrameParams toyLogPadInjected 2 12 = .ok (⟨0, WHOLE, 0⟩, 16)
    ∧ toyFrameParams.crc (slice toyLogPadInjected 16 0) = 0
    ∧ readSome toyFrameParams toyLogPad 3 0 = ([[1, 2, 3, 4, 5, 6, 7, 8], [9, 10, 11]], false)
    ∧ readSome toyFrameParams toyLogPadInjected 4 0 = ([[1, 2, 3, 4, 5, 6, 7, 8], [], [9, 10, 11]], false) :=
  Blue.Log.padding_injection_example

/-- **the discriminant swapped from `FIRST` to `WHOLE`** (the case `hdisc` excludes), at the level
    the code's API has — `LogIterator::next` hands out entries, not batches: the reader delivers a
    prefix of the genuine ENTRIES and then an error, `log_to_builder` and `log_to_setsum` fail.  (At
    the level of batch buffers the first part of the split batch is delivered as a buffer:
    `log_first_as_whole_fragment`; its entries are a prefix of the batch's entries because the
    decoders are prefix-monotone, `batch_fragment_entries_prefix`.) -/
theorem log_first_as_whole_entries_prefix (g : Good P) (bufs1 : List (List Nat)) (b : List Nat) (bufs2 : List (List Nat))
    (hsz : ∀ x ∈ bufs1, x.length ≤ P.tableFull) (hb : b.length ≤ P.tableFull)
    (d : List Nat) (hlen : d.length = (writeAll P (bufs1 ++ b :: bufs2) 0).length)
    (s : Nat) (p : List Nat) (hmem : (s, FIRST, p) ∈ framesOf P 2 (writeAll P bufs1 0).length b)
    (hag : ∀ i, i < s ∨ payOff P s FIRST p ≤ i → d[i]? = (writeAll P (bufs1 ++ b :: bufs2) 0)[i]?)
    (hnc : ∀ h' o', nextHeader P d 2 s = .ok (h', o') → o' + h'.size ≤ d.length →
      (o' = payOff P s FIRST p ∧ h'.size = p.length ∧ h'.crc = P.crc p) ∨ P.crc (slice d o' h'.size) ≠ h'.crc)
    (hne : nextHeader P d 2 s ≠ .eof)
    (hW : ∀ h' o', nextHeader P d 2 s = .ok (h', o') → h'.disc = WHOLE)
    (hclean : ∀ x ∈ bufs1 ++ [b], (batchEntries (x.length + 1) x).2 = false) :
    (drain P d).2 = true ∧ (∃ more, (deliver (bufs1 ++ [b]) false).1 = (drain P d).1 ++ more)
    ∧ logToBuilder P d = .readerError ∧ logToSetsumOk P d = false :=
  Blue.Log.log_first_as_whole_entries_prefix g bufs1 b bufs2 hsz hb d hlen s p hmem hag hnc hne hW hclean

/-- … at the level of batch buffers: detected at once, or the fragment and then the error -/
theorem log_first_as_whole_fragment (g : Good P) (bufs1 : List (List Nat)) (b : List Nat) (bufs2 : List (List Nat))
    (hsz : ∀ x ∈ bufs1, x.length ≤ P.tableFull) (hb : b.length ≤ P.tableFull)
    (d : List Nat) (hlen : d.length = (writeAll P (bufs1 ++ b :: bufs2) 0).length)
    (s : Nat) (p : List Nat) (hmem : (s, FIRST, p) ∈ framesOf P 2 (writeAll P bufs1 0).length b)
    (hag : ∀ i, i < s ∨ payOff P s FIRST p ≤ i → d[i]? = (writeAll P (bufs1 ++ b :: bufs2) 0)[i]?)
    (hnc : ∀ h' o', nextHeader P d 2 s = .ok (h', o') → o' + h'.size ≤ d.length →
      (o' = payOff P s FIRST p ∧ h'.size = p.length ∧ h'.crc = P.crc p) ∨ P.crc (slice d o' h'.size) ≠ h'.crc)
    (hne : nextHeader P d 2 s ≠ .eof)
    (hW : ∀ h' o', nextHeader P d 2 s = .ok (h', o') → h'.disc = WHOLE) :
    ∃ n, p = b.take n ∧ ((∀ k, readSome P d (bufs1.length + 1 + k) 0 = (bufs1, true))
                        ∨ (∀ k, readSome P d (bufs1.length + 2 + k) 0 = (bufs1 ++ [b.take n], true))) :=
  Blue.Log.log_first_as_whole_fragment g bufs1 b bufs2 hsz hb d hlen s p hmem hag hnc hne hW

/-- the entries decoded from a fragment of a batch buffer are a prefix of the batch's entries -/
theorem batch_fragment_entries_prefix (b : List Nat) (n F F' : Nat) (hF' : b.length < F') :
    ∃ more, (batchEntries F' b).1 = (batchEntries F (b.take n)).1 ++ more :=
  Blue.Damage.batchEntries_take b n F F' hF'

/-- **the discriminant of the LAST append's `WHOLE` frame turned into anything else** (`FIRST`
    included): detected.  (With further appends behind it: `log_whole_not_whole_detected` /
    `log_whole_to_first_detected` in the block `LogDamageMulti` below.) -/
theorem log_whole_not_whole_at_eof_detected (g : Good P) (bufs1 : List (List Nat)) (b : List Nat)
    (hsz : ∀ x ∈ bufs1, x.length ≤ P.tableFull) (hb : b.length ≤ P.tableFull)
    (d : List Nat) (hlen : d.length = (writeAll P (bufs1 ++ [b]) 0).length)
    (s : Nat) (p : List Nat) (hmem : (s, WHOLE, p) ∈ framesOf P 2 (writeAll P bufs1 0).length b)
    (hag : ∀ i, i < s ∨ payOff P s WHOLE p ≤ i → d[i]? = (writeAll P (bufs1 ++ [b]) 0)[i]?)
    (hnc : ∀ h' o', nextHeader P d 2 s = .ok (h', o') → o' + h'.size ≤ d.length →
      (o' = payOff P s WHOLE p ∧ h'.size = p.length ∧ h'.crc = P.crc p) ∨ P.crc (slice d o' h'.size) ≠ h'.crc)
    (hne : nextHeader P d 2 s ≠ .eof)
    (hchg : ∀ h' o', nextHeader P d 2 s = .ok (h', o') → h'.disc ≠ WHOLE) (k : Nat) :
    readSome P d (bufs1.length + 1 + k) 0 = (bufs1, true) :=
  Blue.Log.log_whole_not_whole_at_eof_detected g bufs1 b hsz hb d hlen s p hmem hag hnc hne hchg k

end logdamage

/-- **a limit of the format** (finding D-29): zeros from a header-length position up to a block
    boundary at most `HEADER_MAX_SIZE` bytes further on are padding to the reader, whatever was there
    before -/
theorem zero_run_is_padding (P : Blue.Log.Params) (file : List Nat) (fuel off : Nat) (h0 : file[off]? = some 0)
    (hd : Blue.Log.trueUp P (off + 1) - (off + 1) ≤ P.H)
    (hz : Blue.Log.padZero file (off + 1) (Blue.Log.trueUp P (off + 1)) = true) :
    Blue.Log.nextHeader P file (fuel + 1) off = Blue.Log.nextHeader P file fuel (Blue.Log.trueUp P (off + 1)) :=
  Blue.Damage.zero_run_is_padding P file fuel off h0 hd hz

/-- … so a whole frame inside that window overwritten with zeros byte for byte is lost without a
    trace (toy parameters: the reader hands out the header of the frame on the boundary) -/
theorem zeroed_frame_is_padding :
    Blue.Log.nextHeader Blue.Damage.toyParams Blue.Damage.toyFrameZeroed 2 44 = .ok (⟨0, 1, 0⟩, 66) :=
  Blue.Damage.zeroed_frame_is_padding


/-! ## manifest: one line replaced by any bytes (`Blue.Damage.iterate`, the reader that follows
    `BufRead::lines`) -/
section manidamage
open Blue.Mani Blue.Damage
variable (crc : List Nat → Nat)

/-- what the writer wrote is read back edit for edit by the faithful reader -/
theorem manifest_items_roundtrip (hcrc : CrcOk crc) (es : List Edit) (hok : ∀ e ∈ es, e.Ok ∧ e.Canon) :
    items crc (es.flatMap (encodeEdit crc)) = es.map .edit
    ∧ openState crc (es.flatMap (encodeEdit crc)) = .ok (es.foldl applyEdit ⟨[], []⟩) :=
  Blue.Damage.items_roundtrip crc hcrc es hok

/-- **manifest_damage_detected_or_prefix**: line `j` of transaction `e` (an item line or the
    separator) replaced by ANY bytes `T'` without a newline (any length).  `hnc` — the only
    hypothesis about the checksum: the line does not carry the CRC of its own text; `hsep`: it is not
    the separator.  The iterator returns exactly the edits before `e`, then one error, then nothing
    (every error poisons it): `e` is never delivered, in whole or in part, never fused with its
    neighbour, and no later edit is ever returned; `Manifest::open` fails. -/
theorem manifest_damage_detected_or_prefix (hcrc : CrcOk crc) (es1 : List Edit) (e : Edit) (es2 : List Edit)
    (hok1 : ∀ x ∈ es1, x.Ok ∧ x.Canon) (hoke : e.Ok) (j : Nat) (hj : j < (editLines e).length)
    (T' : List Nat) (hnl : ∀ b ∈ T', b ≠ 10)
    (hnc : LineCrcDetects crc (stripCr T')) (hsep : stripCr T' ≠ SEP) (d : List Nat)
    (hd : d = (linesOf es1 ++ (editLines e).take j).flatMap (Ln.bytes crc) ++ T' ++ [10]
            ++ ((editLines e).drop (j + 1) ++ linesOf es2).flatMap (Ln.bytes crc)) :
    ∃ err, err.isErr = true ∧ items crc d = es1.map .edit ++ [err]
      ∧ editsBeforeError (items crc d) = (es1, some err) ∧ openState crc d = .error err :=
  Blue.Damage.manifest_damage_detected_or_prefix crc hcrc es1 e es2 hok1 hoke j hj T' hnl hnc hsep d hd

/-- … and for a damaged LAST line without terminator (`BufRead::lines` strips no carriage return
    there — where `iterate` and the older `readEdits` differ: `unterminated_cr_differs`) -/
theorem manifest_damage_detected_last_line (hcrc : CrcOk crc) (es1 : List Edit) (e : Edit)
    (hok1 : ∀ x ∈ es1, x.Ok ∧ x.Canon) (hoke : e.Ok) (j : Nat) (hj : j < (editLines e).length)
    (T' : List Nat) (hne : T' ≠ []) (hnl : ∀ b ∈ T', b ≠ 10)
    (hnc : LineCrcDetects crc T') (hsep : T' ≠ SEP) (d : List Nat)
    (hd : d = (linesOf es1 ++ (editLines e).take j).flatMap (Ln.bytes crc) ++ T') :
    ∃ err, err.isErr = true ∧ items crc d = es1.map .edit ++ [err]
      ∧ editsBeforeError (items crc d) = (es1, some err) ∧ openState crc d = .error err :=
  Blue.Damage.manifest_damage_detected_last_line crc hcrc es1 e hok1 hoke j hj T' hne hnl hnc hsep d hd

/-- **the separator needs no checksum**: any eight other bytes in its place are an error — two
    transactions never fuse -/
theorem separator_damage_detected (hcrc : CrcOk crc) (es1 : List Edit) (e : Edit) (es2 : List Edit)
    (hok1 : ∀ x ∈ es1, x.Ok ∧ x.Canon) (hoke : e.Ok)
    (T' : List Nat) (hlen : T'.length = 8) (hne : T' ≠ SEP) (hnl : ∀ b ∈ T', b ≠ 10) (d : List Nat)
    (hd : d = (linesOf es1 ++ (Blue.Mani.items e).map Ln.it).flatMap (Ln.bytes crc) ++ T' ++ [10]
            ++ (linesOf es2).flatMap (Ln.bytes crc)) :
    ∃ err, err.isErr = true ∧ items crc d = es1.map .edit ++ [err]
      ∧ editsBeforeError (items crc d) = (es1, some err) ∧ openState crc d = .error err :=
  Blue.Damage.separator_damage_detected crc hcrc es1 e es2 hok1 hoke T' hlen hne hnl d hd

/-- **the separator is recognised by equality**: a line that merely starts with it is not a
    separator (it is `corruption`) — a transaction cannot be split by such a line.  (Tied to the
    source by `detection_checks_in_source`: `line == TX_SEPARATOR`.) -/
theorem separator_is_exact (x : List Nat) (hx : x ≠ []) :
    parseLine crc (SEP ++ x) ≠ .sep ∧ parseLine crc (SEP ++ x) = .corrupt :=
  ⟨Blue.Damage.sep_is_exact crc x hx, Blue.Damage.sep_prefix_corrupt crc x hx⟩

/-- **a newline overwritten** fuses two lines into one, which must carry the CRC of its own text -/
theorem newline_damage_detected (hcrc : CrcOk crc) (es : List Edit) (hok : ∀ e ∈ es, e.Ok ∧ e.Canon)
    (k : Nat) (l1 l2 : Ln) (h1 : (linesOf es)[k]? = some l1) (h2 : (linesOf es)[k + 1]? = some l2)
    (x : Nat) (hx : x ≠ 10)
    (hnc : LineCrcDetects crc (stripCr (l1.text crc ++ [x] ++ l2.text crc))) (d : List Nat)
    (hd : d = apply (es.flatMap (encodeEdit crc))
            (.over ((((linesOf es).take k).flatMap (Ln.bytes crc)).length + (l1.text crc).length) x)) :
    ∃ c, c < es.length ∧ (linesOf (es.take c)).length ≤ k ∧ k < (linesOf (es.take (c + 1))).length
      ∧ (∃ err, err.isErr = true ∧ items crc d = (es.take c).map .edit ++ [err]
            ∧ editsBeforeError (items crc d) = (es.take c, some err) ∧ openState crc d = .error err) :=
  Blue.Damage.newline_damage_detected crc hcrc es hok k l1 l2 h1 h2 x hx hnc d hd

/-- … the last newline of the file: no hypothesis (`--------x` is nine bytes) -/
theorem final_newline_damage_detected (hcrc : CrcOk crc) (es1 : List Edit) (e : Edit)
    (hok1 : ∀ x ∈ es1, x.Ok ∧ x.Canon) (hoke : e.Ok) (x : Nat) (hx : x ≠ 10) (d : List Nat)
    (hd : d = apply ((es1 ++ [e]).flatMap (encodeEdit crc))
            (.over (((es1 ++ [e]).flatMap (encodeEdit crc)).length - 1) x)) :
    ∃ err, err.isErr = true ∧ items crc d = es1.map .edit ++ [err]
      ∧ editsBeforeError (items crc d) = (es1, some err) ∧ openState crc d = .error err :=
  Blue.Damage.final_newline_damage_detected crc hcrc es1 e hok1 hoke x hx d hd

/-- **torn_manifest, for the reader that follows `BufRead::lines`**: a MANIFEST cut at any byte
    reads as a prefix of whole edits, followed by nothing or by exactly one `corruption` -/
theorem torn_manifest_lines (hcrc : CrcOk crc) (es : List Edit) (hok : ∀ e ∈ es, e.Ok ∧ e.Canon)
    (hnc : ∀ l ∈ linesOf es, l.NoCollision crc) (m : Nat) :
    ∃ c, c ≤ es.length
      ∧ (editsBeforeError (items crc ((es.flatMap (encodeEdit crc)).take m))).1 = es.take c
      ∧ ((items crc ((es.flatMap (encodeEdit crc)).take m) = (es.take c).map .edit
            ∧ openState crc ((es.flatMap (encodeEdit crc)).take m) = .ok ((es.take c).foldl applyEdit ⟨[], []⟩))
          ∨ (items crc ((es.flatMap (encodeEdit crc)).take m) = (es.take c).map .edit ++ [.corrupt]
            ∧ openState crc ((es.flatMap (encodeEdit crc)).take m) = .error .corrupt)) :=
  Blue.Damage.torn_manifest_lines crc hcrc es hok hnc m

/-- … and on a manifest of three edits under the real CRC-32C (`NoCollision` decided by kernel
    evaluation): every cut reads as a prefix of the three edits, followed by nothing or one error -/
theorem torn_three_edits (m : Nat) :
    ∃ c, c ≤ 3 ∧ (editsBeforeError (items Blue.Crc32c.crc32c
            ((es3.flatMap (encodeEdit Blue.Crc32c.crc32c)).take m))).1 = es3.take c
      ∧ ((items Blue.Crc32c.crc32c ((es3.flatMap (encodeEdit Blue.Crc32c.crc32c)).take m) = (es3.take c).map .edit
            ∧ openState Blue.Crc32c.crc32c ((es3.flatMap (encodeEdit Blue.Crc32c.crc32c)).take m)
                = .ok ((es3.take c).foldl applyEdit ⟨[], []⟩))
          ∨ (items Blue.Crc32c.crc32c ((es3.flatMap (encodeEdit Blue.Crc32c.crc32c)).take m)
                = (es3.take c).map .edit ++ [.corrupt]
            ∧ openState Blue.Crc32c.crc32c ((es3.flatMap (encodeEdit Blue.Crc32c.crc32c)).take m) = .error .corrupt)) :=
  Blue.Damage.torn_three_edits m

/-- **finding D-30, as found** (`itemsAsFound`: the reader before `/repo commit ef4f524`,
    `maniNonAsciiPoisons = 0`): the non-ASCII check returned its error WITHOUT poisoning — after a
    line that is UTF-8 but not ASCII the next item is an edit made of the rest of the damaged
    transaction (here it lacks `a`), returned as genuine -/
theorem non_ascii_line_not_poisoned :
    itemsAsFound crc0 nonAsciiManifest = [.notAscii, .edit ⟨[], [[98]], []⟩] :=
  Blue.Damage.non_ascii_line_not_poisoned

/-- … repaired: the error ends the iteration -/
theorem non_ascii_line_poisons :
    items crc0 nonAsciiManifest = [.notAscii] ∧ openState crc0 nonAsciiManifest = .error .notAscii :=
  Blue.Damage.non_ascii_line_poisons

/-- the two readers agree up to and including the first error on every input (which is why
    `Manifest::open` and every caller that stops at the first error never showed the difference),
    and on all-ASCII input altogether -/
theorem as_found_agrees_before_error (bs : List Nat) :
    editsBeforeError (items crc bs) = editsBeforeError (itemsAsFound crc bs)
    ∧ ((∀ b ∈ bs, b < 128) → items crc bs = itemsAsFound crc bs) :=
  ⟨Blue.Damage.editsBeforeError_asFound crc bs, Blue.Damage.items_eq_asFound_of_ascii crc bs⟩

/-- where `Blue.Mani.readEdits` (C13's reader) and `iterate` differ: a carriage return at the end of
    an unterminated last line -/
theorem unterminated_cr_differs :
    readEdits crc0 10 [48, 48, 48, 48, 48, 48, 48, 48, 43, 97, 10, 45, 45, 45, 45, 45, 45, 45, 45, 13] Edit.empty
      = ([⟨[], [[97]], []⟩], false)
    ∧ items crc0 [48, 48, 48, 48, 48, 48, 48, 48, 43, 97, 10, 45, 45, 45, 45, 45, 45, 45, 45, 13] = [.corrupt] :=
  Blue.Damage.unterminated_cr_differs

end manidamage

/-! ## non-vacuity of the hypotheses -/

/-- `Refines`, same entries, same length: satisfied by a table and itself; a proper instance (block 0
    fails its CRC, the other blocks load as before) is `sst_region_witnesses` / `data_block_flip_is_detected` -/
example (crc : List Nat → Nat) (t : Opened) : Refines (t.loadIdx crc) (t.loadIdx crc) := fun _ _ h => h

/-- `final_block_cases` with `f' = f`: the hypotheses on the first `a` bytes hold trivially -/
example (f : List Nat) : ∀ i, i < f.length → f[i]? = f[i]? := fun _ _ => rfl

/-- `Good` and `BigTag` of `zeroed_header_length_detected` hold for the real log's parameters -/
example (crc : List Nat → Nat) (hcrc : ∀ l, crc l < 4294967296) :
    Blue.Log.Good (Blue.Log.realParams crc) ∧ Blue.Log.BigTag (Blue.Log.realParams crc) :=
  ⟨Blue.Log.good_real crc hcrc, Blue.Log.bigTag_real crc⟩

/-- `zero_length_then_nonzero_is_error`: blocks of 64 bytes, a zero length byte 20 bytes before the
    boundary, a non-zero byte after it -/
example : Blue.Log.nextHeader ⟨64, 19, 100, fun _ => [], fun _ => none, fun _ => 0⟩
    (List.replicate 44 7 ++ [0, 9]) 1 44 = .err :=
  Blue.Damage.zero_length_then_nonzero_is_error _ _ 0 44 45 9 (by decide) (by decide) (by decide) (by decide)
    (by decide)

/-- a flip below `a` is `Below a` -/
example : (Blue.Damage.Dmg.flip 10 0).Below 197 := by show 10 < 197; decide

/-- `NoCollisionAt` holds for an undamaged frame; for damaged ones see `sst_region_witnesses` -/
example (crc : List Nat → Nat) (f : List Nat) (m : BlockMeta) : NoCollisionAt crc f f m :=
  noCollisionAt_same crc f f m rfl

/-- `AgreeOutside` -/
example (f : List Nat) : AgreeOutside f f 3 7 := agreeOutside_refl f 3 7

/-- `LineCrcDetects`: a line whose eight digits are not the checksum of the rest (toy checksum 0) -/
example : Blue.Damage.LineCrcDetects (fun _ => 0) [49, 48, 48, 48, 48, 48, 48, 48, 43, 97] := by decide

/-- `Edit.Canon` holds for what `Edit::add` builds in sorted order -/
example : (⟨[], [[97], [98]], []⟩ : Blue.Mani.Edit).Canon := by decide

-- BEGIN LogDamageMulti
/-! ## log: damage to ANY region — a header together with its payload, several frames, several
    appends, padding — and to several regions (`Blue/Proofs/LogDamageMulti.lean`)

The damaged image `d` has the length of the log and is otherwise arbitrary.  Hypotheses, each asked
only of a frame of the log whose bytes CHANGED (`slice d s _ ≠ frame P disc p`; for a frame whose
bytes are intact they are theorems, `frameHyp_of_untouched`):
`FrameNoCollision` (the CRC hypothesis, `NoCollisionAt` style: if the damaged file still shows at the
frame's offset a header whose payload bytes lie inside the file and have the CRC that header
records, these are the original payload bytes at the original extent), `DiscKept` (the
discriminant, which no checksum covers, of the first frame of an append reads as the original one
or as neither `WHOLE` nor `FIRST`; single flips: `log_disc_flip_table`), `NoFrameAt` (leading
padding whose first byte changed does not spell a frame that passes its CRC: `padding_injection`).
Excluded: exactly `ZeroedFrameInPadWindow` at a frame offset (finding D-29). -/
section logdamagemulti
open Blue.Log Blue.Damage
variable {P : Params}

/-- **any damage to any bytes** (same length), hypotheses on the changed frames only: the file reads
    as the pristine log, or the reader delivers the batches before an append whose bytes changed and
    reports an error there -/
theorem log_damage_anywhere (g : Good P) (bufs : List (List Nat)) (hsz : ∀ x ∈ bufs, x.length ≤ P.tableFull)
    (d : List Nat) (hlen : d.length = (writeAll P bufs 0).length)
    (hyp : ∀ bufs1 b bufs2, bufs = bufs1 ++ b :: bufs2 →
      TouchedHyp P d (startOf P bufs1) b ∧ TouchedNotD29 P d (startOf P bufs1) b) :
    (∀ k, readSome P d (bufs.length + 1 + k) 0 = (bufs, false))
    ∨ ∃ bufs1 b bufs2, bufs = bufs1 ++ b :: bufs2
        ∧ slice d (startOf P bufs1) (appendAt P 2 (startOf P bufs1) b).length ≠ appendAt P 2 (startOf P bufs1) b
        ∧ nextBatch P d 2 (startOf P bufs1) = .err
        ∧ ∀ k, readSome P d (bufs.length + 1 + k) 0 = (bufs1, true) :=
  Blue.Log.log_damage_anywhere g bufs hsz d hlen hyp

/-- **(1) damage to any contiguous region `[lo, hi)`** — spanning a header and its payload, several
    frames, several appends, padding: the file reads as the pristine log (every changed frame still
    decodes to what was written), or the reader delivers exactly the batches before an append that
    the region overlaps and reports an error there; `LogIterator` drained, `log_to_builder` and
    `log_to_setsum` fail.  Never a batch that was not appended, never a batch skipped. -/
theorem log_damage_any_region (g : Good P) (bufs : List (List Nat)) (hsz : ∀ x ∈ bufs, x.length ≤ P.tableFull)
    (d : List Nat) (hlen : d.length = (writeAll P bufs 0).length) (lo hi : Nat)
    (hag : ∀ i, i < lo ∨ hi ≤ i → d[i]? = (writeAll P bufs 0)[i]?)
    (hyp : ∀ bufs1 b bufs2, bufs = bufs1 ++ b :: bufs2 → TouchedHyp P d (startOf P bufs1) b)
    (hnz : ∀ bufs1 b bufs2, bufs = bufs1 ++ b :: bufs2 → TouchedNotD29 P d (startOf P bufs1) b) :
    (∀ k, readSome P d (bufs.length + 1 + k) 0 = (bufs, false))
    ∨ ∃ bufs1 b bufs2, bufs = bufs1 ++ b :: bufs2
        ∧ (lo < startOf P (bufs1 ++ [b]) ∧ startOf P bufs1 < hi)
        ∧ nextBatch P d 2 (startOf P bufs1) = .err
        ∧ (∀ k, readSome P d (bufs.length + 1 + k) 0 = (bufs1, true))
        ∧ drain P d = deliver bufs1 true ∧ logToBuilder P d = .readerError ∧ logToSetsumOk P d = false :=
  Blue.Log.log_damage_any_region g bufs hsz d hlen lo hi hag hyp hnz

/-- **(2) finitely many damaged regions** (class `damage.log.several` of the harness) -/
theorem log_damage_several_regions (g : Good P) (bufs : List (List Nat)) (hsz : ∀ x ∈ bufs, x.length ≤ P.tableFull)
    (d : List Nat) (hlen : d.length = (writeAll P bufs 0).length) (rs : List (Nat × Nat))
    (hag : ∀ i, (∀ r ∈ rs, i < r.1 ∨ r.2 ≤ i) → d[i]? = (writeAll P bufs 0)[i]?)
    (hyp : ∀ bufs1 b bufs2, bufs = bufs1 ++ b :: bufs2 → TouchedHyp P d (startOf P bufs1) b)
    (hnz : ∀ bufs1 b bufs2, bufs = bufs1 ++ b :: bufs2 → TouchedNotD29 P d (startOf P bufs1) b) :
    (∀ k, readSome P d (bufs.length + 1 + k) 0 = (bufs, false))
    ∨ ∃ bufs1 b bufs2, bufs = bufs1 ++ b :: bufs2
        ∧ (∃ r ∈ rs, r.1 < startOf P (bufs1 ++ [b]) ∧ startOf P bufs1 < r.2)
        ∧ nextBatch P d 2 (startOf P bufs1) = .err
        ∧ (∀ k, readSome P d (bufs.length + 1 + k) 0 = (bufs1, true))
        ∧ drain P d = deliver bufs1 true ∧ logToBuilder P d = .readerError ∧ logToSetsumOk P d = false :=
  Blue.Log.log_damage_several_regions g bufs hsz d hlen rs hag hyp hnz

/-- **(4) finding D-29 characterised exactly**: under the checksum and discriminant hypotheses
    alone, an image read neither as the pristine log nor as a prefix of the batches followed by an
    error has a frame offset of the log in the class `ZeroedFrameInPadWindow` -/
theorem log_damage_outside_d29_never_silent (g : Good P) (bufs : List (List Nat))
    (hsz : ∀ x ∈ bufs, x.length ≤ P.tableFull)
    (d : List Nat) (hlen : d.length = (writeAll P bufs 0).length)
    (hyp : ∀ bufs1 b bufs2, bufs = bufs1 ++ b :: bufs2 → TouchedHyp P d (startOf P bufs1) b) (k : Nat)
    (hsilent : readSome P d (bufs.length + 1 + k) 0 ≠ (bufs, false)
      ∧ ¬ ∃ bufs1 b bufs2, bufs = bufs1 ++ b :: bufs2 ∧ readSome P d (bufs.length + 1 + k) 0 = (bufs1, true)) :
    ∃ bufs1 b bufs2 s disc p, bufs = bufs1 ++ b :: bufs2
      ∧ (s, disc, p) ∈ framesOf P 2 (startOf P bufs1) b ∧ ZeroedFrameInPadWindow P d s :=
  Blue.Log.log_damage_outside_d29_never_silent g bufs hsz d hlen hyp k hsilent

/-- the per-frame hypotheses are theorems for a frame whose bytes are intact -/
theorem frame_hyps_of_untouched (g : Good P) (d : List Nat) (s disc : Nat) (p : List Nat)
    (hsz : p.length ≤ P.tableFull) (hdisc : disc < 128)
    (hle : s + (frame P disc p).length ≤ d.length)
    (hun : slice d s (frame P disc p).length = frame P disc p) :
    FrameNoCollision P d s disc p ∧ DiscKept P d s disc ∧ ¬ ZeroedFrameInPadWindow P d s :=
  Blue.Log.frameHyp_of_untouched g d s disc p hsz hdisc hle hun

/-- **(3a) a `WHOLE` discriminant turned into anything else, `FIRST` included, with any appends
    behind it**: the batches before, then an error (`log_whole_not_whole_at_eof_detected` without
    the restriction to the last append) -/
theorem log_whole_not_whole_detected (g : Good P) (bufs1 : List (List Nat)) (b : List Nat)
    (bufs2 : List (List Nat))
    (hsz : ∀ x ∈ bufs1, x.length ≤ P.tableFull) (hb : b.length ≤ P.tableFull)
    (hsz2 : ∀ x ∈ bufs2, x.length ≤ P.tableFull)
    (d : List Nat) (hlen : d.length = (writeAll P (bufs1 ++ b :: bufs2) 0).length)
    (s : Nat) (p : List Nat)
    (hmem : (s, WHOLE, p) ∈ framesOf P 2 (writeAll P bufs1 0).length b)
    (hag : ∀ i, i < s ∨ payOff P s WHOLE p ≤ i → d[i]? = (writeAll P (bufs1 ++ b :: bufs2) 0)[i]?)
    (hnc : ∀ h' o', nextHeader P d 2 s = .ok (h', o') → o' + h'.size ≤ d.length →
      (o' = payOff P s WHOLE p ∧ h'.size = p.length ∧ h'.crc = P.crc p) ∨ P.crc (slice d o' h'.size) ≠ h'.crc)
    (hne : nextHeader P d 2 s ≠ .eof)
    (hchg : ∀ h' o', nextHeader P d 2 s = .ok (h', o') → h'.disc ≠ WHOLE) (k : Nat) :
    readSome P d (bufs1.length + 1 + k) 0 = (bufs1, true) :=
  Blue.Log.log_whole_not_whole_detected g bufs1 b bufs2 hsz hb hsz2 d hlen s p hmem hag hnc hne hchg k

/-- **(3b) `WHOLE` read as `FIRST` with further appends behind it is an error**: where the reader
    looks for the `SECOND` half the pristine log has the end of the file, a byte that is not
    padding, or the next append's `WHOLE` / `FIRST` frame -/
theorem log_whole_to_first_detected (g : Good P) (bufs1 : List (List Nat)) (b : List Nat)
    (bufs2 : List (List Nat))
    (hsz : ∀ x ∈ bufs1, x.length ≤ P.tableFull) (hb : b.length ≤ P.tableFull)
    (hsz2 : ∀ x ∈ bufs2, x.length ≤ P.tableFull)
    (d : List Nat) (hlen : d.length = (writeAll P (bufs1 ++ b :: bufs2) 0).length)
    (s : Nat) (p : List Nat)
    (hmem : (s, WHOLE, p) ∈ framesOf P 2 (writeAll P bufs1 0).length b)
    (hag : ∀ i, i < s ∨ payOff P s WHOLE p ≤ i → d[i]? = (writeAll P (bufs1 ++ b :: bufs2) 0)[i]?)
    (hflip : nextHeader P d 2 s = .ok (⟨p.length, FIRST, P.crc p⟩, payOff P s WHOLE p)) (k : Nat) :
    readSome P d (bufs1.length + 1 + k) 0 = (bufs1, true) :=
  Blue.Log.log_whole_to_first_detected g bufs1 b bufs2 hsz hb hsz2 d hlen s p hmem hag hflip k

/-- **(3c) the table of discriminant flips**, one frame `(s, disc, p)` of any append of any log read
    with the discriminant `disc'` (size, checksum, payload offset as written): the same
    discriminant — the file reads as the pristine log; `FIRST` read as `WHOLE` — the batches before,
    the fragment `b.take n`, then an error (at the level of entries still a prefix:
    `log_first_as_whole_entries_prefix`); every other pair (`WHOLE` as `FIRST`, `WHOLE` / `FIRST` as
    `SECOND` or an unknown value, `SECOND` as anything else) — the batches before, then an error -/
theorem log_disc_flip_table (g : Good P) (bufs1 : List (List Nat)) (b : List Nat)
    (bufs2 : List (List Nat))
    (hsz : ∀ x ∈ bufs1, x.length ≤ P.tableFull) (hb : b.length ≤ P.tableFull)
    (hsz2 : ∀ x ∈ bufs2, x.length ≤ P.tableFull)
    (d : List Nat) (hlen : d.length = (writeAll P (bufs1 ++ b :: bufs2) 0).length)
    (s disc : Nat) (p : List Nat)
    (hmem : (s, disc, p) ∈ framesOf P 2 (writeAll P bufs1 0).length b)
    (hag : ∀ i, i < s ∨ payOff P s disc p ≤ i → d[i]? = (writeAll P (bufs1 ++ b :: bufs2) 0)[i]?)
    (disc' : Nat)
    (hflip : nextHeader P d 2 s = .ok (⟨p.length, disc', P.crc p⟩, payOff P s disc p)) :
    (disc' = disc → ∀ n, readSome P d n 0 = readSome P (writeAll P (bufs1 ++ b :: bufs2) 0) n 0)
    ∧ (disc = FIRST → disc' = WHOLE →
        ∃ n, p = b.take n ∧ ∀ k, readSome P d (bufs1.length + 2 + k) 0 = (bufs1 ++ [b.take n], true))
    ∧ (disc' ≠ disc → ¬ (disc = FIRST ∧ disc' = WHOLE) →
        ∀ k, readSome P d (bufs1.length + 1 + k) 0 = (bufs1, true)) :=
  Blue.Log.log_disc_flip_table g bufs1 b bufs2 hsz hb hsz2 d hlen s disc p hmem hag disc' hflip

/-- `FrameNoCollision` follows from the CRC hypotheses of the single-region theorems together -/
theorem frame_no_collision_of_header_and_payload (d : List Nat) (s disc : Nat) (p : List Nat)
    (hH : ∀ h' o', nextHeader P d 1 s = .ok (h', o') → o' + h'.size ≤ d.length →
      (o' = payOff P s disc p ∧ h'.size = p.length ∧ h'.crc = P.crc p) ∨ P.crc (slice d o' h'.size) ≠ h'.crc)
    (hP : P.crc (slice d (payOff P s disc p) p.length) = P.crc p → slice d (payOff P s disc p) p.length = p) :
    FrameNoCollision P d s disc p :=
  Blue.Log.frameNoCollision_of_parts d s disc p hH hP

/-- **`DiscKept` cannot be dropped when the damage spans two appends** (toy parameters): the
    discriminant byte of the 2nd append overwritten with `FIRST` and that of the 3rd with `SECOND` —
    every frame passes its CRC check (`ncCheck`), and the reader delivers the two batches fused into
    one that was never appended, without an error.  The entries `LogIterator::next` hands out are
    those of the concatenated buffers, i.e. the genuine entries in order. -/
theorem disc_fusion :
    readSome toyFrameParams toy3Log 4 0 = ([[1, 2, 3], [4, 5], [6]], false)
    ∧ readSome toyFrameParams toy3Fused 4 0 = ([[1, 2, 3], [4, 5, 6]], false)
    ∧ logCheck toyFrameParams true toy3Fused toy3 0 = false
    ∧ ncCheck toyFrameParams toy3Fused 7 WHOLE [4, 5] = true
    ∧ ncCheck toyFrameParams toy3Fused 16 WHOLE [6] = true
    ∧ dcCheck toyFrameParams toy3Fused 7 WHOLE = false :=
  Blue.Log.disc_fusion_example

/-! ### non-vacuity (toy parameters `B = 16`, `H = 4`; the hypotheses decided by `logCheck`) -/

/-- the toy logs and what the reader makes of the damaged images -/
example :
    toy3Log = [3, 3, 1, 6, 1, 2, 3,  3, 2, 1, 9, 4, 5,  0, 0, 0,  3, 1, 1, 6, 6]
    ∧ readSome toyFrameParams toy3Log 4 0 = (toy3, false)
    ∧ readSome toyFrameParams toy3HdrPay 4 0 = ([[1, 2, 3]], true)
    ∧ readSome toyFrameParams toy3TwoAppends 4 0 = ([[1, 2, 3]], true)
    ∧ readSome toyFrameParams toy3TwoRegions 4 0 = ([], true)
    ∧ readSome toyFrameParams toy3WholeFirst 4 0 = ([[1, 2, 3]], true) := by decide

/-- (1) on damage spanning the header (checksum field) and the payload of the 2nd append -/
example := log_damage_any_region good_toyFrame toy3 (by decide) toy3HdrPay (by decide) 10 12
    (agree_of_bounded _ _ (by decide) _
      (by decide : ∀ i, i < toy3HdrPay.length → (i < 10 ∨ 12 ≤ i) → toy3HdrPay[i]? = toy3Log[i]?))
    (fun b1 b b2 h => (hyps_of_logCheck (z := true) (by decide) b1 b b2 h).1)
    (fun b1 b b2 h => (hyps_of_logCheck (z := true) (by decide) b1 b b2 h).2 rfl)

/-- (1) on damage spanning the 2nd append's payload, the padding and the 3rd append -/
example := log_damage_any_region good_toyFrame toy3 (by decide) toy3TwoAppends (by decide) 12 21
    (agree_of_bounded _ _ (by decide) _
      (by decide : ∀ i, i < toy3TwoAppends.length → (i < 12 ∨ 21 ≤ i) → toy3TwoAppends[i]? = toy3Log[i]?))
    (fun b1 b b2 h => (hyps_of_logCheck (z := true) (by decide) b1 b b2 h).1)
    (fun b1 b b2 h => (hyps_of_logCheck (z := true) (by decide) b1 b b2 h).2 rfl)

/-- `log_damage_anywhere` on the same image -/
example := log_damage_anywhere good_toyFrame toy3 (by decide) toy3TwoAppends (by decide)
    (fun b1 b b2 h => ⟨(hyps_of_logCheck (z := true) (by decide) b1 b b2 h).1,
      (hyps_of_logCheck (z := true) (by decide) b1 b b2 h).2 rfl⟩)

/-- (2) on two disjoint regions -/
example := log_damage_several_regions good_toyFrame toy3 (by decide) toy3TwoRegions (by decide) [(5, 6), (20, 21)]
    (agree_of_bounded _ _ (by decide) _
      (by decide : ∀ i, i < toy3TwoRegions.length → (∀ r ∈ [(5, 6), (20, 21)], i < r.1 ∨ r.2 ≤ i) →
        toy3TwoRegions[i]? = toy3Log[i]?))
    (fun b1 b b2 h => (hyps_of_logCheck (z := true) (by decide) b1 b b2 h).1)
    (fun b1 b b2 h => (hyps_of_logCheck (z := true) (by decide) b1 b b2 h).2 rfl)

/-- **the exclusion of D-29 is needed**: an empty batch's `WHOLE` frame at 12..16, inside the padding
    window of the boundary 16, overwritten with zeros — every checksum / discriminant / padding
    hypothesis holds (`logCheck … false`), the frame offset 12 is in the class, and the reader
    delivers the first and the third batch and ends cleanly: the second is lost in silence -/
example :
    logCheck toyFrameParams false toyD29Zeroed toyD29 0 = true
    ∧ logCheck toyFrameParams true toyD29Zeroed toyD29 0 = false
    ∧ framesOf toyFrameParams 2 12 [] = [(12, WHOLE, [])]
    ∧ ZeroedFrameInPadWindow toyFrameParams toyD29Zeroed 12
    ∧ readSome toyFrameParams toyD29Log 4 0 = (toyD29, false)
    ∧ readSome toyFrameParams toyD29Zeroed 4 0 = ([[1, 2, 3, 4, 5, 6, 7, 8], [6]], false) := by decide

/-- (4) on that instance: the hypotheses of `log_damage_outside_d29_never_silent` hold together -/
example := log_damage_outside_d29_never_silent good_toyFrame toyD29 (by decide) toyD29Zeroed (by decide)
    (fun b1 b b2 h => (hyps_of_logCheck (z := false) (by decide) b1 b b2 h).1) 0
    ⟨by decide, fun ⟨_, _, _, _, h⟩ =>
      absurd (show false = true from congrArg Prod.snd
        ((by decide : readSome toyFrameParams toyD29Zeroed (toyD29.length + 1 + 0) 0
            = ([[1, 2, 3, 4, 5, 6, 7, 8], [6]], false)).symm.trans h)) (by decide)⟩

/-- (3a), (3b), (3c) on the 2nd append's discriminant byte overwritten with `FIRST`, the 3rd append
    behind it -/
example := log_whole_to_first_detected good_toyFrame [[1, 2, 3]] [4, 5] [[6]] (by decide) (by decide) (by decide)
    toy3WholeFirst (by decide) 7 [4, 5] (by decide)
    (agree_of_bounded _ _ (by decide) _
      (by decide : ∀ i, i < toy3WholeFirst.length → (i < 7 ∨ payOff toyFrameParams 7 WHOLE [4, 5] ≤ i) →
        toy3WholeFirst[i]? = (writeAll toyFrameParams ([[1, 2, 3]] ++ [4, 5] :: [[6]]) 0)[i]?))
    (by rfl) 0
example := log_whole_not_whole_detected good_toyFrame [[1, 2, 3]] [4, 5] [[6]] (by decide) (by decide) (by decide)
    toy3WholeFirst (by decide) 7 [4, 5] (by decide)
    (agree_of_bounded _ _ (by decide) _
      (by decide : ∀ i, i < toy3WholeFirst.length → (i < 7 ∨ payOff toyFrameParams 7 WHOLE [4, 5] ≤ i) →
        toy3WholeFirst[i]? = (writeAll toyFrameParams ([[1, 2, 3]] ++ [4, 5] :: [[6]]) 0)[i]?))
    (fun h' o' hv _ => .inl (by
      rw [show nextHeader toyFrameParams toy3WholeFirst 2 7 = .ok (⟨2, FIRST, 9⟩, 11) from rfl] at hv
      injection hv with hv; injection hv with e1 e2; subst e1; subst e2; exact ⟨rfl, rfl, rfl⟩))
    (by rw [show nextHeader toyFrameParams toy3WholeFirst 2 7 = .ok (⟨2, FIRST, 9⟩, 11) from rfl]
        intro h; cases h)
    (fun h' o' hv => by
      rw [show nextHeader toyFrameParams toy3WholeFirst 2 7 = .ok (⟨2, FIRST, 9⟩, 11) from rfl] at hv
      injection hv with hv; injection hv with e1 e2; subst e1; show FIRST ≠ WHOLE; decide) 0
example := (log_disc_flip_table good_toyFrame [[1, 2, 3]] [4, 5] [[6]] (by decide) (by decide) (by decide)
    toy3WholeFirst (by decide) 7 WHOLE [4, 5] (by decide)
    (agree_of_bounded _ _ (by decide) _
      (by decide : ∀ i, i < toy3WholeFirst.length → (i < 7 ∨ payOff toyFrameParams 7 WHOLE [4, 5] ≤ i) →
        toy3WholeFirst[i]? = (writeAll toyFrameParams ([[1, 2, 3]] ++ [4, 5] :: [[6]]) 0)[i]?))
    FIRST (by rfl)).2.2 (by decide) (by decide)

/-- `frame_hyps_of_untouched` on the intact first frame of the damaged toy log -/
example := frame_hyps_of_untouched good_toyFrame toy3HdrPay 0 WHOLE [1, 2, 3] (by decide) (by decide)
    (by decide) (by decide)

/-- `frame_no_collision_of_header_and_payload` on the 2nd frame of the damaged toy log: the header
    shown there records a checksum the payload bytes do not have -/
example := frame_no_collision_of_header_and_payload (P := toyFrameParams) toy3HdrPay 7 WHOLE [4, 5]
    (fun h' o' hv _ => .inr (by
      rw [show nextHeader toyFrameParams toy3HdrPay 1 7 = .ok (⟨2, WHOLE, 8⟩, 11) from rfl] at hv
      injection hv with hv; injection hv with e1 e2; subst e1; subst e2; decide))
    (by decide)

end logdamagemulti
-- END LogDamageMulti

-- BEGIN LogDamageTrunc
/-! ## log: damage COMBINED with a cut, and bytes behind the log (`Blue/Proofs/LogDamageTrunc.lean`)

The image that is read is `e.take m`: `e` is any file at least as long as the log (first the log
with any bytes changed, then anything), `m ≤ e.length` any cut.  `CutHyp P bufs e m`: the hypotheses
of `log_damage_anywhere` on `e` (`TouchedHyp`, `TouchedNotD29`; of the frames whose bytes changed)
and `TouchedNotD29` on the image that is read — a cut can complete an instance of finding D-29
(`cut_makes_d29`).  `StopsAt P e m q b flag`: the reader stops at the append of `b` that starts at
`q ≤ m`, the cut falls in that append or its bytes changed, with an error — or, only when the cut
falls in it, with a clean end (`CleanEndAt`).  `CleanEndAt P c q` is `nextHeader P c 2 q = .eof`
spelled out (`clean_end_iff`): the file ends at `q`, or `c[q] = 0`, the block boundary is at most
`H` bytes behind it, every byte the file still has before the boundary is zero and the file ends at
or before the boundary (sst/src/log.rs `next_header` l. 737-751, `true_up` l. 773-792). -/
section logdamagetrunc
open Blue.Log Blue.Damage
variable {P : Params}

/-- **(1) damage, then a cut at any `m`**: the whole list and a clean end only if nothing was cut;
    otherwise exactly the batches before the first append the cut falls in or whose bytes changed,
    then an error, or — only for a cut that falls in that append — a clean end -/
theorem log_damage_then_cut (g : Good P) (bufs : List (List Nat)) (hsz : ∀ x ∈ bufs, x.length ≤ P.tableFull)
    (d : List Nat) (hlen : d.length = (writeAll P bufs 0).length) (m : Nat) (hm : m ≤ d.length)
    (hyp : CutHyp P bufs d m) :
    (m = d.length ∧ ∀ k, readSome P (d.take m) (bufs.length + 1 + k) 0 = (bufs, false))
    ∨ ∃ bufs1 b bufs2 flag, bufs = bufs1 ++ b :: bufs2
        ∧ StopsAt P d m (startOf P bufs1) b flag
        ∧ ∀ k, readSome P (d.take m) (bufs.length + 1 + k) 0 = (bufs1, flag) :=
  Blue.Log.log_damage_then_cut g bufs hsz d hlen m hm hyp

/-- the clean end, spelled out -/
theorem clean_end_iff (c : List Nat) (q : Nat) : nextHeader P c 2 q = .eof ↔ CleanEndAt P c q :=
  Blue.Log.nextHeader_eof_iff c q

/-- **which cuts read as a clean end**: the cut is AT the boundary of the append the reader stopped
    at, or every byte from that boundary to the cut is zero, the cut is not beyond the next block
    boundary and that boundary is at most `H + 1` bytes behind the append boundary (on intact
    bytes: the cut falls in the append's leading padding) -/
theorem clean_end_only_at_boundary (e : List Nat) (m q : Nat) (b : List Nat) (hm : m ≤ e.length)
    (h : StopsAt P e m q b false) :
    m = q ∨ (q < m ∧ e[q]? = some 0 ∧ m ≤ trueUp P (q + 1) ∧ trueUp P (q + 1) - (q + 1) ≤ P.H
      ∧ padZero (e.take m) (q + 1) (trueUp P (q + 1)) = true) :=
  Blue.Log.clean_end_only_at_boundary e m q b hm h

/-- **(2) bytes behind the log**: the batches before an append whose bytes changed and an error, or
    ALL batches, the reader going on at the end of the log -/
theorem log_extended_with_garbage (g : Good P) (bufs : List (List Nat)) (hsz : ∀ x ∈ bufs, x.length ≤ P.tableFull)
    (e : List Nat) (hlen : (writeAll P bufs 0).length ≤ e.length)
    (hyp : ∀ bufs1 b bufs2, bufs = bufs1 ++ b :: bufs2 →
      TouchedHyp P e (startOf P bufs1) b ∧ TouchedNotD29 P e (startOf P bufs1) b) :
    (∀ n, readSome P e (bufs.length + n) 0
        = (bufs ++ (readSome P e n (startOf P bufs)).1, (readSome P e n (startOf P bufs)).2))
    ∨ ∃ bufs1 b bufs2, bufs = bufs1 ++ b :: bufs2
        ∧ slice e (startOf P bufs1) (appendAt P 2 (startOf P bufs1) b).length ≠ appendAt P 2 (startOf P bufs1) b
        ∧ nextBatch P e 2 (startOf P bufs1) = .err
        ∧ ∀ k, readSome P e (bufs.length + 1 + k) 0 = (bufs1, true) :=
  Blue.Log.log_extended_with_garbage g bufs hsz e hlen hyp

/-- (2) what follows starts with a non-zero byte and spells no frame that passes its CRC: an error -/
theorem garbage_is_error (e : List Nat) (L y : Nat) (hx : e[L]? = some y) (hy : y ≠ 0)
    (hno : NoFrameAt P e L) : nextBatch P e 2 L = .err :=
  Blue.Log.garbage_is_error e L y hx hy hno

/-- (2) **a zero-filled tail** (pre-allocation): a clean end iff it is empty, or the block boundary
    behind its first byte is at most `H` bytes away and the tail does not reach beyond it; an error
    otherwise (in particular every zero tail that starts at a block boundary or crosses one) -/
theorem zero_tail_reads (g : Good P) (d : List Nat) (z : Nat) :
    (CleanEndAt P (d ++ zeros z) d.length → nextBatch P (d ++ zeros z) 2 d.length = .eof)
    ∧ (¬ CleanEndAt P (d ++ zeros z) d.length → nextBatch P (d ++ zeros z) 2 d.length = .err)
    ∧ (CleanEndAt P (d ++ zeros z) d.length ↔
        z = 0 ∨ (trueUp P (d.length + 1) - (d.length + 1) ≤ P.H ∧ d.length + z ≤ trueUp P (d.length + 1))) :=
  Blue.Log.zero_tail_reads g d z

/-- **(3) never silent under damage, a cut and bytes appended**: what follows the log not being
    readable as a batch (`htail`), the result is a prefix of the appended batches with an error or a
    clean end; the FULL list only if every append lies before the cut and still decodes — then the
    end is clean iff the end of the log reads as one (`CleanEndAt`) —; short of it the reader stops
    at the first append the cut falls in or whose bytes changed, with a clean end only for a cut at
    that append's boundary (`clean_end_only_at_boundary`) -/
theorem log_never_silent_under_damage_and_cut (g : Good P) (bufs : List (List Nat))
    (hsz : ∀ x ∈ bufs, x.length ≤ P.tableFull)
    (e : List Nat) (hlen : (writeAll P bufs 0).length ≤ e.length) (m : Nat) (hm : m ≤ e.length)
    (hyp : CutHyp P bufs e m)
    (htail : ∀ r, nextBatch P (e.take m) 2 (startOf P bufs) ≠ .ok r) :
    (startOf P bufs ≤ m
      ∧ ((CleanEndAt P (e.take m) (startOf P bufs)
            ∧ ∀ k, readSome P (e.take m) (bufs.length + 1 + k) 0 = (bufs, false))
         ∨ (nextBatch P (e.take m) 2 (startOf P bufs) = .err
            ∧ ∀ k, readSome P (e.take m) (bufs.length + 1 + k) 0 = (bufs, true))))
    ∨ ∃ bufs1 b bufs2 flag, bufs = bufs1 ++ b :: bufs2
        ∧ StopsAt P e m (startOf P bufs1) b flag
        ∧ ∀ k, readSome P (e.take m) (bufs.length + 1 + k) 0 = (bufs1, flag) :=
  Blue.Log.log_never_silent_under_damage_and_cut g bufs hsz e hlen m hm hyp htail

/-- (3), the converse: every append's bytes intact: all batches, the reader going on behind them -/
theorem intact_reads_full (g : Good P) (bufs : List (List Nat)) (hsz : ∀ x ∈ bufs, x.length ≤ P.tableFull)
    (e : List Nat) (hlen : (writeAll P bufs 0).length ≤ e.length)
    (hun : ∀ bufs1 b bufs2, bufs = bufs1 ++ b :: bufs2 →
      slice e (startOf P bufs1) (appendAt P 2 (startOf P bufs1) b).length = appendAt P 2 (startOf P bufs1) b)
    (hyp : ∀ bufs1 b bufs2, bufs = bufs1 ++ b :: bufs2 →
      TouchedHyp P e (startOf P bufs1) b ∧ TouchedNotD29 P e (startOf P bufs1) b) :
    ∀ n, readSome P e (bufs.length + n) 0
        = (bufs ++ (readSome P e n (startOf P bufs)).1, (readSome P e n (startOf P bufs)).2) :=
  Blue.Log.intact_reads_full g bufs hsz e hlen hun hyp

/-- **the exclusion of D-29 must be asked of the image that is READ**: OBSERVATION on the toy
    parameters — every hypothesis of `log_damage_anywhere` holds of the uncut image (it reads as an
    error), cut at the END of the zeroed second append the image is in the class and reads as the
    first batch and a clean end, while the pristine log cut there delivers two batches -/
theorem cut_makes_d29 :
    framesOf toyFrameParams 2 11 [] = [(11, WHOLE, [])]
    ∧ logCheck toyFrameParams true toyCut29Image toyCut29 0 = true
    ∧ readSome toyFrameParams toyCut29Image 4 0 = ([[1, 2, 3, 4, 5, 6, 7]], true)
    ∧ readSome toyFrameParams ((writeAll toyFrameParams toyCut29 0).take 15) 4 0 = ([[1, 2, 3, 4, 5, 6, 7], []], false)
    ∧ readSome toyFrameParams (toyCut29Image.take 15) 4 0 = ([[1, 2, 3, 4, 5, 6, 7]], false)
    ∧ ¬ ZeroedFrameInPadWindow toyFrameParams toyCut29Image 11
    ∧ ZeroedFrameInPadWindow toyFrameParams (toyCut29Image.take 15) 11 :=
  Blue.Log.cut_makes_d29

/-! non-vacuity on the toy parameters (`B = 16`, `H = 4`; `toy3`: frames at 0..7, 7..13, padding
    13..16, a frame at 16..21; `toy3HdrPay`: header and payload of the 2nd append damaged) -/

/-- (1) damage in append 2 and a cut inside append 3 (at 19): the first batch, then an error -/
example := log_damage_then_cut good_toyFrame toy3 (by decide) toy3HdrPay (by decide) 19 (by decide)
    (cutHyp_of_logCheck (by decide) (by decide))
example : readSome toyFrameParams (toy3HdrPay.take 19) 4 0 = ([[1, 2, 3]], true)
    ∧ readSome toyFrameParams (toy3Log.take 19) 4 0 = ([[1, 2, 3], [4, 5]], true)
    ∧ StopsAt toyFrameParams toy3HdrPay 19 7 [4, 5] true := by decide

/-- (1) a cut inside the damaged append 2 (at 12): the first batch, then an error -/
example := log_damage_then_cut good_toyFrame toy3 (by decide) toy3HdrPay (by decide) 12 (by decide)
    (cutHyp_of_logCheck (by decide) (by decide))
example : readSome toyFrameParams (toy3HdrPay.take 12) 4 0 = ([[1, 2, 3]], true)
    ∧ StopsAt toyFrameParams toy3HdrPay 12 7 [4, 5] true := by decide

/-- (1) the pristine log cut in the leading padding of append 3 (at 14) and at the append boundary
    13: two batches and a clean end; `clean_end_only_at_boundary` on both -/
example : readSome toyFrameParams (toy3Log.take 14) 4 0 = ([[1, 2, 3], [4, 5]], false)
    ∧ readSome toyFrameParams (toy3Log.take 13) 4 0 = ([[1, 2, 3], [4, 5]], false)
    ∧ StopsAt toyFrameParams toy3Log 14 13 [6] false
    ∧ StopsAt toyFrameParams toy3Log 13 13 [6] false := by decide
example := clean_end_only_at_boundary (P := toyFrameParams) toy3Log 14 13 [6] (by decide) (by decide)
example := clean_end_only_at_boundary (P := toyFrameParams) toy3Log 13 13 [6] (by decide) (by decide)

/-- (2) bytes behind the damaged log -/
example := log_extended_with_garbage good_toyFrame toy3 (by decide) (toy3HdrPay ++ [9, 9]) (by decide)
    (fun b1 b b2 h => ⟨(hyps_of_logCheck (z := true) (by decide) b1 b b2 h).1,
      (hyps_of_logCheck (z := true) (by decide) b1 b b2 h).2 rfl⟩)
/-- (2) garbage behind the pristine log: `[9, 9]` at 21 is a header length above `H` -/
example := garbage_is_error (P := toyFrameParams) (toy3Log ++ [9, 9]) 21 9 (by decide) (by decide)
    (padCheck_spec (by decide))
example : readSome toyFrameParams (toy3Log ++ [9, 9]) 5 0 = ([[1, 2, 3], [4, 5], [6]], true) := by decide

/-- (2) pristine log + zero tail.  `toy1Log` ends at 12, the boundary 16 is 3 bytes behind 13: up to
    4 zero bytes read as a clean end, 5 (one at the boundary) are an error.  `toy3Log` ends at 21,
    the boundary 32 is 10 bytes behind 22: every zero tail is an error. -/
example := zero_tail_reads good_toyFrame toy1Log 4
example : CleanEndAt toyFrameParams (toy1Log ++ zeros 4) toy1Log.length
    ∧ ¬ CleanEndAt toyFrameParams (toy1Log ++ zeros 5) toy1Log.length
    ∧ ¬ CleanEndAt toyFrameParams (toy3Log ++ zeros 3) toy3Log.length
    ∧ readSome toyFrameParams (toy1Log ++ zeros 4) 3 0 = (toy1, false)
    ∧ readSome toyFrameParams (toy1Log ++ zeros 5) 3 0 = (toy1, true)
    ∧ readSome toyFrameParams (toy3Log ++ zeros 3) 5 0 = (toy3, true) := by decide

/-- (3) the pristine log with a zero tail, read in full: all hypotheses hold together -/
example := log_never_silent_under_damage_and_cut good_toyFrame toy3 (by decide) toy3Tail (by decide) 24 (by decide)
    (cutHyp_of_logCheck (by decide) (by decide)) toy3Tail_unreadable
/-- (3) damage in append 2, the zero tail, a cut inside append 3 -/
example := log_never_silent_under_damage_and_cut good_toyFrame toy3 (by decide)
    (toy3HdrPay ++ zeros 3) (by decide) 19 (by decide)
    (cutHyp_of_logCheck (by decide) (by decide))
    (fun r h => by
      have h2 : nextBatch toyFrameParams ((toy3HdrPay ++ zeros 3).take 19) 2 (startOf toyFrameParams toy3) = .eof := by rfl
      rw [h2] at h; cases h)
/-- (3) converse on the pristine log with the zero tail -/
example := intact_reads_full good_toyFrame toy3 (by decide) toy3Tail (by decide)
    (intact_of_intactCheck (by decide))
    (fun b1 b b2 h => ⟨(hyps_of_logCheck (z := true) (by decide) b1 b b2 h).1,
      (hyps_of_logCheck (z := true) (by decide) b1 b b2 h).2 rfl⟩)

end logdamagetrunc
-- END LogDamageTrunc

end Blue.Props.C09

#print axioms Blue.Props.C09.constants_from_source
#print axioms Blue.Props.C09.sst_reads_are_guarded
#print axioms Blue.Props.C09.open_guarded
#print axioms Blue.Props.C09.block_load_is_checked
#print axioms Blue.Props.C09.open_buffers_bounded
#print axioms Blue.Props.C09.data_block_buffers_bounded
#print axioms Blue.Props.C09.loaded_block_in_file
#print axioms Blue.Props.C09.block_damage_detected
#print axioms Blue.Props.C09.refines_of_no_collision
#print axioms Blue.Props.C09.sst_single_burst
#print axioms Blue.Props.C09.data_block_damage_opens
#print axioms Blue.Props.C09.final_block_cases
#print axioms Blue.Props.C09.meta_only_reads
#print axioms Blue.Props.C09.final_block_metadata_not_detected
#print axioms Blue.Props.C09.data_block_flip_is_detected
#print axioms Blue.Props.C09.sealed_bytes_decode
#print axioms Blue.Props.C09.sst_open_total
#print axioms Blue.Props.C09.reads_agree_before_damage
#print axioms Blue.Props.C09.crc_mismatch_is_error
#print axioms Blue.Props.C09.truncated_log_prefix
#print axioms Blue.Props.C09.readSome_take_prefix
#print axioms Blue.Props.C09.zero_length_is_checked_padding
#print axioms Blue.Props.C09.zero_length_then_nonzero_is_error
#print axioms Blue.Props.C09.zeroed_header_length_detected
#print axioms Blue.Props.C09.zeroed_header_length_replay_fails
#print axioms Blue.Props.C09.zero_length_is_padding_as_found
#print axioms Blue.Props.C09.d11_as_found_vs_repaired
#print axioms Blue.Props.C09.torn_manifest
#print axioms Blue.Props.C09.mani_line_guarded
#print axioms Blue.Props.C09.block_frame_damage
#print axioms Blue.Props.C09.sst_data_frame_damage
#print axioms Blue.Props.C09.sst_data_region_damage
#print axioms Blue.Props.C09.sst_index_frame_damage
#print axioms Blue.Props.C09.sst_filter_frame_damage
#print axioms Blue.Props.C09.sst_tail_cases
#print axioms Blue.Props.C09.sst_truncated_below_filter
#print axioms Blue.Props.C09.sst_damage_detected_or_harmless
#print axioms Blue.Props.C09.sst_tail_replaced
#print axioms Blue.Props.C09.sst_truncated_rejected_or_same
#print axioms Blue.Props.C09.sst_extended_rejected_or_same
#print axioms Blue.Props.C09.sst_region_witnesses
#print axioms Blue.Props.C09.detection_checks_in_source
#print axioms Blue.Props.C09.log_payload_damage_detected
#print axioms Blue.Props.C09.log_header_damage_detected
#print axioms Blue.Props.C09.log_padding_damage_detected
#print axioms Blue.Props.C09.log_damage_detected_or_prefix
#print axioms Blue.Props.C09.append_layout_is_framesOf
#print axioms Blue.Props.C09.crc_field_damage_detected
#print axioms Blue.Props.C09.disc_outside_checksum
#print axioms Blue.Props.C09.padding_injection
#print axioms Blue.Props.C09.manifest_items_roundtrip
#print axioms Blue.Props.C09.manifest_damage_detected_or_prefix
#print axioms Blue.Props.C09.manifest_damage_detected_last_line
#print axioms Blue.Props.C09.separator_damage_detected
#print axioms Blue.Props.C09.separator_is_exact
#print axioms Blue.Props.C09.newline_damage_detected
#print axioms Blue.Props.C09.final_newline_damage_detected
#print axioms Blue.Props.C09.torn_manifest_lines
#print axioms Blue.Props.C09.non_ascii_line_not_poisoned
#print axioms Blue.Props.C09.unterminated_cr_differs
#print axioms Blue.Props.C09.zero_run_is_padding
#print axioms Blue.Props.C09.zeroed_frame_is_padding
#print axioms Blue.Props.C09.torn_three_edits
#print axioms Blue.Props.C09.non_ascii_line_poisons
#print axioms Blue.Props.C09.as_found_agrees_before_error
#print axioms Blue.Props.C09.log_first_as_whole_entries_prefix
#print axioms Blue.Props.C09.log_first_as_whole_fragment
#print axioms Blue.Props.C09.batch_fragment_entries_prefix
#print axioms Blue.Props.C09.log_whole_not_whole_at_eof_detected
#print axioms Blue.Props.C09.log_damage_anywhere
#print axioms Blue.Props.C09.log_damage_any_region
#print axioms Blue.Props.C09.log_damage_several_regions
#print axioms Blue.Props.C09.log_damage_outside_d29_never_silent
#print axioms Blue.Props.C09.frame_hyps_of_untouched
#print axioms Blue.Props.C09.log_whole_not_whole_detected
#print axioms Blue.Props.C09.log_whole_to_first_detected
#print axioms Blue.Props.C09.log_disc_flip_table
#print axioms Blue.Props.C09.frame_no_collision_of_header_and_payload
#print axioms Blue.Props.C09.disc_fusion
#print axioms Blue.Props.C09.log_damage_then_cut
#print axioms Blue.Props.C09.clean_end_iff
#print axioms Blue.Props.C09.clean_end_only_at_boundary
#print axioms Blue.Props.C09.log_extended_with_garbage
#print axioms Blue.Props.C09.garbage_is_error
#print axioms Blue.Props.C09.zero_tail_reads
#print axioms Blue.Props.C09.log_never_silent_under_damage_and_cut
#print axioms Blue.Props.C09.intact_reads_full
#print axioms Blue.Props.C09.cut_makes_d29
