import Blue.Proofs.SstOpen
import Blue.Proofs.Damage
import Blue.Proofs.DamageExamples
import Blue.Proofs.LogTrunc
import Blue.Proofs.LogAny
import Blue.Proofs.LogDamage
import Blue.Proofs.LogZeroed
import Blue.Proofs.ManiTorn
import Blue.Proofs.BlockBytes
import Blue.Proofs.Crc32c
import Blue.Proofs.ConstsTieC09
import Blue.Proofs.ConstsTieC10
import Blue.Proofs.ConstsTieC12
import Blue.Proofs.ConstsTieC13
/-! # Property C09 — damage to persistent files is detected or harmless, never silent, never a
    panic, never an unbounded allocation

Property theorems only.  Models: `Blue/Model/SstOpen.lean` (an SST opened and read from *arbitrary
bytes*: trailer, `FinalBlock` / `BlockMetadata` / `SstEntry` unpacked by the derive-macro interpreter
of C15, sanity and ordering checks, CRC check on every block load, `Block::new`, the cursor with
lazily loaded blocks), `Blue/Model/Log.lean` + `Blue/Model/Damage.lean` (the log reader and
`log_to_builder` / `log_to_setsum` on top of it), `Blue/Model/Mani.lean` + `Blue/Model/Damage.lean`
(`ManifestIterator` item by item, `Manifest::open`).  The driver executes exactly these definitions
with CRC-32C computed in Lean, on the very bytes the real code is given (`bin/check C09`: every
single-bit flip, every truncation, overwrites, suffixes, short sequences).

**What is theorem and what is assumption.**

* *By construction*: every reader of the model is a total function into an error-or-value type.
  "Never panics, never allocates without bound" is a property of the code that only the
  correspondence run transfers (each damaged file is read by the real code in a child process under
  an address-space limit, the largest allocation request of each read is recorded); the model adds
  `open_sizes_bounded`: the buffers `from_file_handle` sizes from file bytes are checked against the
  file size first.
* *Theorems, no assumption*: every entry any SST read returns comes from a block whose payload
  matched the CRC recorded for it (`sst_reads_are_guarded`, `open_guarded`); log reads before a damage
  point are unchanged, a frame failing its CRC is an error, a zero where a header length is expected
  is padding only if every byte up to the block boundary is zero, so a frame whose header-length
  byte was zeroed is an error wherever it lies (`zeroed_header_length_detected`; D-11, repaired in
  the reader), a truncated log / manifest reads as a prefix or an error; the classification of damage to the unchecksummed tail (`final_block_cases`);
  damage confined to the data blocks leaves the open as it was (`data_block_damage_opens`).
* *Relative to "the CRC tells the damaged payload from the original"* (hypothesis `hnc` of
  `refines_of_no_collision`, `NoCollision` of `torn_manifest`): every read of a table damaged behind
  its checksums is an error or the pristine answer (`sst_single_burst`).  No theorem discharges the
  hypothesis for CRC-32C here.  (For a single flipped bit it is a fact about the polynomial — the
  difference of the two CRCs is the remainder of a monomial, and the generator has a constant term —
  and the run observes it at every bit of every file; it is not formalised.)
* *Not detected, by design of the formats* (findings, see the run's KNOWN-FINDING lines):
  `final_block_metadata_not_detected` (D-10).  (D-11 — the log reader took a zeroed header-length
  byte close to a block boundary for padding and dropped the frame — is repaired:
  `zero_length_is_padding_as_found` keeps the reader as it was found on record.) -/
namespace Blue.Props.C09
open Blue.SstOpen Blue.Block Blue.Sst

/-! ## constants: the models read hostile bytes with the source's schemas, codes and limits -/

theorem constants_from_source :
    Err.all.map Err.code = Blue.Generated.sstReadErrorCodes
    ∧ finalFields.map (fun f => (f.num, Blue.ConstsTie.tyName f.ty))
        = Blue.Generated.finalBlockFields.zip Blue.Generated.finalBlockTypes
    ∧ blockMetaFields.map (fun f => (f.num, Blue.ConstsTie.tyName f.ty))
        = Blue.Generated.blockMetadataFields.zip Blue.Generated.blockMetadataTypes
    ∧ Blue.Generated.sstTrailerBytes = 8
    ∧ Blue.Damage.replayPropagatesErrors = decide (Blue.Generated.logReplayUnwraps = 0)
    ∧ Blue.Generated.maniNonAsciiPoisons = 0 :=
  ⟨Blue.ConstsTie.c09_error_codes, Blue.ConstsTie.c09_schemas.1, Blue.ConstsTie.c09_schemas.2.1,
   Blue.ConstsTie.c09_schemas.2.2.2, Blue.ConstsTie.c09_replay_propagates,
   Blue.ConstsTie.c09_mani_non_ascii_does_not_poison⟩

/-! ## SST -/

/-- **every read is guarded** (any checksum function, any bytes): each entry of a forward or
    backward walk — up to its end or its error — each value or tombstone `load` returns and the
    first and last key of `metadata` lie in a data block that an index entry names and whose payload
    matched the CRC recorded in that entry.  `setsum`, `smallest_timestamp`, `biggest_timestamp` are
    the final block's own fields, which no CRC covers. -/
theorem sst_reads_are_guarded (crc : List Nat → Nat) (t : Opened) :
    (∀ e ∈ (t.forward crc).1, GuardedEntry crc t e)
    ∧ (∀ e ∈ (t.backward crc).1, GuardedEntry crc t e)
    ∧ (∀ k ts r, t.load crc k ts = .ok r →
        r = .absent ∨ ∃ e, GuardedEntry crc t e ∧ e.key = k
          ∧ ((∃ v, e.val = some v ∧ r = .value v) ∨ (e.val = none ∧ r = .tombstone)))
    ∧ (∀ m, t.metadata crc = .ok m →
        (m.firstKey = [] ∨ ∃ e, GuardedEntry crc t e ∧ m.firstKey = e.key)
        ∧ (m.lastKey = MAX_KEY ∨ ∃ e, GuardedEntry crc t e ∧ m.lastKey = e.key)
        ∧ m.setsum = t.fin.setsum ∧ m.smallest = t.fin.smallest ∧ m.biggest = t.fin.biggest
        ∧ m.fileSize = t.fileSize) :=
  Blue.SstOpen.sst_reads_are_guarded crc t

/-- … and the index entries themselves: a successful open read the trailer and the final block
    inside the file, found the two triples ordered below the final block offset, **the index block's
    payload matched the CRC recorded in the final block**, and so did the filter block's -/
theorem open_guarded (crc : List Nat → Nat) (file : List Nat) (t : Opened) (h : openSst crc file = .ok t) :
    t.file = file ∧ t.fileSize = file.length ∧ 8 ≤ file.length
    ∧ unle64 (file.drop (file.length - 8)) ≤ file.length
    ∧ decFinal (file.drop (unle64 (file.drop (file.length - 8)))) = some t.fin
    ∧ finChecks t.fin (unle64 (file.drop (file.length - 8))) = none
    ∧ (∃ ies, loadBlock crc file t.fin.index = .ok ies ∧ indexEntries ies = .ok t.entries)
    ∧ loadFilter crc file t.fin.filter = .ok () :=
  Blue.SstOpen.open_guarded crc file t h

/-- a block that loads is the `PlainBlock` frame at `[start, limit)` with a payload whose CRC is the
    recorded one -/
theorem block_load_is_checked (crc : List Nat → Nat) (file : List Nat) (m : BlockMeta) (es : List KV)
    (h : loadBlock crc file m = .ok es) :
    ∃ body, frameAt file m = .ok (0, body) ∧ crc body = m.crc ∧ decodePlain body = .ok es :=
  Blue.SstOpen.loadBlock_ok crc h

/-- allocation: the buffers sized from the file's own bytes before any checksum can be looked at
    (final block, index block, filter block) are no longer than the file -/
theorem open_sizes_bounded (file : List Nat) (fin : Fin)
    (hfbo : unle64 (file.drop (file.length - 8)) ≤ file.length)
    (hchk : finChecks fin (unle64 (file.drop (file.length - 8))) = none) :
    file.length - unle64 (file.drop (file.length - 8)) ≤ file.length
    ∧ fin.index.limit - fin.index.start ≤ file.length
    ∧ fin.filter.limit - fin.filter.start ≤ file.length :=
  Blue.SstOpen.open_sizes_bounded file fin hfbo hchk

/-- **detection relative to the checksum, one block**: the same index entry read from the pristine
    and from the damaged file.  If the damaged read succeeds at all, and the CRC tells the two
    payloads apart unless they are equal, it returns the pristine entries. -/
theorem block_damage_detected (crc : List Nat → Nat) (f f' : List Nat) (m : BlockMeta) (es es' : List KV)
    (h : loadBlock crc f m = .ok es) (h' : loadBlock crc f' m = .ok es')
    (hnc : ∀ b b', frameAt f m = .ok (0, b) → frameAt f' m = .ok (0, b') → crc b = crc b' → b = b') : es' = es :=
  Blue.SstOpen.loadBlock_detects crc h h' hnc

/-- the assumption in the form the table theorem uses it: same index entries, a pristine table whose
    blocks all load, and a CRC that tells each damaged payload from the original ⇒ the damaged
    table's loader agrees with the pristine one wherever it succeeds -/
theorem refines_of_no_collision (crc : List Nat → Nat) (t t' : Opened) (hent : t'.entries = t.entries)
    (hp : ∀ (i : Nat) k m, t.entries[i]? = some (k, m) → ∃ es, loadBlock crc t.file m = .ok es)
    (hnc : ∀ (i : Nat) k m b b', t.entries[i]? = some (k, m) → frameAt t.file m = .ok (0, b) →
      frameAt t'.file m = .ok (0, b') → crc b = crc b' → b = b') :
    Refines (t'.loadIdx crc) (t.loadIdx crc) :=
  Blue.SstOpen.refines_of_no_collision crc t t' hent hp hnc

/-- **sst_single_burst** (relative to the CRC assumption, which enters as `hr`): damage of any shape
    behind the checksums — same index entries, same length.  On the damaged table a walk that ends
    without error *is* the pristine walk, a walk that ends in an error delivered a prefix of it,
    every `load` that succeeds is the pristine answer, a `metadata` that succeeds has the pristine
    first and last key. -/
theorem sst_single_burst (crc : List Nat → Nat) (t t' : Opened) (hent : t'.entries = t.entries)
    (hlen : t'.file.length = t.file.length) (hr : Refines (t'.loadIdx crc) (t.loadIdx crc)) :
    ((t'.forward crc).2 = none → t'.forward crc = t.forward crc)
    ∧ (∃ more, (t.forward crc).1 = (t'.forward crc).1 ++ more)
    ∧ ((t'.backward crc).2 = none → t'.backward crc = t.backward crc)
    ∧ (∃ more, (t.backward crc).1 = (t'.backward crc).1 ++ more)
    ∧ (∀ k ts r, t'.load crc k ts = .ok r → t.load crc k ts = .ok r)
    ∧ (∀ m', t'.metadata crc = .ok m' → ∃ m, t.metadata crc = .ok m ∧ m'.firstKey = m.firstKey ∧ m'.lastKey = m.lastKey) :=
  Blue.SstOpen.sst_single_burst crc t t' hent hlen hr

/-- the first premise of `sst_single_burst` is a theorem for damage inside the data blocks: any
    number of bit flips and byte overwrites below the index block leave the open as it was -/
theorem data_block_damage_opens (crc : List Nat → Nat) (f : List Nat) (t : Opened)
    (h : openSst crc f = .ok t) (a : Nat) (ha : a ≤ t.fin.index.start) (ha8 : a + 8 ≤ f.length)
    (ds : List Blue.Damage.Dmg) (hds : ∀ d ∈ ds, d.Below a) :
    openSst crc (Blue.Damage.applyAll f ds) = .ok { t with file := Blue.Damage.applyAll f ds } :=
  Blue.Damage.data_block_damage_opens crc f t h a ha ha8 ds hds

/-- **final_block_cases**: the decidable classification (`classifyFinal`: run the open, compare the
    index triple) of *any* replacement of the file's tail — final block, trailer, other length —
    while the first `a` bytes (index block and data blocks) stay: rejected; or the same index
    entries and the same data blocks, so that only `setsum` / `smallest_timestamp` /
    `biggest_timestamp` / the file size can differ; or a different index triple whose payload
    matches the CRC that very triple records (excluded only by the CRC assumption). -/
theorem final_block_cases (crc : List Nat → Nat) (f f' : List Nat) (t : Opened) (h : openSst crc f = .ok t)
    (a : Nat) (ha : a ≤ f.length) (ha' : a ≤ f'.length) (hhead : ∀ i, i < a → f'[i]? = f[i]?)
    (hidx : t.fin.index.limit ≤ a) (hdata : ∀ km ∈ t.entries, km.2.limit ≤ a) :
    match classifyFinal crc t f' with
    | .detected e => openSst crc f' = .error e
    | .metaOnly => ∃ t', openSst crc f' = .ok t' ∧ t'.fin.index = t.fin.index ∧ t'.entries = t.entries
        ∧ ∀ i, t'.loadIdx crc i = t.loadIdx crc i
    | .redirected => ∃ t', openSst crc f' = .ok t' ∧ t'.fin.index ≠ t.fin.index
        ∧ ∃ body, frameAt f' t'.fin.index = .ok (0, body) ∧ crc body = t'.fin.index.crc :=
  Blue.SstOpen.final_block_cases crc f f' t h a ha ha' hhead hidx hdata

/-- in the `metaOnly` case (same length) every walk and point read is the pristine one and
    `metadata` is the pristine one with the damaged final block's three fields put in -/
theorem meta_only_reads (crc : List Nat → Nat) (t t' : Opened) (hent : t'.entries = t.entries)
    (hlen : t'.file.length = t.file.length) (hload : ∀ i, t'.loadIdx crc i = t.loadIdx crc i) :
    t'.forward crc = t.forward crc ∧ t'.backward crc = t.backward crc
    ∧ (∀ k ts, t'.load crc k ts = t.load crc k ts)
    ∧ t'.metadata crc = (match t.metadata crc with
        | .error e => .error e
        | .ok m => .ok { m with setsum := t'.fin.setsum, smallest := t'.fin.smallest, biggest := t'.fin.biggest,
                                fileSize := t'.fileSize }) :=
  Blue.SstOpen.meta_only_reads crc t t' hent hlen hload

/-- **D-10, on the bytes of a real SST** (kernel evaluation): one flipped bit of the final block's
    setsum — the file opens, is classified `metaOnly`, all 20 entries walk as before, and `metadata`
    returns the changed setsum with every other field unchanged -/
theorem final_block_metadata_not_detected : Blue.DamageExamples.d10Check = true :=
  Blue.DamageExamples.d10_witness

/-- non-vacuity of `sst_single_burst` / `data_block_damage_opens` on the same file: one flipped bit
    in a data block — same index entries, the forward walk fails at once with `crc32c-failure`, the
    backward walk delivers a proper prefix of the pristine one and then fails -/
theorem data_block_flip_is_detected : Blue.DamageExamples.burstCheck = true :=
  Blue.DamageExamples.burst_witness

/-- a block a builder sealed decodes to its entries (C10) — the eager decode the model uses for a
    payload that matched its CRC is exact on every such block -/
theorem sealed_bytes_decode (o : Opts) (es : List KV) (hwf : ∀ e ∈ es, e.Wf) (hfit : Fits (build o es)) :
    ∃ blk, Blk.new (build o es).seal = .ok blk ∧ blk.toDBlock = some ⟨es, (buildG o es).ridx⟩ :=
  toDBlock_seal o es hwf hfit

/-- totality of the SST reader (by construction; stated for the record) -/
theorem sst_open_total (crc : List Nat → Nat) (file : List Nat) :
    (∃ e, openSst crc file = .error e) ∨ ∃ t, openSst crc file = .ok t :=
  Blue.SstOpen.openSst_total crc file

/-! ## log -/
open Blue.Log in
/-- two files that agree on their first `m` bytes deliver identical batches for every read ending
    within those bytes: damage, truncation or garbage at offset `m` or later cannot change, reorder
    or invent an earlier batch -/
theorem reads_agree_before_damage {P : Params} (hB : 0 < P.B) (f f' : List Nat) (m : Nat)
    (hsame : f.take m = f'.take m) (fuel off : Nat) (r : List Nat × Nat)
    (h : nextBatch P f fuel off = .ok r) (hm : r.2 ≤ m) : nextBatch P f' fuel off = .ok r :=
  Blue.Log.reads_agree_before_damage hB f f' m hsame fuel off r h hm

open Blue.Log in
/-- **log_frame_guarded**: a frame whose payload does not match its header's CRC is an error, never
    a batch -/
theorem crc_mismatch_is_error {P : Params} (file : List Nat) (fuel off : Nat) (hd : Hdr) (off' : Nat)
    (hh : nextHeader P file fuel off = .ok (hd, off'))
    (hbad : P.crc (slice file off' hd.size) ≠ hd.crc) : nextFrame P file fuel off = .err :=
  Blue.Log.crc_mismatch_is_error file fuel off hd off' hh hbad

open Blue.Log in
/-- a log cut at any byte delivers a prefix of the appended batches and nothing else -/
theorem truncated_log_prefix {P : Params} (g : Good P) (bufs : List (List Nat)) (n : Nat)
    (hsz : ∀ b ∈ bufs, b.length ≤ P.tableFull) :
    ∃ rest, bufs = (readSome P ((writeAll P bufs 0).take n) (bufs.length + 1) 0).1 ++ rest :=
  Blue.Log.truncated_log_prefix_any g bufs n hsz

open Blue.Log in
/-- … and for arbitrary bytes: what the cut file delivers, the whole file delivers first -/
theorem readSome_take_prefix {P : Params} (file : List Nat) (n fuel off : Nat) :
    ∃ rest, (readSome P file fuel off).1 = (readSome P (file.take n) fuel off).1 ++ rest :=
  Blue.Log.readSome_take_prefix file n fuel off

open Blue.Log in
/-- **a zero where a header length is expected is padding only if everything up to the block
    boundary is zero**: within `HEADER_MAX_SIZE` of the boundary the reader reads the bytes it is
    about to skip and goes on at the boundary when those the file has are all zero; farther from
    the boundary the zero is an error -/
theorem zero_length_is_checked_padding (P : Params) (file : List Nat) (fuel off : Nat) (h0 : file[off]? = some 0) :
    nextHeader P file (fuel + 1) off =
      if trueUp P (off + 1) - (off + 1) > P.H then .err
      else if !padZero file (off + 1) (trueUp P (off + 1)) then .err
      else nextHeader P file fuel (trueUp P (off + 1)) :=
  Blue.Damage.zero_length_is_checked_padding P file fuel off h0

open Blue.Log in
/-- … so a zero length byte followed by any non-zero byte before the boundary is an error -/
theorem zero_length_then_nonzero_is_error (P : Params) (file : List Nat) (fuel off i x : Nat)
    (h0 : file[off]? = some 0) (hi1 : off + 1 ≤ i) (hi2 : i < trueUp P (off + 1))
    (hx : file[i]? = some x) (hx0 : x ≠ 0) :
    nextHeader P file (fuel + 1) off = .err :=
  Blue.Damage.zero_length_then_nonzero_is_error P file fuel off i x h0 hi1 hi2 hx hx0

open Blue.Log in
/-- **zeroed_header_length_detected** (D-11 repaired): in the log of any appended batches, overwrite
    with zero the header-length byte of the frame (the first frame, if it was split) of any one
    append — wherever it lies relative to the block boundaries, after padding or not: the reader
    delivers exactly the batches appended before it and then reports an error.  `BigTag`: the packed
    header starts with a byte larger than `HEADER_MAX_SIZE` (the tag of its first field). -/
theorem zeroed_header_length_detected {P : Params} (g : Good P) (hbig : BigTag P)
    (bufs1 : List (List Nat)) (b : List Nat) (bufs2 : List (List Nat))
    (hsz : ∀ x ∈ bufs1, x.length ≤ P.tableFull) (k : Nat) :
    readSome P ((writeAll P (bufs1 ++ b :: bufs2) 0).set (headOff P (writeAll P bufs1 0).length b) 0)
      (bufs1.length + 1 + k) 0 = (bufs1, true) :=
  Blue.Log.zeroed_header_length_detected g hbig bufs1 b bufs2 hsz k

open Blue.Log Blue.Damage in
/-- … and with the real log's parameters, through the replay: `LogIterator` drained delivers the
    entries of the earlier batches and an error, `log_to_builder` and `log_to_setsum` fail -/
theorem zeroed_header_length_replay_fails (crc : List Nat → Nat) (hcrc : ∀ l, crc l < 4294967296)
    (bufs1 : List (List Nat)) (b : List Nat) (bufs2 : List (List Nat))
    (hsz : ∀ x ∈ bufs1, x.length ≤ (realParams crc).tableFull) :
    drain (realParams crc) ((writeAll (realParams crc) (bufs1 ++ b :: bufs2) 0).set
        (headOff (realParams crc) (writeAll (realParams crc) bufs1 0).length b) 0) = deliver bufs1 true
    ∧ logToBuilder (realParams crc) ((writeAll (realParams crc) (bufs1 ++ b :: bufs2) 0).set
        (headOff (realParams crc) (writeAll (realParams crc) bufs1 0).length b) 0) = .readerError
    ∧ logToSetsumOk (realParams crc) ((writeAll (realParams crc) (bufs1 ++ b :: bufs2) 0).set
        (headOff (realParams crc) (writeAll (realParams crc) bufs1 0).length b) 0) = false :=
  Blue.Damage.zeroed_header_length_replay_fails (realParams crc) (good_real crc hcrc) (bigTag_real crc)
    bufs1 b bufs2 hsz

open Blue.Log in
/-- **D-11 as found** (`nextHeaderAsFound`: the reader before the repair): a zero where a header
    length is expected was padding whenever the next block boundary was at most `HEADER_MAX_SIZE`
    bytes away — the reader went on at the boundary whatever lay in between, e.g. a whole small
    frame whose length byte was overwritten with zero -/
theorem zero_length_is_padding_as_found (P : Params) (file : List Nat) (fuel off : Nat) (h0 : file[off]? = some 0) :
    Blue.Damage.nextHeaderAsFound P file (fuel + 1) off =
      if trueUp P (off + 1) - (off + 1) > P.H then .err
      else Blue.Damage.nextHeaderAsFound P file fuel (trueUp P (off + 1)) :=
  Blue.Damage.zero_length_is_padding_as_found P file fuel off h0

/-- … and on concrete bytes (blocks of 64 bytes, a frame of 20 bytes starting 20 bytes before the
    boundary with its header-length byte zeroed, a frame on the boundary): as found the reader hands
    out the header of the frame on the boundary as if nothing had been there, repaired it reports
    an error -/
theorem d11_as_found_vs_repaired :
    Blue.Damage.nextHeaderAsFound Blue.Damage.toyParams Blue.Damage.toyZeroed 2 44 = .ok (⟨0, 1, 0⟩, 66)
    ∧ Blue.Log.nextHeader Blue.Damage.toyParams Blue.Damage.toyZeroed 2 44 = .err :=
  Blue.Damage.d11_as_found_vs_repaired

/-! ## manifest -/
open Blue.Mani in
/-- a MANIFEST cut at any byte reads as a corruption error or as a prefix of whole edits
    (`NoCollision`: no proper prefix of a written line carries that line's CRC) -/
theorem torn_manifest (crc : List Nat → Nat) (hcrc : CrcOk crc) (es : List Edit) (hok : ∀ e ∈ es, e.Ok)
    (hnc : ∀ l ∈ linesOf es, l.NoCollision crc) (m f : Nat) :
    (readEdits crc (f + 2 + (linesOf es).length) ((es.flatMap (encodeEdit crc)).take m) Edit.empty).2 = true
    ∨ ∃ c, readEdits crc (f + 2 + (linesOf es).length) ((es.flatMap (encodeEdit crc)).take m) Edit.empty
        = (es.take c, false) :=
  Blue.Mani.torn_manifest crc hcrc es hok hnc m f

open Blue.Mani in
/-- **mani_line_guarded**: an item line that is accepted carried the CRC of its own text (the
    separator line carries none) -/
theorem mani_line_guarded (crc : List Nat → Nat) (line : List Nat) (h : parseLine crc line ≠ .corrupt)
    (hs : parseLine crc line ≠ .sep) :
    ∃ expected, parseHex8 (line.take 8) = some expected ∧ crc (line.drop 8) = expected :=
  Blue.Damage.item_line_guarded crc line h hs

/-! ## non-vacuity of the hypotheses -/

/-- `Refines`, same entries, same length: satisfied by a table and itself -/
example (crc : List Nat → Nat) (t : Opened) : Refines (t.loadIdx crc) (t.loadIdx crc) := fun _ _ h => h

/-- `final_block_cases` with `f' = f`: the hypotheses on the first `a` bytes hold trivially -/
example (f : List Nat) : ∀ i, i < f.length → f[i]? = f[i]? := fun _ _ => rfl

/-- `Good` and `BigTag` of `zeroed_header_length_detected` hold for the real log's parameters -/
example (crc : List Nat → Nat) (hcrc : ∀ l, crc l < 4294967296) :
    Blue.Log.Good (Blue.Log.realParams crc) ∧ Blue.Log.BigTag (Blue.Log.realParams crc) :=
  ⟨Blue.Log.good_real crc hcrc, Blue.Log.bigTag_real crc⟩

/-- `zero_length_then_nonzero_is_error`: blocks of 64 bytes, a zero length byte 20 bytes before the
    boundary, a non-zero byte after it -/
example : Blue.Log.nextHeader ⟨64, 19, 100, fun _ => [], fun _ => none, fun _ => 0⟩
    (List.replicate 44 7 ++ [0, 9]) 1 44 = .err :=
  Blue.Damage.zero_length_then_nonzero_is_error _ _ 0 44 45 9 (by decide) (by decide) (by decide) (by decide)
    (by decide)

/-- a flip below `a` is `Below a` -/
example : (Blue.Damage.Dmg.flip 10 0).Below 197 := by show 10 < 197; decide

end Blue.Props.C09

#print axioms Blue.Props.C09.constants_from_source
#print axioms Blue.Props.C09.sst_reads_are_guarded
#print axioms Blue.Props.C09.open_guarded
#print axioms Blue.Props.C09.block_load_is_checked
#print axioms Blue.Props.C09.open_sizes_bounded
#print axioms Blue.Props.C09.block_damage_detected
#print axioms Blue.Props.C09.refines_of_no_collision
#print axioms Blue.Props.C09.sst_single_burst
#print axioms Blue.Props.C09.data_block_damage_opens
#print axioms Blue.Props.C09.final_block_cases
#print axioms Blue.Props.C09.meta_only_reads
#print axioms Blue.Props.C09.final_block_metadata_not_detected
#print axioms Blue.Props.C09.data_block_flip_is_detected
#print axioms Blue.Props.C09.sealed_bytes_decode
#print axioms Blue.Props.C09.sst_open_total
#print axioms Blue.Props.C09.reads_agree_before_damage
#print axioms Blue.Props.C09.crc_mismatch_is_error
#print axioms Blue.Props.C09.truncated_log_prefix
#print axioms Blue.Props.C09.readSome_take_prefix
#print axioms Blue.Props.C09.zero_length_is_checked_padding
#print axioms Blue.Props.C09.zero_length_then_nonzero_is_error
#print axioms Blue.Props.C09.zeroed_header_length_detected
#print axioms Blue.Props.C09.zeroed_header_length_replay_fails
#print axioms Blue.Props.C09.zero_length_is_padding_as_found
#print axioms Blue.Props.C09.d11_as_found_vs_repaired
#print axioms Blue.Props.C09.torn_manifest
#print axioms Blue.Props.C09.mani_line_guarded
