import Blue.Proofs.LogCrash
import Blue.Proofs.LogTrunc
import Blue.Proofs.FlushCrash
import Blue.Proofs.StoreCrash
import Blue.Proofs.FsyncCore
/-! Property C02: the theorems the check builds and audits (spike inventory; the build phase
    completes the list from DESIGN Appendix C.0). -/
#print axioms Blue.LogCrash.crash_prefix
#print axioms Blue.FlushCrash.crash_recover_B
#print axioms Blue.FlushCrash.crash_recover_A
#print axioms Blue.StoreCrash.crash_recover
#print axioms Blue.StoreCrash.crash_recover_init
#print axioms Blue.StoreCrash.tx_block
#print axioms Blue.FsyncCore.answered_true_is_durable
#print axioms Blue.StoreCrash.trash_inputs_early_breaks_reopen
#print axioms Blue.FlushCrash.trash_before_manifest_loses
#print axioms Blue.FlushCrash.unsynced_sst_breaks_reopen
